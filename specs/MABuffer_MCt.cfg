SPECIFICATION Spec
CONSTANTS
  Caps = {1,2,3,4,5,6}
  MaxAdded = 16
  MaxW = 7
INVARIANT LenOK
INVARIANT ContentsOK
INVARIANT FifoOK
PROPERTY SampleSound
CONSTRAINT Bound
VIEW core
CHECK_DEADLOCK FALSE
