SPECIFICATION Spec
CONSTANTS
  NSlots = 1
  NFiles = 0
  MaxDim = 3
  Lams <- MCLams
  ValsLo <- MCLo
  ValsHi <- MCHi
  Kinds = {"arch", "param"}
  MaxDec = 4
  MaxDecHi = 4
  MaxOps = 100
INVARIANT GramDef
INVARIANT IsInverse
INVARIANT Symmetric
INVARIANT PosDef
INVARIANT BonusNonNeg
INVARIANT DimFollowsLayer
INVARIANT LowestTerms
PROPERTY Ownership
PROPERTY InitScale
CONSTRAINT Bound
VIEW core
CHECK_DEADLOCK FALSE
