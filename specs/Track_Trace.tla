------------------------------- MODULE Track_Trace -------------------------------
(* Trace validation of life-cycle executions of the real value-based learners against Track.tla    *)
(* (C08, target tracking).                                                                         *)
(* cfg = [algo, pf, tau, NSlots, targets (names of the online->target pairs)]                      *)
(* Events (one per operation executed on real agents; slots are 1-based):                          *)
(*   create a | learn a | clone a c | mutate a (k = kind) | save a f | loadnew f c | loadinto f a  *)
(*   lc   the agent's own learn counter after the operation (-1: the learner keeps none)           *)
(*   cls  learn events: per target network the class of the relation between target_after,         *)
(*        online_after and target_before, computed by the harness over every weight tensor with    *)
(*        relative tolerance 1e-5:                                                                 *)
(*          "lerp"  target_after = tau*online_after + (1-tau)*target_before                        *)
(*          "noop"  target_after = target_before       "copy"  target_after = online_after         *)
(*          "same"  online_after = target_before (the three coincide; nothing to decide)           *)
(*          "other" none of them, tensors of one network in different classes, or no such tensor   *)
EXTENDS Track, Json, IOUtils, TLCExt
CONSTANT Diag
Traces == JsonDeserialize(IOEnv.TRACE_FILE)
VARIABLES tid, l
tvars == <<vars, tid, l>>
T  == Traces[tid]
Ev == T.ev[l]
Check(name, c) == IF c THEN TRUE ELSE (Diag /\ PrintT(<<"FAILCLAUSE", tid, l, name>>) /\ FALSE)

TInit == tid \in 1..Len(Traces) /\ l = 1 /\ Init

Is(op) == l <= Len(T.ev) /\ Ev.op = op
Ok     == Check("Raises: the operation returns without raising", Ev.exc = "")
Adv    == l' = l + 1 /\ UNCHANGED tid
\* the counter the agent itself carries after a life-cycle operation (the protocol's own value if it keeps none)
Ctr(dflt) == IF Ev.lc >= 0 THEN Ev.lc ELSE dflt

TCreate   == Is("create") /\ Ok /\ Create(Ev.a) /\ Adv
TClone    == Is("clone") /\ Ok /\ CloneN(Ev.a, Ev.c, Ctr(lc[Ev.a])) /\ Adv
TMutate   == Is("mutate") /\ Ok /\ MutateN(Ev.a, Ctr(lc[Ev.a])) /\ Adv
TSave     == Is("save") /\ Ok /\ Save(Ev.a, Ev.f) /\ Adv
TLoadNew  == Is("loadnew") /\ Ok /\ ~alive[Ev.c] /\ LoadN(Ev.f, Ev.c, Ctr(saved[Ev.f].lc)) /\ Adv
TLoadInto == Is("loadinto") /\ Ok /\ alive[Ev.a] /\ LoadN(Ev.f, Ev.a, Ctr(saved[Ev.f].lc)) /\ Adv

TLearn ==
  /\ Is("learn") /\ Ok
  /\ Learn(Ev.a)
  /\ Check("Targets: every online network with a target is classified", Len(Ev.cls) = Len(T.cfg.targets) /\ Len(Ev.cls) > 0)
  /\ Check("Lerp: at a policy step every target network = tau * online + (1 - tau) * its previous weights",
           exp'[Ev.a] = "lerp" => \A t \in 1..Len(Ev.cls) : Ev.cls[t] \in {"lerp", "same"})
  /\ Check("Delayed: between policy steps the target networks keep their weights",
           exp'[Ev.a] = "noop" => \A t \in 1..Len(Ev.cls) : Ev.cls[t] \in {"noop", "same"})
  /\ Check("LossOnly: the step is the one an exact copy of the learner with cleared gradient buffers takes on the same batch", Ev.fresh_same)
  /\ Adv

TAccept == /\ l = Len(T.ev) + 1 /\ PrintT(<<"ACCEPT", tid>>) /\ l' = l + 1 /\ UNCHANGED <<vars, tid>>
TNext == TCreate \/ TClone \/ TMutate \/ TSave \/ TLoadNew \/ TLoadInto \/ TLearn \/ TAccept
TSpec == TInit /\ [][TNext]_tvars
================================================================================
