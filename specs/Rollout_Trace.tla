----------------------------- MODULE Rollout_Trace -----------------------------
(* Trace validation of rollouts collected by the REAL train_on_policy (PPO) / train_multi_agent_on_policy     *)
(* (IPPO) on scripted vector environments (vfw/drive/rollout.py) against Rollout.tla.                          *)
(*   reset  ep[e][a]                                    episode numbers of the observations env.reset() returned *)
(*   step   term[e][a], trunc[e][a], ep[e][a], k[e][a]  what the vector environment's step returned             *)
(*   learn  dones[t][e][a], nd[e][a], sid[t][e][a], nid[e][a], exc     what learn() received                     *)
(*          PPO: lp_ok[t][e][a], val_ok[t][e][a], reeval_exc  (stored rows re-evaluated before learn)           *)
(*   crash  an exception escaped the training function                                                        *)
(* The environment side of the specification is driven by the recorded terminations / truncations (and its    *)
(* same-step auto-reset rule is compared with the recorded observations); the flags, states and next_state    *)
(* that learn() received are compared with the loop side.  Clause names: "<slug>: <text>".                     *)
(* cfg.mode = "auto": vectorised environment; "loop": one plain ParallelEnv that the loop resets itself inside *)
(* the rollout (a reset event while the environment is finished is the loop's reset, LoopResetTo).             *)
EXTENDS Rollout, Json, IOUtils, TLCExt
CONSTANT Diag
Traces == JsonDeserialize(IOEnv.TRACE_FILE)
VARIABLES tid, l,
          hist            \* Seq([Cols -> <<term, trunc>>]) what the environment reported in the running rollout
tvars == <<vars, tid, l, hist>>
T  == Traces[tid]
Ev == T.ev[l]
Check(name, c) == IF c THEN TRUE ELSE (Diag /\ PrintT(<<"FAILCLAUSE", tid, l, name>>) /\ FALSE)

TInit == /\ tid \in 1..Len(Traces) /\ l = 1 /\ hist = <<>>
         /\ InitWith(1..T.cfg.E, 1..T.cfg.A, T.cfg.mode)

At(m, c) == m[c[1]][c[2]]          \* [e][a] matrices of the trace

TReset ==
  /\ Ev.op = "reset"
  /\ Check("harness-reset-obs: env.reset() returns the first observations of one fresh episode per environment",
           \A e \in Envs : \A a \in Agents : Ev.ep[e][a] = Ev.ep[e][1] /\ Ev.ep[e][a] > ep[e])
  /\ IF Settled
     THEN \* the reset at the start of an agent's turn
          /\ Check("reset-inside-rollout: an environment whose episode is running is reset only between rollouts", dones = <<>>)
          /\ ResetTo([e \in Envs |-> Ev.ep[e][1]])
          /\ hist' = <<>>
     ELSE \* "loop" mode: the loop resets the finished environment inside the rollout
          /\ LoopResetTo([e \in Envs |-> Ev.ep[e][1]])
          /\ hist' = hist

TStep ==
  /\ Ev.op = "step"
  /\ LET o == [c \in Cols |-> <<At(Ev.term, c) = 1, At(Ev.trunc, c) = 1>>] IN
     /\ Check("harness-ends-together: all agents of a scripted environment end their episode in the same step",
              \A e \in Envs : (\A a \in Agents : Ended(o[<<e, a>>])) \/ (\A a \in Agents : ~Ended(o[<<e, a>>])))
     /\ Check("loop-reset-missing: the loop resets a finished plain environment before it steps it again", Settled)
     /\ StepWith(o)
     /\ IF mode = "auto"
        THEN Check("env-same-step-autoreset: the observation returned by a step is the next one of the running episode, or the first one of the next episode exactly when the step ended the episode",
                   \A c \in Cols : obs'[c] = <<At(Ev.ep, c), At(Ev.k, c)>>)
        ELSE Check("harness-plain-env-obs: a plain environment returns the next observation of the running episode (also at its end)",
                   \A c \in Cols : obs'[c] = <<At(Ev.ep, c), At(Ev.k, c)>>)
     /\ hist' = Append(hist, o)

\* the clauses on what learn() received.  D[t] = received flags row t, ND = received next_done
Min2(a, b) == IF a < b THEN a ELSE b
TLearn ==
  /\ Ev.op = "learn"
  /\ LET D   == Ev.dones
         ND  == Ev.nd
         SID == Ev.sid
         NID == Ev.nid
         m   == Len(D)
         RF(t, c) == IF t <= m THEN At(D[t], c) ELSE At(ND, c)                       \* received d_t, t in 1..m+1
         RO(t, c) == IF t <= m THEN At(SID[t], c) ELSE At(NID, c)                    \* received observation ids
         RW(t, c) == { u \in t..(m + 1) : \A j \in (t + 1)..u : RF(j, c) = 0 }       \* window of step t cut at the received flags
     IN
     /\ Check("loop-reset-missing: the loop resets a finished plain environment before it hands the rollout to learn()", Settled)
     /\ Check("rows: learn() receives one row of flags and one row of states per environment step of the rollout",
              m = n /\ Len(SID) = n /\ n >= 1)
     /\ Check("flag-after-truncation: d[t+1] = 1 where the environment truncated the episode (time limit, no termination) at step t",
              \A c \in Cols : \A t \in 1..(n - 1) : hist[t][c] = <<FALSE, TRUE>> => RF(t + 1, c) = 1)
     /\ Check("flag-after-termination: d[t+1] = 1 where the environment terminated the episode at step t",
              \A c \in Cols : \A t \in 1..(n - 1) : hist[t][c][1] => RF(t + 1, c) = 1)
     /\ Check("flag-only-at-episode-end: d[t+1] = 0 where the episode continues after step t",
              \A c \in Cols : \A t \in 1..(n - 1) : ~Ended(hist[t][c]) => RF(t + 1, c) = 0)
     /\ Check("next_done-after-truncation: next_done = 1 where the last step of the rollout truncated the episode (time limit, no termination)",
              \A c \in Cols : hist[n][c] = <<FALSE, TRUE>> => RF(n + 1, c) = 1)
     /\ Check("next_done-after-termination: next_done = 1 where the last step of the rollout terminated the episode",
              \A c \in Cols : hist[n][c][1] => RF(n + 1, c) = 1)
     /\ Check("next_done-only-at-episode-end: next_done = 0 where the episode continues after the last step of the rollout",
              \A c \in Cols : ~Ended(hist[n][c]) => RF(n + 1, c) = 0)
     /\ Check("states: states[t] is the observation the environment returned before step t",
              \A c \in Cols : \A t \in 1..n : RO(t, c) = sobs[t][c])
     /\ Check("bootstrap-observation: next_state is the observation returned by the last step of the rollout",
              \A c \in Cols : RO(n + 1, c) = nxt[c])
     \* the same two statements as the invariants, on the received data alone (episode numbers read from the received observations)
     /\ Check("received-flags-mark-episode-starts: d[t] = 1 exactly where the episode number of the received observations changes",
              \A c \in Cols : /\ \A t \in 2..m : (RF(t, c) = 1) <=> (RO(t, c)[1] # RO(t - 1, c)[1])
                               \* next_done: in "loop" mode next_state is the terminal observation when next_done = 1
                               /\ (RF(m + 1, c) = 0 => RO(m + 1, c)[1] = RO(m, c)[1])
                               /\ ((RF(m + 1, c) = 1 /\ mode = "auto") => RO(m + 1, c)[1] # RO(m, c)[1]))
     /\ Check("received-no-leak: cut at the received flags, no window of the recursion spans two episode numbers",
              \A c \in Cols : \A t \in 1..m : \A u \in RW(t, c) : RO(u, c)[1] = RO(t, c)[1])
     \* C17, last sentence, at the loop: rows re-evaluated with the unchanged policy before learn() (single-agent loop only)
     /\ ("lp_ok" \in DOMAIN Ev) =>
          /\ Check("reevaluation-runs: evaluate_actions on the stored rows returns without raising", Ev.reeval_exc = "")
          /\ Check("stored-action-is-sampled-action: the action handed to learn() is the one the stored log-probability was computed for (re-evaluating the stored observation/action rows with the unchanged policy reproduces the stored log-probabilities)",
                   Len(Ev.lp_ok) = m /\ \A c \in Cols : \A t \in 1..m : At(Ev.lp_ok[t], c) = 1)
          /\ Check("stored-value-is-value-of-stored-observation: re-evaluating the stored observations with the unchanged critic reproduces the stored values",
                   Len(Ev.val_ok) = m /\ \A c \in Cols : \A t \in 1..m : At(Ev.val_ok[t], c) = 1)
     /\ Check("learn-returns: learn() returns without raising", Ev.exc = "")
     \* the received flags are the specification's flags wherever the recursion reads them (row 1 is never read)
     /\ Check("flags-are-spec-flags: received flags rows 2..T and next_done equal the specification's",
              \A c \in Cols : \A t \in 2..(n + 1) : RF(t, c) = FlagAt(t)[c])
  /\ Learn
  /\ hist' = <<>>

TCrash ==
  /\ Ev.op = "crash"
  /\ Check("crash: the training function runs to completion", FALSE)
  /\ UNCHANGED <<vars, hist>>

TAccept == /\ l = Len(T.ev) + 1 /\ PrintT(<<"ACCEPT", tid>>) /\ l' = l + 1 /\ UNCHANGED <<vars, tid, hist>>
TNext == \/ (l <= Len(T.ev) /\ (TReset \/ TStep \/ TLearn \/ TCrash) /\ l' = l + 1 /\ UNCHANGED tid)
         \/ TAccept
TSpec == TInit /\ [][TNext]_tvars
================================================================================
