------------------------------- MODULE Bellman_MC -------------------------------
(* Input grids for the exhaustive check of Bellman.tla (property C08) and the dump of every  *)
(* case with the targets / loss the specification demands.                                   *)
(* |S| = 2, |A| = 2, B = 2 rows, r in {-1, 0, 1}, d in {0, 1}, gamma in {0, 1/2, 1}: every    *)
(* batch; the value tables (units 1/2) are fixed tuples chosen so that the learners are       *)
(* pairwise distinguishable: argmax q1 # argmax t1 in some state (max vs double vs online     *)
(* bootstrap), t1 and t2 cross (min is neither of them), mu is not the greedy action.         *)
EXTENDS Bellman, Json

T(id, q1, q2, t1, t2, mu) == [id |-> id, q1 |-> q1, q2 |-> q2, t1 |-> t1, t2 |-> t2, mu |-> mu]
MCTables == <<
  T(1, <<<<2, 4>>, <<1, -2>>>>,  <<<<-1, 3>>, <<5, 0>>>>,  <<<<6, 0>>, <<3, -4>>>>,  <<<<1, 2>>, <<-3, 7>>>>,  <<2, 1>>),
  T(2, <<<<-3, 1>>, <<0, 2>>>>,  <<<<2, -2>>, <<1, 3>>>>,  <<<<-1, -5>>, <<4, 2>>>>, <<<<-2, 5>>, <<6, -1>>>>, <<1, 2>>),
  T(3, <<<<0, -1>>, <<3, 5>>>>,  <<<<4, 1>>, <<-2, -3>>>>, <<<<-6, 1>>, <<7, 2>>>>,  <<<<0, 3>>, <<5, 5>>>>,   <<1, 1>>) >>

Sh(md, tb) == [mode |-> md, NS |-> 2, NA |-> 2, B |-> 2, tab |-> tb, rews |-> {-1, 0, 1}]
MCShapes  == { Sh(md, MCTables[i]) : md \in Modes, i \in 1..3 }
MCShapesQ == { Sh(md, MCTables[i]) : md \in Modes, i \in 1..2 }
\* three rows (thorough tier): one table set per mode
MCShapes3 == { [mode |-> md, NS |-> 2, NA |-> 2, B |-> 3, tab |-> MCTables[1], rews |-> {-1, 1}] : md \in Modes }

ASSUME PrintT(<<"TABLES", ToJson(MCTables)>>)

\* negative controls (the invariants are not vacuous): a learner that forgets the (1 - done) factor violates DoneMasks /
\* TerminalIsReward, one that bootstraps from the online table violates Bootstraps
TargetNoMask ==
  /\ phase = "target"
  /\ y' = [i \in 1..B |-> 4 * batch[i].r + g2 * V2(batch[i].s2)]
  /\ phase' = "loss" /\ act' = [op |-> "target"]
  /\ UNCHANGED <<Fixed, acc, k>>
NextNoMask == TargetNoMask \/ AccRow \/ Finish
TargetOnline ==
  /\ phase = "target"
  /\ y' = [i \in 1..B |-> 4 * batch[i].r + g2 * V2In(mode, [tab EXCEPT !.t1 = tab.q1, !.t2 = tab.q2], batch[i].s2) * (1 - batch[i].d)]
  /\ phase' = "loss" /\ act' = [op |-> "target"]
  /\ UNCHANGED <<Fixed, acc, k>>
NextOnline == TargetOnline \/ AccRow \/ Finish

\* M2: one line per case with the result the specification demands
DumpCase == phase = "done" =>
  PrintT(<<"CASE", ToJson([mode |-> mode, g2 |-> g2, tid |-> tab.id, rows |-> batch, y |-> y, acc |-> acc])>>)
================================================================================
