------------------------------- MODULE BanditEnv -------------------------------
(* X03 -- agilerl.wrappers.learning.BanditEnv (a labelled dataset turned into a     *)
(* contextual-bandit environment) and the pass-through of the Skill wrapper.         *)
(*                                                                                    *)
(* A dataset is a sequence of rows [x |-> feature vector (integers), y |-> label].   *)
(* Labels are of any one type (strings, or arbitrary integers); the environment      *)
(* factorises them to 0..Arms-1 in order of first appearance (pd.factorize).         *)
(* Several environment objects (Envs) live over the same dataset; each one may be    *)
(* used bare ("none"), behind Skill ("plain": skill_reward not overridden) or        *)
(* behind a subclass of Skill overriding skill_reward ("override": reward -> 10r+5,  *)
(* terminated -> TRUE).                                                               *)
(*                                                                                    *)
(* Clauses (invariants / action property below):                                      *)
(*   LabelFactorised  codes are 0..Arms-1, equal labels <=> equal codes, numbered by  *)
(*                    first appearance (whatever the type / order of the labels)      *)
(*   ShapeOK          the returned state is an Arms x (D*Arms) matrix                 *)
(*   EncodingOK       the returned state is the disjoint-arm encoding of SOME dataset *)
(*                    row: block i of matrix row i carries the features, rest zeros,  *)
(*                    every arm's block carries the same dataset row                  *)
(*   RewardOK         step(k) returns 1 iff k is the code of the label of the row     *)
(*                    shown by the PREVIOUS reset/step of that object (0 for every k  *)
(*                    before the first reset), else 0                                 *)
(*   RewardBinary     the environment's reward is 0 or 1                              *)
(*   SkillPass        through Skill the result of step is the environment's own;      *)
(*                    through an overriding subclass it is what skill_reward returns  *)
(*   Independent      an operation on one object never changes which row another      *)
(*                    object is showing (no shared prev_reward)                       *)
(* Which row is shown next is the environment's free (random) choice.                 *)
EXTENDS Integers, Sequences, FiniteSets, TLC

CONSTANTS Datasets,   \* set of datasets the model checker starts from
          Envs,       \* environment object ids
          Wraps,      \* set of functions Envs -> {"none", "plain", "override"}
          MaxOps,     \* bound on the number of operations (model checking only)
          Variant     \* "prev" = the code; negative controls: "new" (reward from the newly shown row), "shared" (one prev_reward for all objects)

VARIABLES ds,      \* the dataset
          wrap,    \* how each object is wrapped
          shown,   \* shown[e] = index of the row object e currently shows (0: none yet; prev_reward = zeros)
          out,     \* what the last operation returned (+ ghost fields k, before)
          nops
vars == <<ds, wrap, shown, out, nops>>

N      == Len(ds)
Rows   == 1..N
D      == Len(ds[1].x)                                    \* len(features.loc[0])
Lab(i) == ds[i].y
Arms   == Cardinality({Lab(i) : i \in Rows})              \* targets.nunique()

(* pd.factorize as the table-building loop it is: the table of uniques in order of first appearance *)
RECURSIVE Uniques(_)
Uniques(n) == IF n = 0 THEN <<>>
              ELSE LET u == Uniques(n - 1) IN IF \E j \in 1..Len(u) : u[j] = Lab(n) THEN u ELSE Append(u, Lab(n))
Code(i) == LET u == Uniques(N) IN (CHOOSE j \in 1..Len(u) : u[j] = Lab(i)) - 1

(* _new_state_and_target_action: zeros(Arms, D*Arms), then for arm i the slice [i*D, (i+1)*D) of row i := context *)
Zeros(A) == [i \in 1..A |-> [c \in 1..(D * A) |-> 0]]
RECURSIVE EncUpto(_, _, _)
EncUpto(x, A, n) == IF n = 0 THEN Zeros(A)
                    ELSE LET m == EncUpto(x, A, n - 1)
                         IN [m EXCEPT ![n] = [c \in 1..(D * A) |-> IF c > (n - 1) * D /\ c <= n * D THEN x[c - (n - 1) * D] ELSE m[n][c]]]
Enc(r) == EncUpto(ds[r].x, Arms, Arms)

SkillReward(w, b) == IF w = "override" THEN 10 * b + 5 ELSE b
SkillTerm(w)      == w = "override"

NoOut == [op |-> "init", env |-> 0, k |-> 0, base |-> 0, reward |-> 0, term |-> FALSE, state |-> <<>>, before |-> 0]

InitWith(d, w) == /\ ds = d /\ wrap = w /\ shown = [e \in Envs |-> 0] /\ out = NoOut /\ nops = 0
Init == \E d \in Datasets, w \in Wraps : InitWith(d, w)

Show(e, r) == IF Variant = "shared" THEN [f \in Envs |-> r] ELSE [shown EXCEPT ![e] = r]

\* reset(): a row r is shown; prev_reward := one-hot of its code
ResetTo(e, r) ==
  /\ shown' = Show(e, r)
  /\ out' = [op |-> "reset", env |-> e, k |-> 0, base |-> 0, reward |-> 0, term |-> FALSE, state |-> Enc(r), before |-> shown[e]]
  /\ nops' = nops + 1
  /\ UNCHANGED <<ds, wrap>>

\* step(k): reward = prev_reward[k] (of the row shown so far), then a row r is shown
StepTo(e, k, r) ==
  LET judged == IF Variant = "new" THEN r ELSE shown[e]
      b      == IF judged # 0 /\ Code(judged) = k THEN 1 ELSE 0
  IN /\ shown' = Show(e, r)
     /\ out' = [op |-> "step", env |-> e, k |-> k, base |-> b, reward |-> SkillReward(wrap[e], b), term |-> SkillTerm(wrap[e]),
                state |-> Enc(r), before |-> shown[e]]
     /\ nops' = nops + 1
     /\ UNCHANGED <<ds, wrap>>

Reset(e)   == \E r \in Rows : ResetTo(e, r)
Step(e, k) == \E r \in Rows : StepTo(e, k, r)
ResetAny == nops < MaxOps /\ \E e \in Envs : Reset(e)
StepAny  == nops < MaxOps /\ \E e \in Envs : \E k \in 0..(Arms - 1) : Step(e, k)
Next == ResetAny \/ StepAny
Spec == Init /\ [][Next]_vars

-----------------------------------------------------------------------------
First(i) == \A j \in 1..(i - 1) : Lab(j) # Lab(i)
LabelFactorised ==
  /\ \A i \in Rows : Code(i) \in 0..(Arms - 1)
  /\ {Code(i) : i \in Rows} = 0..(Arms - 1)
  /\ \A i, j \in Rows : (Code(i) = Code(j)) <=> (Lab(i) = Lab(j))
  /\ \A i, j \in Rows : (i < j /\ First(i) /\ First(j)) => Code(i) < Code(j)

Returned == out.op \in {"reset", "step"}
ShapeOK  == Returned => /\ Len(out.state) = Arms /\ \A i \in 1..Arms : Len(out.state[i]) = D * Arms
\* the definition of the disjoint-arm encoding, independent of the loop above
Encoded(st, x, A) == /\ Len(st) = A
                     /\ \A i \in 1..A : /\ Len(st[i]) = D * A
                                        /\ \A c \in 1..(D * A) : st[i][c] = IF (i - 1) * D < c /\ c <= i * D THEN x[c - (i - 1) * D] ELSE 0
EncodingOK   == Returned => /\ \E r \in Rows : Encoded(out.state, ds[r].x, Arms)
                            /\ Encoded(out.state, ds[shown[out.env]].x, Arms)
RewardBinary == out.base \in {0, 1}
RewardOK     == /\ out.op = "step" => out.base = (IF out.before # 0 /\ Code(out.before) = out.k THEN 1 ELSE 0)
                /\ out.op = "reset" => out.base = 0
SkillPass    == out.op = "step" =>
                  /\ wrap[out.env] \in {"none", "plain"} => (out.reward = out.base /\ ~out.term)
                  /\ wrap[out.env] = "override" => (out.reward = 10 * out.base + 5 /\ out.term)
Independent  == [][\A e \in Envs : out'.env # e => shown'[e] = shown[e]]_vars
================================================================================
