SPECIFICATION MCSpec
CONSTANTS
  Shape <- MCShapeDQN
  NSlots = 3
  MaxOps = 5
  NBatches = 2
  NFiles = 1
INVARIANT NoSharing
INVARIANT AllCoherent
INVARIANT DistinctIdx
INVARIANT Functional
INVARIANT ActFunctional
PROPERTY Frame
CONSTRAINT Bound
CHECK_DEADLOCK FALSE
