------------------------------ MODULE EvoSelect_MC ------------------------------
EXTENDS EvoSelect
MCScores == {-1, 0, 2}
MCScores2 == {-1, 1}

(* Round 4 (coverage audit): repeated selection with re-evaluation in between, populations whose indices are sparse   *)
(* and not in list order (sorted by fitness, merged from two runs), and generations handed on in reversed order.      *)
MCIdxPool == {0, 1, 3}
MCIdxPool2 == {0, 3}
InitU == /\ \E m \in 1..MaxPop : \E f \in [1..m -> Hists] :
              \E ix \in {g \in [1..m -> MCIdxPool] : \A a, b \in 1..m : a # b => g[a] # g[b]} :
                 pop = [i \in 1..m |-> [idx |-> ix[i], fit |-> f[i]]]
         /\ par \in [k : Ks, n : 1..MaxN, elitism : BOOLEAN, W : Ws]
         /\ elite = [parent |-> 0, idx |-> 0] /\ prev = <<>> /\ lastsel = <<>> /\ gen = 0 /\ act = "init"
MCReverse == /\ act = "eval" /\ Len(pop) > 1
             /\ pop' = [j \in 1..Len(pop) |-> pop[Len(pop) + 1 - j]]
             /\ UNCHANGED <<par, elite, prev, lastsel, gen>> /\ act' = "rev"
NextU == MCSelect \/ (MaxGen > 1 /\ (MCEval \/ MCReverse))
SpecU == InitU /\ [][NextU]_vars
\* over the generations no index is ever handed out twice: a fresh index is larger than every index of the old population
FreshAbove == act = "select" => \A j \in 1..Len(pop) : (par.elitism /\ j = 1) \/ \A i \in 1..Len(prev) : pop[j].idx > prev[i].idx
================================================================================
