SPECIFICATION Spec
CONSTANTS
  NSlots = 2
  NFiles = 1
  MaxDim = 2
  Lams <- MCLamsHet
  ValsLo <- MCBin
  ValsHi <- MCBin
  Kinds = {"arch", "param", "hp"}
  MaxDec = 1
  MaxDecHi = 1
  MaxOps = 100
  Hetero = TRUE
INVARIANT GramDef
INVARIANT IsInverse
INVARIANT Symmetric
INVARIANT PosDef
INVARIANT BonusNonNeg
INVARIANT DimFollowsLayer
INVARIANT LowestTerms
PROPERTY Ownership
PROPERTY InitScale
INVARIANT LamPositive
PROPERTY LamStable
CONSTRAINT Bound
VIEW core
CHECK_DEADLOCK FALSE
