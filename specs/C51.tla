---------------------------------- MODULE C51 ----------------------------------
(***************************************************************************)
(* Rainbow DQN's distributional (C51) target -- property C18.              *)
(* Exact-arithmetic transcription of the projection in                     *)
(* agilerl.algorithms.dqn_rainbow.RainbowDQN._dqn_loss.                    *)
(*                                                                         *)
(* Units.  The support has N atoms z_j = vmin + j (j = 0..N-1; delta_z = 1 *)
(* -- any other delta_z is the same computation in units of delta_z).      *)
(* Rewards, the discount gamma^n and all target atoms are multiples of 1/Q *)
(* (r = rq/Q, gamma^n = gq/Q); the source distribution of a row is         *)
(* p_j = p[j]/PDen (any non-negative weights, total mass not necessarily   *)
(* 1: the real network clamps its softmax at 1e-3).  The projected         *)
(* distribution m is kept in units of 1/(Q*PDen).                          *)
(*                                                                         *)
(* Implementation shape: the code computes, for every element k = i*N + j  *)
(* of the flattened (B,N) batch,  Tz = clamp(r_i + (1-d_i) gamma z_j),     *)
(* b = (Tz - vmin)/delta, l = floor b, u = ceil b, repairs l = u by        *)
(*   L[(u > 0) * (L == u)] -= 1 ; u[(L < N-1) * (L == u)] += 1             *)
(* (in that order; action Indices) and then performs two index_add_ passes *)
(* over the flattened elements into the flattened result, with row offsets *)
(* linspace(0, (B-1)N, B).long():                                          *)
(*   m[l + off_i] += p_ij (u - b)      (first pass,  action AddLower)      *)
(*   m[u + off_i] += p_ij (b - l)      (second pass, action AddUpper)      *)
(* The property (MassConserved, MeanConserved, InRange, NonNeg) is stated  *)
(* on the result, independently of this recursion.                         *)
(*                                                                         *)
(* Supports that are not aligned with the origin (v_min not a multiple of  *)
(* delta_z: v_min = (vmin + sh/Q) delta_z) are the image of this grid under*)
(* the translation  z -> z + sh/Q,  r -> r + (sh/Q)(1 - (1-d) gamma^n):    *)
(* ShiftCovariant states that the index quantity b -- the only thing the   *)
(* projection depends on besides p -- is the same for the translated input,*)
(* so the conformance replay may (and does) run the cases on translated    *)
(* and rescaled supports with the same expected result.                    *)
(***************************************************************************)
EXTENDS Integers, Sequences, FiniteSets, TLC

CONSTANTS Shapes,   \* set of [N, vmin, B, pvals, sums, rgrid]: input grids explored by Init
          Gs,       \* discounts gamma^n explored, in units of 1/Q
          Q,        \* denominator of rewards / discounts / target atoms
          PDen,     \* denominator of source probabilities
          Shifts    \* translations of the support explored by ShiftCovariant: sh/Q (units of delta_z), sh \in Shifts

VARIABLES N, vmin, B, gq, inp,   \* the input: inp[i] = [p |-> <<p_1..p_N>>, rq |-> reward*Q, d |-> 0/1], i \in 1..B
          bq, lo, up,            \* flattened b (units 1/Q), lower and upper atom index of every element
          m,                     \* flattened projected distribution, 0..B*N-1 -> Int (units 1/(Q*PDen))
          phase, k,              \* "index", "lower" / "upper" pass with next flattened element k, "done"
          act
vars == <<N, vmin, B, gq, inp, bq, lo, up, m, phase, k, act>>
core == <<N, vmin, B, gq, inp, bq, lo, up, m, phase, k>>

RECURSIVE SumTo(_, _)
SumTo(f, n) == IF n = 0 THEN 0 ELSE f[n] + SumTo(f, n - 1)          \* f[1] + ... + f[n]

---------------------------------------------------------------------------
(* The fixed support and the definition of the target atoms                *)
Vmax       == vmin + N - 1
Z(j)       == vmin + j                                   \* atom j \in 0..N-1
Rows       == 0..(B - 1)
Atoms      == 0..(N - 1)
P(i, j)    == inp[i + 1].p[j + 1]                        \* source mass of atom j in row i (units 1/PDen)
Clip(x)    == IF x < Q * vmin THEN Q * vmin ELSE IF x > Q * Vmax THEN Q * Vmax ELSE x
\* Tz_j = clamp(r + (1 - done) * gamma^n * z_j, vmin, vmax)       (units 1/Q)
Tz(i, j)   == Clip(inp[i + 1].rq + (1 - inp[i + 1].d) * gq * Z(j))

---------------------------------------------------------------------------
(* The code's index arithmetic (vectorised over the flattened batch: one   *)
(* action, Indices, computes b, L and u for every element, then the two    *)
(* index_add_ passes run over the stored tensors)                          *)
Floor(x)   == x \div Q                                   \* \div rounds towards minus infinity
Ceil(x)    == -((-x) \div Q)
RowOf(e)   == e \div N
AtomOf(e)  == e % N
Elems      == 0..(B * N - 1)
\* <<b, L, u>> of element (i, j);  b = (Tz - vmin)/delta in units 1/Q
Idx(i, j)  ==
  LET b  == Tz(i, j) - Q * vmin
      l0 == Floor(b)
      u0 == Ceil(b)
      l1 == IF u0 > 0 /\ l0 = u0 THEN l0 - 1 ELSE l0          \* L[(u > 0) * (L == u)] -= 1
      u1 == IF l1 < N - 1 /\ l1 = u0 THEN u0 + 1 ELSE u0      \* u[(L < N-1) * (L == u)] += 1  (sees the repaired L)
  IN  <<b, l1, u1>>
\* torch.linspace(0, (B-1)*N, B).long()[i]
Offset(i)  == IF B = 1 THEN 0 ELSE (i * ((B - 1) * N)) \div (B - 1)
WLower(e)  == P(RowOf(e), AtomOf(e)) * (Q * up[e] - bq[e])    \* p (u - b)       (units 1/(Q*PDen))
WUpper(e)  == P(RowOf(e), AtomOf(e)) * (bq[e] - Q * lo[e])    \* p (b - l)
\* index_add_ on a flat tensor: an index outside 0..B*N-1 raises in the code; here the update is
\* dropped and InRange (below) is what reports it
AddAt(mm, idx, w) == IF idx \in DOMAIN mm THEN [mm EXCEPT ![idx] = @ + w] ELSE mm
StepLower(mm, e) == AddAt(mm, lo[e] + Offset(RowOf(e)), WLower(e))
StepUpper(mm, e) == AddAt(mm, up[e] + Offset(RowOf(e)), WUpper(e))

---------------------------------------------------------------------------
InitWith(n, v, b, g, rows) ==
  /\ N = n /\ vmin = v /\ B = b /\ gq = g /\ inp = rows
  /\ m = [e \in 0..(b * n - 1) |-> 0]                    \* proj_dist = torch.zeros(B, N)
  /\ bq = <<>> /\ lo = <<>> /\ up = <<>>
  /\ phase = "index" /\ k = 0
  /\ act = [op |-> "init"]

RewGrid(s) ==
  LET l == Q * s.vmin  h == Q * (s.vmin + s.N - 1) IN
  IF s.rgrid = "fine" THEN (l - Q)..(h + Q)              \* every multiple of 1/Q from one unit below to one above
  ELSE {l - Q, l, l + 1, h - (Q \div 2), h, h + Q}
PmfGrid(s) == { p \in [1..s.N -> s.pvals] : SumTo(p, s.N) \in s.sums }
RowGrid(s) == { [p |-> pp, rq |-> r, d |-> dd] : pp \in PmfGrid(s), r \in RewGrid(s), dd \in {0, 1} }

Init == \E s \in Shapes, g \in Gs : \E rows \in [1..s.B -> RowGrid(s)] :
          InitWith(s.N, s.vmin, s.B, g, rows)

Fixed == <<N, vmin, B, gq, inp>>

\* a further call of _dqn_loss on the same agent (1-step term, then n-step term of one learn();
\* used by the trace specification -- the exhaustive check starts every case from Init)
Idle(n, v, b) ==
  /\ N = n /\ vmin = v /\ B = b /\ gq = 0 /\ inp = <<>> /\ m = <<>>
  /\ bq = <<>> /\ lo = <<>> /\ up = <<>> /\ phase = "idle" /\ k = 0 /\ act = [op |-> "idle"]
Call(g, rows) ==
  /\ phase \in {"idle", "done"}
  /\ gq' = g /\ inp' = rows
  /\ m' = [e \in Elems |-> 0]
  /\ bq' = <<>> /\ lo' = <<>> /\ up' = <<>>
  /\ phase' = "index" /\ k' = 0
  /\ act' = [op |-> "call", g |-> g]
  /\ UNCHANGED <<N, vmin, B>>

Indices ==
  /\ phase = "index"
  /\ LET t == [e \in Elems |-> Idx(RowOf(e), AtomOf(e))] IN
       /\ bq' = [e \in Elems |-> t[e][1]]
       /\ lo' = [e \in Elems |-> t[e][2]]
       /\ up' = [e \in Elems |-> t[e][3]]
  /\ phase' = "lower"
  /\ act' = [op |-> "indices"]
  /\ UNCHANGED <<Fixed, m, k>>

AddLower ==
  /\ phase = "lower" /\ k < B * N
  /\ m' = StepLower(m, k)
  /\ k' = k + 1
  /\ act' = [op |-> "lower", e |-> k]
  /\ UNCHANGED <<Fixed, bq, lo, up, phase>>

NextPass ==
  /\ phase = "lower" /\ k = B * N
  /\ phase' = "upper" /\ k' = 0
  /\ act' = [op |-> "pass"]
  /\ UNCHANGED <<Fixed, bq, lo, up, m>>

AddUpper ==
  /\ phase = "upper" /\ k < B * N
  /\ m' = StepUpper(m, k)
  /\ k' = k + 1
  /\ act' = [op |-> "upper", e |-> k]
  /\ UNCHANGED <<Fixed, bq, lo, up, phase>>

Finish ==
  /\ phase = "upper" /\ k = B * N
  /\ phase' = "done"
  /\ act' = [op |-> "finish"]
  /\ UNCHANGED <<Fixed, bq, lo, up, m, k>>

Next == Indices \/ AddLower \/ NextPass \/ AddUpper \/ Finish
Spec == Init /\ [][Next]_vars

\* the two passes in one step (used by the dump configuration; RunAllSame ties it to the steps)
RECURSIVE FoldLower(_, _)
FoldLower(mm, e) == IF e = B * N THEN mm ELSE FoldLower(StepLower(mm, e), e + 1)
RECURSIVE FoldUpper(_, _)
FoldUpper(mm, e) == IF e = B * N THEN mm ELSE FoldUpper(StepUpper(mm, e), e + 1)
Projection == FoldUpper(FoldLower([e \in Elems |-> 0], 0), 0)
RunAll ==
  /\ phase = "lower" /\ k = 0
  /\ m' = Projection /\ phase' = "done" /\ k' = B * N
  /\ act' = [op |-> "all"]
  /\ UNCHANGED <<Fixed, bq, lo, up>>

---------------------------------------------------------------------------
(* The property, stated on the result                                      *)
Seg(i)      == (i * N)..(i * N + N - 1)                  \* row i of the (B,N) result, row-major
RECURSIVE SumRange(_, _, _)
SumRange(f, a, b) == IF a > b THEN 0 ELSE f[a] + SumRange(f, a + 1, b)
RowMass(i)  == SumRange(m, i * N, i * N + N - 1)
SrcMass(i)  == SumTo(inp[i + 1].p, N)
RECURSIVE RowMeanTo(_, _)
RowMeanTo(i, j) == IF j < 0 THEN 0 ELSE m[i * N + j] * Z(j) + RowMeanTo(i, j - 1)
RECURSIVE SrcMeanTo(_, _)
SrcMeanTo(i, j) == IF j < 0 THEN 0 ELSE P(i, j) * Tz(i, j) + SrcMeanTo(i, j - 1)

Computed == phase \in {"lower", "upper", "done"}
TypeOK == /\ phase \in {"idle", "index", "lower", "upper", "done"} /\ k \in 0..(B * N)
          /\ phase # "idle" => DOMAIN m = Elems
          /\ Computed => (DOMAIN bq = Elems /\ DOMAIN lo = Elems /\ DOMAIN up = Elems)

\* total mass of the projection = total mass of the source distribution, for every transition
MassConserved == phase = "done" => \A i \in Rows : RowMass(i) = Q * SrcMass(i)
\* mean of the projection = mean of clamp(r + gamma^n (1-done) z) under the source distribution
MeanConserved == phase = "done" => \A i \in Rows : RowMeanTo(i, N - 1) = SrcMeanTo(i, N - 1)
\* every index written for row i lies in row i's own segment of the flattened result
InRangeBody == \A e \in Elems : /\ lo[e] + Offset(RowOf(e)) \in Seg(RowOf(e))
                                 /\ up[e] + Offset(RowOf(e)) \in Seg(RowOf(e))
InRange == Computed => InRangeBody
\* the same statement evaluated once per call (trace validation of large batches): the passes do not
\* change the index tensors (IndicesFrozen)
InRangeOnce == (phase = "lower" /\ k = 0) => InRangeBody
IndicesFrozen == [][(phase \in {"lower", "upper"}) => (UNCHANGED <<bq, lo, up>>)]_vars
\* mass only moves to the two atoms enclosing Tz, with non-negative weights
Neighbours == Computed => \A e \in Elems : /\ up[e] = lo[e] + 1
                                           /\ Q * lo[e] <= bq[e] /\ bq[e] <= Q * up[e]
                                           /\ bq[e] = Tz(RowOf(e), AtomOf(e)) - Q * vmin
NonNeg == \A e \in DOMAIN m : m[e] >= 0
\* partial sums: what has been distributed so far is exactly the mass of the elements processed
DoneLower(e) == IF phase = "lower" THEN e < k ELSE TRUE
DoneUpper(e) == IF phase = "lower" THEN FALSE ELSE (phase = "done" \/ e < k)
RECURSIVE Handed(_)
Handed(e) == IF e < 0 THEN 0
             ELSE (IF DoneLower(e) THEN WLower(e) ELSE 0) + (IF DoneUpper(e) THEN WUpper(e) ELSE 0) + Handed(e - 1)
StepMass == Computed => SumRange(m, 0, B * N - 1) = Handed(B * N - 1)
\* Translation covariance (units 1/Q^2): support z_j + sh/Q, reward r + (sh/Q)(1 - (1-d) gamma^n)
ZS(j, sh)     == Q * (vmin + j) + sh                                               \* translated atom j      (units 1/Q)
RS(i, sh)     == Q * inp[i + 1].rq + sh * (Q - (1 - inp[i + 1].d) * gq)           \* translated reward      (units 1/Q^2)
ClipS(x, sh)  == IF x < Q * ZS(0, sh) THEN Q * ZS(0, sh) ELSE IF x > Q * ZS(N - 1, sh) THEN Q * ZS(N - 1, sh) ELSE x
TzS(i, j, sh) == ClipS(RS(i, sh) + (1 - inp[i + 1].d) * gq * ZS(j, sh), sh)       \* translated target atom (units 1/Q^2)
BS(i, j, sh)  == TzS(i, j, sh) - Q * ZS(0, sh)                                     \* (Tz - v_min)/delta_z   (units 1/Q^2)
ShiftCovariant == phase = "index" => \A sh \in Shifts : \A i \in Rows : \A j \in Atoms :
                    BS(i, j, sh) = Q * (Tz(i, j) - Q * vmin)
\* the one-step form used for dumping cases is the same function as the step-by-step passes
RunAllSame == phase = "done" => m = Projection

Bound == TRUE
================================================================================
