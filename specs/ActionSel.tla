------------------------------ MODULE ActionSel ------------------------------
(***************************************************************************)
(* Action selection (property C14): what an agent may return from          *)
(* get_action, given what its policy network computed.                     *)
(*                                                                         *)
(* One *call* of get_action is a sequence of *groups* (one group for a     *)
(* single-agent learner, one per agent for a multi-agent learner).  A      *)
(* group is the batch of one agent: the kind of its action space, whether  *)
(* the observation was given without a batch dimension, and one *row* per  *)
(* batch entry.  A row carries what the policy network put out for that    *)
(* observation and everything else the selection depends on:               *)
(*                                                                         *)
(*  kind "disc"  Discrete(n) / MultiDiscrete(nvec): sizes = component      *)
(*               sizes, q = flat value vector (only the ORDER of the       *)
(*               values matters: they are levels, mapped to floats by the  *)
(*               driver with a strictly monotone map), mask = flat 0/1     *)
(*               vector (all ones when the caller supplied no mask),       *)
(*               explore = 0 (exploration switched off) or 1               *)
(*  kind "bits"  MultiBinary(n): one logit and one mask bit per component; *)
(*               a masked component cannot be switched on                  *)
(*  kind "cont"  Box with finite per-dimension bounds lo/hi.  All numbers  *)
(*               are integers in units of 1/SC.  x = network output        *)
(*               *after* its output activation, mode = which activation    *)
(*               ("tanh": [-1,1], "sigm": [0,1], "none": unbounded),       *)
(*               noise = exploration noise added by the learner,           *)
(*               req = "exact" (deterministic learner: the value is        *)
(*               determined), "inb" (only the bounds are demanded),        *)
(*               "free" (stochastic policy in training mode: nothing       *)
(*               but the shape is demanded)                                *)
(*  envdef       <<>> or the action the environment dictates for this row  *)
(*               (multi-agent learners): it replaces the choice in exactly *)
(*               the flagged rows                                          *)
(*                                                                         *)
(* Allowed* is constructive (restrict to the mask, take the maximum over   *)
(* the legal entries, collect the ties; rescale, add noise, clip).  The    *)
(* invariants Legal / GreedyIsBestAllowed / InBounds / BatchShape /        *)
(* Override state the property's clauses directly on what was returned.    *)
(***************************************************************************)
EXTENDS Integers, Sequences, FiniteSets, TLC

CONSTANTS SC           \* continuous values are integers in units of 1/SC

VARIABLES call,        \* the call being served: Seq(group)
          res,         \* results returned so far, one per group, in order
          act

vars == <<call, res, act>>
core == <<call, res>>

OffGrid == 99999999    \* a returned continuous value that is not a multiple of 1/SC (traces only)

--------------------------------------------------------------------------------
RECURSIVE SumTo(_, _)
SumTo(s, k) == IF k = 0 THEN 0 ELSE s[k] + SumTo(s, k - 1)
Off(sizes, c) == SumTo(sizes, c - 1)                 \* flat offset of component c
MaxS(S) == CHOOSE x \in S : \A y \in S : y <= x
MaxSize(sizes) == MaxS({sizes[c] : c \in DOMAIN sizes})

Flagged(r) == r.envdef # <<>>

(* ---- discrete ---------------------------------------------------------- *)
QAt(g, r, c, j)   == r.q[Off(g.sizes, c) + j + 1]
MAt(g, r, c, j)   == r.mask[Off(g.sizes, c) + j + 1]
LegalIn(g, r, c)  == {j \in 0..(g.sizes[c] - 1) : MAt(g, r, c, j) = 1}
BestIn(g, r, c)   == LET L == LegalIn(g, r, c)
                         m == MaxS({QAt(g, r, c, j) : j \in L})
                     IN {j \in L : QAt(g, r, c, j) = m}
AllowedComp(g, r, c) == IF r.explore = 1 THEN LegalIn(g, r, c) ELSE BestIn(g, r, c)
DiscRowOK(g, r, a) ==
  IF Flagged(r) THEN a = r.envdef
  ELSE /\ Len(a) = Len(g.sizes)
       /\ \A c \in DOMAIN g.sizes : a[c] \in AllowedComp(g, r, c)
AllowedDiscRow(g, r) ==
  IF Flagged(r) THEN {r.envdef}
  ELSE {a \in [DOMAIN g.sizes -> 0..(MaxSize(g.sizes) - 1)] : \A c \in DOMAIN g.sizes : a[c] \in AllowedComp(g, r, c)}

(* ---- MultiBinary ------------------------------------------------------- *)
BitOK(r, i, b) == /\ b \in {0, 1}
                  /\ r.mask[i] = 0 => b = 0
                  /\ (r.explore = 0 /\ r.mask[i] = 1 /\ r.q[i] > 0) => b = 1
                  /\ (r.explore = 0 /\ r.q[i] < 0) => b = 0
BitsRowOK(g, r, a) ==
  IF Flagged(r) THEN a = r.envdef
  ELSE Len(a) = g.sizes[1] /\ \A i \in 1..g.sizes[1] : BitOK(r, i, a[i])
AllowedBitsRow(g, r) ==
  IF Flagged(r) THEN {r.envdef}
  ELSE {a \in [1..g.sizes[1] -> {0, 1}] : \A i \in 1..g.sizes[1] : BitOK(r, i, a[i])}

(* ---- continuous -------------------------------------------------------- *)
Dims(g) == 1..Len(g.lo)
Resc(g, r, d) ==
  CASE g.mode = "tanh" -> g.lo[d] + ((g.hi[d] - g.lo[d]) * (r.x[d] + SC)) \div (2 * SC)
    [] g.mode = "sigm" -> g.lo[d] + ((g.hi[d] - g.lo[d]) * r.x[d]) \div SC
    [] OTHER           -> r.x[d]
Clip(v, l, h) == IF v < l THEN l ELSE IF v > h THEN h ELSE v
Expected(g, r) == [d \in Dims(g) |-> Clip(Resc(g, r, d) + r.noise[d], g.lo[d], g.hi[d])]
Class(g, d, v) == IF v < g.lo[d] THEN -1 ELSE IF v > g.hi[d] THEN 1 ELSE 0
ContRowOK(g, r, a, cl) ==
  /\ Len(a) = Len(g.lo) /\ Len(cl) = Len(g.lo)
  /\ \A d \in Dims(g) : a[d] # OffGrid => cl[d] = Class(g, d, a[d])     \* the projection is coherent
  /\ IF Flagged(r) THEN a = r.envdef
     ELSE CASE g.req = "exact" -> a = Expected(g, r)
            [] g.req = "inb"   -> \A d \in Dims(g) : cl[d] = 0
            [] OTHER           -> TRUE
\* finite stand-in for "any value" used by the model checker only
Sample(g, d) == {g.lo[d] - SC, g.lo[d], (g.lo[d] + g.hi[d]) \div 2, g.hi[d], g.hi[d] + SC}
AllowedContRow(g, r) ==
  IF Flagged(r) THEN {r.envdef}
  ELSE CASE g.req = "exact" -> {Expected(g, r)}
         [] g.req = "inb"   -> {a \in [Dims(g) -> UNION {Sample(g, d) : d \in Dims(g)}] :
                                   \A d \in Dims(g) : a[d] \in Sample(g, d) /\ a[d] >= g.lo[d] /\ a[d] <= g.hi[d]}
         [] OTHER           -> {a \in [Dims(g) -> UNION {Sample(g, d) : d \in Dims(g)}] :
                                   \A d \in Dims(g) : a[d] \in Sample(g, d)}

(* ---- groups ------------------------------------------------------------ *)
Width(g) == IF g.kind = "disc" THEN Len(g.sizes) ELSE IF g.kind = "bits" THEN g.sizes[1] ELSE Len(g.lo)
\* a single (unbatched) observation may come back with or without a batch dimension of one
ShapeOK(g, sh) == IF g.single THEN sh \in {<<>>, <<1>>} ELSE sh = <<Len(g.rows)>>
RowOK(g, r, a, cl) == CASE g.kind = "disc" -> DiscRowOK(g, r, a)
                        [] g.kind = "bits" -> BitsRowOK(g, r, a)
                        [] OTHER           -> ContRowOK(g, r, a, cl)
GroupOK(g, o) ==
  /\ ShapeOK(g, o.shape)
  /\ o.width = Width(g)
  /\ Len(o.outs) = Len(g.rows) /\ Len(o.cls) = Len(g.rows)
  /\ \A i \in DOMAIN g.rows : RowOK(g, g.rows[i], o.outs[i], o.cls[i])

\* inputs the property quantifies over: every component keeps at least one legal action
WellFormed(g) ==
  /\ Len(g.rows) >= 1 /\ (g.single => Len(g.rows) = 1)
  /\ g.kind = "disc" => \A i \in DOMAIN g.rows : \A c \in DOMAIN g.sizes : LegalIn(g, g.rows[i], c) # {}
  /\ g.kind = "cont" => \A d \in Dims(g) : g.lo[d] < g.hi[d]

--------------------------------------------------------------------------------
\* the calls explored are chosen by the instantiating module (ActionSel_MC: grids; ActionSel_Trace:
\* the calls made on the real agents)
InitWith(c) == /\ call = c /\ \A k \in DOMAIN c : WellFormed(c[k])
               /\ res = <<>> /\ act = [op |-> "init"]

Next1 == Len(res) + 1                       \* the group served next
Select(o) ==
  /\ Next1 <= Len(call)
  /\ GroupOK(call[Next1], o)
  /\ res' = Append(res, o)
  /\ act' = [op |-> call[Next1].kind]
  /\ UNCHANGED call

\* model-checking instances: every result the rule admits
RowChoices(g, r) == CASE g.kind = "disc" -> AllowedDiscRow(g, r)
                      [] g.kind = "bits" -> AllowedBitsRow(g, r)
                      [] OTHER           -> AllowedContRow(g, r)
ClsOf(g, a) == IF g.kind = "cont" THEN [d \in Dims(g) |-> Class(g, d, a[d])] ELSE <<>>
Candidates(g) ==
  {[shape |-> sh, width |-> Width(g), outs |-> os, cls |-> [i \in DOMAIN os |-> ClsOf(g, os[i])]] :
      sh \in (IF g.single THEN {<<>>, <<1>>} ELSE {<<Len(g.rows)>>}),
      os \in {s \in [DOMAIN g.rows -> UNION {RowChoices(g, g.rows[i]) : i \in DOMAIN g.rows}] :
                 \A i \in DOMAIN g.rows : s[i] \in RowChoices(g, g.rows[i])}}
SelectDiscrete   == Next1 <= Len(call) /\ call[Next1].kind = "disc" /\ \E o \in Candidates(call[Next1]) : Select(o)
SelectBits       == Next1 <= Len(call) /\ call[Next1].kind = "bits" /\ \E o \in Candidates(call[Next1]) : Select(o)
SelectContinuous == Next1 <= Len(call) /\ call[Next1].kind = "cont" /\ \E o \in Candidates(call[Next1]) : Select(o)
Next == SelectDiscrete \/ SelectBits \/ SelectContinuous

--------------------------------------------------------------------------------
(* Properties (C14), stated on what was returned.                           *)
Served == DOMAIN res
Rows(k) == DOMAIN call[k].rows
Free(k, i) == ~Flagged(call[k].rows[i])

\* row-level clauses (a = returned action of the row, cl = its per-dimension bound classes)
LegalRow(g, r, a) ==
  CASE g.kind = "disc" -> /\ Len(a) = Len(g.sizes)
                          /\ \A c \in DOMAIN g.sizes : /\ a[c] \in 0..(g.sizes[c] - 1)
                                                       /\ r.mask[Off(g.sizes, c) + a[c] + 1] = 1
    [] g.kind = "bits" -> /\ Len(a) = g.sizes[1]
                          /\ \A b \in 1..g.sizes[1] : a[b] \in {0, 1} /\ (r.mask[b] = 0 => a[b] = 0)
    [] OTHER -> TRUE
GreedyRow(g, r, a) ==
  (g.kind = "disc" /\ r.explore = 0) =>
     \A c \in DOMAIN g.sizes : \A j \in 0..(g.sizes[c] - 1) :
        r.mask[Off(g.sizes, c) + j + 1] = 1 => r.q[Off(g.sizes, c) + j + 1] <= r.q[Off(g.sizes, c) + a[c] + 1]
InBoundsRow(g, a, cl) ==
  (g.kind = "cont" /\ g.req # "free") =>
     /\ Len(a) = Len(g.lo) /\ Len(cl) = Len(g.lo)
     /\ \A d \in Dims(g) : /\ cl[d] = 0
                           /\ a[d] # OffGrid => (g.lo[d] <= a[d] /\ a[d] <= g.hi[d])

\* a valid index of the space, and never a masked one
Legal == \A k \in Served : \A i \in Rows(k) : Free(k, i) => LegalRow(call[k], call[k].rows[i], res[k].outs[i])

\* with exploration off no allowed action is valued higher than the chosen one
GreedyIsBestAllowed == \A k \in Served : \A i \in Rows(k) : Free(k, i) => GreedyRow(call[k], call[k].rows[i], res[k].outs[i])

\* deterministic learners and evaluation-mode policies stay inside the per-dimension bounds
InBounds == \A k \in Served : \A i \in Rows(k) : Free(k, i) => InBoundsRow(call[k], res[k].outs[i], res[k].cls[i])

\* one action per observation of the batch
BatchShape == \A k \in Served : LET g == call[k]  o == res[k] IN
  /\ Len(o.outs) = Len(g.rows)
  /\ IF g.single THEN o.shape \in {<<>>, <<1>>} ELSE o.shape = <<Len(g.rows)>>
  /\ o.width = Width(g)

\* environment-defined actions replace exactly the flagged rows
Override == \A k \in Served : \A i \in Rows(k) :
  Flagged(call[k].rows[i]) => res[k].outs[i] = call[k].rows[i].envdef

Bound == Len(res) <= Len(call)
================================================================================
