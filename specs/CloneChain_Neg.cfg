SPECIFICATION Spec
CONSTANTS
  Slots = {1, 2, 3}
  Archs = {1, 2, 3}
  Fns = {1, 2, 3, 4, 5}
  MaxOps = 5
  Variant = "aliased"
INVARIANT TypeOK
INVARIANT Described
PROPERTY CloneSame
PROPERTY NoopSame
PROPERTY Local
CHECK_DEADLOCK FALSE
