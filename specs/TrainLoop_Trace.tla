---------------------------- MODULE TrainLoop_Trace ----------------------------
(* Trace validation of the real train_* functions (C20).  Events recorded by         *)
(* vfw/drive/trainloop.py, one trace per run:                                        *)
(*   init   k, rule, max_steps, evo, elitism, mutate_elite, target, steps, idxs, fitlen *)
(*   gen    slots = [[d, steps, fitlen, ntest, idx, score, learn_ok, ...]...], unattributed *)
(*   sel    parents, idxs, steps, fitlen, elite_same                                 *)
(*   ret    size, idxs, steps, fitlen, same_pop, early                               *)
(*   crash  exc, msg, where  (an exception escaped the training function)            *)
EXTENDS TrainLoop, Json, IOUtils, TLCExt
CONSTANT Diag
Traces == JsonDeserialize(IOEnv.TRACE_FILE)
VARIABLES tid, l
tvars == <<vars, tid, l>>
T  == Traces[tid]
Ev == T.ev[l]
Check(name, c) == IF c THEN TRUE ELSE (Diag /\ PrintT(<<"FAILCLAUSE", tid, l, name>>) /\ FALSE)

TInit == /\ tid \in 1..Len(Traces) /\ l = 1
         /\ pop = <<>>
         /\ par = [k |-> 0, rule |-> "any", max |-> 0, evo |-> FALSE, elitism |-> FALSE, mutate_elite |-> FALSE, target |-> FALSE]
         /\ act = "pre" /\ gen = 0 /\ prev = <<>> /\ sel = <<>> /\ early = FALSE

TStart ==
  /\ Ev.op = "init" /\ act = "pre"
  /\ par' = [k |-> Ev.k, rule |-> Ev.rule, max |-> Ev.max_steps, evo |-> Ev.evo, elitism |-> Ev.elitism,
             mutate_elite |-> Ev.mutate_elite, target |-> Ev.target]
  /\ pop' = [i \in 1..Ev.k |-> [idx |-> Ev.idxs[i], steps |-> Ev.steps[i], truth |-> Ev.steps[i],
                                fitlen |-> Ev.fitlen[i], base |-> Ev.fitlen[i], score |-> 0]]
  /\ act' = "init" /\ UNCHANGED <<gen, prev, sel, early>>

S == Ev.slots
TGen ==
  /\ Ev.op = "gen" /\ act \in {"init", "gen", "sel"}
  /\ Check("a generation starts only while the documented step budget is not met", ~BudgetMet(pop))
  /\ Check("the population keeps its size during a generation", Len(S) = Len(pop))
  /\ Check("agents keep their indices during a generation", \A s \in 1..Len(S) : S[s].idx = pop[s].idx)
  /\ Check("every environment step of a rollout is taken by a member of the population", Ev.unattributed = 0)
  /\ Check("the step counter equals the environment steps the agent (and its ancestors) took",
           \A s \in 1..Len(S) : S[s].steps = pop[s].truth + S[s].d)
  /\ Check("one fitness entry is added per agent and generation", \A s \in 1..Len(S) : S[s].fitlen = pop[s].fitlen + 1)
  /\ Check("learn() is called only when the memory holds a batch", \A s \in 1..Len(S) : S[s].learn_ok)
  /\ GenBody([s \in 1..Len(S) |-> S[s].d], [s \in 1..Len(S) |-> S[s].steps - pop[s].steps], [s \in 1..Len(S) |-> S[s].score])

TSel ==
  /\ Ev.op = "sel"
  /\ Check("selection happens after the evaluations of a generation, with tournament and mutation given", act = "gen" /\ par.evo)
  /\ Check("the new population has the size it was given", Len(Ev.parents) = par.k /\ Len(Ev.idxs) = par.k)
  /\ Check("every new member descends from a member of the previous population", \A j \in 1..Len(Ev.parents) : Ev.parents[j] \in 1..Len(pop))
  /\ Check("no two members share an index", \A i, j \in 1..Len(Ev.idxs) : i # j => Ev.idxs[i] # Ev.idxs[j])
  /\ Check("step counter and fitness history are inherited from the parent",
           \A j \in 1..Len(Ev.parents) : Ev.steps[j] = pop[Ev.parents[j]].steps /\ Ev.fitlen[j] = pop[Ev.parents[j]].fitlen)
  /\ Check("with elitism the first member descends from the best agent of the generation", par.elitism => Ev.parents[1] \in Best(pop))
  /\ Check("with elitism and mutate_elite=False the best agent is carried unchanged into the next generation",
           (par.elitism /\ ~par.mutate_elite) => Ev.elite_same)
  /\ SelectMutate(Ev.parents, Ev.idxs, [j \in 1..par.k |-> j = 1 /\ Ev.elite_same])

TRet ==
  /\ Ev.op = "ret" /\ act \in {"init", "gen", "sel"}
  /\ Check("the returned population has the size it was given", Ev.size = par.k)
  /\ Check("the returned agents have distinct indices", \A i, j \in 1..Len(Ev.idxs) : i # j => Ev.idxs[i] # Ev.idxs[j])
  /\ Check("the returned agents are the population of the last generation",
           /\ Ev.same_pop /\ Ev.size = Len(pop)
           /\ \A s \in 1..Len(pop) : Ev.idxs[s] = pop[s].idx /\ Ev.steps[s] = pop[s].steps /\ Ev.fitlen[s] = pop[s].fitlen)
  /\ Check("training returns only once the step budget is met or the early-stopping target fired",
           BudgetMet(pop) \/ (Ev.early /\ par.target /\ act = "gen"))
  /\ Return(~BudgetMet(pop))

TCrash ==
  /\ Ev.op = "crash"
  /\ Check("the training function runs to completion", FALSE)
  /\ UNCHANGED vars

TAccept == /\ l = Len(T.ev) + 1 /\ act = "ret" /\ PrintT(<<"ACCEPT", tid>>) /\ l' = l + 1 /\ UNCHANGED <<vars, tid>>
TNext == \/ (l <= Len(T.ev) /\ (TStart \/ TGen \/ TSel \/ TRet \/ TCrash) /\ l' = l + 1 /\ UNCHANGED tid)
         \/ TAccept
TSpec == TInit /\ [][TNext]_tvars
TStepsAreEnvSteps == act # "pre" => StepsAreEnvSteps
================================================================================
