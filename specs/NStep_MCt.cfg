SPECIFICATION Spec
CONSTANTS
  Params <- MCParamsBig
  MaxT = 6
INVARIANT NoCross
INVARIANT ReturnDef
INVARIANT StopsOnlyAtEnd
INVARIANT Aligned
INVARIANT ImplAllowed
CONSTRAINT Bound
VIEW core
CHECK_DEADLOCK FALSE
