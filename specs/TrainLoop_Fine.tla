----------------------------- MODULE TrainLoop_Fine ---------------------------
(***************************************************************************)
(* Fine-grained model of the six loops' inner control flow (one action per  *)
(* vectorised environment step, the loop's local `steps` counter, the       *)
(* learn scheduling of learn_step against num_envs in both directions) and  *)
(* its refinement of TrainLoop: every generation of the fine model must be  *)
(* a Generation step of the abstract specification (the counter follows the *)
(* environment), every selection a SelectMutate step, every exit a Return.  *)
(*   lp = [kind, ne (num_envs), ls (learn_step), evo (evo_steps; episode_steps *)
(*         for bandits), batch, cap (memory size)]                           *)
(* Bug # "none" seeds a defect (negative controls of the check).            *)
(***************************************************************************)
EXTENDS TrainLoop
CONSTANTS Loops, Bug
VARIABLES lp, ph, cur, it, loc, envc, acc, mem, learned
fvars == <<vars, lp, ph, cur, it, loc, envc, acc, mem, learned>>
fine == <<lp, ph, cur, it, loc, envc, acc, mem, learned>>

CeilDiv(a, b) == (a + b - 1) \div b
Min(a, b) == IF a < b THEN a ELSE b
OffKinds == {"off", "ma_off"}
OnKinds == {"on", "ma_on"}
\* iterations of the inner loop(s) of one agent's rollout, and environment steps per iteration
NIter == CASE lp.kind \in OffKinds -> lp.evo \div lp.ne                                  \* range(evo_steps // num_envs)
           [] lp.kind \in OnKinds -> CeilDiv(lp.evo, lp.ls) * CeilDiv(lp.ls, lp.ne)      \* -(evo // -learn_step) x -(learn_step // -num_envs)
           [] OTHER -> lp.evo                                                             \* bandits: episode_steps; offline: evo_steps learn calls
Unit == IF lp.kind \in {"bandit", "offline"} THEN 1 ELSE lp.ne
HasMemory == lp.kind \in OffKinds \cup {"bandit"}

FInit == /\ Init
         /\ lp \in Loops
         /\ (lp.kind = "ma_on") = (par.rule = "sum")
         /\ ph = "top" /\ cur = 0 /\ it = 0 /\ loc = 0
         /\ envc = [s \in 1..par.k |-> 0] /\ acc = [s \in 1..par.k |-> 0]
         /\ mem = (IF lp.kind = "offline" THEN lp.cap ELSE 0) /\ learned = FALSE

FStartGen ==
  /\ ph = "top" /\ act \in {"init", "gen", "sel"} /\ gen < MaxGen
  /\ IF Bug = "extra_gen" THEN ~BudgetMet(pop) \/ (\A s \in 1..Len(pop) : pop[s].steps <= par.max)   \* `<=` instead of `<`
                           ELSE ~BudgetMet(pop)                                                     \* the while condition
  /\ ph' = "roll" /\ cur' = 1 /\ it' = 0 /\ loc' = 0
  /\ envc' = [s \in 1..Len(pop) |-> 0] /\ acc' = [s \in 1..Len(pop) |-> 0]
  /\ UNCHANGED <<vars, lp, mem, learned>>

\* does the loop call learn() after this environment step?
LearnNow(m) ==
  CASE lp.kind \in OffKinds -> IF lp.ls > lp.ne THEN (it % (lp.ls \div lp.ne) = 0 /\ (Bug = "learn_early" \/ m >= lp.batch))
                                              ELSE m >= lp.batch
    [] lp.kind = "bandit" -> m >= lp.batch
    [] lp.kind \in OnKinds -> (it + 1) % CeilDiv(lp.ls, lp.ne) = 0
    [] OTHER -> TRUE

FStep ==
  /\ ph = "roll" /\ it < NIter
  /\ envc' = [envc EXCEPT ![cur] = @ + Unit]                                  \* the environment counts
  /\ loc' = loc + (IF Bug = "unit1" THEN 1 ELSE Unit)                         \* steps += num_envs
  /\ it' = it + 1
  /\ mem' = IF HasMemory THEN Min(lp.cap, mem + Unit) ELSE mem
  /\ learned' = (learned \/ LearnNow(mem'))
  /\ UNCHANGED <<vars, lp, ph, cur, acc>>

FEndRollout ==
  /\ ph = "roll" /\ it = NIter
  /\ acc' = [acc EXCEPT ![cur] = IF lp.kind \in {"bandit", "offline"} THEN lp.evo ELSE loc]   \* agent.steps[-1] += ...
  /\ IF cur < Len(pop) THEN cur' = cur + 1 /\ ph' = "roll" ELSE cur' = cur /\ ph' = "eval"
  /\ it' = 0 /\ loc' = 0
  /\ UNCHANGED <<vars, lp, envc, mem, learned>>

FEvaluate ==
  /\ ph = "eval"
  /\ \E sc \in [1..Len(pop) -> Scores] : GenBody(envc, acc, sc)
  /\ ph' = "top" /\ UNCHANGED <<lp, cur, it, loc, envc, acc, mem, learned>>

FSelect == ph = "top" /\ MCSelect /\ UNCHANGED fine
FReturn == ph = "top" /\ (\E e \in BOOLEAN : Return(e)) /\ UNCHANGED fine

FNext == FStartGen \/ FStep \/ FEndRollout \/ FEvaluate \/ FSelect \/ FReturn
FSpec == FInit /\ [][FNext]_fvars

(* refinement: what the fine model does to the abstract variables is an abstract step *)
RefNext ==
  \/ /\ act' = "gen" /\ Len(pop') = Len(pop)
     /\ LET d == [s \in 1..Len(pop) |-> pop'[s].truth - pop[s].truth]
            sc == [s \in 1..Len(pop) |-> pop'[s].score] IN Generation(d, sc)
  \/ /\ act' = "sel"
     /\ LET ps == [j \in 1..Len(sel') |-> sel'[j].parent]
            ix == [j \in 1..Len(pop') |-> pop'[j].idx]
            same == [j \in 1..Len(sel') |-> sel'[j].same] IN SelectMutate(ps, ix, same)
  \/ /\ act' = "ret" /\ Return(early')
Refines == [][RefNext]_vars

LearnOnlyWhenSamplable == (HasMemory /\ learned) => mem >= lp.batch
\* at generation boundaries only (inside a rollout the counter is, by design, behind the environment)
FStepsAreEnvSteps == ph = "top" => StepsAreEnvSteps

\* parameters of the fine model: selection on, every (num_envs, learn_step) pair of the property's quantifier
FParams == {[k |-> k, rule |-> r, max |-> m, evo |-> TRUE, elitism |-> TRUE, mutate_elite |-> FALSE, target |-> FALSE] :
              k \in 1..2, r \in {"any", "sum"}, m \in {8, 20}}
FParamsq == {[k |-> 2, rule |-> r, max |-> 16, evo |-> TRUE, elitism |-> TRUE, mutate_elite |-> FALSE, target |-> FALSE] : r \in {"any", "sum"}}
MCLoops == {[kind |-> kd, ne |-> ne, ls |-> ls, evo |-> ev, batch |-> 4, cap |-> 16] :
              kd \in {"off", "on", "ma_off", "ma_on"}, ne \in {1, 2, 3, 4}, ls \in {1, 2, 3, 8}, ev \in {4, 8}}
           \cup {[kind |-> kd, ne |-> 1, ls |-> ls, evo |-> ev, batch |-> 4, cap |-> 16] :
              kd \in {"bandit", "offline"}, ls \in {1, 2}, ev \in {4, 8}}
MCLoopsq == {l \in MCLoops : l.evo = 8 /\ l.ls \in {1, 3, 8}}
================================================================================
