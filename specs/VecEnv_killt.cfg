SPECIFICATION Spec
CONSTANTS
  ClientAssumptions = {"no_retry_when_wedged"}
  NW = 2
  EpLen <- MCEpLen
  MaxCalls = 5
  MaxFaults = 2
  FaultKinds = {"raise", "kill"}
  ExcTypes = {"ValueError"}
  Timeouts = {"none", "finite", "terminate"}
INVARIANT ErrorTypeOK
INVARIANT CloseNeverRaises
INVARIANT NoWorkerLeft
INVARIANT StepEquivalence
PROPERTY MisuseRejected
PROPERTY TimeoutIsTimeout
PROPERTY SlotIsolation
CHECK_DEADLOCK TRUE
