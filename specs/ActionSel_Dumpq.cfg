SPECIFICATION Spec
CONSTANTS
  Calls <- MCCallsQ
  SC = 8
INVARIANT DumpInit
CONSTRAINT Bound
VIEW core
CHECK_DEADLOCK FALSE
