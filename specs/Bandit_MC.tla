------------------------------- MODULE Bandit_MC -------------------------------
EXTENDS Bandit
MCLams == { <<1, 2>>, <<1, 1>>, <<2, 1>> }          \* lambda = 1/2, 1, 2
MCLo == {-1, 0, 1, 2}
MCHi == {-1, 0, 1}
MCBin == {0, 1}
\* quick tier: below 1, equal to 1, above 1 and not a power of two (numerator and denominator both non-trivial)
MCLamsQ == { <<1, 2>>, <<1, 1>>, <<3, 2>> }         \* lambda = 1/2, 1, 3/2
\* thorough tier: powers of two and values that are none (3/2; 3 is in MCLamsHet; denominators >= 4 overflow TLC's 32-bit minors of 3 x 3 matrices)
MCLamsBig == MCLams \cup { <<3, 2>> }
\* heterogeneous populations (protocol model Bandit_MCh.cfg): one value below 1, one above 1 that is no power of two
MCLamsHet == { <<1, 2>>, <<3, 1>> }
================================================================================
