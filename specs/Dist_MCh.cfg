INIT InitH
NEXT NextH
CONSTANTS
  Shapes = {}
  PDen = 8
  HObs = {1, 2}
  HActs = {1, 2}
  HMaxW = 1
  Impl = "arg"
INVARIANT HTypeOK
INVARIANT EvalIsFunctionOfArgument
INVARIANT ValueOfArgument
VIEW hcore
CHECK_DEADLOCK FALSE
