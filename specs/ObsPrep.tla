-------------------------------- MODULE ObsPrep --------------------------------
(***************************************************************************)
(* Observation handling (property C15): a shape-and-content algebra.       *)
(*                                                                         *)
(* agilerl.utils.algo_utils: obs_to_tensor, maybe_add_batch_dim,           *)
(*   get_vect_dim, preprocess_observation, apply_image_normalization       *)
(* agilerl.algorithms.core.base.MultiAgentRLAlgorithm:                     *)
(*   assemble_/disassemble_homogeneous_outputs, stack_critic_observations  *)
(*                                                                         *)
(* An array is a pair (shape, flat row-major content).  A *leaf space* is  *)
(*   Box(shape, lo, hi)   natural shape = shape                            *)
(*   Discrete(n)          natural shape = <<>>   (value in 0..n-1)         *)
(*   MultiDiscrete(nvec)  natural shape = <<Len(nvec)>>                    *)
(*   MultiBinary(n)       natural shape = <<n>>                            *)
(* and an observation space is a leaf or a one-level Dict/Tuple of leaves. *)
(* An input is lead \o natural shape with lead = <<>> (one observation),   *)
(* <<B>> (batch / vector of environments) or <<T, E>> ((step, env) block). *)
(* Because contents are flat and row-major, merging (T, E) into T*E rows   *)
(* leaves the content sequence unchanged: row (t-1)*E + e is observation   *)
(* (t, e).                                                                 *)
(*                                                                         *)
(* Output values are rationals num/den with one den per member (den = 1    *)
(* unless the member is a normalised image), so everything is integer.     *)
(***************************************************************************)
EXTENDS Integers, Sequences, FiniteSets, TLC

CONSTANTS Cases,      \* observation-preparation cases  [kind, subs, lead, salt, norm]
          MACases,    \* multi-agent routing cases      [kind = "homo" | "critic", ...]
          Variant     \* "ok"; negative controls: "squeeze1" (a batch-of-one dimension is squeezed away),
                      \* "normhigh" (scaling by high instead of high-low), "envmajor" (groups taken apart env-major)

VARIABLES cs,         \* the case
          x,          \* input contents
          mid,        \* intermediate result (encoded members / assembled groups)
          out,        \* final result
          pc
vars == <<cs, x, mid, out, pc>>

--------------------------------------------------------------------------------
RECURSIVE Prod(_)
Prod(s) == IF s = <<>> THEN 1 ELSE Head(s) * Prod(Tail(s))
RECURSIVE Sum(_)
Sum(s) == IF s = <<>> THEN 0 ELSE Head(s) + Sum(Tail(s))
RECURSIVE Flat(_)                                   \* concatenate a sequence of sequences
Flat(ss) == IF ss = <<>> THEN <<>> ELSE Head(ss) \o Flat(Tail(ss))
Prefix(s, k) == SubSeq(s, 1, k)

Box(shape, lo, hi) == [k |-> "box",  shape |-> shape,         nvec |-> <<>>,  lo |-> lo, hi |-> hi]
Disc(n)            == [k |-> "disc", shape |-> <<>>,          nvec |-> <<n>>, lo |-> 0,  hi |-> n - 1]
MD(nvec)           == [k |-> "md",   shape |-> <<Len(nvec)>>, nvec |-> nvec,  lo |-> 0,  hi |-> 0]
MB(n)              == [k |-> "mb",   shape |-> <<n>>,         nvec |-> <<>>,  lo |-> 0,  hi |-> 1]

NatShape(sp) == sp.shape
NetShape(sp) == CASE sp.k = "disc" -> <<sp.nvec[1]>>
                  [] sp.k = "md"   -> <<Sum(sp.nvec)>>
                  [] OTHER         -> sp.shape
NatSize(sp) == Prod(NatShape(sp))
NetSize(sp) == Prod(NetShape(sp))
NRows(lead) == Prod(lead)                           \* <<>> -> 1, <<B>> -> B, <<T,E>> -> T*E

IsImage(sp)      == sp.k = "box" /\ Len(sp.shape) = 3
Normalised(sp, norm) == IsImage(sp) /\ norm /\ ~(sp.lo = 0 /\ sp.hi = 1)
Den(sp, norm)    == IF Normalised(sp, norm) THEN (IF Variant = "normhigh" THEN sp.hi ELSE sp.hi - sp.lo) ELSE 1

(* the content function of the grid: flat index -> small integer inside the space *)
InVal(sp, i, salt) ==
  CASE sp.k = "box"  -> LET sz == Prod(sp.shape) IN     \* position inside the observation and row both matter
                        sp.lo + ((((i - 1) % sz) * 7 + ((i - 1) \div sz) + salt * 3) % (sp.hi - sp.lo + 1))
    [] sp.k = "disc" -> ((i - 1) + salt) % sp.nvec[1]
    [] sp.k = "md"   -> LET kk == Len(sp.nvec) j == ((i - 1) % kk) + 1 r == (i - 1) \div kk
                        IN (r + j + salt) % sp.nvec[j]
    [] sp.k = "mb"   -> ((i - 1) + ((i - 1) \div sp.shape[1]) + salt) % 2
Input(sp, lead, salt) == [i \in 1..(NRows(lead) * NatSize(sp)) |-> InVal(sp, i, salt)]

Row(vals, r, sz) == SubSeq(vals, (r - 1) * sz + 1, r * sz)

--------------------------------------------------------------------------------
(* Stepwise, as the code does: encode the values (keeping the leading      *)
(* dimensions), then fix the leading batch dimension.                      *)
OneHot(v, n) == [c \in 1..n |-> IF c = v + 1 THEN 1 ELSE 0]
RECURSIVE EncDisc(_, _)
EncDisc(xs, n) == IF xs = <<>> THEN <<>> ELSE OneHot(Head(xs), n) \o EncDisc(Tail(xs), n)
RECURSIVE CatOneHots(_, _)                          \* one MultiDiscrete row
CatOneHots(row, nvec) == IF row = <<>> THEN <<>>
                         ELSE OneHot(Head(row), Head(nvec)) \o CatOneHots(Tail(row), Tail(nvec))
RECURSIVE EncMD(_, _)
EncMD(xs, nvec) == IF xs = <<>> THEN <<>>
                   ELSE CatOneHots(Prefix(xs, Len(nvec)), nvec)
                        \o EncMD(SubSeq(xs, Len(nvec) + 1, Len(xs)), nvec)
EncBox(xs, sp, norm) == IF Normalised(sp, norm) THEN [i \in 1..Len(xs) |-> xs[i] - sp.lo] ELSE xs

EncodeLeaf(sp, lead, xs, norm) ==
  [shape |-> lead \o NetShape(sp),
   den   |-> Den(sp, norm),
   vals  |-> CASE sp.k = "box"  -> EncBox(xs, sp, norm)
               [] sp.k = "disc" -> EncDisc(xs, sp.nvec[1])
               [] sp.k = "md"   -> EncMD(xs, sp.nvec)
               [] sp.k = "mb"   -> xs]
BatchLeaf(sp, lead, enc) == [enc EXCEPT !.shape = IF Variant = "squeeze1" /\ NRows(lead) = 1 THEN NetShape(sp)
                                                  ELSE <<NRows(lead)>> \o NetShape(sp)]
PrepLeaf(sp, lead, xs, norm) == BatchLeaf(sp, lead, EncodeLeaf(sp, lead, xs, norm))
(* Prep(space, x): member-wise *)
Prep(c, xs) == [m \in 1..Len(c.subs) |-> PrepLeaf(c.subs[m], c.lead, xs[m], c.norm)]

VectDim(lead) == IF lead = <<>> THEN 1 ELSE lead[1]
IsVect(lead)  == lead # <<>>

--------------------------------------------------------------------------------
(* Multi-agent routing.                                                    *)
(* "homo": agents 1..A in agent_ids order, grp[a] = label of a's group;    *)
(*   each agent has E rows of width d (x[a] flat, E*d values).             *)
Agents(c)      == 1..Len(c.grp)
Groups(c)      == {c.grp[a] : a \in Agents(c)}
RECURSIVE MembersFrom(_, _, _)
MembersFrom(c, g, a) == IF a > Len(c.grp) THEN <<>>
                        ELSE (IF c.grp[a] = g THEN <<a>> ELSE <<>>) \o MembersFrom(c, g, a + 1)
Members(c, g)  == MembersFrom(c, g, 1)              \* in agent_ids order
Pos(c, a)      == Cardinality({b \in Agents(c) : b <= a /\ c.grp[b] = c.grp[a]})
MAVal(a, i)    == a * 100 + i                       \* identified data: value names (agent, flat index)
MAInput(c)     == [a \in Agents(c) |-> [i \in 1..(c.E * c.d) |-> MAVal(a, i)]]
AssembleG(c, xs, g) == LET ms == Members(c, g) IN Flat([i \in 1..Len(ms) |-> xs[ms[i]]])
Assemble(c, xs)     == [g \in Groups(c) |-> AssembleG(c, xs, g)]
Disassemble(c, h)   ==
  IF Variant = "envmajor"
    THEN [a \in Agents(c) |-> LET m == Len(Members(c, c.grp[a])) IN
            [i \in 1..(c.E * c.d) |-> h[c.grp[a]][((((i - 1) \div c.d) * m) + Pos(c, a) - 1) * c.d + ((i - 1) % c.d) + 1]]]
    ELSE [a \in Agents(c) |-> Row(h[c.grp[a]], Pos(c, a), c.E * c.d)]

(* "critic": agents 1..A, common batch B; per-agent prepared observation   *)
(*   vector kind: (B, dims[a])        -> (B, Sum(dims))    concatenated    *)
(*   image  kind: (B, C, H, W) each   -> (B, C, A, H, W)   stacked at 2    *)
CriticInput(c) ==
  IF c.img THEN [a \in 1..c.A |-> [i \in 1..(c.B * Prod(c.dims)) |-> MAVal(a, i)]]
           ELSE [a \in 1..c.A |-> [i \in 1..(c.B * c.dims[a]) |-> MAVal(a, i)]]
RECURSIVE StackVecRows(_, _, _)
StackVecRows(c, xs, b) == IF b > c.B THEN <<>>
                          ELSE Flat([a \in 1..c.A |-> Row(xs[a], b, c.dims[a])]) \o StackVecRows(c, xs, b + 1)
RECURSIVE StackImgBC(_, _, _)                       \* blocks (b, ch) in row-major order, each = all agents' planes
StackImgBC(c, xs, q) == LET hw == c.dims[2] * c.dims[3] IN
                        IF q > c.B * c.dims[1] THEN <<>>
                        ELSE Flat([a \in 1..c.A |-> Row(xs[a], q, hw)]) \o StackImgBC(c, xs, q + 1)
StackCritic(c, xs) == IF c.img THEN [shape |-> <<c.B, c.dims[1], c.A, c.dims[2], c.dims[3]>>, vals |-> StackImgBC(c, xs, 1)]
                               ELSE [shape |-> <<c.B, Sum(c.dims)>>, vals |-> StackVecRows(c, xs, 1)]

--------------------------------------------------------------------------------
IsPrep == cs.kind \in {"leaf", "dict", "tuple"}

Init == /\ cs \in Cases \cup MACases
        /\ x = CASE cs.kind \in {"leaf", "dict", "tuple"} ->
                      [m \in 1..Len(cs.subs) |-> Input(cs.subs[m], cs.lead, cs.salt + m - 1)]
                 [] cs.kind = "homo"   -> MAInput(cs)
                 [] cs.kind = "critic" -> CriticInput(cs)
        /\ mid = <<>> /\ out = <<>>
        /\ pc = "start"

Encode == /\ pc = "start" /\ IsPrep
          /\ mid' = [m \in 1..Len(cs.subs) |-> EncodeLeaf(cs.subs[m], cs.lead, x[m], cs.norm)]
          /\ pc' = "encoded" /\ UNCHANGED <<cs, x, out>>
Batch  == /\ pc = "encoded" /\ IsPrep
          /\ out' = [m \in 1..Len(cs.subs) |-> BatchLeaf(cs.subs[m], cs.lead, mid[m])]
          /\ pc' = "done" /\ UNCHANGED <<cs, x, mid>>
AssembleAct == /\ pc = "start" /\ cs.kind = "homo"
               /\ mid' = Assemble(cs, x)
               /\ pc' = "assembled" /\ UNCHANGED <<cs, x, out>>
DisassembleAct == /\ pc = "assembled" /\ cs.kind = "homo"
                  /\ out' = Disassemble(cs, mid)
                  /\ pc' = "done" /\ UNCHANGED <<cs, x, mid>>
StackAct == /\ pc = "start" /\ cs.kind = "critic"
            /\ out' = StackCritic(cs, x)
            /\ pc' = "done" /\ UNCHANGED <<cs, x, mid>>
Next == Encode \/ Batch \/ AssembleAct \/ DisassembleAct \/ StackAct
Spec == Init /\ [][Next]_vars

--------------------------------------------------------------------------------
(* Properties (C15), stated independently of the recursions above.         *)
DonePrep == pc = "done" /\ IsPrep
Mem == 1..Len(cs.subs)

\* totality + "a leading batch dimension followed by the network's input shape", member by member
LeadingBatch == DonePrep =>
  /\ Len(out) = Len(cs.subs)
  /\ \A m \in Mem : /\ out[m].shape = <<NRows(cs.lead)>> \o NetShape(cs.subs[m])
                    /\ Len(out[m].vals) = Prod(out[m].shape)
                    /\ out[m].den >= 1

\* discrete values become the matching one-hot vectors: exactly one 1 per row, at index = value
OneHotDef == DonePrep => \A m \in Mem : cs.subs[m].k = "disc" =>
  LET n == cs.subs[m].nvec[1] IN
  \A r \in 1..NRows(cs.lead) :
     LET row == Row(out[m].vals, r, n) IN
     /\ \A c \in 1..n : row[c] \in {0, 1}
     /\ {c \in 1..n : row[c] = 1} = {x[m][r] + 1}

\* MultiDiscrete: component j occupies columns Off(j)+1 .. Off(j)+nvec[j] and is the one-hot of value j
MultiOneHotDef == DonePrep => \A m \in Mem : cs.subs[m].k = "md" =>
  LET nv == cs.subs[m].nvec  kk == Len(nv)  S == Sum(nv) IN
  \A r \in 1..NRows(cs.lead) :
     LET row == Row(out[m].vals, r, S) IN
     \A j \in 1..kk :
        LET off == Sum(Prefix(nv, j - 1)) IN
        \A c \in 1..nv[j] : row[off + c] = (IF c = x[m][(r - 1) * kk + j] + 1 THEN 1 ELSE 0)

\* images are min-max scaled with the space's bounds when normalisation is on; everything else is
\* passed through unchanged (value-correct)
ScaleDef == DonePrep => \A m \in Mem : cs.subs[m].k \in {"box", "mb"} =>
  LET sp == cs.subs[m] IN
  IF IsImage(sp) /\ cs.norm
    THEN /\ out[m].den * 1 = (IF sp.lo = 0 /\ sp.hi = 1 THEN 1 ELSE sp.hi - sp.lo)
         /\ \A i \in 1..Len(x[m]) : /\ out[m].vals[i] = (IF out[m].den = 1 THEN x[m][i] ELSE x[m][i] - sp.lo)
                                    /\ out[m].den > 1 => (0 <= out[m].vals[i] /\ out[m].vals[i] <= out[m].den)
    ELSE out[m].den = 1 /\ out[m].vals = x[m]

\* preparing a batch gives row by row the same result as preparing each observation on its own
BatchConsistency == DonePrep => \A m \in Mem :
  LET sp == cs.subs[m] IN
  \A r \in 1..NRows(cs.lead) :
     LET single == PrepLeaf(sp, <<>>, Row(x[m], r, NatSize(sp)), cs.norm) IN
     /\ single.shape = <<1>> \o NetShape(sp)
     /\ Row(out[m].vals, r, NetSize(sp)) = single.vals
     /\ out[m].den = single.den

\* dict and tuple observations are handled member by member
MemberWise == DonePrep => out = Prep(cs, x)

\* a vectorised observation is recognised as such
VectDef == DonePrep /\ Len(cs.lead) <= 1 =>
  /\ VectDim(cs.lead) = NRows(cs.lead)
  /\ (IsVect(cs.lead) <=> Len(cs.lead) = 1)

\* shared policies: the rows of group g are (member position, env) in row-major order ...
HomoRowMap == (pc \in {"assembled", "done"} /\ cs.kind = "homo") =>
  /\ DOMAIN mid = Groups(cs)
  /\ \A g \in Groups(cs) : Len(mid[g]) = Len(Members(cs, g)) * cs.E * cs.d
  /\ \A a \in Agents(cs) : \A e \in 1..cs.E : \A j \in 1..cs.d :
        mid[cs.grp[a]][((Pos(cs, a) - 1) * cs.E + (e - 1)) * cs.d + j] = x[a][(e - 1) * cs.d + j]
\* ... and taking them apart again gives every agent its own rows back, whatever the composition/order
RoundTrip == (pc = "done" /\ cs.kind = "homo") => out = x

\* centralised critics: row b of the stacked observation holds row b of every agent, agent a in block a
CriticMap == (pc = "done" /\ cs.kind = "critic") =>
  IF cs.img
    THEN LET C == cs.dims[1] H == cs.dims[2] W == cs.dims[3] IN
         /\ out.shape = <<cs.B, C, cs.A, H, W>> /\ Len(out.vals) = Prod(out.shape)
         /\ \A a \in 1..cs.A : \A b \in 1..cs.B : \A ch \in 1..C : \A h \in 1..H : \A w \in 1..W :
              out.vals[((((b - 1) * C + (ch - 1)) * cs.A + (a - 1)) * H + (h - 1)) * W + w]
                = x[a][(((b - 1) * C + (ch - 1)) * H + (h - 1)) * W + w]
    ELSE LET D == Sum(cs.dims) IN
         /\ out.shape = <<cs.B, D>> /\ Len(out.vals) = cs.B * D
         /\ \A a \in 1..cs.A : \A b \in 1..cs.B : \A j \in 1..cs.dims[a] :
              out.vals[(b - 1) * D + Sum(Prefix(cs.dims, a - 1)) + j] = x[a][(b - 1) * cs.dims[a] + j]

\* totality: every case of the grid reaches "done" (checked as: no state other than done is terminal)
Total == (~ ENABLED Next) => pc = "done"
================================================================================
