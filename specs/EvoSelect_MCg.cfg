SPECIFICATION SpecU
CONSTANTS
  MaxPop = 2
  MaxN = 2
  Scores <- MCScores2
  MaxHist = 2
  MaxGen = 3
  Ks = {1, 2}
  Ws = {1, 2}
INVARIANT SizeOK
INVARIANT DistinctIdx
INVARIANT EliteKept
INVARIANT EliteIsBest
INVARIANT FreshAbove
CHECK_DEADLOCK FALSE
