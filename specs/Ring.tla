--------------------------------- MODULE Ring ---------------------------------
(***************************************************************************)
(* Single-agent circular replay buffer (agilerl.components.replay_buffer.  *)
(* ReplayBuffer), property C09.                                            *)
(*                                                                         *)
(* Transitions are identified by the order in which they were added:      *)
(* 1, 2, 3, ... (never reset, so ids stay unique across clear()).         *)
(* The specification is implementation-shaped: Add writes a batch of w    *)
(* rows in (at most) two slices exactly as the code does, so that the     *)
(* user-level statement ("holds exactly the last min(N, added)") is a     *)
(* theorem TLC checks rather than a definition.                           *)
(***************************************************************************)
EXTENDS Naturals, Sequences, FiniteSets, TLC

CONSTANTS Caps,        \* set of capacities explored, e.g. 1..4
          MaxAdded     \* bound on the number of transitions added (state constraint)

VARIABLES N,           \* capacity (chosen at Init, then constant)
          store,       \* [0..N-1 -> Nat]   id stored in each slot, 0 = never written
          cursor,      \* next slot to write
          size,        \* reported length
          added,       \* number of transitions ever added (= last id handed to Add)
          base,        \* value of `added' at the last clear()
          last,        \* the batch most recently handed out by Sample (sequence of ids)
          act          \* bookkeeping: the action that produced this state (hidden by VIEW)

core == <<N, store, cursor, size, added, base>>
vars == <<N, store, cursor, size, added, base, last, act>>

Min(a, b) == IF a <= b THEN a ELSE b
Range(f)  == {f[x] : x \in DOMAIN f}

Contents  == {store[i] : i \in 0..(size - 1)}

InitWith(n) ==
  /\ N = n
  /\ store = [i \in 0..(n - 1) |-> 0]
  /\ cursor = 0 /\ size = 0 /\ added = 0 /\ base = 0
  /\ last = <<>>
  /\ act = [op |-> "init"]
Init == \E n \in Caps : InitWith(n)

(* Add a batch of w consecutive new transitions, ids added+1 .. added+w.  *)
(* Two-slice write as in ReplayBuffer.add: [cursor:N) then [0:w-n).       *)
Add(w) ==
  /\ w \in 1..N
  /\ LET end == cursor + w
         n   == N - cursor                 \* rows that fit before the end
         id(k) == added + k                \* k-th row of the batch, k = 1..w
     IN  store' = [i \in 0..(N - 1) |->
                     IF end > N
                       THEN IF i >= cursor THEN id(i - cursor + 1)
                            ELSE IF i < w - n THEN id(n + i + 1)
                            ELSE store[i]
                       ELSE IF i >= cursor /\ i < end THEN id(i - cursor + 1)
                            ELSE store[i]]
  /\ cursor' = (cursor + w) % N
  /\ size' = Min(size + w, N)
  /\ added' = added + w
  /\ UNCHANGED <<N, base, last>>
  /\ act' = [op |-> "add", w |-> w]

(* Uniform sampling: B distinct slots below size, in any order.           *)
Sample(B, pos) ==
  /\ B \in 1..size
  /\ pos \in [1..B -> 0..(size - 1)]
  /\ \A i, j \in 1..B : i # j => pos[i] # pos[j]
  /\ last' = [i \in 1..B |-> store[pos[i]]]
  /\ UNCHANGED <<N, store, cursor, size, added, base>>
  /\ act' = [op |-> "sample", B |-> B]

Clear ==
  /\ store' = [i \in 0..(N - 1) |-> 0]
  /\ cursor' = 0 /\ size' = 0 /\ base' = added
  /\ UNCHANGED <<N, added, last>>
  /\ act' = [op |-> "clear"]

AddAny    == \E w \in 1..N : Add(w)
SampleAny == \E B \in 1..size : \E pos \in [1..B -> 0..(size - 1)] : Sample(B, pos)
Next == AddAny \/ SampleAny \/ Clear

Spec == Init /\ [][Next]_vars

--------------------------------------------------------------------------------
(* Properties (C09) *)

TypeOK ==
  /\ cursor \in 0..(N - 1) /\ size \in 0..N /\ base <= added

\* reported length is min(N, number added since the last clear)
LenOK == size = Min(N, added - base)

\* the buffer contains exactly the most recent `size' transitions
ContentsOK == Contents = (added - size + 1)..added

\* no transition is stored twice among the live rows
NoDup == Cardinality(Contents) = size

\* a sample hands out stored transitions only, without duplicates
SampleSound ==
  [][ (act'.op = "sample") =>
        /\ Range(last') \subseteq Contents
        /\ Cardinality(Range(last')) = Len(last') ]_vars

Bound == added <= MaxAdded
================================================================================
