SPECIFICATION Spec
CONSTANTS
  Caps = {1,2,3,4,5}
  Pris = {1,2,3,8}
  Bs = {1,2,4}
  UDen = 4
  MaxOps = 4
INVARIANT TreeSum
INVARIANT TreeMin
INVARIANT LeavesOK
INVARIANT PtrOK
INVARIANT MaxPOK
PROPERTY NewGetsMax
PROPERTY SampleOK
CONSTRAINT Bound
VIEW coreN
CHECK_DEADLOCK FALSE
