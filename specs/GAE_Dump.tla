------------------------------- MODULE GAE_Dump -------------------------------
(* M2: print every complete rollout of the single-column grid once, as JSON, together with the *)
(* advantages / returns the specification computes for it (scaled by S).                        *)
EXTENDS GAE_MC, Json
Mat(f) == [e \in 1..E |-> [g \in 1..G |-> f[<<e, g>>]]]
Case == [par |-> par, S |-> S,
         rew |-> [t \in Steps |-> Mat(rew[t])], val |-> [t \in Steps |-> Mat(val[t])],
         done |-> [t \in Steps |-> Mat(done[t])], nv |-> Mat(nv), nd |-> Mat(nd),
         adv |-> [t \in Steps |-> Mat(adv[t])], ret |-> [t \in Steps |-> Mat(ret[t])]]
NextDump == CollectAny \/ EndAny \/ GaeAny \/ Returns
DumpCase == (phase = "flatten") => PrintT(<<"CASE", ToJson(Case)>>)
================================================================================
