--------------------------------- MODULE EvoHP ---------------------------------
(***************************************************************************)
(* RL-hyperparameter mutation (agilerl/algorithms/core/registry.py         *)
(* RLParameter.mutate + agilerl/hpo/mutation.py rl_hyperparam_mutation),   *)
(* property C06.  Every agent owns its value of every configured           *)
(* hyperparameter; a mutation multiplies the agent's OWN current value by  *)
(* the shrink or the grow factor, clips to [min, max], converts to the     *)
(* configured number type (int: truncation) -- exactly one hyperparameter  *)
(* of exactly one agent changes.  Values are exact rationals (Rat.tla).    *)
(***************************************************************************)
EXTENDS Integers, Sequences, FiniteSets, TLC, Rat

CONSTANTS Cfg,      \* Seq of [min, max, shrink, grow : rationals, isint : BOOLEAN, islr : BOOLEAN]
          NA,       \* number of agents
          InitVals, \* set of initial value vectors (Seq of rationals, one per hp)
          MaxMut

VARIABLES val,      \* [1..NA -> [1..H -> rational]]
          lrs,      \* [1..NA -> [1..H -> set of rationals]]: lrs of all optimizer groups using hp h as their lr
          nmut, act
vars == <<val, lrs, nmut, act>>
H == Len(Cfg)

Clip(x, c) == RMin(RMax(x, c.min), c.max)
Cast(x, c) == IF c.isint THEN RFloor(x) ELSE x
\* the value a mutation in direction d ("shrink" | "grow") must produce from the agent's own value
New(own, c, d) == Cast(Clip(RMul(own, IF d = "shrink" THEN c.shrink ELSE c.grow), c), c)

Init == /\ \E v \in InitVals : val = [a \in 1..NA |-> v]            \* members built from one configuration
        /\ lrs = [a \in 1..NA |-> [h \in 1..H |-> IF Cfg[h].islr THEN {val[a][h]} ELSE {}]]
        /\ nmut = 0 /\ act = [op |-> "init"]

MutateHP(a, h, d) ==
  /\ a \in 1..NA /\ h \in 1..H /\ d \in {"shrink", "grow"}
  /\ LET nv == New(val[a][h], Cfg[h], d) IN
     /\ val' = [val EXCEPT ![a][h] = nv]
     /\ lrs' = IF Cfg[h].islr THEN [lrs EXCEPT ![a][h] = {nv}] ELSE lrs
  /\ nmut' = nmut + 1 /\ act' = [op |-> "mutate", a |-> a, h |-> h, d |-> d]

\* an agent is copied (clone / selection): the copy starts from the parent's values
Copy(a, c) ==
  /\ a \in 1..NA /\ c \in 1..NA /\ a # c
  /\ val' = [val EXCEPT ![c] = val[a]] /\ lrs' = [lrs EXCEPT ![c] = lrs[a]]
  /\ nmut' = nmut + 1 /\ act' = [op |-> "copy", a |-> a, c |-> c]

\* the user (a schedule, a sweep) assigns a hyperparameter that is not a learning rate: it becomes the agent's current value,
\* the base of the next mutation
Assign(a, h, x) ==
  /\ a \in 1..NA /\ h \in 1..H /\ ~Cfg[h].islr /\ x \in {Cfg[h].min, Cfg[h].max}
  /\ val' = [val EXCEPT ![a][h] = x] /\ UNCHANGED lrs
  /\ nmut' = nmut + 1 /\ act' = [op |-> "set", a |-> a, h |-> h]

Next == \/ (\E a \in 1..NA, h \in 1..H, d \in {"shrink", "grow"} : MutateHP(a, h, d)) \/ (\E a, c \in 1..NA : Copy(a, c))
        \/ (\E a \in 1..NA, h \in 1..H : \E x \in {Cfg[h].min, Cfg[h].max} : Assign(a, h, x))
Spec == Init /\ [][Next]_vars

(* Properties *)
InRange == \A a \in 1..NA, h \in 1..H : RLeq(Cfg[h].min, val[a][h]) /\ RLeq(val[a][h], Cfg[h].max)
IntIsInt == \A a \in 1..NA, h \in 1..H : Cfg[h].isint => RIsInt(val[a][h])
\* the new value is what the agent subsequently uses: every optimizer group on that lr
LrEffective == \A a \in 1..NA, h \in 1..H : Cfg[h].islr => lrs[a][h] = {val[a][h]}
OneChange == [][ act'.op = "mutate" => \A a \in 1..NA, h \in 1..H : (a # act'.a \/ h # act'.h) => val'[a][h] = val[a][h] ]_vars
OwnBase == [][ act'.op = "mutate" => val'[act'.a][act'.h] \in {New(val[act'.a][act'.h], Cfg[act'.h], "shrink"), New(val[act'.a][act'.h], Cfg[act'.h], "grow")} ]_vars
Bound == nmut <= MaxMut
================================================================================
