INIT Init
NEXT NextDump
CONSTANTS
  Params <- MCParamsCol
  Rews = {1,2}
  Vals = {0,2}
  MaxT = 3
  Layouts <- UniformLayouts
  Perturb = {0}
INVARIANT DumpCase
INVARIANT RecursionMeetsDefinition
VIEW core
CHECK_DEADLOCK FALSE
