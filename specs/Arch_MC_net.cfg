SPECIFICATION Spec
CONSTANTS
  Cfg <- MCNet
  Inits <- MCNetInits
INVARIANT WellFormed
INVARIANT InBounds
INVARIANT FeatureMapPositive
INVARIANT AllMethodsEnabled
INVARIANT ShapesTotal
PROPERTY Advertised
PROPERTY StaysInBounds
PROPERTY SurvivorsOverlap
VIEW core
CHECK_DEADLOCK FALSE
