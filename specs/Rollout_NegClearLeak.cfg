SPECIFICATION Spec
CONSTANTS
  EnvSet <- OneEnv
  AgentSet <- MAAgents
  Kinds <- AllKinds
  MaxT = 3
  MaxRolls = 2
  MaxEp = 8
  Mode = "loop"
  ResetClears = TRUE
  FlagRule = "either"
INVARIANT NoLeak
CONSTRAINT Bound
CHECK_DEADLOCK FALSE
