----------------------------- MODULE BanditEnv_MC -----------------------------
EXTENDS BanditEnv
R(x, y) == [x |-> x, y |-> y]
\* one row, one arm
DS1 == <<R(<<1>>, "a")>>
\* string labels first appearing in non-sorted order, a repeated row, 2 arms, 2 features
DS2 == <<R(<<1, 0>>, "b"), R(<<0, 2>>, "a"), R(<<1, 0>>, "b")>>
\* non-contiguous integer labels in non-sorted order, the same features under two labels, 3 arms
DS3 == <<R(<<1>>, 7), R(<<1>>, 3), R(<<2>>, 5)>>
\* two rows, one arm, a negative feature
DS4 == <<R(<<-1, 1>>, 2), R(<<2, 2>>, 2)>>
\* label sequence a b a (the second label is NOT the last to appear), negative label
DS5 == <<R(<<0>>, -4), R(<<3>>, 9), R(<<1>>, -4)>>
MCDatasets    == {DS1, DS2, DS3, DS4}
MCDatasetsBig == {DS1, DS2, DS3, DS4, DS5, <<R(<<1, 2>>, "z"), R(<<2, 1>>, "y"), R(<<0, 0>>, "x")>>}
MCEnvs  == {1, 2}
MCWraps == {<<"none", "none">>, <<"plain", "override">>}
Bound == nops <= MaxOps
================================================================================
