SPECIFICATION Spec
CONSTANTS
  MaxPop = 3
  MaxN = 3
  Scores <- MCScores
  MaxHist = 2
  MaxGen = 1
  Ks = {1, 2}
  Ws = {1, 2}
INVARIANT SizeOK
INVARIANT DistinctIdx
INVARIANT EliteKept
INVARIANT EliteIsBest
CHECK_DEADLOCK FALSE
