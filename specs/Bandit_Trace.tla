------------------------------ MODULE Bandit_Trace ------------------------------
(* Trace validation of real NeuralUCB / NeuralTS agents against Bandit.tla (C19), exact mode.        *)
(* The agents are built with a linear actor whose output layer is the whole network (LinFeat in      *)
(* vfw/drive/bandit.py), so the gradient feature of an arm is an integer vector and every matrix of   *)
(* the specification is an exact rational.                                                           *)
(*   cfg.lam = <<Ln, Ld>>         the agent's lambda (mode "strict") or 1/c for the scale c of the    *)
(*                                matrix the real agent starts from (mode "relative")                 *)
(*   event.post[s]                projection of slot s after the operation: nil, layer (parameters    *)
(*                                of the network's output layer), dim / sq (shape of sigma_inv),      *)
(*                                S = sigma_inv in units of 1e-6 (rounded), lam = <<n, d>> the        *)
(*                                agent's own `lamb` attribute (members may differ: checkpoints of    *)
(*                                other agents, lambda in the hyper-parameter mutation configuration) *)
(*   create events                lam0 = the lambda the constructor was called with                   *)
(*   decide events                feats = gradient feature of every arm, recomputed by the driver     *)
(*                                from the agent's network before the call; arm = returned action     *)
(* Rebuilding operations are matched against both outcomes the property allows (carry | reinit).      *)
EXTENDS Bandit, Json, IOUtils, TLCExt
CONSTANT Diag, Tol
Traces == JsonDeserialize(IOEnv.TRACE_FILE)
VARIABLES tid, l
tvars == <<vars, tid, l>>
T  == Traces[tid]
Ev == T.ev[l]
Check(name, c) == IF c THEN TRUE ELSE (Diag /\ PrintT(<<"FAILCLAUSE", tid, l, name>>) /\ FALSE)
TVals == {-2, -1, 0, 1, 2}
TInit == /\ tid \in 1..Len(Traces) /\ l = 1 /\ InitWith(Traces[tid].cfg.lam)

\* n/d in units of 1e-6, truncated (long division keeps every intermediate below 2^31 for d < 2 000 000)
MicroPos(n, d) == LET q0 == n \div d
                      r0 == n % d
                      d1 == (r0 * 1000) \div d
                      r1 == (r0 * 1000) % d
                      d2 == (r1 * 1000) \div d
                  IN q0 * 1000000 + d1 * 1000 + d2
Micro(n, d) == IF n >= 0 THEN MicroPos(n, d) ELSE -MicroPos(-n, d)
Close(obs, n, d) == Abs(obs - Micro(n, d)) <= Tol

MatClose(p, r) == /\ Len(p.S) = r.dim
                  /\ \A i \in 1..r.dim : Len(p.S[i]) = r.dim /\ \A j \in 1..r.dim : Close(p.S[i][j], r.N[i][j], r.D)

\* slot the operation writes
Target == IF "c" \in DOMAIN act' THEN act'.c ELSE act'.a
Post ==
  /\ Check("returns without raising", Ev.exc = "")
  /\ \A s \in Slots : LET p == Ev.post[s] IN
       IF ag'[s] = Nil THEN Check("slot is empty", p.nil)
       ELSE /\ Check("slot holds an agent", ~p.nil)
            /\ Check("size of the confidence matrix = number of parameters of the output layer", p.sq /\ p.dim = p.layer)
            /\ Check("output layer has the size the operation produced", p.layer = ag'[s].layer)
            /\ Check("the agent's lambda is the one the operation produced (constructor's / source's / unchanged)", p.lam = ag'[s].lam)
            /\ IF s = Target /\ act'.out \in {"init", "reinit"}
               THEN Check("freshly initialised confidence matrix = (1/lambda) I", MatClose(p, ag'[s]))
               ELSE IF s = Target
               THEN Check("confidence matrix = inverse of lambda I + sum of outer products of the chosen arms' features since it was initialised", MatClose(p, ag'[s]))
               ELSE Check("confidence matrix of an agent that did not take part is unchanged", MatClose(p, ag'[s]))

ObsLayer(s) == Ev.post[s].layer
ObsLam(s)   == Ev.post[s].lam

TCreate == /\ Ev.op = "create"
           /\ Check("returns without raising", Ev.exc = "")
           /\ Create(Ev.a, ObsLayer(Ev.a), Ev.lam0) /\ Post
TDecide ==
  /\ Ev.op = "decide"
  /\ Check("returns without raising", Ev.exc = "")
  /\ Check("chosen arm is one of the arms", Ev.arm \in 0..(Len(Ev.feats) - 1))
  /\ Check("every arm's feature has the size of the confidence matrix", \A i \in 1..Len(Ev.feats) : Len(Ev.feats[i]) = ag[Ev.a].dim)
  /\ Check("exploration bonus g^T S g >= 0 for every arm", \A i \in 1..Len(Ev.feats) : BonusOf(ag[Ev.a], Ev.feats[i]))
  /\ Decide(Ev.a, Ev.feats[Ev.arm + 1])
  /\ Post
TLearn  == Ev.op = "learn" /\ Learn(Ev.a) /\ Post
TTest   == Ev.op = "test" /\ Test(Ev.a) /\ Post
TMutate == /\ Ev.op = "mutate"
           /\ Check("returns without raising", Ev.exc = "")
           /\ Check("only a hyper-parameter mutation changes lambda", Ev.kind = "hp" \/ ObsLam(Ev.a) = ag[Ev.a].lam)
           /\ \E out \in Outs : Mutate(Ev.a, Ev.kind, ObsLayer(Ev.a), ObsLam(Ev.a), out) /\ Post
TClone  == /\ Ev.op = "clone"
           /\ Check("returns without raising", Ev.exc = "")
           /\ \E out \in Outs : Clone(Ev.a, Ev.c, ObsLayer(Ev.c), out) /\ Post
TSave   == Ev.op = "save" /\ Save(Ev.a, Ev.f) /\ Post
TLoadNew == /\ Ev.op = "loadnew"
            /\ Check("returns without raising", Ev.exc = "")
            /\ \E out \in Outs : LoadNew(Ev.f, Ev.c, ObsLayer(Ev.c), out) /\ Post
TLoadInto == /\ Ev.op = "loadinto"
             /\ Check("returns without raising", Ev.exc = "")
             /\ \E out \in Outs : LoadInto(Ev.f, Ev.a, ObsLayer(Ev.a), out) /\ Post

TAccept == /\ l = Len(T.ev) + 1 /\ PrintT(<<"ACCEPT", tid>>) /\ l' = l + 1 /\ UNCHANGED <<vars, tid>>
TNext == \/ (l <= Len(T.ev) /\ (TCreate \/ TDecide \/ TLearn \/ TTest \/ TMutate \/ TClone \/ TSave \/ TLoadNew \/ TLoadInto)
             /\ l' = l + 1 /\ UNCHANGED tid)
         \/ TAccept
TSpec == TInit /\ [][TNext]_tvars
================================================================================
