SPECIFICATION Spec
CONSTANTS
  Params <- MCParams1t
  Vals <- MCVals4
  MaxB = 2
  MaxRows = 5
  Variant = "chan"
  Depth = 0
INVARIANT MomentsDef
INVARIANT CountDef
INVARIANT VarNonNeg
INVARIANT TypeOK
PROPERTY Frozen
PROPERTY Local
PROPERTY CarryExact
PROPERTY HandedPost
PROPERTY RowsCounted
VIEW core
CHECK_DEADLOCK FALSE
