INIT MCInit
NEXT Next
CONSTANTS
  Full = TRUE
  SC = 8
INVARIANT Legal
INVARIANT GreedyIsBestAllowed
INVARIANT InBounds
INVARIANT BatchShape
INVARIANT Override
CONSTRAINT Bound
VIEW core
CHECK_DEADLOCK FALSE
