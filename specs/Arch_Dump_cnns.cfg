INIT Init
NEXT Next
CONSTANTS
  Cfg <- MCCnnS
  Inits <- MCCnnSInits
ACTION_CONSTRAINT Dump
INVARIANT DumpInit
VIEW core
CHECK_DEADLOCK FALSE
