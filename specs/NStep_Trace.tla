------------------------------ MODULE NStep_Trace ------------------------------
(* Trace validation of MultiStepReplayBuffer + companion ReplayBuffer (C10).  *)
(* Event "add":  rew, done (per env), ret1 (id of the raw step add() returned,*)
(*   0 = None), nrows / rows1 = full snapshot of storage[:len] of both        *)
(*   buffers, one entry per position:                                         *)
(*     nrows[i] = [t, e, last, ret, done, ok]   (t,e) decoded from obs and    *)
(*        action, last = step whose next_obs the row carries, ret = stored    *)
(*        reward * 2^(gexp*(n-1)) (-1 if not an integer), ok = fields agree   *)
(*     rows1[i] = [t, e, ok]                                                  *)
(* Event "sample": the index-coupled sampling train_off_policy performs:      *)
(*   pairs[i] = [t1, e1, tn, en] decoded from row idx_i of both buffers.      *)
EXTENDS NStep, Json, IOUtils, TLCExt
CONSTANT Diag
Traces == JsonDeserialize(IOEnv.TRACE_FILE)
VARIABLES tid, l
tvars == <<vars, tid, l>>
T  == Traces[tid]
Ev == T.ev[l]
Check(name, c) == IF c THEN TRUE ELSE (Diag /\ PrintT(<<"FAILCLAUSE", tid, l, name>>) /\ FALSE)

TInit == /\ tid \in 1..Len(Traces) /\ l = 1
         /\ InitWith([n |-> Traces[tid].cfg.n, E |-> Traces[tid].cfg.E, N |-> Traces[tid].cfg.N,
                      gexp |-> Traces[tid].cfg.gexp, gnum |-> Traces[tid].cfg.gnum, gden |-> Traces[tid].cfg.gden])

Step == [rew |-> [e \in Env |-> Ev.rew[e]], done |-> [e \in Env |-> Ev.done[e]]]
H1   == Append(hist, Step)
Full == Len(H1) >= n
\* the E rows written by this add are at positions curN .. curN+E-1 (mod N) of the snapshot
NewRow(e) == Ev.nrows[((curN + e - 1) % N) + 1]
ObsK(e)   == NewRow(e).last - NewRow(e).t + 1

TAdd ==
  /\ Ev.op = "add"
  /\ Check("the operation returns without raising", Ev.exc = "")
  /\ IF ~Full
       THEN /\ Check("nothing is stored or returned before the window is full",
                     Ev.ret1 = 0 /\ Len(Ev.nrows) = 0 /\ Len(Ev.rows1) = 0)
            /\ Add(Step, [e \in Env |-> 1])
       ELSE /\ Check("add() returns the oldest raw step of the window", Ev.ret1 = T0(H1))
            /\ Check("snapshot has the expected number of rows", Len(Ev.nrows) = MinI(sizeN + E, N) /\ Len(Ev.rows1) = MinI(size1 + E, N))
            /\ Check("new rows start from the observed (obs, action) pair of the oldest step",
                     \A e \in Env : NewRow(e).ok /\ NewRow(e).t = T0(H1) /\ NewRow(e).e = e)
            /\ Check("window length within 1..n", \A e \in Env : ObsK(e) \in 1..n)
            /\ Check("NoCross: no step after a terminal step of this environment is summed",
                     \A e \in Env : ObsK(e) <= OwnEnd(WinOf(H1), e))
            /\ Check("a window is cut short only at an episode end (own, or another environment's)",
                     \A e \in Env : ObsK(e) \in AllowedK(WinOf(H1), e))
            /\ Add(Step, [e \in Env |-> ObsK(e)])
            /\ Check("stored return = discounted sum of the summed rewards",
                     \A i \in 0..(sizeN' - 1) : Ev.nrows[i + 1].ret = nstore'[i].ret)
            /\ Check("stored done flag is that of the last summed step",
                     \A i \in 0..(sizeN' - 1) : Ev.nrows[i + 1].done = nstore'[i].done)
            /\ Check("n-step rows are the expected (t,e,last) at every position",
                     \A i \in 0..(sizeN' - 1) : /\ Ev.nrows[i + 1].t = nstore'[i].t /\ Ev.nrows[i + 1].e = nstore'[i].e
                                               /\ Ev.nrows[i + 1].last = nstore'[i].t + nstore'[i].k - 1
                                               /\ Ev.nrows[i + 1].ok)
            /\ Check("k-th 1-step row = k-th n-step row (alignment incl. wrap-around)",
                     \A i \in 0..(size1' - 1) : /\ Ev.rows1[i + 1].t = store1'[i].t /\ Ev.rows1[i + 1].e = store1'[i].e
                                               /\ Ev.rows1[i + 1].ok)

TSample ==
  /\ Ev.op = "sample"
  /\ Check("the operation returns without raising", Ev.exc = "")
  /\ Check("index-coupled samples describe the same (obs, action)",
           \A i \in 1..Len(Ev.pairs) : /\ Ev.pairs[i].t1 = Ev.pairs[i].tn /\ Ev.pairs[i].e1 = Ev.pairs[i].en
                                       /\ \E p \in 0..(size1 - 1) : store1[p].t = Ev.pairs[i].t1 /\ store1[p].e = Ev.pairs[i].e1)
  /\ UNCHANGED vars

TAccept == /\ l = Len(T.ev) + 1 /\ PrintT(<<"ACCEPT", tid>>) /\ l' = l + 1 /\ UNCHANGED <<vars, tid>>
TNext == \/ (l <= Len(T.ev) /\ (TAdd \/ TSample) /\ l' = l + 1 /\ UNCHANGED tid)
         \/ TAccept
TSpec == TInit /\ [][TNext]_tvars
================================================================================
