SPECIFICATION Spec
CONSTANTS
  EnvSet <- MAEnvs
  AgentSet <- MAAgents
  Kinds <- TwoKinds
  MaxT = 2
  MaxRolls = 2
  MaxEp = 6
  Mode = "auto"
  ResetClears = FALSE
  FlagRule = "term"
INVARIANT NoLeak
CONSTRAINT Bound
CHECK_DEADLOCK FALSE
