INIT Init
NEXT NextAll
CONSTANTS
  Shapes <- MCShapesD
  Gs = {0, 1, 2, 4}
  Q = 4
  PDen = 4
  Shifts <- MCShiftsQ
INVARIANT DumpCase
INVARIANT ShiftCovariant
VIEW core
CHECK_DEADLOCK FALSE
