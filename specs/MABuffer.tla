------------------------------- MODULE MABuffer -------------------------------
(***************************************************************************)
(* Multi-agent replay buffer (agilerl.components.multi_agent_replay_buffer)*)
(* property C09.  A bounded FIFO of experiences; an experience is one      *)
(* environment step of ALL agents.  Ids as in Ring.tla.                    *)
(* save_to_memory_vect_envs(w) is modelled as the code performs it: the    *)
(* vectorised dictionaries are split per environment and appended one by   *)
(* one in environment order (pc/todo make the loop explicit).              *)
(***************************************************************************)
EXTENDS Naturals, Sequences, FiniteSets, TLC

CONSTANTS Caps, MaxAdded, MaxW

VARIABLES N, mem, added, last, act
core == <<N, mem, added>>
vars == <<N, mem, added, last, act>>

Range(f) == {f[x] : x \in DOMAIN f}
Min(a, b) == IF a <= b THEN a ELSE b

InitWith(n) ==
  /\ N = n /\ mem = <<>> /\ added = 0 /\ last = <<>> /\ act = [op |-> "init"]
Init == \E n \in Caps : InitWith(n)

\* deque(maxlen=N).append
Push(m, x) == IF Len(m) = N THEN Append(Tail(m), x) ELSE Append(m, x)

RECURSIVE PushAll(_, _, _)
PushAll(m, first, w) == IF w = 0 THEN m ELSE PushAll(Push(m, first), first + 1, w - 1)

SaveSingle ==
  /\ mem' = Push(mem, added + 1)
  /\ added' = added + 1
  /\ UNCHANGED <<N, last>>
  /\ act' = [op |-> "save1"]

SaveVect(w) ==
  /\ w \in 1..MaxW
  /\ mem' = PushAll(mem, added + 1, w)
  /\ added' = added + w
  /\ UNCHANGED <<N, last>>
  /\ act' = [op |-> "savev", w |-> w]

Sample(B, pos) ==
  /\ B \in 1..Len(mem)
  /\ pos \in [1..B -> 1..Len(mem)]
  /\ \A i, j \in 1..B : i # j => pos[i] # pos[j]
  /\ last' = [i \in 1..B |-> mem[pos[i]]]
  /\ UNCHANGED <<N, mem, added>>
  /\ act' = [op |-> "sample", B |-> B]

SaveVectAny == \E w \in 1..MaxW : SaveVect(w)
SampleAny   == \E B \in 1..Len(mem) : \E pos \in [1..B -> 1..Len(mem)] : Sample(B, pos)
Next == SaveSingle \/ SaveVectAny \/ SampleAny

Spec == Init /\ [][Next]_vars

LenOK      == Len(mem) = Min(N, added)
ContentsOK == Range(mem) = (added - Len(mem) + 1)..added
FifoOK     == \A i \in 1..Len(mem) : mem[i] = added - Len(mem) + i
SampleSound ==
  [][ (act'.op = "sample") =>
        /\ Range(last') \subseteq Range(mem)
        /\ Cardinality(Range(last')) = Len(last') ]_vars
Bound == added <= MaxAdded
================================================================================
