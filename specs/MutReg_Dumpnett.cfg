SPECIFICATION SpecDump
CONSTANTS
  MCCat <- CatNet
  MCSub <- SubNet
  RootClasses <- RootsNet
  FilterStrs <- FilterNet
  AssignSpecs <- AssignNet
  MaxSteps = 3
  DirectCalls = TRUE
CONSTRAINT Bound
ACTION_CONSTRAINT Dump
INVARIANT DumpInit
VIEW core
CHECK_DEADLOCK FALSE
