SPECIFICATION Spec
CONSTANTS
  EnvSet <- MAEnvs
  AgentSet <- MAAgents
  Kinds <- TwoKinds
  MaxT = 2
  MaxRolls = 2
  MaxEp = 6
  Mode = "auto"
  ResetClears = FALSE
  FlagRule = "either"
INVARIANT TypeOK
INVARIANT FlagsMarkEpisodeStarts
INVARIANT NoLeak
INVARIANT ObsChain
INVARIANT BootstrapObs
INVARIANT FirstFlagZero
CONSTRAINT Bound
CHECK_DEADLOCK FALSE
