SPECIFICATION Spec
CONSTANTS
  EnvSet <- MAEnvs
  AgentSet <- MAAgents
  Kinds <- TwoKinds
  MaxT = 2
  MaxRolls = 2
  MaxEp = 6
  FlagRule = "either"
INVARIANT TypeOK
INVARIANT FlagsMarkEpisodeStarts
INVARIANT NoLeak
INVARIANT ObsChain
INVARIANT FirstFlagZero
CONSTRAINT Bound
CHECK_DEADLOCK FALSE
