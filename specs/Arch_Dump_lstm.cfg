INIT Init
NEXT Next
CONSTANTS
  Cfg <- MCLstm
  Inits <- MCLstmInits
ACTION_CONSTRAINT Dump
INVARIANT DumpInit
VIEW core
CHECK_DEADLOCK FALSE
