------------------------------ MODULE Arch_MC ------------------------------
(* Small-bound instances of Arch for exhaustive checking (M1) and for the transition-relation     *)
(* dump that is replayed edge by edge on the real modules (M2).  The delta sets are the ones the  *)
(* code draws from, the bounds are the smallest ones that still exercise every guard on both      *)
(* sides.  The real modules are built with exactly these constructor arguments by                 *)
(* vfw/drive/arch.py (the dump prints the configuration record with tag CFG).                     *)
EXTENDS Arch, Json

D3  == <<16, 32, 64>>          \* node deltas drawn by the code (mlp, lstm, simba)
DC  == <<8, 16, 32>>           \* channel deltas (cnn, resnet) and latent deltas (multi, networks)
SeqsOver(S, lo, hi) == UNION { [1..n -> S] : n \in lo..hi }

(* ---- MLP: layers 1..3, nodes 16..80 ----------------------------------------------------------- *)
MCMlp == [kind |-> "mlp", name |-> "mlp", ni |-> 3, no |-> 2, minl |-> 1, maxl |-> 3, minn |-> 16, maxn |-> 80,
          deltas |-> D3, ln |-> TRUE, oln |-> TRUE, noisy |-> FALSE]
MCMlpInits == { [h |-> q] : q \in SeqsOver({16, 32, 48, 64, 80}, 1, 3) }
\* noisy layers, no normalisation, other bounds (min 2 layers)
MCMlpN == [kind |-> "mlp", name |-> "mlp", ni |-> 3, no |-> 2, minl |-> 2, maxl |-> 3, minn |-> 16, maxn |-> 64,
           deltas |-> D3, ln |-> FALSE, oln |-> FALSE, noisy |-> TRUE]
MCMlpNInits == { [h |-> q] : q \in SeqsOver({16, 32, 48, 64}, 2, 3) }

(* ---- CNN: 16x16 images, <= 3 layers, channels 8..24 ------------------------------------------- *)
MCCnn == [kind |-> "cnn", name |-> "cnn", inc |-> 2, inh |-> 16, depth |-> 0, no |-> 3, minl |-> 1, maxl |-> 3,
          minc |-> 8, maxc |-> 24, deltas |-> DC, ln |-> TRUE, nolayer |-> FALSE]
\* every well-formed architecture of the grid whose kernels are at most those the code itself would draw
\* (<= a quarter of the feature map they produce, or 1..3 for the first layer)
CnnGrid(c, CH, KS, ST, maxl) ==
  { a \in UNION { [ch : [1..n -> CH], ks : [1..n -> KS], st : [1..n -> ST]] : n \in 1..maxl } : CnnFMPos(c, a) }
Evolved(c, a) == \A i \in 2..Len(a.ch) : a.ks[i] <= CnnMaxK(c, [a EXCEPT !.ks[i] = 1], i)
MCCnnInits == { a \in CnnGrid(MCCnn, {8, 16, 24}, 1..4, 1..2, 3) : Evolved(MCCnn, a) }
\* the dump used for replay starts from a few architectures and takes what the mutations reach
MCCnnD == [MCCnn EXCEPT !.maxc = 16]
MCCnnDInits == { [ch |-> <<8>>, ks |-> <<3>>, st |-> <<1>>], [ch |-> <<16>>, ks |-> <<3>>, st |-> <<2>>],
                 [ch |-> <<8, 8>>, ks |-> <<3, 3>>, st |-> <<1, 1>>], [ch |-> <<8, 16>>, ks |-> <<4, 2>>, st |-> <<2, 1>>] }
\* small images (8x8): add_layer never has room
MCCnnS == [MCCnn EXCEPT !.inh = 8, !.ln = FALSE, !.maxc = 16]
MCCnnSInits == { a \in CnnGrid(MCCnnS, {8, 16}, 1..3, 1..2, 3) : Evolved(MCCnnS, a) }
\* Conv3d (multi-agent image observations): depth-2 sample input
MCCnn3 == [MCCnn EXCEPT !.depth = 2, !.ln = FALSE, !.maxc = 16]
\* ANY constructible architecture on 8x8 images (kernels up to the image size): FeatureMapPositive is
\* NOT preserved by change_kernel from such starts (expected counterexample, replayed on the real CNN)
MCCnnAny == [MCCnn EXCEPT !.inh = 8, !.ln = FALSE, !.maxc = 16]
MCCnnAnyInits == CnnGrid(MCCnnAny, {8}, 1..8, {1}, 3)

(* ---- LSTM, SimBa, ResNet ---------------------------------------------------------------------- *)
MCLstm == [kind |-> "lstm", name |-> "lstm", ni |-> 3, no |-> 2, minl |-> 1, maxl |-> 3, minn |-> 16, maxn |-> 80, deltas |-> D3]
MCLstmInits == { [l |-> l, h |-> h] : l \in 1..3, h \in {16, 32, 48, 64, 80} }
MCSimba == [kind |-> "simba", name |-> "simba", ni |-> 3, no |-> 2, minb |-> 1, maxb |-> 3, minn |-> 16, maxn |-> 80, deltas |-> D3, sf |-> 2]
MCSimbaInits == { [b |-> b, h |-> h] : b \in 1..3, h \in {16, 32, 48, 64, 80} }
MCResnet == [kind |-> "resnet", name |-> "resnet", inc |-> 2, inh |-> 8, no |-> 3, k |-> 3, s |-> 1, minb |-> 1, maxb |-> 3,
             minc |-> 8, maxc |-> 40, deltas |-> DC, sf |-> 2]
MCResnetInits == { [b |-> b, c |-> c] : b \in 1..3, c \in {8, 16, 24, 32, 40} }

(* ---- MultiInput: image + vector members ------------------------------------------------------- *)
MCSubCnn == [kind |-> "cnn", name |-> "img", inc |-> 2, inh |-> 16, depth |-> 0, no |-> 0, minl |-> 1, maxl |-> 2,
             minc |-> 8, maxc |-> 16, deltas |-> DC, ln |-> FALSE, nolayer |-> FALSE]
MCSubMlp == [kind |-> "mlp", name |-> "vector_mlp", ni |-> 5, no |-> 0, minl |-> 1, maxl |-> 2, minn |-> 16, maxn |-> 48,
             deltas |-> D3, ln |-> TRUE, oln |-> FALSE, noisy |-> FALSE]
MCMulti == [kind |-> "multi", no |-> 3, minlat |-> 8, maxlat |-> 32, ldeltas |-> DC, fixed |-> 0,
            subs |-> << [key |-> "img", cfg |-> MCSubCnn], [key |-> "vector_mlp", cfg |-> MCSubMlp] >>]
MCMultiInits == { [lat |-> 16, subs |-> << [ch |-> <<8>>, ks |-> <<3>>, st |-> <<1>>], [h |-> <<16>>] >>],
                  [lat |-> 8,  subs |-> << [ch |-> <<8, 16>>, ks |-> <<3, 2>>, st |-> <<2, 1>>], [h |-> <<32, 16>>] >>] }
\* vector members concatenated directly (5 dims), only the image member is evolvable
MCMultiV == [MCMulti EXCEPT !.fixed = 5, !.subs = << [key |-> "img", cfg |-> MCSubCnn] >>]
MCMultiVInits == { [lat |-> 16, subs |-> << [ch |-> <<8>>, ks |-> <<3>>, st |-> <<1>>] >>] }

(* ---- Network: latent + mlp encoder (node mutations only) + mlp head --------------------------- *)
MCEnc  == [kind |-> "mlp", name |-> "encoder", ni |-> 3, no |-> 0, minl |-> 1, maxl |-> 3, minn |-> 16, maxn |-> 48,
           deltas |-> D3, ln |-> TRUE, oln |-> TRUE, noisy |-> FALSE]
MCHead == [kind |-> "mlp", name |-> "value", ni |-> 0, no |-> 0, minl |-> 1, maxl |-> 2, minn |-> 16, maxn |-> 48,
           deltas |-> D3, ln |-> TRUE, oln |-> FALSE, noisy |-> FALSE]
MCNet == [kind |-> "net", minlat |-> 8, maxlat |-> 32, ldeltas |-> DC, enc |-> MCEnc, head |-> MCHead,
          hextra |-> 0, hno |-> 2, hpath |-> "head_net.", logstd |-> 0, adv |-> 0]
MCNetInits == { [lat |-> 16, enc |-> [h |-> <<16>>], head |-> [h |-> <<16>>]],
                [lat |-> 24, enc |-> [h |-> <<32, 16>>], head |-> [h |-> <<32, 48>>]] }
\* image encoder + stochastic-actor head (wrapped, log_std)
MCNetC == [MCNet EXCEPT !.enc = [MCSubCnn EXCEPT !.name = "encoder", !.ln = TRUE, !.nolayer = TRUE], !.head = [MCHead EXCEPT !.name = "actor"],
                        !.hpath = "head_net._wrapped.", !.logstd = 2]
MCNetCInits == { [lat |-> 16, enc |-> [ch |-> <<8, 8>>, ks |-> <<3, 3>>, st |-> <<1, 1>>], head |-> [h |-> <<16>>]],
                 [lat |-> 24, enc |-> [ch |-> <<16>>, ks |-> <<3>>, st |-> <<2>>], head |-> [h |-> <<32, 16>>]] }

(* ---- M2: print the configuration, the initial states and every transition once ---------------- *)
DumpInit == (TLCGet("level") = 1) => PrintT(<<"INIT", ToJson(arch)>>)
Dump == PrintT(<<"TR", ToJson([from |-> arch, act |-> act', to |-> arch', surv |-> Common(Cfg, arch, arch')])>>)
DumpCfg == PrintT(<<"CFG", ToJson(Cfg)>>)
ASSUME DumpCfg
================================================================================
