SPECIFICATION Spec
CONSTANTS
  Params <- ParamsLife
  Vals <- ValsL
  MaxB = 2
  MaxRows = 3
  Ops <- AllOps
  Variant = "chan"
  Depth = 0
INVARIANT MomentsDef
INVARIANT CountDef
INVARIANT VarNonNeg
INVARIANT TypeOK
PROPERTY Frozen
PROPERTY Local
PROPERTY CarryExact
PROPERTY HandedPost
PROPERTY RowsCounted
VIEW core
CHECK_DEADLOCK FALSE
