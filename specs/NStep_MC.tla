------------------------------- MODULE NStep_MC -------------------------------
EXTENDS NStep
P(a, b, c, g) == [n |-> a, E |-> b, N |-> c, gexp |-> g, gnum |-> 1, gden |-> Pow2(g)]
\* a discount that is not 1/2^k: gamma = num/den (gamma = 0: every return is the first reward alone)
PG(a, b, c, num, den) == [n |-> a, E |-> b, N |-> c, gexp |-> 0, gnum |-> num, gden |-> den]
MCParams == { P(1,1,2,1), P(2,1,3,1), P(3,1,2,1), P(3,1,4,2), P(2,2,3,1), P(2,2,4,1), P(3,2,4,0), P(3,2,5,1),
              PG(3,1,4,0,1), PG(3,1,3,9,10), P(2,2,2,1) }
MCParamsBig == MCParams \cup { P(4,2,6,1), P(2,3,4,1), PG(2,2,3,99,100) }     \* P(3,3,7,1) does not finish within an hour
================================================================================
