INIT Init
NEXT Next
CONSTANTS
  Cfg <- MCMlp
  Inits <- MCMlpInits
ACTION_CONSTRAINT Dump
INVARIANT DumpInit
VIEW core
CHECK_DEADLOCK FALSE
