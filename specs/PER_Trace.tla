------------------------------- MODULE PER_Trace -------------------------------
(* Trace validation of the real PrioritizedReplayBuffer (alpha = 1, integer     *)
(* priorities, stubbed variates) against PER.tla (C11).  Post-state fields are  *)
(* read from the real object: leaves (sum tree), sumroot = sum_tree.sum(),      *)
(* minroot = min_tree.min() (1e9 for inf), maxp, size = len(buffer), ptr.       *)
(* Sample events carry the returned idxs and, per row, weight^(1/beta) as an    *)
(* exact fraction wnum/wden.                                                    *)
EXTENDS PER, Json, IOUtils, TLCExt
CONSTANT Diag
Traces == JsonDeserialize(IOEnv.TRACE_FILE)
VARIABLES tid, l
tvars == <<vars, tid, l>>
T  == Traces[tid]
Ev == T.ev[l]
Check(name, c) == IF c THEN TRUE ELSE (Diag /\ PrintT(<<"FAILCLAUSE", tid, l, name>>) /\ FALSE)
TInit == /\ tid \in 1..Len(Traces) /\ l = 1 /\ InitWith(Traces[tid].cfg.N)

Post ==
  /\ Check("returns without raising", Ev.exc = "")
  /\ Check("len(buffer)", Ev.size = size')
  /\ Check("priorities of stored transitions (sum-tree leaves)", \A i \in 0..(Cap - 1) : Ev.leaves[i + 1] = Leaf(sumT', i))
  /\ Check("min-tree leaves", \A i \in 0..(Cap - 1) : Ev.minleaves[i + 1] = Leaf(minT', i))
  /\ Check("running total = direct sum over stored priorities", Ev.sumroot = SumLeaves(sumT', Cap))
  /\ Check("running minimum = direct minimum over stored priorities", Ev.minroot = MinLeaves(minT'))
  /\ Check("max priority = highest priority seen so far", Ev.maxp = maxp')
  /\ Check("tree pointer follows the storage cursor", Ev.ptr = ptr' /\ Ev.cursor = cursor')

TAdd == Ev.op = "add" /\ Check("width", Ev.w \in 1..N) /\ Add(Ev.w) /\ Post
TClear == Ev.op = "clear" /\ Clear /\ Post
TUpdate ==
  /\ Ev.op = "update"
  /\ Update(Ev.idxs, Ev.pris)
  /\ Post
TSample ==
  /\ Ev.op = "sample"
  /\ Check("returns without raising", Ev.exc = "")
  /\ Check("B rows", Len(Ev.idxs) = Ev.B /\ Len(Ev.wnum) = Ev.B)
  /\ Check("rows handed out are the rows stored at the sampled indices", Ev.rows_match)
  /\ LET D == Ev.B * UDen IN
       \A i \in 1..Ev.B : LET x == Ev.idxs[i]  ub == UB(i - 1, Ev.u[i], Ev.B) IN
         /\ Check("sampled index is a stored transition", x \in 0..(size - 1))
         /\ Check("sampled index has positive priority", Leaf(sumT, x) >= 1)
         /\ Check("index lies in its stratum of the priority mass", Prefix(x) * D <= ub /\ ub <= Prefix(x + 1) * D)
         /\ Check("weight = (min priority / priority)^beta", Ev.wnum[i] * Leaf(sumT, x) = Ev.wden[i] * minT[1])
         /\ Check("weight in (0,1]", Ev.wnum[i] >= 1 /\ Ev.wnum[i] <= Ev.wden[i])
  /\ out' = [idx |-> Ev.idxs, wnum |-> Ev.wnum, wden |-> Ev.wden, ub |-> [i \in 1..Ev.B |-> UB(i - 1, Ev.u[i], Ev.B)]]
  /\ nops' = nops + 1
  /\ UNCHANGED <<N, sumT, minT, ptr, cursor, size, maxp, seen>>
  /\ act' = [op |-> "sample", B |-> Ev.B, u |-> Ev.u]
  /\ Post

TAccept == /\ l = Len(T.ev) + 1 /\ PrintT(<<"ACCEPT", tid>>) /\ l' = l + 1 /\ UNCHANGED <<vars, tid>>
TNext == \/ (l <= Len(T.ev) /\ (TAdd \/ TClear \/ TUpdate \/ TSample) /\ l' = l + 1 /\ UNCHANGED tid)
         \/ TAccept
TSpec == TInit /\ [][TNext]_tvars
================================================================================
