----------------------------------- MODULE Track -----------------------------------
(***************************************************************************)
(* Target tracking protocol of the value-based learners -- property C08,   *)
(* second half.                                                            *)
(*                                                                         *)
(* Every learner keeps, next to each online network, a target network.     *)
(* The protocol says WHEN a learn step must blend the online weights into  *)
(* the target                                                              *)
(*     target' = tau * online' + (1 - tau) * target          ("lerp")      *)
(* and when it must leave it alone ("noop"): every learn step for DQN,     *)
(* CQN, Rainbow DQN, MADDPG (PF = 1); every PF-th learn step, counted by   *)
(* the agent's own learn counter, for the delayed actor-critic learners    *)
(* DDPG, TD3, MATD3 (all their targets, actor and critics, at the same     *)
(* steps).  The counter belongs to the agent: it is copied by Clone, kept  *)
(* by Mutate, stored by Save and restored by Load.                         *)
(*                                                                         *)
(* State per slot a: alive, lc (learn counter), lag (learn steps the       *)
(* online networks have taken that the targets have not yet absorbed),     *)
(* hist (class demanded at each learn step of the agent's lineage),        *)
(* exp (class demanded of the operation just executed: "lerp" / "noop" for *)
(* the slot that learned, "na" for every other slot and operation).        *)
(* The weights themselves are not modelled: the harness classifies, for    *)
(* every target tensor of the real agent, the relation between             *)
(* target_after, online_after and target_before (Track_Trace).             *)
(***************************************************************************)
EXTENDS Integers, Sequences, FiniteSets, TLC

CONSTANTS NSlots,    \* agent slots
          NFiles,    \* checkpoint files
          PF,        \* policy delay (1 = every learn step)
          MaxLearn   \* bound on learn counters (state constraint)

VARIABLES alive, lc, lag, hist, exp, saved, act
vars == <<alive, lc, lag, hist, exp, saved, act>>
core == <<alive, lc, lag, hist, exp, saved>>

Slots == 1..NSlots
Files == 1..NFiles
Nil   == [lc |-> -1, lag |-> -1, hist |-> <<>>]

Init ==
  /\ alive = [a \in Slots |-> FALSE]
  /\ lc = [a \in Slots |-> 0] /\ lag = [a \in Slots |-> 0] /\ hist = [a \in Slots |-> <<>>]
  /\ exp = [a \in Slots |-> "na"]
  /\ saved = [f \in Files |-> Nil]
  /\ act = [op |-> "init"]

NoDemand == [s \in Slots |-> "na"]
\* class the protocol demands of the learn step that takes the counter to n
Demand(n) == IF n % PF = 0 THEN "lerp" ELSE "noop"

Create(a) ==
  /\ ~alive[a]
  /\ alive' = [alive EXCEPT ![a] = TRUE]
  /\ lc' = [lc EXCEPT ![a] = 0] /\ lag' = [lag EXCEPT ![a] = 0] /\ hist' = [hist EXCEPT ![a] = <<>>]
  /\ exp' = NoDemand
  /\ act' = [op |-> "create", a |-> a]
  /\ UNCHANGED saved

Learn(a) ==
  /\ alive[a]
  /\ lc' = [lc EXCEPT ![a] = @ + 1]
  /\ exp' = [s \in Slots |-> IF s = a THEN Demand(lc[a] + 1) ELSE "na"]
  /\ lag' = [lag EXCEPT ![a] = IF Demand(lc[a] + 1) = "lerp" THEN 0 ELSE @ + 1]
  /\ hist' = [hist EXCEPT ![a] = Append(@, Demand(lc[a] + 1))]
  /\ act' = [op |-> "learn", a |-> a]
  /\ UNCHANGED <<alive, saved>>

\* n = the counter the copy starts from.  The protocol copies it (n = lc[a]); the trace specification passes
\* the value read from the real agent, so that "every PF-th step" is counted by the agent's own counter.
CloneN(a, c, n) ==
  /\ alive[a] /\ ~alive[c]
  /\ alive' = [alive EXCEPT ![c] = TRUE]
  /\ lc' = [lc EXCEPT ![c] = n]
  /\ lag' = [lag EXCEPT ![c] = lag[a]] /\ hist' = [hist EXCEPT ![c] = hist[a]]
  /\ exp' = NoDemand
  /\ act' = [op |-> "clone", a |-> a, c |-> c]
  /\ UNCHANGED saved
Clone(a, c) == CloneN(a, c, lc[a])

MutateN(a, n) ==
  /\ alive[a]
  /\ lc' = [lc EXCEPT ![a] = n]
  /\ exp' = NoDemand
  /\ act' = [op |-> "mutate", a |-> a]
  /\ UNCHANGED <<alive, lag, hist, saved>>
Mutate(a) == MutateN(a, lc[a])

Save(a, f) ==
  /\ alive[a]
  /\ saved' = [saved EXCEPT ![f] = [lc |-> lc[a], lag |-> lag[a], hist |-> hist[a]]]
  /\ exp' = NoDemand
  /\ act' = [op |-> "save", a |-> a, f |-> f]
  /\ UNCHANGED <<alive, lc, lag, hist>>

\* load into a fresh slot (classmethod load) or over a living agent (load_checkpoint)
LoadN(f, c, n) ==
  /\ saved[f] # Nil
  /\ alive' = [alive EXCEPT ![c] = TRUE]
  /\ lc' = [lc EXCEPT ![c] = n]
  /\ lag' = [lag EXCEPT ![c] = saved[f].lag] /\ hist' = [hist EXCEPT ![c] = saved[f].hist]
  /\ exp' = NoDemand
  /\ act' = [op |-> "load", f |-> f, c |-> c]
  /\ UNCHANGED saved
Load(f, c) == LoadN(f, c, saved[f].lc)

Discard(a) ==
  /\ alive[a]
  /\ alive' = [alive EXCEPT ![a] = FALSE]
  /\ exp' = NoDemand
  /\ act' = [op |-> "discard", a |-> a]
  /\ UNCHANGED <<lc, lag, hist, saved>>

Next == \/ \E a \in Slots : Create(a) \/ Learn(a) \/ Mutate(a) \/ Discard(a)
        \/ \E a, c \in Slots : Clone(a, c)
        \/ \E a \in Slots, f \in Files : Save(a, f) \/ Load(f, a)
Spec == Init /\ [][Next]_vars

---------------------------------------------------------------------------
TypeOK == /\ alive \in [Slots -> BOOLEAN] /\ lc \in [Slots -> Nat] /\ lag \in [Slots -> Nat]
          /\ exp \in [Slots -> {"lerp", "noop", "na"}]
\* TargetTracks: along the lineage of every living agent (through clones and checkpoints) learn step number i
\* blends the online weights into the targets iff PF divides i -- stated on the history, not on the counter
TargetTracks == \A a \in Slots : alive[a] =>
                  /\ Len(hist[a]) = lc[a]
                  /\ \A i \in 1..Len(hist[a]) : (hist[a][i] = "lerp") <=> (i % PF = 0)
\* the targets are never more than PF - 1 learn steps behind the online networks
BoundedLag == \A a \in Slots : alive[a] => lag[a] < PF /\ lag[a] = lc[a] % PF
\* only learn steps touch the targets' relation to the online networks, and only the learner's own
OnlyLearnDemands == [][\A a \in Slots : exp'[a] # "na" => (lc'[a] = lc[a] + 1 /\ act'.op = "learn" /\ act'.a = a)]_vars
Frame == [][\A a \in Slots : (act'.op = "learn" /\ act'.a # a) => (lc'[a] = lc[a] /\ lag'[a] = lag[a] /\ hist'[a] = hist[a])]_vars

Bound == \A a \in Slots : lc[a] <= MaxLearn
================================================================================
