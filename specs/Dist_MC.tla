-------------------------------- MODULE Dist_MC --------------------------------
(* Input grids for the exhaustive check of Dist.tla (property C16) and the case dump that is     *)
(* replayed into the real StochasticActor / PPO / IPPO by vfw/drive/dist.py.                     *)
(* Discrete families: probabilities in units of 1/PDen = 1/8 (logit = ln p is handed to the real *)
(* code), every mask that leaves one legal outcome per component.                                *)
(* Box: mu in units of 1/4, log_std = ks ln 2, eps in units of 1/2.                              *)
(* MultiDiscrete components of a single outcome (nvec entry 1, probability 8/8) are part of the   *)
(* grid: <<1, 2>>, <<2, 1, 2>>.                                                                  *)
EXTENDS Dist, Json

D(fam, nvec, pv) == [fam |-> fam, nvec |-> nvec, pvals |-> pv]
B(d, mus, kset, es) == [fam |-> "box", d |-> d, mus |-> mus, kset |-> kset, es |-> es]

\* quick tier
ShapesQ == { D("disc", <<2>>, 1..7), D("disc", <<3>>, 1..6), D("disc", <<4>>, {1, 2, 3, 5}),
             D("multi", <<2, 3>>, {1, 2, 3, 4, 5, 6}), D("multi", <<3, 2>>, {2, 3, 4, 6}), D("multi", <<2, 2, 2>>, {2, 4, 6}),
             D("multi", <<3>>, {1, 2, 5, 6}), D("multi", <<1, 2>>, {2, 6, 8}),
             D("bits", <<1>>, 1..7), D("bits", <<2>>, {1, 2, 4, 7}), D("bits", <<3>>, {2, 4, 7}),
             B(1, {-6, -1, 0, 2}, {-1, 0, 1}, {-3, -2, -1, 0, 1, 2, 3}),
             B(2, {-2, 1}, {-1, 0, 1}, {-2, 0, 1, 3}),
             B(3, {-2, 1}, {-1, 1}, {-1, 0, 2}) }
\* thorough tier
ShapesT == { D("disc", <<2>>, 1..7), D("disc", <<3>>, 1..6), D("disc", <<4>>, 1..5), D("disc", <<5>>, {1, 2, 3}),
             D("multi", <<1, 2>>, {1, 2, 3, 5, 6, 7, 8}), D("multi", <<2, 1, 2>>, {2, 6, 8}),
             D("multi", <<2, 3>>, 1..7), D("multi", <<3, 2>>, 1..7), D("multi", <<2, 2, 2>>, {1, 2, 4, 6, 7}),
             D("multi", <<4, 2>>, {1, 2, 3, 5, 6}), D("multi", <<3>>, 1..6), D("multi", <<2, 3, 2>>, {2, 4, 6}),
             D("bits", <<1>>, 1..7), D("bits", <<2>>, 1..7), D("bits", <<3>>, {1, 2, 4, 7}), D("bits", <<4>>, {2, 7}),
             B(1, {-6, -1, 0, 2}, {-1, 0, 1}, {-3, -2, -1, 0, 1, 2, 3}),
             B(2, {-2, 0, 1}, {-1, 0, 1}, {-3, -2, 0, 1, 3}),
             B(3, {-2, 1}, {-1, 0, 1}, {-1, 0, 2}) }

\* M2: one state per case (phase "dist"), printed with what the specification demands:
\* per component the masked pmf (numerators, total) and the probability of every joint action
CompTable(i) == [c \in 1..NComp(i) |-> [num |-> [x \in 1..Size(i, c) |-> MaskedNum(i, c, x - 1)], den |-> MaskedDen(i, c)]]
SetToSeq(S) == LET RECURSIVE F(_) F(T) == IF T = {} THEN <<>> ELSE LET x == CHOOSE y \in T : TRUE IN <<x>> \o F(T \ {x}) IN F(S)
JointTable(i) == LET acts == SetToSeq(AllActs(i)) IN
                   [j \in 1..Len(acts) |-> [a |-> acts[j], num |-> JointNum(i, acts[j]), legal |-> Legal(i, acts[j])]]
DumpNext == ApplyMask \/ Normalise \/ BoxDist
DumpCase == phase = "dist" =>
  IF inp.fam = "box"
  THEN LET a == [d \in 1..inp.nvec[1] |-> BoxAct(inp, d)] IN
       PrintT(<<"CASE", ToJson([fam |-> "box", d |-> inp.nvec[1], mu |-> inp.mu, ks |-> inp.ks, e |-> inp.e, act |-> a,
                                qn |-> BoxQnTo(inp, a, inp.nvec[1]), kk |-> SumTo(inp.ks, inp.nvec[1])])>>)
  ELSE PrintT(<<"CASE", ToJson([fam |-> inp.fam, nvec |-> inp.nvec, p |-> inp.p, m |-> inp.m, pden |-> PDen,
                                comps |-> CompTable(inp), den |-> JointDen(inp), table |-> JointTable(inp)])>>)
DumpInit == KInit /\ HIdle
DumpStep == DumpNext /\ UNCHANGED hvars

\* history machine
HBound == TLCGet("level") <= 7
================================================================================
