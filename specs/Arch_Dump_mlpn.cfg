INIT Init
NEXT Next
CONSTANTS
  Cfg <- MCMlpN
  Inits <- MCMlpNInits
ACTION_CONSTRAINT Dump
INVARIANT DumpInit
VIEW core
CHECK_DEADLOCK FALSE
