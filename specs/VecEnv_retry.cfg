SPECIFICATION Spec
CONSTANTS
  ClientAssumptions = {}
  NW = 2
  EpLen <- MCEpLen
  MaxCalls = 3
  MaxFaults = 1
  FaultKinds = {"kill"}
  ExcTypes = {"ValueError"}
  Timeouts = {"none"}
INVARIANT CloseNeverRaises
INVARIANT NoWorkerLeft
CHECK_DEADLOCK TRUE
