SPECIFICATION Spec
CONSTANTS
  Datasets <- MCDatasetsBig
  Envs <- MCEnvs
  Wraps <- MCWraps
  MaxOps = 5
  Variant = "prev"
INVARIANT LabelFactorised
INVARIANT ShapeOK
INVARIANT EncodingOK
INVARIANT RewardBinary
INVARIANT RewardOK
INVARIANT SkillPass
PROPERTY Independent
CONSTRAINT Bound
CHECK_DEADLOCK FALSE
