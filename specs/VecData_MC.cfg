SPECIFICATION Spec
CONSTANTS
  Params <- MCParams
  MaxSteps = 5
  Acts = {0, 3}
INVARIANT ObsIsCurrent
INVARIANT ResetRestoresAgents
PROPERTY OnlyDoneEnvResets
CONSTRAINT Bound
VIEW core
CHECK_DEADLOCK FALSE
