---------------------------------- MODULE GAE ----------------------------------
(***************************************************************************)
(* Generalised advantage estimation of the on-policy learners (property    *)
(* C17): agilerl.algorithms.ppo.PPO.learn and                               *)
(* agilerl.algorithms.ippo.IPPO._learn_individual, fed as train_on_policy / *)
(* train_multi_agent_on_policy feed them.                                   *)
(*                                                                         *)
(* A rollout has T time steps and one *column* per (environment, agent of   *)
(* the shared policy): Cols = (1..E) \X (1..G).  Collect appends one step   *)
(* (reward, value, and done = "the previous step ended the episode", i.e.   *)
(* the flag the training loops record one step late), EndRollout binds the  *)
(* critic's value of the final next observation and next_done, GaeStep(t)   *)
(* is one iteration of the code's masked backward loop (t = T .. 1),        *)
(* Returns adds the values, Flatten produces the training rows.             *)
(*                                                                         *)
(* Exact arithmetic: gamma = gn/2, lambda = ln/2 with gn, ln in 0..2, all   *)
(* rewards/values integers; advantages and returns are stored multiplied by *)
(* S = 2 * 4^(MaxT-1), which makes every intermediate an integer            *)
(* (invariant ScaleExact says that no division below ever has a remainder). *)
(*                                                                         *)
(* Rows are identified data: every field of a row is the id <<t,e,g>> of    *)
(* the sample it was taken from.                                            *)
(***************************************************************************)
EXTENDS Integers, Sequences, FiniteSets, TLC

CONSTANTS Params,      \* set of records [T, E, G, gn, ln] explored
          Rews, Vals,  \* per-column choices of the full grid (Next)
          MaxT,        \* bound on T; fixes the scale S
          Layouts,     \* layouts Flatten may use: [obs, act, logp, adv, ret, val] -> order
          Perturb      \* replacement values used by NoLeak / ColumnsSeparate

VARIABLES par,                      \* [T, E, G, gn, ln]
          rew, val, done,           \* Seq([Cols -> Int]) collected so far
          nv, nd,                   \* critic value of the final next observation, next_done   [Cols -> Int]
          phase,                    \* "collect" -> "gae" -> "flatten" -> "learn"
          tcur, last,               \* loop variable and last_gae_lambda of the backward loop
          adv, ret,                 \* [1..T -> [Cols -> Int]] scaled by S
          rows,                     \* flattened training rows
          act

vars == <<par, rew, val, done, nv, nd, phase, tcur, last, adv, ret, rows, act>>
core == <<par, rew, val, done, nv, nd, phase, tcur, last, adv, ret, rows>>

T  == par.T
E  == par.E
G  == par.G
gn == par.gn
ln == par.ln
Cols  == (1..E) \X (1..G)
Steps == 1..T
Ids   == {<<t, c[1], c[2]>> : t \in Steps, c \in Cols}
NRows == T * E * G

RECURSIVE Pow(_, _)
Pow(b, k) == IF k = 0 THEN 1 ELSE b * Pow(b, k - 1)
RECURSIVE SumOver(_, _, _)
SumOver(f, a, b) == IF a > b THEN 0 ELSE f[a] + SumOver(f, a + 1, b)
Min(X) == CHOOSE x \in X : \A y \in X : x <= y
S == 2 * Pow(4, MaxT - 1)
ZeroRow  == [c \in Cols |-> 0]
ZeroMat  == [t \in Steps |-> ZeroRow]

Roll == [rew |-> rew, val |-> val, done |-> done, nv |-> nv, nd |-> nd]

InitWith(p) ==
  /\ par = p
  /\ rew = <<>> /\ val = <<>> /\ done = <<>>
  /\ nv = [c \in (1..p.E) \X (1..p.G) |-> 0] /\ nd = [c \in (1..p.E) \X (1..p.G) |-> 0]
  /\ phase = "collect" /\ tcur = 0
  /\ last = [c \in (1..p.E) \X (1..p.G) |-> 0]
  /\ adv = <<>> /\ ret = <<>> /\ rows = <<>>
  /\ act = [op |-> "init"]
Init == \E p \in Params : p.T <= MaxT /\ InitWith(p)

--------------------------------------------------------------------------------
(* The rollout as the training loops collect it *)
Collect(r, v, d) ==
  /\ phase = "collect" /\ Len(rew) < T
  /\ rew' = Append(rew, r) /\ val' = Append(val, v) /\ done' = Append(done, d)
  /\ UNCHANGED <<par, nv, nd, phase, tcur, last, adv, ret, rows>>
  /\ act' = [op |-> "collect"]

EndRollout(v, d) ==
  /\ phase = "collect" /\ Len(rew) = T
  /\ nv' = v /\ nd' = d
  /\ phase' = "gae" /\ tcur' = T /\ last' = ZeroRow
  /\ adv' = ZeroMat                            \* torch.zeros_like(rewards)
  /\ UNCHANGED <<par, rew, val, done, ret, rows>>
  /\ act' = [op |-> "end"]

--------------------------------------------------------------------------------
(* The masked backward recursion exactly as PPO.learn / IPPO._learn_individual *)
(* perform it, as operators of a rollout record R so that they can also be     *)
(* applied to perturbed rollouts.                                              *)
NonTerm(R, t, c) == 1 - (IF t = T THEN R.nd[c] ELSE R.done[t + 1][c])       \* next_non_terminal
NextVal(R, t, c) == IF t = T THEN R.nv[c] ELSE R.val[t + 1][c]              \* nextvalue
Delta2(R, t, c)  == 2 * R.rew[t][c] + gn * NextVal(R, t, c) * NonTerm(R, t, c) - 2 * R.val[t][c]   \* 2 * delta
\* advantages[t] = last_gae_lambda = delta + gamma * gae_lambda * next_non_terminal * last_gae_lambda   (times S)
GaeRow(R, t, lst) == [c \in Cols |->
    (S \div 2) * Delta2(R, t, c) + (gn * ln * NonTerm(R, t, c) * lst[c]) \div 4]
GaeRowExact(R, t, lst) == \A c \in Cols : (gn * ln * NonTerm(R, t, c) * lst[c]) % 4 = 0

GaeStep(t) ==
  /\ phase = "gae" /\ t = tcur /\ t >= 1
  /\ LET row == GaeRow(Roll, t, last) IN
       /\ adv' = [adv EXCEPT ![t] = row]
       /\ last' = row
  /\ tcur' = t - 1
  /\ UNCHANGED <<par, rew, val, done, nv, nd, phase, ret, rows>>
  /\ act' = [op |-> "gaestep", t |-> t]

Returns ==
  /\ phase = "gae" /\ tcur = 0
  /\ ret' = [t \in Steps |-> [c \in Cols |-> adv[t][c] + S * val[t][c]]]     \* returns = advantages + values
  /\ phase' = "flatten"
  /\ UNCHANGED <<par, rew, val, done, nv, nd, tcur, last, adv, rows>>
  /\ act' = [op |-> "returns"]

\* the whole loop as a function of the rollout (used by NoLeak on perturbed rollouts)
RECURSIVE RecRow(_, _)
RecRow(R, t) == IF t > T THEN ZeroRow ELSE GaeRow(R, t, RecRow(R, t + 1))
RecAdv(R) == [t \in Steps |-> RecRow(R, t)]

--------------------------------------------------------------------------------
(* Flattening: every field of the batch is laid out in some order of the ids.  *)
(* An order is a permutation <<x,y,z>> of <<"t","e","g">>, x varying slowest.  *)
Orders == { <<"t","e","g">>, <<"t","g","e">>, <<"e","t","g">>, <<"e","g","t">>, <<"g","t","e">>, <<"g","e","t">> }
Dim(x)       == IF x = "t" THEN T ELSE IF x = "e" THEN E ELSE G
Coord(id, x) == IF x = "t" THEN id[1] ELSE IF x = "e" THEN id[2] ELSE id[3]
Pos(id, o)   == ((Coord(id, o[1]) - 1) * Dim(o[2]) + (Coord(id, o[2]) - 1)) * Dim(o[3]) + Coord(id, o[3])
Ord(o)       == [k \in 1..NRows |-> CHOOSE id \in Ids : Pos(id, o) = k]
RowsOf(lay)  == [k \in 1..NRows |->
                   [obs |-> Ord(lay.obs)[k], act |-> Ord(lay.act)[k], logp |-> Ord(lay.logp)[k],
                    adv |-> Ord(lay.adv)[k], ret |-> Ord(lay.ret)[k], val |-> Ord(lay.val)[k]]]
Uniform(o)   == [obs |-> o, act |-> o, logp |-> o, adv |-> o, ret |-> o, val |-> o]

FlattenRows(rs) ==
  /\ phase = "flatten"
  /\ rows' = rs
  /\ phase' = "learn"
  /\ UNCHANGED <<par, rew, val, done, nv, nd, tcur, last, adv, ret>>
Flatten(lay) == FlattenRows(RowsOf(lay)) /\ act' = [op |-> "flatten", lay |-> lay]

\* what the code does (documentation + negative control): PPO swaps (t,e) -> (e,t) for every field;
\* IPPO concatenates observations/actions over agents (g,t,e) but reshapes log-probs and estimates
\* from (t,g,e)
PpoLayout  == Uniform(<<"e","t","g">>)
IppoLayout == [obs |-> <<"g","t","e">>, act |-> <<"g","t","e">>, logp |-> <<"t","g","e">>,
               adv |-> <<"t","g","e">>, ret |-> <<"t","g","e">>, val |-> <<"t","g","e">>]

--------------------------------------------------------------------------------
(* Next-state relations: full value grid, and id-coded values with arbitrary    *)
(* done placement (for several columns)                                        *)
CollectAny == \E r \in [Cols -> Rews], v \in [Cols -> Vals], d \in [Cols -> 0..1] : Collect(r, v, d)
EndAny     == \E v \in [Cols -> Vals], d \in [Cols -> 0..1] : EndRollout(v, d)
GaeAny     == \E t \in Steps : GaeStep(t)
FlattenAny == \E lay \in Layouts : Flatten(lay)
Next == CollectAny \/ EndAny \/ GaeAny \/ Returns \/ FlattenAny
Spec == Init /\ [][Next]_vars

IdRew(t) == [c \in Cols |-> 1 + ((t + c[1] + 2 * c[2]) % 3)]
IdVal(t) == [c \in Cols |-> ((t + c[2]) % 2) * 4 + 2 * (c[1] - 1) + (c[2] - 1)]
CollectId == \E d \in [Cols -> 0..1] :
               /\ (Len(rew) = 0 => d = ZeroRow)          \* the loops start every rollout with done = 0
               /\ Collect(IdRew(Len(rew) + 1), IdVal(Len(rew) + 1), d)
EndId     == \E d \in [Cols -> 0..1] : EndRollout(IdVal(T + 1), d)
NextId == CollectId \/ EndId \/ GaeAny \/ Returns \/ FlattenAny
SpecId == Init /\ [][NextId]_vars

--------------------------------------------------------------------------------
(* The property's definition, per episode segment, independent of the loop     *)
Ended(R, k, c)  == (IF k = T THEN R.nd[c] ELSE R.done[k + 1][c]) = 1        \* step k was the last of its episode
SegEnd(R, t, c) == LET B == {k \in t..T : Ended(R, k, c)} IN IF B = {} THEN T ELSE Min(B)
\* bootstrap of step k inside the segment ending at K: the next value of the same episode; at the end of
\* the segment only if the segment was cut by the end of the rollout (then: the critic's next value)
Boot2(R, k, K, c) == IF k < K THEN gn * R.val[k + 1][c]
                     ELSE IF Ended(R, K, c) THEN 0 ELSE gn * R.nv[c]
TD2(R, k, K, c)   == 2 * R.rew[k][c] + Boot2(R, k, K, c) - 2 * R.val[k][c]
\* S * sum_{l >= 0} (gamma*lambda)^l * delta_{t+l}, summed to the end of the episode segment of t
AdvDef(R, t, c) == LET K == SegEnd(R, t, c) IN
  SumOver([k \in t..K |-> Pow(gn * ln, k - t) * Pow(4, MaxT - 1 - (k - t)) * TD2(R, k, K, c)], t, K)
RetDef(R, t, c) == AdvDef(R, t, c) + S * R.val[t][c]

Computed(t) == phase # "collect" /\ t > tcur          \* advantages[t] has been written by the loop
\* (adv and ret are final once phase = "flatten"; the estimates are judged there and while the loop runs)

RecursionMeetsDefinition ==
  /\ phase \in {"gae", "flatten"} => \A t \in Steps, c \in Cols : Computed(t) => adv[t][c] = AdvDef(Roll, t, c)
  /\ phase = "flatten" => \A t \in Steps, c \in Cols : ret[t][c] = RetDef(Roll, t, c)

ScaleExact == (phase = "gae" /\ tcur >= 1) => GaeRowExact(Roll, tcur, last)

\* everything of column c that follows the episode boundary after step B is replaced
PerturbAfter(R, c, B, x, dd) ==
  [rew  |-> [k \in Steps |-> IF k > B THEN [R.rew[k] EXCEPT ![c] = x] ELSE R.rew[k]],
   val  |-> [k \in Steps |-> IF k > B THEN [R.val[k] EXCEPT ![c] = x] ELSE R.val[k]],
   done |-> [k \in Steps |-> IF k > B + 1 THEN [R.done[k] EXCEPT ![c] = dd] ELSE R.done[k]],
   nv   |-> [R.nv EXCEPT ![c] = x],
   nd   |-> IF B < T THEN [R.nd EXCEPT ![c] = dd] ELSE R.nd]
\* rewards / values that follow the start of a new episode never influence the estimates before it
NoLeak ==
  phase = "flatten" =>
    \A t \in Steps, c \in Cols :
      LET B == SegEnd(Roll, t, c) IN
        Ended(Roll, B, c) =>
          \A x \in Perturb, dd \in 0..1 :
            /\ RecAdv(PerturbAfter(Roll, c, B, x, dd))[t][c] = adv[t][c]
            /\ AdvDef(PerturbAfter(Roll, c, B, x, dd), t, c) = adv[t][c]

\* ... separately for every parallel environment and every agent
PerturbOthers(R, c, x, dd) ==
  [rew  |-> [k \in Steps |-> [c2 \in Cols |-> IF c2 = c THEN R.rew[k][c] ELSE x]],
   val  |-> [k \in Steps |-> [c2 \in Cols |-> IF c2 = c THEN R.val[k][c] ELSE x]],
   done |-> [k \in Steps |-> [c2 \in Cols |-> IF c2 = c THEN R.done[k][c] ELSE dd]],
   nv   |-> [c2 \in Cols |-> IF c2 = c THEN R.nv[c] ELSE x],
   nd   |-> [c2 \in Cols |-> IF c2 = c THEN R.nd[c] ELSE dd]]
ColumnsSeparate ==
  phase = "flatten" =>
    \A c \in Cols, x \in Perturb, dd \in 0..1, t \in Steps :
      RecAdv(PerturbOthers(Roll, c, x, dd))[t][c] = adv[t][c]

\* each estimate, old log-probability and old value sits in the row of the observation and action of the
\* (t, env, agent) it was computed for
RowsAligned ==
  phase = "learn" =>
    \A k \in 1..Len(rows) : LET r == rows[k] IN
         /\ r.obs \in Ids
         /\ r.act = r.obs /\ r.logp = r.obs /\ r.adv = r.obs /\ r.ret = r.obs /\ r.val = r.obs
\* the model's Flatten moreover uses every sample exactly once (a sanity property of the model; C17 does not
\* demand it of the code)
RowsComplete ==
  phase = "learn" =>
    /\ Len(rows) = NRows
    /\ \A k1, k2 \in 1..Len(rows) : rows[k1].obs = rows[k2].obs => k1 = k2

TypeOK ==
  /\ phase \in {"collect", "gae", "flatten", "learn"}
  /\ Len(rew) <= T /\ Len(val) = Len(rew) /\ Len(done) = Len(rew)
  /\ tcur \in 0..T
================================================================================
