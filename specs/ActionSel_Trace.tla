---------------------------- MODULE ActionSel_Trace ----------------------------
(* Trace validation of get_action of the real AgileRL agents (C14).           *)
(* One trace = one call.  cfg.call = the call (what the stubbed policy        *)
(* network returned, masks, exploration setting, bounds, noise, env-defined   *)
(* actions), one event per group (agent):                                      *)
(*   exc      "" or the exception get_action raised                            *)
(*   shape    leading (batch) shape of the returned array                      *)
(*   width    number of scalars per row                                        *)
(*   outs     per row: component indices / bits / values in units of 1/SC      *)
(*            (OffGrid where the value is not a multiple of 1/SC)              *)
(*   cls      per row, per dimension: -1 below low, 0 inside, 1 above high     *)
(*   contains per row: action_space.contains(row) as computed by gymnasium     *)
EXTENDS ActionSel, Json, IOUtils, TLCExt
CONSTANT Diag
Traces == JsonDeserialize(IOEnv.TRACE_FILE)
VARIABLES tid, l
tvars == <<vars, tid, l>>
T  == Traces[tid]
Ev == T.ev[l]
Check(name, c) == IF c THEN TRUE ELSE (Diag /\ PrintT(<<"FAILCLAUSE", tid, l, name>>) /\ FALSE)
CheckRows(name, bad) == IF bad = {} THEN TRUE
                        ELSE (Diag /\ PrintT(<<"FAILCLAUSE", tid, l, name \o ": rows " \o ToString(bad)>>) /\ FALSE)

TInit == /\ tid \in 1..Len(Traces) /\ l = 1 /\ InitWith(Traces[tid].cfg.call)

G == call[l]
RowsG == DOMAIN G.rows
Obs == [shape |-> Ev.shape, width |-> Ev.width, outs |-> Ev.outs, cls |-> Ev.cls]

TSelect ==
  /\ Check("Returns: get_action returns without raising", Ev.exc = "")
  /\ Check("BatchShape: one action per observation of the batch",
           ShapeOK(G, Ev.shape) /\ Ev.width = Width(G) /\ Len(Ev.outs) = Len(G.rows) /\ Len(Ev.cls) = Len(G.rows)
           /\ Len(Ev.contains) = Len(G.rows))
  /\ CheckRows("Override: rows with an environment-defined action carry exactly that action",
               {i \in RowsG : Flagged(G.rows[i]) /\ Ev.outs[i] # G.rows[i].envdef})
  /\ CheckRows("Legal: valid index of the action space and not masked",
               {i \in RowsG : ~Flagged(G.rows[i]) /\ ~LegalRow(G, G.rows[i], Ev.outs[i])})
  /\ CheckRows("GreedyIsBestAllowed: with exploration off no allowed action has a higher value than the chosen one",
               {i \in RowsG : ~Flagged(G.rows[i]) /\ ~GreedyRow(G, G.rows[i], Ev.outs[i])})
  /\ CheckRows("InBounds: every dimension inside its own [low, high]",
               {i \in RowsG : ~Flagged(G.rows[i]) /\ ~InBoundsRow(G, Ev.outs[i], Ev.cls[i])})
  /\ CheckRows("Contains: action_space.contains(action)",
               {i \in RowsG : (G.kind # "cont" \/ G.req # "free") /\ ~Ev.contains[i]})
  /\ CheckRows("Value: deterministic action = clip(rescale(network output) + noise)",
               {i \in RowsG : ~RowOK(G, G.rows[i], Ev.outs[i], Ev.cls[i])})
  /\ Select(Obs)

TAccept == /\ l = Len(T.ev) + 1 /\ l = Len(call) + 1 /\ PrintT(<<"ACCEPT", tid>>) /\ l' = l + 1 /\ UNCHANGED <<vars, tid>>
TNext == \/ (l <= Len(T.ev) /\ l <= Len(call) /\ TSelect /\ l' = l + 1 /\ UNCHANGED tid)
         \/ TAccept
TSpec == TInit /\ [][TNext]_tvars
================================================================================
