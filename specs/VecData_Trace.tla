----------------------------- MODULE VecData_Trace -----------------------------
(* Trace validation for C12: results returned by the real vectorised environment  *)
(* (mode "vec"), by the single-environment auto-reset wrapper (mode "wrapper") and *)
(* by the scripted environment stepped on its own (mode "ref", validates the       *)
(* script against this specification's environment model) -- position by position. *)
EXTENDS VecData, Json, IOUtils, TLCExt
CONSTANT Diag
Traces == JsonDeserialize(IOEnv.TRACE_FILE)
VARIABLES tid, l
tvars == <<vars, tid, l>>
T  == Traces[tid]
Ev == T.ev[l]
Check(name, c) == IF c THEN TRUE ELSE (Diag /\ PrintT(<<"FAILCLAUSE", tid, l, name>>) /\ FALSE)
TInit == /\ tid \in 1..Len(Traces) /\ l = 1
         /\ InitWith([NW |-> Traces[tid].cfg.NW, A |-> Traces[tid].cfg.A, L |-> Traces[tid].cfg.L,
                      leave |-> Traces[tid].cfg.leave, endk |-> Traces[tid].cfg.endk])

R(i, a) == Ev.out[i][a]
Post ==
  /\ Check("the call returns without raising", Ev.exc = "")
  /\ Check("declared shapes and dtypes", Ev.shape_ok)
  /\ Check("batches returned earlier are unchanged (copy mode)", Ev.prev_ok)
  /\ Check("observation at position i is environment i's own (first observation of the new episode after an auto-reset)",
           \A i \in 1..NW, a \in AG : (out'[i][a].present \/ out'[i][a].obs # 0) => R(i, a).obs = out'[i][a].obs)
  /\ Check("reward at position i is environment i's own reward for its own action",
           \A i \in 1..NW, a \in AG : out'[i][a].present => R(i, a).rew = out'[i][a].rew)
  /\ Check("termination flags", \A i \in 1..NW, a \in AG : out'[i][a].present => R(i, a).term = out'[i][a].term)
  /\ Check("truncation flags", \A i \in 1..NW, a \in AG : out'[i][a].present => R(i, a).trunc = out'[i][a].trunc)
  /\ Check("info", \A i \in 1..NW, a \in AG : out'[i][a].present => R(i, a).tick = out'[i][a].tick)
  /\ Check("info keys that only some sub-environments report are present exactly where they were reported",
           \* (the auto-reset wrapper hands out the info of its reset at an episode end; only its restart condition is demanded)
           T.cfg.mode # "wrapper" => \A i \in 1..NW, a \in AG : out'[i][a].present => (R(i, a).aux = out'[i][a].aux /\ R(i, a).aux2 = out'[i][a].aux2))

\* reset(seed = s) of the vector environment resets sub-environment i with seed s + i - 1 (a single environment with s itself)
TReset == /\ Ev.op = "reset" /\ Reset /\ Post
          /\ Check("every sub-environment is reset with the seed it was given (seed + position)",
                   \A i \in 1..NW : Ev.seeds[i] = T.cfg.seed + i - 1)
TStep  == /\ Ev.op = "step"
          /\ Step([i \in 1..NW |-> [a \in AG |-> Ev.actions[i][a]]])
          /\ Post
TAccept == /\ l = Len(T.ev) + 1 /\ PrintT(<<"ACCEPT", tid>>) /\ l' = l + 1 /\ UNCHANGED <<vars, tid>>
TNext == \/ (l <= Len(T.ev) /\ (TReset \/ TStep) /\ l' = l + 1 /\ UNCHANGED tid)
         \/ TAccept
TSpec == TInit /\ [][TNext]_tvars
================================================================================
