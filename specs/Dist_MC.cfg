SPECIFICATION SpecK
CONSTANTS
  Shapes <- ShapesQ
  PDen = 8
  HObs = {}
  HActs = {}
  HMaxW = 0
  Impl = "arg"
INVARIANT KTypeOK
INVARIANT MassOne
INVARIANT MaskedZero
INVARIANT ProductOverComponents
INVARIANT Support
INVARIANT BoxQuadratic
PROPERTY DistFrozen
VIEW kvars
CHECK_DEADLOCK FALSE
