SPECIFICATION Spec
CONSTANTS
  Caps = {1,2,3,5}
  Pris = {1,3,8}
  Bs = {1,2,4}
  UDen = 4
  MaxOps = 3
INVARIANT TreeSum
INVARIANT TreeMin
INVARIANT LeavesOK
INVARIANT PtrOK
INVARIANT MaxPOK
PROPERTY NewGetsMax
PROPERTY SampleOK
CONSTRAINT Bound
VIEW coreN
CHECK_DEADLOCK FALSE
