------------------------------- MODULE GAE_Trace -------------------------------
(* Trace validation of the real PPO.learn / IPPO.learn against GAE.tla (C17).       *)
(* One trace = one call of learn() on one rollout (for IPPO: one group of agents    *)
(* sharing a policy).  Matrices are indexed [e][g] (environment, agent of the group).*)
(* Numbers are the real float32 values multiplied by S = 2*4^(MaxT-1); a value that  *)
(* is not an integer after scaling is logged as the sentinel -1073741824.            *)
(*   collect   rew, val, done         one time step as the training loop recorded it *)
(*   end       nv, nd                 value the critic returned for the final next   *)
(*                                    observation (stubbed input), next_done         *)
(*   gaestep   t, adv                 row t of the advantages the hook exported      *)
(*   returns   observed, ret[t]       returns the hook exported (PPO; IPPO forms them *)
(*                                    after flattening: observed = FALSE, checked in *)
(*                                    the rows)                                      *)
(*   perturbed adv[t]                 advantages of a second call in which every     *)
(*                                    reward / value / next value after the first    *)
(*                                    episode boundary of each column was replaced by*)
(*                                    unrelated numbers (done flags unchanged)       *)
(*   flatten   rows                   the rows handed to the minibatch loop, decoded:*)
(*                                    obs, act, logp = <<t,e,g>> decoded from the    *)
(*                                    observation / action / old log-prob of the row,*)
(*                                    adv, ret, val = scaled numbers of the row      *)
(*   anomaly   clause                 the driver could not even project the call     *)
EXTENDS GAE, Json, IOUtils, TLCExt
CONSTANT Diag
Traces == JsonDeserialize(IOEnv.TRACE_FILE)
VARIABLES tid, l
tvars == <<vars, tid, l>>
Tr == Traces[tid]
Ev == Tr.ev[l]
Check(name, c) == IF c THEN TRUE ELSE (Diag /\ PrintT(<<"FAILCLAUSE", tid, l, name>>) /\ FALSE)

TInit == /\ tid \in 1..Len(Traces) /\ l = 1
         /\ InitWith([T |-> Traces[tid].cfg.T, E |-> Traces[tid].cfg.E, G |-> Traces[tid].cfg.G,
                      gn |-> Traces[tid].cfg.gn, ln |-> Traces[tid].cfg.ln])

M(x) == [c \in Cols |-> x[c[1]][c[2]]]
Col(id) == <<id[2], id[3]>>

TCollect == Ev.op = "collect" /\ Collect(M(Ev.rew), M(Ev.val), M(Ev.done))
TEnd     == Ev.op = "end" /\ EndRollout(M(Ev.nv), M(Ev.nd))

TGaeStep ==
  /\ Ev.op = "gaestep"
  /\ Check("loop-order: the backward loop visits every time step once, last step first", Ev.t = tcur)
  /\ GaeStep(Ev.t)
  /\ IF Ev.t = T
       THEN Check("gae-last: A_T = r_T + gamma*V(final next obs)*(1-next_done) - V_T per (env, agent)",
                  \A c \in Cols : Ev.adv[c[1]][c[2]] = adv'[Ev.t][c])
       ELSE Check("gae-inner: A_t = delta_t + gamma*lambda*(1-d_{t+1})*A_{t+1}, delta_t = r_t + gamma*V_{t+1}*(1-d_{t+1}) - V_t",
                  \A c \in Cols : Ev.adv[c[1]][c[2]] = adv'[Ev.t][c])

TReturns ==
  /\ Ev.op = "returns"
  /\ Returns
  /\ (Ev.observed => Check("returns: returns = advantages + values",
                             \A t \in Steps, c \in Cols : Ev.ret[t][c[1]][c[2]] = ret'[t][c]))

TPerturbed ==
  /\ Ev.op = "perturbed"
  /\ phase = "flatten"
  /\ Check("noleak: estimates before an episode boundary do not change when everything after it is replaced",
           \A c \in Cols : LET B == SegEnd(Roll, 1, c) IN
              Ended(Roll, B, c) => \A t \in 1..B : Ev.adv[t][c[1]][c[2]] = adv[t][c])
  /\ UNCHANGED vars

NR == Len(Ev.rows)
TFlatten ==
  /\ Ev.op = "flatten"
  /\ phase = "flatten"
  /\ Check("rows-ids: the observation of every row is the observation of one (t, env, agent) of the rollout",
           \A k \in 1..NR : <<Ev.rows[k].obs[1], Ev.rows[k].obs[2], Ev.rows[k].obs[3]>> \in Ids)
  /\ Check("rows-action: the action of a row is the action taken at the row's observation",
           \A k \in 1..NR : Ev.rows[k].act = Ev.rows[k].obs)
  /\ Check("rows-logp: the old log-prob of a row belongs to the row's observation and action",
           \A k \in 1..NR : Ev.rows[k].logp = Ev.rows[k].obs)
  /\ Check("rows-value: the old value of a row is the value recorded for the row's (t, env, agent)",
           \A k \in 1..NR : LET id == Ev.rows[k].obs IN Ev.rows[k].val = S * val[id[1]][Col(id)])
  /\ Check("rows-advantage: the advantage of a row is the estimate computed for the row's (t, env, agent)",
           \A k \in 1..NR : LET id == Ev.rows[k].obs IN Ev.rows[k].adv = adv[id[1]][Col(id)])
  /\ Check("rows-return: the return of a row is the return computed for the row's (t, env, agent)",
           \A k \in 1..NR : LET id == Ev.rows[k].obs IN Ev.rows[k].ret = ret[id[1]][Col(id)])
  \* all value fields verified: the row's estimate fields carry the id of its observation
  /\ FlattenRows([k \in 1..NR |-> LET r == Ev.rows[k] IN
                   [obs |-> r.obs, act |-> r.act, logp |-> r.logp, adv |-> r.obs, ret |-> r.obs, val |-> r.obs]])
  /\ act' = [op |-> "flatten"]

TAnomaly == /\ Ev.op = "anomaly" /\ Check(Ev.clause, FALSE) /\ UNCHANGED vars

TAccept == /\ l = Len(Tr.ev) + 1 /\ PrintT(<<"ACCEPT", tid>>) /\ l' = l + 1 /\ UNCHANGED <<vars, tid>>
TNext == \/ (l <= Len(Tr.ev) /\ (TCollect \/ TEnd \/ TGaeStep \/ TReturns \/ TPerturbed \/ TFlatten \/ TAnomaly)
              /\ l' = l + 1 /\ UNCHANGED tid)
         \/ TAccept
TSpec == TInit /\ [][TNext]_tvars
================================================================================
