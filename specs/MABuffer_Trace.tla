---------------------------- MODULE MABuffer_Trace ----------------------------
EXTENDS MABuffer, Json, IOUtils, TLCExt
CONSTANT Diag
Traces == JsonDeserialize(IOEnv.TRACE_FILE)
VARIABLES tid, l
tvars == <<vars, tid, l>>
T  == Traces[tid]
Ev == T.ev[l]
ToSet(s) == {s[i] : i \in DOMAIN s}
Check(name, c) == IF c THEN TRUE ELSE (Diag /\ PrintT(<<"FAILCLAUSE", tid, l, name>>) /\ FALSE)

TInit == /\ tid \in 1..Len(Traces) /\ l = 1 /\ InitWith(Traces[tid].cfg.N)

Post ==
  /\ Check("the operation returns without raising", Ev.exc = "")
  /\ Check("len(buffer) = min(N, added)", Ev.size = Len(mem'))
  /\ Check("stored ids = the most recent ones", ToSet(Ev.contents) = Range(mem'))
  /\ Check("fields and agents of every experience belong together", Ev.rows_ok)
  /\ Check("batches handed out earlier are unchanged", Ev.handed_ok)

TSave1 == Ev.op = "save1" /\ SaveSingle /\ Post
TSaveV == /\ Ev.op = "savev"
          /\ mem' = PushAll(mem, added + 1, Ev.w) /\ added' = added + Ev.w
          /\ UNCHANGED <<N, last>> /\ act' = [op |-> "savev", w |-> Ev.w]
          /\ Post
TSample ==
  /\ Ev.op = "sample"
  /\ Check("batch size within length", Ev.B \in 1..Len(mem))
  /\ Check("sample has B rows", Len(Ev.ids) = Ev.B)
  /\ Check("sampled ids are stored ids", ToSet(Ev.ids) \subseteq Range(mem))
  /\ Check("no duplicates in one batch", Cardinality(ToSet(Ev.ids)) = Ev.B)
  /\ Sample(Ev.B, [i \in 1..Ev.B |-> CHOOSE p \in 1..Len(mem) : mem[p] = Ev.ids[i]])
  /\ Post

TAccept == /\ l = Len(T.ev) + 1 /\ PrintT(<<"ACCEPT", tid>>) /\ l' = l + 1 /\ UNCHANGED <<vars, tid>>
TNext == \/ (l <= Len(T.ev) /\ (TSave1 \/ TSaveV \/ TSample) /\ l' = l + 1 /\ UNCHANGED tid)
         \/ TAccept
TSpec == TInit /\ [][TNext]_tvars
================================================================================
