SPECIFICATION SpecDump
CONSTANTS
  MCCat <- CatCustom
  MCSub <- SubCustom
  RootClasses <- RootsCustom
  FilterStrs <- FilterCustom
  AssignSpecs <- AssignCustom
  MaxSteps = 3
  DirectCalls = FALSE
CONSTRAINT Bound
ACTION_CONSTRAINT Dump
INVARIANT DumpInit
VIEW core
CHECK_DEADLOCK FALSE
