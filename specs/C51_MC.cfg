SPECIFICATION Spec
CONSTANTS
  Shapes <- MCShapesQ
  Gs = {0, 1, 2, 4}
  Q = 4
  PDen = 4
  Shifts <- MCShiftsQ
INVARIANT TypeOK
INVARIANT MassConserved
INVARIANT MeanConserved
INVARIANT InRange
INVARIANT Neighbours
INVARIANT NonNeg
INVARIANT StepMass
INVARIANT RunAllSame
PROPERTY IndicesFrozen
CONSTRAINT Bound
VIEW core
CHECK_DEADLOCK FALSE
