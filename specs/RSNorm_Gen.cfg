SPECIFICATION GSpec
CONSTANTS
  Params <- GenParams
  Vals <- ValsA
  MaxB = 3
  MaxRows = 6
  Ops <- AllOps
  Variant = "chan"
  Depth = 9
INVARIANT Emit
INVARIANT MomentsDef
CONSTRAINT GenBound
CHECK_DEADLOCK FALSE
