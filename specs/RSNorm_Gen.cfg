SPECIFICATION Spec
CONSTANTS
  Params <- GenParams
  Vals <- MCValsG
  MaxB = 3
  MaxRows = 6
  Variant = "chan"
  Depth = 9
INVARIANT Emit
INVARIANT MomentsDef
CONSTRAINT GenBound
CHECK_DEADLOCK FALSE
