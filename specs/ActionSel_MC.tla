----------------------------- MODULE ActionSel_MC -----------------------------
(* Grids for the exhaustive check and for the case dump replayed into AgileRL. *)
(* Levels: only the order of q-values matters (-2/2 stand for extreme values,  *)
(* equal levels are ties).  Continuous numbers are in units of 1/8.            *)
(* The grid is enumerated through quantifiers in the initial predicate (TLC    *)
(* is very slow at normalising large sets of nested records).                  *)
EXTENDS ActionSel, Json

CONSTANT Full          \* TRUE: Discrete(4) over 5 levels; FALSE: over 3 levels

Lv5 == -2..2
Lv3 == -1..1
Vecs(n, S) == [1..n -> S]
Masks(n)   == {m \in [1..n -> {0, 1}] : \E i \in 1..n : m[i] = 1}

DRow(q, m, e, ed) == [q |-> q, mask |-> m, explore |-> e, envdef |-> ed, x |-> <<>>, noise |-> <<>>]
CRow(x, nz, ed)   == [q |-> <<>>, mask |-> <<>>, explore |-> 0, envdef |-> ed, x |-> x, noise |-> nz]
DGroup(sizes, single, rows) == [kind |-> "disc", single |-> single, sizes |-> sizes, lo |-> <<>>, hi |-> <<>>,
                                mode |-> "", req |-> "", rows |-> rows]
BGroup(n, single, rows)     == [kind |-> "bits", single |-> single, sizes |-> <<n>>, lo |-> <<>>, hi |-> <<>>,
                                mode |-> "", req |-> "", rows |-> rows]
CGroup(lo, hi, mode, req, single, rows) == [kind |-> "cont", single |-> single, sizes |-> <<>>, lo |-> lo, hi |-> hi,
                                mode |-> mode, req |-> req, rows |-> rows]

\* ---- Discrete(n): every value vector over the levels, every non-empty mask, exploration off/on,
\* observation with and without batch dimension
LevelsFor(n) == IF n <= 3 \/ Full THEN Lv5 ELSE Lv3
InitDisc == \E n \in 1..4 : \E q \in Vecs(n, LevelsFor(n)), m \in Masks(n), e \in {0, 1}, s \in BOOLEAN :
               InitWith(<<DGroup(<<n>>, s, <<DRow(q, m, e, <<>>)>>)>>)

\* ---- MultiDiscrete([2,3]): masks keep one legal entry per component
MDMasks == {m \in [1..5 -> {0, 1}] : (m[1] = 1 \/ m[2] = 1) /\ (m[3] = 1 \/ m[4] = 1 \/ m[5] = 1)}
InitMD == \E q \in Vecs(5, Lv3), m \in MDMasks, e \in {0, 1} :
               InitWith(<<DGroup(<<2, 3>>, FALSE, <<DRow(q, m, e, <<>>)>>)>>)

\* ---- MultiBinary(3): any mask (the all-zero action is always legal)
InitMB == \E q \in Vecs(3, Lv3), m \in [1..3 -> {0, 1}], e \in {0, 1} :
               InitWith(<<BGroup(3, FALSE, <<DRow(q, m, e, <<>>)>>)>>)

\* ---- Box: asymmetric per-dimension bounds [-1,3] x [1/2,1] and the negative interval [-3,-1]
LoA == <<-8, 4>>
HiA == <<24, 8>>
LoB == <<-24>>
HiB == <<-8>>
LoC == <<-16>>         \* [-2, 1/2]: MADDPG/MATD3 only accept low <= 0 < high in the first dimension
HiC == <<4>>
XOf(mode) == IF mode = "tanh" THEN {-8, -4, 0, 4, 8} ELSE IF mode = "sigm" THEN {0, 2, 4, 6, 8} ELSE {-8000, -8, 0, 8, 8000}
Noise == {-800, -4, 0, 4, 800}
Modes == {"tanh", "sigm", "none"}
InitCont ==
  \/ \E md \in Modes : \E x \in Vecs(2, XOf(md)), nz \in Vecs(2, Noise) :
        InitWith(<<CGroup(LoA, HiA, md, "exact", FALSE, <<CRow(x, nz, <<>>)>>)>>)
  \/ \E md \in Modes : \E x \in Vecs(1, XOf(md)), nz \in Vecs(1, Noise), s \in BOOLEAN :
        InitWith(<<CGroup(LoB, HiB, md, "exact", s, <<CRow(x, nz, <<>>)>>)>>)
  \/ \E md \in Modes, rq \in {"inb", "free"} : \E x \in Vecs(2, XOf(md)) :
        InitWith(<<CGroup(LoA, HiA, md, rq, FALSE, <<CRow(x, <<0, 0>>, <<>>)>>)>>)

\* ---- batches of two rows: rows are judged independently, each under its own mask
InitBatch == \E e \in {0, 1} : \E q1 \in Vecs(2, Lv3), q2 \in Vecs(2, Lv3), m1 \in Masks(2), m2 \in Masks(2) :
               InitWith(<<DGroup(<<2>>, FALSE, <<DRow(q1, m1, e, <<>>), DRow(q2, m2, e, <<>>)>>)>>)

\* ---- multi-agent: two agents with different action spaces, per-agent masks, environment-defined
\* actions in some rows (all agents discrete or all continuous, as MADDPG/MATD3/IPPO require)
EDs(n) == {<<>>} \cup {<<a>> : a \in 0..(n - 1)}
InitMA ==
  \/ \E e \in {0, 1} : \E q1 \in Vecs(2, {0, 1}), m1 \in Masks(2), e1 \in EDs(2),
                          q3 \in Vecs(3, {0, 1}), m3 \in Masks(3), e3 \in {<<>>, <<0>>, <<2>>} :
        InitWith(<<DGroup(<<2>>, FALSE, <<DRow(q1, m1, e, e1)>>), DGroup(<<3>>, FALSE, <<DRow(q3, m3, e, e3)>>)>>)
  \/ \E xa \in Vecs(2, {-8, 0, 8}), na \in Vecs(2, {-800, 0, 800}), ea \in {<<>>, <<0, 6>>},
        xb \in {<<-8>>, <<4>>}, nb \in {<<-800>>, <<0>>, <<800>>}, eb \in {<<>>, <<-8>>} :
        InitWith(<<CGroup(LoA, HiA, "tanh", "exact", FALSE, <<CRow(xa, na, ea)>>),
                   CGroup(LoC, HiC, "tanh", "exact", FALSE, <<CRow(xb, nb, eb)>>)>>)

MCInit == InitDisc \/ InitMD \/ InitMB \/ InitCont \/ InitBatch \/ InitMA

\* ---- dump of the grid (initial states), replayed into the real agents by vfw/drive/actionsel.py
DumpInit == (TLCGet("level") = 1) => PrintT(<<"CASE", ToJson(call)>>)
================================================================================
