----------------------------- MODULE ActionSel_MC -----------------------------
(* Grids for the exhaustive check and for the case dump replayed into AgileRL. *)
(* Levels: only the order of q-values matters (-2/2 stand for extreme values,  *)
(* equal levels are ties).  Continuous numbers are in units of 1/8.            *)
EXTENDS ActionSel, Json

Lv5 == -2..2
Lv3 == -1..1
Vecs(n, S) == [1..n -> S]
Masks(n)   == {m \in [1..n -> {0, 1}] : \E i \in 1..n : m[i] = 1}

DRow(q, m, e, ed) == [q |-> q, mask |-> m, explore |-> e, envdef |-> ed, x |-> <<>>, noise |-> <<>>]
CRow(x, nz, ed)   == [q |-> <<>>, mask |-> <<>>, explore |-> 0, envdef |-> ed, x |-> x, noise |-> nz]
DGroup(sizes, single, rows) == [kind |-> "disc", single |-> single, sizes |-> sizes, lo |-> <<>>, hi |-> <<>>,
                                mode |-> "", req |-> "", rows |-> rows]
BGroup(n, single, rows)     == [kind |-> "bits", single |-> single, sizes |-> <<n>>, lo |-> <<>>, hi |-> <<>>,
                                mode |-> "", req |-> "", rows |-> rows]
CGroup(lo, hi, mode, req, single, rows) == [kind |-> "cont", single |-> single, sizes |-> <<>>, lo |-> lo, hi |-> hi,
                                mode |-> mode, req |-> req, rows |-> rows]

\* ---- Discrete(n): every value vector over L, every non-empty mask, exploration off/on
DiscRows(n, L) == {DRow(q, m, e, <<>>) : q \in Vecs(n, L), m \in Masks(n), e \in {0, 1}}
DiscCalls(Ns, L) == UNION {{<<DGroup(<<n>>, s, <<r>>)>> : r \in DiscRows(n, L), s \in BOOLEAN} : n \in Ns}

\* ---- MultiDiscrete([2,3]): masks keep one legal entry per component
MDMasks == {m \in [1..5 -> {0, 1}] : (m[1] = 1 \/ m[2] = 1) /\ (m[3] = 1 \/ m[4] = 1 \/ m[5] = 1)}
MDCalls == {<<DGroup(<<2, 3>>, FALSE, <<DRow(q, m, e, <<>>)>>)>> : q \in Vecs(5, Lv3), m \in MDMasks, e \in {0, 1}}

\* ---- MultiBinary(3): any mask (the all-zero action is always legal)
MBCalls == {<<BGroup(3, FALSE, <<DRow(q, m, e, <<>>)>>)>> : q \in Vecs(3, Lv3), m \in [1..3 -> {0, 1}], e \in {0, 1}}

\* ---- Box: asymmetric per-dimension bounds [-1,3] x [1/2,1] and the negative interval [-3,-1]
LoA == <<-8, 4>>
HiA == <<24, 8>>
LoB == <<-24>>
HiB == <<-8>>
XOf(mode) == IF mode = "tanh" THEN {-8, -4, 0, 4, 8} ELSE IF mode = "sigm" THEN {0, 2, 4, 6, 8} ELSE {-8000, -8, 0, 8, 8000}
Noise == {-800, -4, 0, 4, 800}
Modes == {"tanh", "sigm", "none"}
ContCalls ==
  UNION {{<<CGroup(LoA, HiA, md, "exact", FALSE, <<CRow(x, nz, <<>>)>>)>> : x \in Vecs(2, XOf(md)), nz \in Vecs(2, Noise)} : md \in Modes}
  \cup UNION {{<<CGroup(LoB, HiB, md, "exact", s, <<CRow(x, nz, <<>>)>>)>> : x \in Vecs(1, XOf(md)), nz \in Vecs(1, Noise), s \in BOOLEAN} : md \in Modes}
  \cup {<<CGroup(LoA, HiA, "none", rq, FALSE, <<CRow(x, <<0, 0>>, <<>>)>>)>> : x \in Vecs(2, {-8000, 0, 8000}), rq \in {"inb", "free"}}

\* ---- batches of two rows: rows are judged independently, each under its own mask
SmallRows(e) == {DRow(q, m, e, <<>>) : q \in Vecs(2, Lv3), m \in Masks(2)}
BatchCalls == UNION {{<<DGroup(<<2>>, FALSE, <<r1, r2>>)>> : r1 \in SmallRows(e), r2 \in SmallRows(e)} : e \in {0, 1}}

\* ---- multi-agent: two agents with different action spaces, per-agent masks, environment-defined
\* actions in some rows
MARows1 == {DRow(q, m, e, ed) : q \in {<<0, 1>>, <<1, 1>>}, m \in Masks(2), e \in {0}, ed \in {<<>>, <<0>>, <<1>>}}
MARows2 == {CRow(x, nz, ed) : x \in {<<-8>>, <<8>>}, nz \in {<<0>>, <<800>>}, ed \in {<<>>, <<-16>>}}
MACalls == {<<DGroup(<<2>>, FALSE, <<r1, r2>>), CGroup(LoB, HiB, "tanh", "exact", FALSE, <<c>>)>> :
               r1 \in MARows1, r2 \in MARows1, c \in MARows2}
MARows3 == {DRow(q, m, 0, ed) : q \in Vecs(3, {0, 1}), m \in Masks(3), ed \in {<<>>, <<2>>}}
MACalls2 == {<<DGroup(<<2>>, FALSE, <<r1>>), DGroup(<<3>>, FALSE, <<r3>>)>> : r1 \in MARows1, r3 \in MARows3}

MCCalls  == DiscCalls(1..4, Lv5) \cup MDCalls \cup MBCalls \cup ContCalls \cup BatchCalls \cup MACalls \cup MACalls2
MCCallsQ == DiscCalls(1..3, Lv5) \cup DiscCalls({4}, Lv3) \cup MDCalls \cup MBCalls \cup ContCalls \cup BatchCalls
            \cup MACalls \cup MACalls2

\* ---- dump of the grid (initial states), replayed into the real agents by vfw/drive/actionsel.py
DumpInit == (TLCGet("level") = 1) => PrintT(<<"CASE", ToJson(call)>>)
================================================================================
