------------------------------ MODULE MutReg_MC ------------------------------
(* Model-checked instances of MutReg.                                        *)
(*  custom : the tiny concrete EvolvableModule subclasses of vfw/drive/mutreg.py *)
(*           (Leaf, Mid with a nested Leaf, Wrap = EvolvableWrapper around a  *)
(*           Leaf, roots with 0-2 children / a grandchild / a wrapper)        *)
(*  net    : the shape of QNetwork / ValueNetwork / DeterministicActor /      *)
(*           StochasticActor over a vector observation: own latent-node       *)
(*           methods, MLP encoder whose layer methods the constructor         *)
(*           disables, MLP head; recreate_network() replaces both             *)
EXTENDS MutReg, Json

C(name, L, N, fb, kids, rebuild) ==
  [name |-> name, L |-> L, N |-> N, fb |-> fb, kids |-> kids, rebuild |-> rebuild, container |-> FALSE, wrapper |-> name = "Wrap"]
F(f, to)      == [f |-> f, to |-> to]
K(a, c, pre)  == [a |-> a, c |-> c, pre |-> pre]

LeafFb == <<F("add_layer", <<"add_node">>)>>
RootFb == <<F("deepen", <<"widen">>)>>
CatCustom == <<
  C("Leaf",  <<"add_layer">>, <<"add_node">>, LeafFb, <<>>, <<>>),
  C("Wrap",  <<"add_layer">>, <<"add_node">>, LeafFb, <<>>, <<>>),
  C("Mid",   <<>>, <<"grow">>, <<F("grow", <<"leaf", "add_node">>)>>, <<K("leaf", "Leaf", <<>>)>>, <<>>),
  C("Root0", <<"deepen">>, <<"widen">>, RootFb, <<>>, <<>>),
  C("Root1", <<"deepen">>, <<"widen">>, RootFb, <<K("net", "Leaf", <<>>)>>, <<>>),
  C("Root2", <<"deepen">>, <<"widen">>, RootFb, <<K("net", "Leaf", <<>>), K("net2", "Leaf", <<>>)>>, <<>>),
  C("RootM", <<"deepen">>, <<"widen">>, RootFb, <<K("net", "Mid", <<>>)>>, <<>>),
  C("RootW", <<"deepen">>, <<"widen">>, RootFb, <<K("net", "Leaf", <<>>), K("head", "Wrap", <<>>)>>, <<>>) >>
RootsCustom == {"Root0", "Root1", "Root2", "RootM", "RootW"}
FilterCustom == {"net", "add_node", "layer"}
SubCustom == {<<"net", "net">>, <<"net", "net2">>, <<"add_node", "add_node">>, <<"layer", "add_layer">>}
AssignCustom == {[a |-> "aux", c |-> "Leaf"], [a |-> "net", c |-> "Leaf"], [a |-> "net", c |-> "Mid"]}

MlpL  == <<"add_layer", "remove_layer">>
MlpN  == <<"add_node", "remove_node">>
MlpFb == <<F("add_layer", <<"add_node">>), F("remove_layer", <<"add_node">>)>>
CatNet == <<
  C("Mlp", MlpL, MlpN, MlpFb, <<>>, <<>>),
  C("Net", <<>>, <<"add_latent_node", "remove_latent_node">>, <<>>,
    <<K("encoder", "Mlp", <<"L">>), K("head_net", "Mlp", <<>>)>>, <<"encoder", "head_net">>) >>
RootsNet == {"Net"}
FilterNet == {"latent", "node"}
SubNet == {<<"latent", "add_latent_node">>, <<"latent", "remove_latent_node">>, <<"node", "add_latent_node">>,
           <<"node", "remove_latent_node">>, <<"node", "add_node">>, <<"node", "remove_node">>}
AssignNet == {[a |-> "head_net", c |-> "Mlp"]}

(* M2: every transition of the reachable graph once, as JSON.  Of the sample transitions (they change nothing) one draw
   per (state, module, new_layer_prob) is kept: the j-th name of positive weight is what the scripted rng returns anyway *)
Pick(t, p, pl) == LET S == {m \in RegAll(trees[t], p) : Weights(trees[t], p, pl)[m][1] > 0}
                  IN  IF S = {} THEN None ELSE CHOOSE m \in S : TRUE
SampleOne == steps < MaxSteps /\ \E t \in LiveTrees : \E p \in Nodes(t), pl \in 0..2 : Sample(t, p, pl, Pick(t, p, pl))
SpecDump  == Init /\ [][NextCore \/ SampleOne]_vars
NodeObs(T, p) == [p |-> p, cls |-> T[p].cls, L |-> (Reg(T, p, "L")), N |-> (Reg(T, p, "N")), last |-> T[p].last]
TreeObs(T) == [live |-> Live(T), nodes |-> ({NodeObs(T, p) : p \in DOMAIN T})]
Obs == <<TreeObs(trees[1]), TreeObs(trees[2])>>
ActObs(a) == IF a.op = "disable" THEN [a EXCEPT !.ks = (a.ks)] ELSE a
OutObs(o) == [recr |-> (o.recr), hooks |-> (o.hooks), ret |-> o.ret, raised |-> o.raised]
DumpInit == (TLCGet("level") = 1) =>
              /\ PrintT(<<"INIT", ToJson([obs |-> Obs, act |-> act])>>)
              /\ (act.c = CHOOSE c \in RootClasses : TRUE) =>
                    PrintT(<<"CATALOG", ToJson([cat |-> cat, sub |-> (sub)])>>)
Dump == PrintT(<<"TR", ToJson([from |-> Obs, act |-> ActObs(act'), out |-> OutObs(out'), to |-> Obs'])>>)
================================================================================
