SPECIFICATION Spec
CONSTANTS
  NSlots = 2
  NFiles = 1
  MaxDim = 2
  Lams <- MCLams
  ValsLo <- MCBin
  ValsHi <- MCBin
  Kinds = {"arch", "param"}
  MaxDec = 2
  MaxDecHi = 2
  MaxOps = 100
INVARIANT GramDef
INVARIANT IsInverse
INVARIANT Symmetric
INVARIANT PosDef
INVARIANT BonusNonNeg
INVARIANT DimFollowsLayer
INVARIANT LowestTerms
PROPERTY Ownership
PROPERTY InitScale
CONSTRAINT Bound
VIEW core
CHECK_DEADLOCK FALSE
