SPECIFICATION Spec
CONSTANTS
  NSlots = 2
  NFiles = 1
  MaxDim = 2
  Lams <- MCLams
  ValsLo <- MCBin
  ValsHi <- MCBin
  Kinds = {"arch", "param", "hp"}
  MaxDec = 2
  MaxDecHi = 2
  MaxOps = 100
  Hetero = FALSE
INVARIANT GramDef
INVARIANT IsInverse
INVARIANT Symmetric
INVARIANT PosDef
INVARIANT BonusNonNeg
INVARIANT DimFollowsLayer
INVARIANT LowestTerms
PROPERTY Ownership
PROPERTY InitScale
INVARIANT LamPositive
PROPERTY LamStable
CONSTRAINT Bound
VIEW core
CHECK_DEADLOCK FALSE
