-------------------------------- MODULE VecEnv --------------------------------
(***************************************************************************)
(* AsyncPettingZooVecEnv (agilerl/vector/pz_async_vec_env.py): the parent  *)
(* <-> worker protocol, with worker faults.  Properties C13 (misuse,       *)
(* faults, close) and the schedule part of C12 (slot isolation, only the   *)
(* finished environment is reset, batch position i = environment i).       *)
(*                                                                         *)
(* Implementation-shaped.  Every public call is Begin (the client commits  *)
(* to the call) followed by one or more Finish steps whose enabling        *)
(* condition is the blocking condition of the real code at that point      *)
(* (pipe.recv blocks until a reply or EOF; process.join blocks until the   *)
(* process has exited).  A call that can never finish is a deadlock of     *)
(* this specification = a hang of the implementation.                      *)
(*                                                                         *)
(* Workers: Exec (normal), Raise (the sub-environment raises: error queue  *)
(* entry, (None, False) reply, process exits), Kill (process dies, pipe    *)
(* EOF).  "Sleeping past the timeout" is a worker that has not executed    *)
(* yet when a *_wait(timeout) gives up.                                    *)
(***************************************************************************)
EXTENDS Integers, Sequences, FiniteSets, TLC

CONSTANTS NW,          \* number of workers / sub-environments
          EpLen,       \* [1..NW -> Nat]: episode length of sub-environment i (auto-reset after that many steps)
          MaxCalls,    \* bound on public calls begun by the client
          MaxFaults,   \* bound on Raise + Kill faults
          FaultKinds,  \* subset of {"raise", "kill"}
          ExcTypes,    \* exception types a sub-environment may raise, e.g. {"ValueError", "KeyError"}
          Timeouts,    \* subset of {"none", "finite", "terminate"}: timeouts the client passes to *_wait / close
          ClientAssumptions   \* named restrictions of the client program (see Wedged)

W == 1..NW

VARIABLES
  pstate,     \* AsyncState of the parent: "default" | "reset" | "step" | "call"
  closed,     \* self.closed
  ppipe,      \* [W -> {"open", "none"}]  parent_pipes[i] (None after its worker reported an error)
  down,       \* [W -> Seq(command)]      commands sent, not yet received by the worker
  up,         \* [W -> Seq(reply)]        replies sent, not yet received by the parent
  errq,       \* Seq([w, typ])            error_queue
  alive,      \* [W -> BOOLEAN]           worker process is running
  envst,      \* [W -> [ep, t]]           sub-environment: episode number and step inside the episode
  shm,        \* [W -> [ep, t]]           observation slot of environment i in shared memory
  refst,      \* [W -> [ep, t]]           reference: environment i stepped on its own with the same commands
  pc,         \* client: "idle" or [call, phase, to, ...] of the call in progress
  ret,        \* outcome of the last finished call: [call, kind, typ]
  ncalls, nfaults,
  raised,     \* set of exception types raised inside sub-environments so far
  clean,      \* no fault / timeout / misuse error has happened yet (data equivalence is only claimed then)
  wedged      \* a *_wait failed on a dead worker's pipe and left _state WAITING_* with replies consumed

vars == <<pstate, closed, ppipe, down, up, errq, alive, envst, shm, refst, pc, ret, ncalls, nfaults, raised, clean, wedged>>

Cmd(name)   == [cmd |-> name]
Reply(n, k) == [ok |-> k, cmd |-> n]
Ok(c)       == [call |-> c, kind |-> "ok", typ |-> ""]
Exc(c, t)   == [call |-> c, kind |-> "exc", typ |-> t]
Idle        == [call |-> "idle"]

Init ==
  /\ pstate = "default" /\ closed = FALSE
  /\ ppipe = [i \in W |-> "open"]
  /\ down = [i \in W |-> <<>>] /\ up = [i \in W |-> <<>>] /\ errq = <<>>
  /\ alive = [i \in W |-> TRUE]
  /\ envst = [i \in W |-> [ep |-> 0, t |-> 0]]
  /\ shm = [i \in W |-> [ep |-> 0, t |-> 0]]
  /\ refst = [i \in W |-> [ep |-> 0, t |-> 0]]
  /\ pc = Idle /\ ret = Ok("init") /\ ncalls = 0 /\ nfaults = 0 /\ raised = {} /\ clean = TRUE /\ wedged = FALSE

--------------------------------------------------------------------------------
(* Sub-environment semantics: reset starts a new episode; step advances; when   *)
(* the episode ends the worker resets THIS environment and publishes the first  *)
(* observation of the new episode.                                              *)
EnvReset(s)   == [ep |-> s.ep + 1, t |-> 0]
EnvStep(s, i) == IF s.t + 1 >= EpLen[i] THEN [ep |-> s.ep + 1, t |-> 0] ELSE [ep |-> s.ep, t |-> s.t + 1]

--------------------------------------------------------------------------------
(* Worker actions *)
Exec(i) ==
  /\ alive[i] /\ down[i] # <<>>
  /\ LET c == Head(down[i]).cmd IN
     /\ down' = [down EXCEPT ![i] = Tail(@)]
     /\ up' = [up EXCEPT ![i] = Append(@, Reply(c, TRUE))]
     /\ envst' = [envst EXCEPT ![i] = IF c = "reset" THEN EnvReset(@) ELSE IF c = "step" THEN EnvStep(@, i) ELSE @]
     /\ shm' = [shm EXCEPT ![i] = IF c \in {"reset", "step"} THEN envst'[i] ELSE @]     \* writes only its own slot
     /\ alive' = [alive EXCEPT ![i] = (c # "close")]                                     \* "close": reply, then exit
  /\ UNCHANGED <<pstate, closed, ppipe, errq, refst, pc, ret, ncalls, nfaults, raised, clean, wedged>>

Raise(i, typ) ==
  /\ "raise" \in FaultKinds /\ nfaults < MaxFaults
  /\ alive[i] /\ down[i] # <<>> /\ Head(down[i]).cmd # "close"
  /\ down' = [down EXCEPT ![i] = <<>>]                    \* the process exits; unread commands are lost
  /\ errq' = Append(errq, [w |-> i, typ |-> typ])
  /\ up' = [up EXCEPT ![i] = Append(@, Reply(Head(down[i]).cmd, FALSE))]
  /\ alive' = [alive EXCEPT ![i] = FALSE]
  /\ nfaults' = nfaults + 1 /\ raised' = raised \cup {typ} /\ clean' = FALSE /\ UNCHANGED wedged
  /\ UNCHANGED <<pstate, closed, ppipe, envst, shm, refst, pc, ret, ncalls>>

Kill(i) ==
  /\ "kill" \in FaultKinds /\ nfaults < MaxFaults
  /\ alive[i]
  /\ alive' = [alive EXCEPT ![i] = FALSE]
  /\ down' = [down EXCEPT ![i] = <<>>]
  /\ nfaults' = nfaults + 1 /\ clean' = FALSE /\ UNCHANGED wedged
  /\ UNCHANGED <<pstate, closed, ppipe, up, errq, envst, shm, refst, pc, ret, ncalls, raised>>

\* the parent closed its end of the pipe: the worker's blocking recv gets EOF and the process exits
WorkerEOF(i) ==
  /\ alive[i] /\ ppipe[i] = "none" /\ down[i] = <<>>
  /\ alive' = [alive EXCEPT ![i] = FALSE]
  /\ UNCHANGED <<pstate, closed, ppipe, down, up, errq, envst, shm, refst, pc, ret, ncalls, nfaults, raised, clean, wedged>>

--------------------------------------------------------------------------------
(* Parent-side helpers (pure) *)

\* sending to all pipes in order: first index that fails, 0 if none
SendFail == IF \E i \in W : ppipe[i] = "none" \/ ~alive[i]
              THEN CHOOSE i \in W : (ppipe[i] = "none" \/ ~alive[i]) /\ \A j \in W : j < i => (ppipe[j] = "open" /\ alive[j])
              ELSE 0
SendErrTyp(i) == IF ppipe[i] = "none" THEN "AttributeError" ELSE "PipeError"
DownAfterSend(c, upto) == [i \in W |-> IF i <= upto /\ ppipe[i] = "open" /\ alive[i] THEN Append(down[i], Cmd(c)) ELSE down[i]]

\* receiving from all pipes in order
RecvReady(i) == ppipe[i] = "none" \/ up[i] # <<>> \/ ~alive[i]
\* first pipe whose recv raises instead of returning a reply (0 if none); defined when all are RecvReady
RecvBad == IF \E i \in W : ppipe[i] = "none" \/ (up[i] = <<>> /\ ~alive[i])
             THEN CHOOSE i \in W : (ppipe[i] = "none" \/ (up[i] = <<>> /\ ~alive[i]))
                                   /\ \A j \in W : j < i => (ppipe[j] = "open" /\ up[j] # <<>>)
             ELSE 0
\* recv blocks at the first pipe that is open, empty and whose worker is alive
RecvBlocked == \E i \in W : /\ ppipe[i] = "open" /\ up[i] = <<>> /\ alive[i]
                            /\ \A j \in W : j < i => (ppipe[j] = "open" /\ up[j] # <<>>)
RecvErrTyp(i) == IF ppipe[i] = "none" THEN "AttributeError" ELSE "EOFError"
UpAfterRecv(upto) == [i \in W |-> IF i <= upto /\ up[i] # <<>> /\ ppipe[i] = "open" THEN Tail(up[i]) ELSE up[i]]
Fails == {i \in W : up[i] # <<>> /\ ~Head(up[i]).ok}
\* _poll_pipe_envs(timeout) returns False: a pipe is None, or nothing arrives from a live worker in time
PollMayFail == \E i \in W : ppipe[i] = "none" \/ (up[i] = <<>> /\ alive[i])
PollMustFail == \E i \in W : ppipe[i] = "none"

\* _raise_if_errors: pop one error-queue entry per failed reply, close those pipes, raise the last one
RECURSIVE PopErr(_, _, _)
PopErr(q, pp, k) == IF k = 0 \/ q = <<>> THEN <<q, pp, "">>
                    ELSE LET r == PopErr(Tail(q), [pp EXCEPT ![Head(q).w] = "none"], k - 1)
                         IN <<r[1], r[2], IF r[3] = "" THEN Head(q).typ ELSE r[3]>>

--------------------------------------------------------------------------------
(* Client: begin a public call *)
Calls == {"reset_async", "reset_wait", "step_async", "step_wait", "call_async", "call_wait", "set_attr", "close"}
WaitOf(c) == CASE c = "reset_wait" -> "reset" [] c = "step_wait" -> "step" [] c = "call_wait" -> "call" [] OTHER -> ""
AsyncOf(c) == CASE c = "reset_async" -> "reset" [] c = "step_async" -> "step" [] c = "call_async" -> "call" [] OTHER -> ""

\* A wait that failed on a dead worker's pipe (EOFError / AttributeError) leaves _state WAITING_* with some
\* replies already consumed.  Re-issuing that wait blocks for ever on a healthy worker's pipe (known
\* finding F-C13-2).  Under the assumption "no_retry_when_wedged" the client does not do that.
Wedged == wedged

Begin(c, to) ==
  /\ pc = Idle /\ ncalls < MaxCalls
  /\ ("no_retry_when_wedged" \in ClientAssumptions /\ Wedged) => WaitOf(c) = ""
  /\ c \in Calls /\ to \in Timeouts
  /\ (c \notin {"reset_wait", "step_wait", "call_wait", "close"} => to = "none")
  /\ (to = "terminate" => c = "close")
  /\ pc' = [call |-> c, phase |-> "start", to |-> to]
  /\ ncalls' = ncalls + 1
  \* the reference environments see the command the moment the client issues it
  /\ refst' = IF closed \/ pstate # "default" THEN refst
              ELSE IF c = "reset_async" THEN [i \in W |-> EnvReset(refst[i])]
              ELSE IF c = "step_async" THEN [i \in W |-> EnvStep(refst[i], i)]
              ELSE refst
  /\ UNCHANGED <<pstate, closed, ppipe, down, up, errq, alive, envst, shm, ret, nfaults, raised, clean, wedged>>

Return(r) == /\ pc' = Idle /\ ret' = r
             /\ clean' = (clean /\ r.kind = "ok")
             /\ wedged' = IF r.kind = "exc" /\ r.typ \in {"EOFError", "AttributeError"} /\ WaitOf(r.call) # "" THEN TRUE
                           ELSE IF WaitOf(r.call) # "" /\ ~closed /\ pstate = WaitOf(r.call) THEN FALSE   \* the wait ran: _state back to DEFAULT
                           ELSE wedged

\* *_async
FinishAsync ==
  /\ pc # Idle /\ AsyncOf(pc.call) # ""
  /\ IF closed THEN Return(Exc(pc.call, "ClosedEnvironmentError")) /\ UNCHANGED <<pstate, down>>
     ELSE IF pstate # "default" THEN Return(Exc(pc.call, "AlreadyPendingCallError")) /\ UNCHANGED <<pstate, down>>
     ELSE IF SendFail # 0
       THEN /\ down' = DownAfterSend(AsyncOf(pc.call), SendFail - 1)
            /\ Return(Exc(pc.call, SendErrTyp(SendFail))) /\ UNCHANGED pstate       \* _state is only set after the loop
       ELSE /\ down' = DownAfterSend(AsyncOf(pc.call), NW)
            /\ pstate' = AsyncOf(pc.call) /\ Return(Ok(pc.call))
  /\ UNCHANGED <<closed, ppipe, up, errq, alive, envst, shm, refst, ncalls, nfaults, raised>>

\* common tail of reset_wait / step_wait / call_wait (also used by close for a pending call):
\* receive every reply in pipe order, then _raise_if_errors
WaitBody(c, to, onOk, onExc(_)) ==
  \/ /\ to \in {"finite", "terminate"} /\ PollMayFail      \* the timeout expires first
     /\ pstate' = "default" /\ onExc("TimeoutError")
     /\ UNCHANGED <<ppipe, up, errq>>
  \/ /\ ~(to \in {"finite", "terminate"} /\ PollMustFail)
     /\ ~RecvBlocked
     /\ IF RecvBad # 0
          THEN /\ up' = UpAfterRecv(RecvBad - 1)         \* replies before the broken pipe are consumed
               /\ onExc(RecvErrTyp(RecvBad))
               /\ UNCHANGED <<pstate, ppipe, errq>>      \* _state stays WAITING_*
          ELSE /\ up' = UpAfterRecv(NW)
               /\ IF Fails = {}
                    THEN /\ pstate' = "default" /\ onOk /\ UNCHANGED <<ppipe, errq>>
                    ELSE LET r == PopErr(errq, ppipe, Cardinality(Fails)) IN
                         /\ errq' = r[1] /\ ppipe' = r[2]
                         /\ pstate' = "default" /\ onExc(r[3])

FinishWait ==
  /\ pc # Idle /\ WaitOf(pc.call) # ""
  /\ IF closed THEN Return(Exc(pc.call, "ClosedEnvironmentError")) /\ UNCHANGED <<pstate, ppipe, up, errq>>
     ELSE IF pstate # WaitOf(pc.call) THEN Return(Exc(pc.call, "NoAsyncCallError")) /\ UNCHANGED <<pstate, ppipe, up, errq>>
     ELSE WaitBody(pc.call, pc.to, Return(Ok(pc.call)), LAMBDA t : Return(Exc(pc.call, t)))
  /\ UNCHANGED <<closed, down, alive, envst, shm, refst, ncalls, nfaults, raised>>

\* set_attr: send to all, then receive from all (no _state change)
FinishSetAttrSend ==
  /\ pc # Idle /\ pc.call = "set_attr" /\ pc.phase = "start"
  /\ IF closed THEN Return(Exc("set_attr", "ClosedEnvironmentError")) /\ UNCHANGED down
     ELSE IF pstate # "default" THEN Return(Exc("set_attr", "AlreadyPendingCallError")) /\ UNCHANGED down
     ELSE IF SendFail # 0
       THEN down' = DownAfterSend("setattr", SendFail - 1) /\ Return(Exc("set_attr", SendErrTyp(SendFail)))
       ELSE down' = DownAfterSend("setattr", NW) /\ pc' = [pc EXCEPT !.phase = "recv"] /\ UNCHANGED <<ret, clean, wedged>>
  /\ UNCHANGED <<pstate, closed, ppipe, up, errq, alive, envst, shm, refst, ncalls, nfaults, raised>>

FinishSetAttrRecv ==
  /\ pc # Idle /\ pc.call = "set_attr" /\ pc.phase = "recv"
  /\ ~RecvBlocked
  /\ IF RecvBad # 0
       THEN up' = UpAfterRecv(RecvBad - 1) /\ Return(Exc("set_attr", RecvErrTyp(RecvBad))) /\ UNCHANGED <<ppipe, errq>>
       ELSE /\ up' = UpAfterRecv(NW)
            /\ IF Fails = {} THEN Return(Ok("set_attr")) /\ UNCHANGED <<ppipe, errq>>
               ELSE LET r == PopErr(errq, ppipe, Cardinality(Fails)) IN
                    errq' = r[1] /\ ppipe' = r[2] /\ Return(Exc("set_attr", r[3]))
  /\ UNCHANGED <<pstate, closed, down, alive, envst, shm, refst, ncalls, nfaults, raised>>

--------------------------------------------------------------------------------
(* close(timeout) = close_extras in four blocking phases *)

\* phase 1: finish a pending call, if any.  If some worker process is dead the wait uses timeout 0
\* (never block on a dead worker).  A timeout or ANY exception from the wait -> terminate.
CloseWaitPending ==
  /\ pc # Idle /\ pc.call = "close" /\ pc.phase = "start"
  /\ IF closed THEN Return(Ok("close")) /\ UNCHANGED <<pstate, ppipe, up, errq>>
     ELSE IF pstate = "default"
            THEN /\ pc' = [pc EXCEPT !.phase = IF pc.to = "terminate" THEN "terminate" ELSE "send"]
                 /\ UNCHANGED <<pstate, ppipe, up, errq, ret, clean, wedged>>
     ELSE WaitBody("close", IF \E i \in W : ~alive[i] THEN "finite" ELSE pc.to,
                   pc' = [pc EXCEPT !.phase = IF pc.to = "terminate" THEN "terminate" ELSE "send"] /\ UNCHANGED <<ret, clean, wedged>>,
                   LAMBDA t : pc' = [pc EXCEPT !.phase = "terminate"] /\ UNCHANGED <<ret, clean, wedged>>)
  /\ UNCHANGED <<closed, down, alive, envst, shm, refst, ncalls, nfaults, raised>>

\* phase 2a: terminate every live process
CloseTerminate ==
  /\ pc # Idle /\ pc.call = "close" /\ pc.phase = "terminate"
  /\ alive' = [i \in W |-> FALSE] /\ down' = [i \in W |-> <<>>]
  /\ pc' = [pc EXCEPT !.phase = "join"]
  /\ UNCHANGED <<pstate, closed, ppipe, up, errq, envst, shm, refst, ret, ncalls, nfaults, raised, clean, wedged>>

\* phase 2b: send ("close", None) to every pipe that is not None; a dead worker's pipe is skipped
CloseSend ==
  /\ pc # Idle /\ pc.call = "close" /\ pc.phase = "send"
  /\ down' = [i \in W |-> IF ppipe[i] = "open" /\ alive[i] THEN Append(down[i], Cmd("close")) ELSE down[i]]
  /\ pc' = [pc EXCEPT !.phase = "recv"] /\ UNCHANGED <<ret, clean, wedged>>
  /\ UNCHANGED <<pstate, closed, ppipe, up, errq, alive, envst, shm, refst, ncalls, nfaults, raised>>

\* phase 3: one recv per open pipe (whatever reply is first in the pipe); EOF from a dead worker is skipped
CloseRecv ==
  /\ pc # Idle /\ pc.call = "close" /\ pc.phase = "recv"
  /\ \A i \in W : ppipe[i] = "open" => (up[i] # <<>> \/ ~alive[i])          \* otherwise recv blocks
  /\ up' = [i \in W |-> IF ppipe[i] = "open" /\ up[i] # <<>> THEN Tail(up[i]) ELSE up[i]]
  /\ pc' = [pc EXCEPT !.phase = "join"] /\ UNCHANGED <<ret, clean, wedged>>
  /\ UNCHANGED <<pstate, closed, ppipe, down, errq, alive, envst, shm, refst, ncalls, nfaults, raised>>

\* phase 4: close every pipe, join every process (blocks until all have exited)
CloseJoin ==
  /\ pc # Idle /\ pc.call = "close" /\ pc.phase = "join"
  /\ IF \E i \in W : ppipe[i] = "open"
       THEN /\ ppipe' = [i \in W |-> "none"]                                  \* pipe.close(): workers blocked in recv see EOF
            /\ UNCHANGED <<closed, pc, ret, clean, wedged>>
       ELSE /\ \A i \in W : ~alive[i]                                           \* process.join()
            /\ closed' = TRUE /\ Return(Ok("close")) /\ UNCHANGED ppipe
  /\ UNCHANGED <<pstate, down, up, errq, alive, envst, shm, refst, ncalls, nfaults, raised>>

\* the client has nothing more to do (explicit stuttering so that a finished run is not a deadlock)
Done == pc = Idle /\ (ncalls = MaxCalls \/ closed) /\ UNCHANGED vars

ClientStep == \/ \E c \in Calls, to \in Timeouts : Begin(c, to)
              \/ FinishAsync \/ FinishWait \/ FinishSetAttrSend \/ FinishSetAttrRecv
              \/ CloseWaitPending \/ CloseTerminate \/ CloseSend \/ CloseRecv \/ CloseJoin
WorkerStep(i) == Exec(i) \/ WorkerEOF(i)
FaultStep == \E i \in W : Kill(i) \/ \E t \in ExcTypes : Raise(i, t)

Next == ClientStep \/ (\E i \in W : WorkerStep(i)) \/ FaultStep \/ Done
Spec == Init /\ [][Next]_vars
FairSpec == Spec /\ \A i \in W : WF_vars(WorkerStep(i)) /\ WF_vars(ClientStep)

--------------------------------------------------------------------------------
(* Properties *)

\* C13: out-of-order use raises the documented error (state untouched is in the actions above)
MisuseRejected ==
  [][ (pc # Idle /\ pc' = Idle /\ pc.call # "close") =>
        /\ (closed => ret' = Exc(pc.call, "ClosedEnvironmentError"))
        /\ (~closed /\ WaitOf(pc.call) # "" /\ pstate # WaitOf(pc.call) => ret' = Exc(pc.call, "NoAsyncCallError") /\ pstate' = pstate)
        /\ (~closed /\ (AsyncOf(pc.call) # "" \/ pc.call = "set_attr") /\ pc.phase = "start" /\ pstate # "default"
               => ret' = Exc(pc.call, "AlreadyPendingCallError") /\ pstate' = pstate) ]_vars

\* C13: what reaches the caller is an exception type that a sub-environment raised, a timeout is a
\* timeout, or one of the interface errors
ErrorTypeOK ==
  ret.kind = "exc" => ret.typ \in raised \cup {"TimeoutError", "ClosedEnvironmentError", "NoAsyncCallError",
                                               "AlreadyPendingCallError", "AttributeError", "PipeError", "EOFError"}
\* without kill faults no transport-level error may surface
NoTransportError == ret.kind = "exc" => ret.typ \notin {"PipeError", "EOFError"}
\* a worker exception is never swallowed by a successful return of the wait that consumed it
\* (by construction of WaitBody) and a TimeoutError is only raised when a timeout was passed
TimeoutIsTimeout == [][ (ret'.kind = "exc" /\ ret'.typ = "TimeoutError" /\ pc # Idle /\ pc' = Idle) => pc.to = "finite" ]_vars

\* C13: close() returns (never raises) ...
CloseNeverRaises == ret.call = "close" => ret.kind = "ok"
\* ... and leaves no worker process alive
NoWorkerLeft == closed => \A i \in W : ~alive[i]
\* "without hanging": every begun call finishes (checked with fairness), plus TLC's deadlock check
NoHang == [](pc # Idle => <>(pc = Idle))

\* C12 (schedule part): a worker writes only its own slot; after a successful step_wait / reset_wait in a
\* run without faults, timeouts or misuse, slot i holds what environment i alone would show -- the first
\* observation of the new episode if the step ended the episode.
StepEquivalence ==
  (clean /\ pc = Idle /\ ret.call \in {"step_wait", "reset_wait"} /\ ret.kind = "ok") => \A i \in W : shm[i] = refst[i]
SlotIsolation == [][ \A i \in W : shm'[i] # shm[i] => (\E c \in {"reset", "step"} : down[i] # <<>> /\ Head(down[i]).cmd = c) ]_vars

Bound == TRUE
================================================================================
