------------------------------ MODULE Ring_Dump ------------------------------
(* M2: print every Add/Clear transition of the reachable graph once, as JSON. *)
EXTENDS Ring, Json
Obs == [N |-> N, cursor |-> cursor, size |-> size, added |-> added, base |-> base,
        store |-> [i \in 1..N |-> store[i - 1]]]
NextNoSample == (\E w \in 1..N : Add(w)) \/ Clear
DumpInit == (TLCGet("level") = 1) => PrintT(<<"INIT", ToJson(Obs)>>)
Dump == PrintT(<<"TR", ToJson([from |-> Obs, act |-> act', to |-> Obs'])>>)
================================================================================
