INIT Init
NEXT Next
CONSTANTS
  Cfg <- MCCnnAny
  Inits <- MCCnnAnyInits
ACTION_CONSTRAINT Dump
INVARIANT DumpInit
VIEW core
CHECK_DEADLOCK FALSE
