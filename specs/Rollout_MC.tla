------------------------------ MODULE Rollout_MC ------------------------------
EXTENDS Rollout
(* model values for the configurations Rollout_MC*.cfg / Rollout_Neg.cfg *)
SAEnvs == {1, 2}
SAAgents == {1}
MAEnvs == {1, 2}
MAAgents == {1, 2}
OneEnv == {1}
AllKinds == {"term", "trunc", "both"}
TwoKinds == {"term", "trunc"}
================================================================================
