---------------------------------- MODULE PER ----------------------------------
(***************************************************************************)
(* Prioritised replay buffer (property C11):                               *)
(* agilerl.components.replay_buffer.PrioritizedReplayBuffer with its       *)
(* SumSegmentTree / MinSegmentTree.                                        *)
(*                                                                         *)
(* Implementation-shaped: the two trees are explicit node arrays 1..2Cap-1 *)
(* (Cap = next power of two >= N) updated by the same upward walk as       *)
(* SegmentTree.__setitem__, sampling uses the same descent as              *)
(* SumSegmentTree.retrieve.  alpha = 1 and integer priorities, so that     *)
(* priority^alpha is the integer itself and all float sums in the real     *)
(* code are exact.  Stratified variates are u/UDen, u \in 0..UDen-1.       *)
(***************************************************************************)
EXTENDS Integers, Sequences, FiniteSets, TLC

CONSTANTS Caps,        \* capacities explored
          Pris,        \* priorities used by Update
          Bs,          \* batch sizes explored (powers of two: the stratum width is then exact)
          UDen,        \* variates are multiples of 1/UDen
          MaxOps

VARIABLES N, sumT, minT, ptr, cursor, size, maxp, seen, out, nops, act
vars == <<N, sumT, minT, ptr, cursor, size, maxp, seen, out, nops, act>>
core == <<N, sumT, minT, ptr, cursor, size, maxp, seen>>
\* the view used for model checking keeps the operation counter: with several TLC workers a state may be found first on a
\* longer path, and a view that hides the bounded counter would then cut its successors (incomplete, run-dependent exploration)
coreN == <<N, sumT, minT, ptr, cursor, size, maxp, seen, nops>>

Inf == 1000000000
MinI(a, b) == IF a <= b THEN a ELSE b
MaxI(a, b) == IF a >= b THEN a ELSE b
RECURSIVE P2(_)
P2(n) == IF n <= 1 THEN 1 ELSE 2 * P2((n + 1) \div 2)       \* next power of two >= n
Cap == P2(N)
Leaf(T, i) == T[Cap + i]                                       \* i in 0..Cap-1

InitWith(n) ==
  /\ N = n
  /\ sumT = [k \in 1..(2 * P2(n) - 1) |-> 0]
  /\ minT = [k \in 1..(2 * P2(n) - 1) |-> Inf]
  /\ ptr = 0 /\ cursor = 0 /\ size = 0 /\ maxp = 1 /\ seen = {1}
  /\ out = [idx |-> <<>>, wnum |-> <<>>, wden |-> <<>>, ub |-> <<>>] /\ nops = 0
  /\ act = [op |-> "init"]
Init == \E n \in Caps : InitWith(n)

\* SegmentTree.__setitem__: write the leaf, then recompute every ancestor from its two children
RECURSIVE UpSum(_, _)
UpSum(T, k) == IF k < 1 THEN T ELSE UpSum([T EXCEPT ![k] = T[2 * k] + T[2 * k + 1]], k \div 2)
RECURSIVE UpMin(_, _)
UpMin(T, k) == IF k < 1 THEN T ELSE UpMin([T EXCEPT ![k] = MinI(T[2 * k], T[2 * k + 1])], k \div 2)
SetSum(T, i, v) == UpSum([T EXCEPT ![Cap + i] = v], (Cap + i) \div 2)
SetMin(T, i, v) == UpMin([T EXCEPT ![Cap + i] = v], (Cap + i) \div 2)

\* PrioritizedReplayBuffer.add: w new transitions, each gets the current max priority
RECURSIVE AddLeaves(_, _, _, _)
AddLeaves(S, M, p, w) ==
  IF w = 0 THEN <<S, M, p>>
  ELSE AddLeaves(SetSum(S, p, maxp), SetMin(M, p, maxp), (p + 1) % N, w - 1)

Add(w) ==
  /\ w \in 1..N
  /\ LET r == AddLeaves(sumT, minT, ptr, w) IN sumT' = r[1] /\ minT' = r[2] /\ ptr' = r[3]
  /\ cursor' = (cursor + w) % N
  /\ size' = MinI(size + w, N)
  /\ nops' = nops + 1
  /\ UNCHANGED <<N, maxp, seen, out>>
  /\ act' = [op |-> "add", w |-> w]

\* update_priorities(idxs, pris): sequential, so a repeated index keeps the last value
RECURSIVE UpdLeaves(_, _, _, _, _)
UpdLeaves(S, M, mp, idxs, pris) ==
  IF idxs = <<>> THEN <<S, M, mp>>
  ELSE UpdLeaves(SetSum(S, Head(idxs), Head(pris)), SetMin(M, Head(idxs), Head(pris)),
                 MaxI(mp, Head(pris)), Tail(idxs), Tail(pris))

Update(idxs, pris) ==
  /\ Len(idxs) = Len(pris) /\ Len(idxs) >= 1
  /\ \A k \in 1..Len(idxs) : idxs[k] \in 0..(size - 1) /\ pris[k] >= 1
  /\ LET r == UpdLeaves(sumT, minT, maxp, idxs, pris) IN sumT' = r[1] /\ minT' = r[2] /\ maxp' = r[3]
  /\ seen' = seen \cup {pris[k] : k \in 1..Len(pris)}
  /\ nops' = nops + 1
  /\ UNCHANGED <<N, ptr, cursor, size, out>>
  /\ act' = [op |-> "update", idxs |-> idxs, pris |-> pris]

\* SumSegmentTree.retrieve with everything scaled by D (= B * UDen) so that upper bounds are integers
RECURSIVE Descend(_, _, _)
Descend(k, ub, D) == IF k >= Cap THEN k - Cap
                     ELSE IF sumT[2 * k] * D > ub THEN Descend(2 * k, ub, D)
                          ELSE Descend(2 * k + 1, ub - sumT[2 * k] * D, D)
\* upper bound of stratum i (0-based) for variate u/UDen, scaled by D:  (i + u/UDen) * total / B * D
UB(i, u, B) == (i * UDen + u) * sumT[1]

Sample(B, u) ==
  \* the batch size is not bounded by the current length (strata may then share an index); explored up to twice the length
  /\ size >= 1 /\ B \in 1..(2 * size)
  /\ u \in [1..B -> 0..(UDen - 1)]
  /\ LET D   == B * UDen
         idx == [i \in 1..B |-> Descend(1, UB(i - 1, u[i], B), D)]
     IN out' = [idx  |-> idx,
                \* weight_i = (size * P(i))^-beta / max_j (size * P(j))^-beta  =  (minleaf / leaf_i)^beta
                wnum |-> [i \in 1..B |-> minT[1]],
                wden |-> [i \in 1..B |-> Leaf(sumT, idx[i])],
                ub   |-> [i \in 1..B |-> UB(i - 1, u[i], B)]]
  /\ nops' = nops + 1
  /\ UNCHANGED <<N, sumT, minT, ptr, cursor, size, maxp, seen>>
  /\ act' = [op |-> "sample", B |-> B, u |-> u]

\* clear(): the buffer forgets everything, priorities included (max priority seen so far is kept)
Clear ==
  /\ sumT' = [k \in 1..(2 * Cap - 1) |-> 0]
  /\ minT' = [k \in 1..(2 * Cap - 1) |-> Inf]
  /\ ptr' = 0 /\ cursor' = 0 /\ size' = 0
  /\ nops' = nops + 1
  /\ UNCHANGED <<N, maxp, seen, out>>
  /\ act' = [op |-> "clear"]

AddAny    == \E w \in 1..N : Add(w)
UpdateAny == \/ \E i \in 0..(size - 1), p \in Pris : Update(<<i>>, <<p>>)
             \/ \E i, j \in 0..(size - 1), p, q \in Pris : Update(<<i, j>>, <<p, q>>)
SampleAny == \E B \in Bs : \E u \in [1..B -> 0..(UDen - 1)] : Sample(B, u)
Next == AddAny \/ UpdateAny \/ SampleAny \/ Clear
Spec == Init /\ [][Next]_vars

--------------------------------------------------------------------------------
(* Properties (C11) *)
RECURSIVE SumLeaves(_, _)
SumLeaves(T, k) == IF k = 0 THEN 0 ELSE Leaf(T, k - 1) + SumLeaves(T, k - 1)       \* leaves 0..k-1
MinLeaves(T)    == LET S == {Leaf(T, i) : i \in 0..(Cap - 1)} IN CHOOSE m \in S : \A x \in S : m <= x
Prefix(i)       == SumLeaves(sumT, i)                                                \* priority mass before leaf i

\* running total / minimum agree with a direct computation over the stored priorities
TreeSum == /\ \A k \in 1..(Cap - 1) : sumT[k] = sumT[2 * k] + sumT[2 * k + 1]
           /\ sumT[1] = SumLeaves(sumT, Cap)
TreeMin == /\ \A k \in 1..(Cap - 1) : minT[k] = MinI(minT[2 * k], minT[2 * k + 1])
           /\ minT[1] = MinLeaves(minT)
\* exactly the stored transitions have a (positive) priority, the same in both trees
LeavesOK == \A i \in 0..(Cap - 1) :
              IF i < size THEN Leaf(sumT, i) >= 1 /\ Leaf(minT, i) = Leaf(sumT, i)
                          ELSE Leaf(sumT, i) = 0 /\ Leaf(minT, i) = Inf
PtrOK  == ptr = cursor
MaxPOK == \A p \in seen : p <= maxp /\ maxp \in seen
\* a new transition gets the highest priority seen so far
NewGetsMax == [][ act'.op = "add" =>
                    \A j \in 0..(act'.w - 1) : Leaf(sumT', (ptr + j) % N) = maxp ]_vars
\* only stored transitions are sampled, each from its stratum of the priority mass
SampleOK == [][ act'.op = "sample" =>
     \A i \in 1..act'.B : LET x == out'.idx[i]  D == act'.B * UDen IN
        /\ x \in 0..(size - 1)
        /\ Leaf(sumT, x) >= 1
        /\ Prefix(x) * D <= out'.ub[i] /\ out'.ub[i] <= Prefix(x + 1) * D
        /\ out'.wnum[i] >= 1 /\ out'.wnum[i] <= out'.wden[i] ]_vars
Bound == nops <= MaxOps
================================================================================
