------------------------------- MODULE Dist_Trace -------------------------------
(* Trace validation of real stochastic policies against the history machine of Dist.tla (C16).  *)
(* A trace is the life of one policy network (the StochasticActor itself, PPO's actor, one of   *)
(* IPPO's actors) with real, unstubbed weights.                                                 *)
(* cfg = [level, shape, squash, seed, w0, ...]     w0 = id of the initial weights               *)
(* One event per row of every call:                                                             *)
(*   op "sample"  a forward pass drew action a for observation o and reported the value v       *)
(*   op "eval"    the stored pair (o, a) was re-evaluated and the value v was reported          *)
(*                (via "action_log_prob" / "evaluate_actions" / "learn" = inside learn())        *)
(*   op "learn"   the weights of the policy changed; w = id of the new weights                  *)
(*   op "exc"     a call raised / returned a result of the wrong shape                          *)
(* Ids: w = fingerprint of the policy's parameters when the value was computed, o = content of  *)
(* the observation row, a = content of the action row (as returned by the library and stored),  *)
(* v = the reported log-probability up to the harness' relative tolerance (-1 = NaN / inf).     *)
(* The memo of Dist.tla decides EvalIsFunctionOfArgument: the value reported for a stored       *)
(* action depends on (weights, observation, action) only -- not on what was sampled in between. *)
EXTENDS Dist, Json, IOUtils, TLCExt
CONSTANT Diag
Traces == JsonDeserialize(IOEnv.TRACE_FILE)
VARIABLES tid, l
tvars == <<vars, tid, l>>
T  == Traces[tid]
Ev == T.ev[l]
Check(name, c) == IF c THEN TRUE ELSE (Diag /\ PrintT(<<"FAILCLAUSE", tid, l, name>>) /\ FALSE)

TInit == /\ tid \in 1..Len(Traces) /\ l = 1
         /\ KIdle
         /\ w = Traces[tid].cfg.w0 /\ stored = {} /\ last = 0 /\ memo = {} /\ hact = [op |-> "init"]

Agrees(o, a, v) == \A r \in memo : (r.w = w /\ r.o = o /\ r.a = a) => r.v = v

TSample ==
  /\ l <= Len(T.ev) /\ Ev.op = "sample"
  /\ Check("Weights: the weights only move in learn steps (harness)", Ev.w = w)
  /\ Check("Finite: the reported log-probability is a finite number", Ev.v # -1)
  /\ Check("EvalIsFunctionOfArgument: the log-probability reported with a sampled action is the one reported for the same (weights, observation, action) before",
           Agrees(Ev.o, Ev.a, Ev.v))
  /\ HSample(Ev.o, Ev.a, Ev.v)
  /\ l' = l + 1 /\ UNCHANGED <<kvars, tid>>

TEval ==
  /\ l <= Len(T.ev) /\ Ev.op = "eval"
  /\ Check("Weights: the weights only move in learn steps (harness)", Ev.w = w)
  /\ Check("Stored: the re-evaluated (observation, action) pair was returned by an earlier forward pass", <<Ev.o, Ev.a>> \in stored)
  /\ Check("Finite: the reported log-probability is a finite number", Ev.v # -1)
  /\ Check("EvalIsFunctionOfArgument: re-evaluating a stored action under unchanged weights reports the log-probability reported before for the same (weights, observation, action)",
           Agrees(Ev.o, Ev.a, Ev.v))
  /\ HEval(Ev.o, Ev.a, 0, Ev.v)
  /\ l' = l + 1 /\ UNCHANGED <<kvars, tid>>

TLearn ==
  /\ l <= Len(T.ev) /\ Ev.op = "learn"
  /\ HLearn(Ev.w)
  /\ l' = l + 1 /\ UNCHANGED <<kvars, tid>>

TExc ==
  /\ l <= Len(T.ev) /\ Ev.op = "exc"
  /\ Check("Raises: the call returns one log-probability per row without raising", FALSE)
  /\ UNCHANGED tvars

TAccept == /\ l = Len(T.ev) + 1 /\ PrintT(<<"ACCEPT", tid>>) /\ l' = l + 1 /\ UNCHANGED <<vars, tid>>
TNext == TSample \/ TEval \/ TLearn \/ TExc \/ TAccept
TSpec == TInit /\ [][TNext]_tvars
================================================================================
