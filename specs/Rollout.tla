-------------------------------- MODULE Rollout --------------------------------
(***************************************************************************)
(* C17, middle sentence, end to end: "rewards and values that follow the   *)
(* start of a new episode never influence the estimates of the steps       *)
(* before it, separately for every parallel environment and every agent".  *)
(* GAE.tla takes the done flags handed to PPO.learn / IPPO.learn as        *)
(* inputs; this module says how the training loops PRODUCE them            *)
(*   agilerl/training/train_on_policy.py              (lines ~205-300)     *)
(*   agilerl/training/train_multi_agent_on_policy.py  (lines ~225-345)     *)
(* and that they mark exactly the episode starts of the environment.       *)
(*                                                                         *)
(* A column is one (environment, agent) pair; the single-agent loop has    *)
(* one agent.  Two sides, written independently of each other:             *)
(*                                                                         *)
(* ENVIRONMENT  per environment an episode counter ep and the number k of  *)
(*   steps into the running episode.  A step reports, per column, the pair *)
(*   <<terminated, truncated>>.  All agents of an environment end their    *)
(*   episode in the same step (some may be terminated, others truncated);  *)
(*   the vector environment then resets that environment IN THE SAME STEP  *)
(*   and returns the first observation of episode ep+1.  Observations are  *)
(*   identified data <<episode, step in episode>>.                         *)
(*                                                                         *)
(* LOOP  per rollout the flags cur start at 0; every step appends cur to   *)
(*   dones (so dones[t] = "the step before t ended an episode", one step   *)
(*   late) and the observation acted on to sobs, then sets                 *)
(*   cur[c] := term[c] \/ trunc[c];  Learn hands (dones, next_done = cur,  *)
(*   states = sobs, next_state = the observation returned by the last      *)
(*   step) to the learner and begins the next rollout WITHOUT resetting    *)
(*   the environment.  Reset is the env.reset() at the start of an agent's *)
(*   turn (only between rollouts).                                         *)
(*                                                                         *)
(* FlagRule = "either" is the rule above; "term" (flag from terminations   *)
(* only) is the negative control.                                          *)
(*                                                                         *)
(* Two environment modes (variable mode, fixed by Init):                   *)
(*  "auto"  vectorised environment as above (same-step auto-reset);        *)
(*  "loop"  one plain environment (train_multi_agent_on_policy on a        *)
(*    PettingZoo ParallelEnv without num_envs): a step that ends the       *)
(*    episode returns the terminal observation and leaves the environment  *)
(*    finished (over); the LOOP then calls env.reset() INSIDE the rollout  *)
(*    (LoopReset) before anything else happens.  The observation stored    *)
(*    for the next step is the first one of the new episode and carries    *)
(*    the flag of the step that ended the old one; next_state stays the    *)
(*    observation the last step returned (the terminal one, masked by      *)
(*    next_done = 1).  ResetClears = TRUE (the loop clears its flags after *)
(*    its own reset) is the second negative control.                       *)
(***************************************************************************)
EXTENDS Integers, Sequences, FiniteSets, TLC

CONSTANTS EnvSet, AgentSet,   \* sets of environment / agent indices explored (Init)
          Kinds,          \* ways a column may be reported when its episode ends: subset of {"term","trunc","both"}
          MaxT,           \* longest rollout explored
          MaxRolls,       \* number of rollouts explored
          MaxEp,          \* bound on episode numbers (CONSTRAINT)
          FlagRule,       \* "either" | "term"
          Mode,           \* "auto" | "loop": environment mode explored (Init)
          ResetClears     \* BOOLEAN: negative control, the loop zeroes its flags after its own reset inside a rollout

VARIABLES cols,           \* the columns of this run: a set of <<environment, agent>> pairs (fixed by Init)
          ep, k,          \* environment side: [Envs -> Nat]
          mode,           \* "auto" | "loop" (fixed by Init)
          over,           \* [Envs -> BOOLEAN] "loop" mode: the episode has ended and the loop has not reset the environment yet
          obs,            \* [Cols -> <<episode, step>>]  observation the loop acts on next (last returned by reset / step)
          nxt,            \* [Cols -> <<episode, step>>]  observation returned by the last step (the loop's next_obs / next_state)
          cur,            \* [Cols -> 0..1]               the loop's `done` / `next_done`
          dones,          \* Seq([Cols -> 0..1])          flags recorded in the running rollout
          sobs,           \* Seq([Cols -> <<ep, k>>])     observations acted on in the running rollout
          nroll,          \* rollouts handed to learn so far
          up              \* environment has been reset at least once

vars == <<cols, mode, over, ep, k, obs, nxt, cur, dones, sobs, nroll, up>>

Cols == cols
Envs == {c[1] : c \in cols}
Agents == {c[2] : c \in cols}
Go == <<FALSE, FALSE>>
KindPair(kd) == CASE kd = "term" -> <<TRUE, FALSE>> [] kd = "trunc" -> <<FALSE, TRUE>> [] OTHER -> <<TRUE, TRUE>>
Ended(o) == o[1] \/ o[2]
Flag(o) == IF FlagRule = "either" THEN (IF o[1] \/ o[2] THEN 1 ELSE 0) ELSE (IF o[1] THEN 1 ELSE 0)
Zero == [c \in Cols |-> 0]

\* what a step may report: per environment either nobody or everybody ends
Outcomes == { o \in [Cols -> {Go} \cup {KindPair(kd) : kd \in Kinds}] :
                \A e \in Envs : (\A a \in Agents : Ended(o[<<e, a>>])) \/ (\A a \in Agents : ~Ended(o[<<e, a>>])) }
EnvEnded(o, e) == \E a \in Agents : Ended(o[<<e, a>>])

Settled == \A e \in Envs : ~over[e]          \* no reset by the loop is pending

InitWith(es, as, md) ==
  /\ cols = es \X as /\ mode = md /\ over = [e \in es |-> FALSE]
  /\ nxt = [c \in es \X as |-> <<0, 0>>]
  /\ ep = [e \in es |-> 0] /\ k = [e \in es |-> 0]
  /\ obs = [c \in es \X as |-> <<0, 0>>]
  /\ cur = [c \in es \X as |-> 0] /\ dones = <<>> /\ sobs = <<>> /\ nroll = 0 /\ up = FALSE
Init == InitWith(EnvSet, AgentSet, Mode)

--------------------------------------------------------------------------------
(* env.reset() at the start of an agent's turn: every environment begins a fresh episode (any larger number: *)
(* evaluation episodes may have run on the same environment in between).  Never inside a rollout.              *)
ResetTo(new) ==
  /\ dones = <<>> /\ nroll < MaxRolls /\ Settled
  /\ \A e \in Envs : new[e] > ep[e]
  /\ ep' = new /\ k' = [e \in Envs |-> 0]
  /\ obs' = [c \in Cols |-> <<new[c[1]], 0>>]
  /\ nxt' = obs'
  /\ cur' = Zero /\ up' = TRUE
  /\ UNCHANGED <<cols, mode, over, dones, sobs, nroll>>
Reset == ResetTo([e \in Envs |-> ep[e] + 1])

(* one iteration of the collection loop: record, act, take the flags of this step *)
StepWith(o) ==
  /\ up /\ Len(dones) < MaxT /\ nroll < MaxRolls /\ Settled
  /\ dones' = Append(dones, cur)
  /\ sobs'  = Append(sobs, obs)
  /\ IF mode = "auto"
     THEN \* environment: same-step auto-reset
          /\ ep'  = [e \in Envs |-> IF EnvEnded(o, e) THEN ep[e] + 1 ELSE ep[e]]
          /\ k'   = [e \in Envs |-> IF EnvEnded(o, e) THEN 0 ELSE k[e] + 1]
          /\ over' = over
     ELSE \* plain environment: the terminal observation is returned, the episode is over until somebody resets
          /\ ep'  = ep
          /\ k'   = [e \in Envs |-> k[e] + 1]
          /\ over' = [e \in Envs |-> EnvEnded(o, e)]
  /\ obs' = [c \in Cols |-> <<ep'[c[1]], k'[c[1]]>>]
  /\ nxt' = obs'
  \* loop
  /\ cur' = [c \in Cols |-> Flag(o[c])]
  /\ UNCHANGED <<cols, mode, nroll, up>>

(* "loop" mode: the loop's own env.reset() inside the rollout, right after the step that ended the episode.     *)
(* The observation to act on becomes the first one of the new episode; next_obs and the flags stay as they are. *)
LoopResetTo(new) ==
  /\ mode = "loop" /\ ~Settled
  /\ \A e \in Envs : IF over[e] THEN new[e] > ep[e] ELSE new[e] = ep[e]
  /\ ep' = new /\ k' = [e \in Envs |-> IF over[e] THEN 0 ELSE k[e]]
  /\ obs' = [c \in Cols |-> IF over[c[1]] THEN <<new[c[1]], 0>> ELSE obs[c]]
  /\ over' = [e \in Envs |-> FALSE]
  /\ cur' = IF ResetClears THEN Zero ELSE cur
  /\ UNCHANGED <<cols, mode, nxt, dones, sobs, nroll, up>>
LoopReset == LoopResetTo([e \in Envs |-> IF over[e] THEN ep[e] + 1 ELSE ep[e]])

SomeEnd(o)   == \E c \in Cols : Ended(o[c])
OnlyBy(o, p) == SomeEnd(o) /\ \A c \in Cols : Ended(o[c]) => o[c] = p
StepContinue  == StepWith([c \in Cols |-> Go])
StepTermOnly  == \E o \in Outcomes : OnlyBy(o, <<TRUE, FALSE>>) /\ StepWith(o)      \* every ending of this step is a termination
StepTruncOnly == \E o \in Outcomes : OnlyBy(o, <<FALSE, TRUE>>) /\ StepWith(o)      \* every ending of this step is a truncation
StepMixed     == \E o \in Outcomes : SomeEnd(o) /\ ~OnlyBy(o, <<TRUE, FALSE>>) /\ ~OnlyBy(o, <<FALSE, TRUE>>) /\ StepWith(o)

(* agent.learn((states, ..., dones, values, next_state, next_done)); the next rollout starts with fresh flags *)
(* on the SAME running episodes                                                                              *)
Handed == [dones |-> dones, nd |-> cur, states |-> sobs, next |-> nxt]
Learn ==
  /\ Len(dones) >= 1 /\ Settled
  /\ dones' = <<>> /\ sobs' = <<>> /\ cur' = Zero /\ nroll' = nroll + 1
  /\ UNCHANGED <<cols, mode, over, ep, k, obs, nxt, up>>

Next == Reset \/ StepContinue \/ StepTermOnly \/ StepTruncOnly \/ StepMixed \/ LoopReset \/ Learn
Spec == Init /\ [][Next]_vars
Bound == \A e \in Envs : ep[e] <= MaxEp

--------------------------------------------------------------------------------
(* The clauses.  Rollout positions are 1..n (n = Len(dones)); position n+1 is the observation the column       *)
(* continues from, with flag next_done (in "auto" mode it is also next_state; in "loop" mode next_state is the *)
(* observation the last step returned, see BootstrapObs).  The clauses are stated for settled states (between  *)
(* a step that ended the episode and the loop's reset the loop does nothing else).                             *)
(* d_t below is the flag the learners use as d_t in                                                            *)
(*   delta_t = r_t + gamma V_{t+1} (1 - d_{t+1}) - V_t ,  A_t = delta_t + gamma lambda (1 - d_{t+1}) A_{t+1}. *)
n == Len(dones)
FlagAt(t) == IF t <= n THEN dones[t] ELSE cur
ObsAt(t)  == IF t <= n THEN sobs[t] ELSE obs
EpAt(t, c) == ObsAt(t)[c][1]

\* d_t = 1 exactly when the episode counter of the column advanced between observation t-1 and observation t
\* (d_1 is never used by the recursion and is not constrained)
FlagsMarkEpisodeStarts == Settled =>
  \A c \in Cols : \A t \in 2..(n + 1) : (FlagAt(t)[c] = 1) <=> (EpAt(t, c) # EpAt(t - 1, c))

\* the positions whose reward / value can reach the estimate of step t through the recursion: no set flag in between
Window(t, c) == { u \in t..(n + 1) : \A j \in (t + 1)..u : FlagAt(j)[c] = 0 }
NoLeak == Settled => \A c \in Cols : \A t \in 1..n : \A u \in Window(t, c) : EpAt(u, c) = EpAt(t, c)

\* the observations handed over are consecutive observations of the column: within an episode the next step,
\* or the first observation of a later episode; in particular next_state follows states[n]
Succ(x, y) == (y[1] = x[1] /\ y[2] = x[2] + 1) \/ (y[1] > x[1] /\ y[2] = 0)
ObsChain == \A c \in Cols : \A t \in 2..(n + 1) : Succ(ObsAt(t - 1)[c], ObsAt(t)[c])

\* the bootstrapping observation: where next_done = 0 (the only case in which its value is used) next_state is the
\* observation the column continues from; in "auto" mode always
BootstrapObs == (Settled /\ n >= 1) => \A c \in Cols : (cur[c] = 0 \/ mode = "auto") => nxt[c] = obs[c]

\* every rollout starts with flags 0 (the loops never carry next_done over)
FirstFlagZero == n >= 1 => dones[1] = Zero

TypeOK == /\ cur \in [Cols -> 0..1] /\ Len(sobs) = n /\ n <= MaxT /\ mode \in {"auto", "loop"} /\ (mode = "auto" => Settled)
================================================================================
