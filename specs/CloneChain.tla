----------------------------- MODULE CloneChain -----------------------------
(* C04, chain stage: clone-and-mutate chains of evolvable modules seen from the outside.   *)
(* Every live object s has an architecture arch[s] and computes a function fn[s] (both      *)
(* abstract values: the driver interns the printed layer structure and the outputs on       *)
(* fixed probe batches).  The statement of C04 gives three laws that no history may break: *)
(*   CloneSame  "cloning a network reproduces its outputs on every input": clone(a) has    *)
(*              a's architecture and function -- at every moment, for every live object,   *)
(*              hence also for an object whose earlier clone has been mutated since;       *)
(*   NoopSame   "if the mutation leaves the architecture unchanged the network computes     *)
(*              exactly the same function";                                                *)
(*   Local      clone-and-mutate is how Mutations.architecture_mutate treats a population: *)
(*              a mutation of one object is not a mutation of any other (its parent, its   *)
(*              siblings): their architecture and function stay.                            *)
(* Variant "aliased" is the negative control: clones share the constructor description, so *)
(* a mutation of one re-describes the others, which shows at their next rebuild.            *)
EXTENDS Naturals, FiniteSets, TLC
CONSTANTS Slots, Archs, Fns, MaxOps, Variant
VARIABLES alive, arch, fn, desc, act, nops
vars == <<alive, arch, fn, desc, act, nops>>
\* desc[s]: the architecture the object's constructor description rebuilds (what clone() and a no-op rebuild use)

Init == /\ alive = [s \in Slots |-> s = 1]
        /\ arch = [s \in Slots |-> 1] /\ fn = [s \in Slots |-> 1] /\ desc = [s \in Slots |-> 1]
        /\ act = [op |-> "init", a |-> 1, b |-> 1, changed |-> FALSE] /\ nops = 0

\* g may be the function of a network of architecture d that carries the weights of (a0, f) where they fit:
\* the same function when the architecture is the same, any function otherwise
Rebuilt(f, a0, d, g) == d = a0 => g = f

Clone(a, b, g) ==
  /\ alive[a] /\ ~alive[b] /\ Rebuilt(fn[a], arch[a], desc[a], g)
  /\ alive' = [alive EXCEPT ![b] = TRUE]
  /\ arch' = [arch EXCEPT ![b] = desc[a]]
  /\ desc' = [desc EXCEPT ![b] = desc[a]]
  /\ fn' = [fn EXCEPT ![b] = g]
  /\ act' = [op |-> "clone", a |-> a, b |-> b, changed |-> FALSE]

\* mutation of object a to architecture n (n = desc[a]: stopped by a bound, the module is rebuilt as described)
Mutate(a, n, g) ==
  /\ alive[a] /\ Rebuilt(fn[a], arch[a], n, g)
  /\ arch' = [arch EXCEPT ![a] = n]
  /\ fn' = [fn EXCEPT ![a] = g]
  /\ desc' = IF Variant = "aliased" THEN [s \in Slots |-> IF alive[s] THEN n ELSE desc[s]] ELSE [desc EXCEPT ![a] = n]
  /\ act' = [op |-> "mutate", a |-> a, b |-> a, changed |-> n # arch[a]]
  /\ UNCHANGED alive

Drop(a) == /\ alive[a] /\ a # 1 /\ alive' = [alive EXCEPT ![a] = FALSE]
           /\ act' = [op |-> "drop", a |-> a, b |-> a, changed |-> FALSE] /\ UNCHANGED <<arch, fn, desc>>

Tick == nops < MaxOps /\ nops' = nops + 1
CloneAny  == Tick /\ \E a, b \in Slots, g \in Fns : Clone(a, b, g)
MutateAny == Tick /\ \E a \in Slots, n \in Archs, g \in Fns : Mutate(a, n, g)
DropAny   == Tick /\ \E a \in Slots : Drop(a)
Next == CloneAny \/ MutateAny \/ DropAny
Spec == Init /\ [][Next]_vars

TypeOK == /\ arch \in [Slots -> Archs] /\ desc \in [Slots -> Archs] /\ fn \in [Slots -> Fns] /\ alive \in [Slots -> BOOLEAN]
\* the description of a live object describes the object (otherwise clone() / a rebuild would build something else)
Described == \A s \in Slots : alive[s] => desc[s] = arch[s]
CloneSame == [][act'.op = "clone" => /\ arch'[act'.b] = arch[act'.a] /\ fn'[act'.b] = fn[act'.a]]_vars
NoopSame  == [][(act'.op = "mutate" /\ arch'[act'.a] = arch[act'.a]) => fn'[act'.a] = fn[act'.a]]_vars
Local     == [][\A s \in Slots : (alive[s] /\ ~(act'.op = "mutate" /\ act'.a = s)) =>
                               (arch'[s] = arch[s] /\ fn'[s] = fn[s] /\ desc'[s] = desc[s])]_vars
=============================================================================
