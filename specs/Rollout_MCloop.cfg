SPECIFICATION Spec
CONSTANTS
  EnvSet <- OneEnv
  AgentSet <- MAAgents
  Kinds <- AllKinds
  MaxT = 3
  MaxRolls = 3
  MaxEp = 8
  Mode = "loop"
  ResetClears = FALSE
  FlagRule = "either"
INVARIANT TypeOK
INVARIANT FlagsMarkEpisodeStarts
INVARIANT NoLeak
INVARIANT ObsChain
INVARIANT BootstrapObs
INVARIANT FirstFlagZero
CONSTRAINT Bound
CHECK_DEADLOCK FALSE
