----------------------------- MODULE TrainLoop_MC -----------------------------
(* Model-checking instances of the abstract loop specification. *)
EXTENDS TrainLoop
MCParams ==
  {[k |-> k, rule |-> r, max |-> m, evo |-> e, elitism |-> el, mutate_elite |-> me, target |-> t] :
     k \in 1..2, r \in {"any", "sum"}, m \in {8}, e \in BOOLEAN, el \in BOOLEAN, me \in BOOLEAN, t \in BOOLEAN}
MCParams2 ==
  {[k |-> k, rule |-> r, max |-> m, evo |-> e, elitism |-> el, mutate_elite |-> me, target |-> t] :
     k \in 1..2, r \in {"any", "sum"}, m \in {8, 16}, e \in BOOLEAN, el \in BOOLEAN, me \in BOOLEAN, t \in BOOLEAN}
MCParams3 ==
  {[k |-> 3, rule |-> r, max |-> 8, evo |-> TRUE, elitism |-> el, mutate_elite |-> me, target |-> FALSE] :
     r \in {"any", "sum"}, el \in BOOLEAN, me \in BOOLEAN}
================================================================================
