SPECIFICATION Spec
CONSTANTS
  ClientAssumptions = {"no_retry_when_wedged"}
  NW = 3
  EpLen <- MCEpLen3
  MaxCalls = 6
  MaxFaults = 0
  FaultKinds = {}
  ExcTypes = {"ValueError"}
  Timeouts = {"none"}
INVARIANT StepEquivalence
PROPERTY SlotIsolation
PROPERTY MisuseRejected
CHECK_DEADLOCK TRUE
