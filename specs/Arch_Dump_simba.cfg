INIT Init
NEXT Next
CONSTANTS
  Cfg <- MCSimba
  Inits <- MCSimbaInits
ACTION_CONSTRAINT Dump
INVARIANT DumpInit
VIEW core
CHECK_DEADLOCK FALSE
