SPECIFICATION FairSpec
CONSTANTS
  ClientAssumptions = {"no_retry_when_wedged"}
  NW = 2
  EpLen <- MCEpLen
  MaxCalls = 4
  MaxFaults = 2
  FaultKinds = {"raise", "kill"}
  ExcTypes = {"ValueError"}
  Timeouts = {"none", "finite"}
PROPERTY NoHang
CHECK_DEADLOCK TRUE
