---------------------------- MODULE BanditEnv_Trace ----------------------------
(* Trace validation of the real BanditEnv / Skill (X03).                         *)
(* cfg = [rows |-> the dataset, wrap |-> <<w1, w2>>]; events, in the order of the *)
(* calls made on the real objects:                                                 *)
(*   "new"   env, arms, cdim (context_dim as a sequence)                           *)
(*   "reset" env, state (integer matrix as returned)                               *)
(*   "step"  env, k, reward (as returned through the wrapper, 99 if not an         *)
(*           integer), term (terminated flag through the wrapper), state           *)
(* every event carries exc ("" or the exception text) and intok (every entry of    *)
(* the returned state is an integer).                                              *)
(* The row the environment drew is NOT recorded: the spec action is                *)
(* nondeterministic and TLC keeps every dataset row whose encoding is the returned *)
(* state (several when feature rows repeat); the trace is accepted iff some choice *)
(* of rows explains every reward.                                                  *)
EXTENDS BanditEnv, Json, IOUtils, TLCExt
CONSTANT Diag
Traces == JsonDeserialize(IOEnv.TRACE_FILE)
VARIABLES tid, l
tvars == <<vars, tid, l>>
T  == Traces[tid]
Ev == T.ev[l]
Check(name, c) == IF c THEN TRUE ELSE (Diag /\ PrintT(<<"FAILCLAUSE", tid, l, name>>) /\ FALSE)

TInit == /\ tid \in 1..Len(Traces) /\ l = 1
         /\ InitWith(Traces[tid].cfg.rows, [e \in Envs |-> Traces[tid].cfg.wrap[e]])

Common ==
  /\ Check("the operation returns without raising", Ev.exc = "")
  /\ Check("ShapeOK: the state is an arms x context_dim matrix",
           Len(Ev.state) = Arms /\ \A i \in 1..Len(Ev.state) : Len(Ev.state[i]) = D * Arms)
  /\ Check("EncodingOK: entries of the state are the dataset's (integer) feature values", Ev.intok)
  /\ Check("EncodingOK: the state is the disjoint-arm encoding of a dataset row",
           \E r \in Rows : Encoded(Ev.state, ds[r].x, Arms))

TNew ==
  /\ Ev.op = "new"
  /\ Check("the operation returns without raising", Ev.exc = "")
  /\ Check("ShapeOK: arms = number of distinct labels", Ev.arms = Arms)
  /\ Check("ShapeOK: context_dim = (features * arms,)", Ev.cdim = <<D * Arms>>)
  /\ shown[Ev.env] = 0
  /\ UNCHANGED vars

TReset ==
  /\ Ev.op = "reset"
  /\ Common
  /\ \E r \in Rows : Ev.state = Enc(r) /\ ResetTo(Ev.env, r)

TStep ==
  /\ Ev.op = "step"
  /\ Common
  /\ Check("RewardBinary: the reward is 0 or 1", wrap[Ev.env] = "none" => Ev.reward \in {0, 1})
  /\ Check("SkillPass: the reward through Skill is skill_reward's image of 0 or 1 (identity unless overridden)",
           wrap[Ev.env] # "none" => Ev.reward \in {SkillReward(wrap[Ev.env], 0), SkillReward(wrap[Ev.env], 1)})
  /\ Check("RewardOK: no reward before the first reset", shown[Ev.env] = 0 => Ev.reward = SkillReward(wrap[Ev.env], 0))
  /\ Check("RewardOK: reward = [k is the label of the previously shown row] for some row explaining the history",
           shown[Ev.env] # 0 => Ev.reward = SkillReward(wrap[Ev.env], IF Code(shown[Ev.env]) = Ev.k THEN 1 ELSE 0))
  /\ Check("SkillPass: terminated flag is the environment's (skill_reward's if overridden)", Ev.term = SkillTerm(wrap[Ev.env]))
  /\ \E r \in Rows : Ev.state = Enc(r) /\ StepTo(Ev.env, Ev.k, r)
  /\ Ev.reward = out'.reward

TAccept == /\ l = Len(T.ev) + 1 /\ PrintT(<<"ACCEPT", tid>>) /\ l' = l + 1 /\ UNCHANGED <<vars, tid>>
TNext == \/ (l <= Len(T.ev) /\ (TNew \/ TReset \/ TStep) /\ l' = l + 1 /\ UNCHANGED tid)
         \/ TAccept
TSpec == TInit /\ [][TNext]_tvars
================================================================================
