------------------------------ MODULE Arch_Dump ------------------------------
(* M2: the dump configurations (Arch_Dump_<instance>.cfg) print the configuration record (CFG),  *)
(* every initial architecture (INIT) and every transition of the reachable graph exactly once    *)
(* (TR: from, act = [m, applied, args], to, surv = cells each surviving tensor must keep).       *)
EXTENDS Arch_MC
================================================================================
