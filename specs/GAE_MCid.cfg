INIT Init
NEXT NextId
CONSTANTS
  Params <- MCParamsId
  Rews = {0}
  Vals = {0}
  MaxT = 3
  Layouts <- UniformLayouts
  Perturb = {0,5}
INVARIANT TypeOK
INVARIANT RecursionMeetsDefinition
INVARIANT ScaleExact
INVARIANT NoLeak
INVARIANT ColumnsSeparate
INVARIANT RowsAligned
INVARIANT RowsComplete
VIEW core
CHECK_DEADLOCK FALSE
