------------------------------ MODULE ObsPrep_MC ------------------------------
(* Grids for ObsPrep (C15) and the M2(a) dump of every case with its expected result. *)
EXTENDS ObsPrep, Json

Ext == {1, 2, 3}
ShapesOfRank(k) == [1..k -> Ext]                    \* rank 0 -> {<<>>}
Shapes(maxrank) == UNION {ShapesOfRank(k) : k \in 0..maxrank}
Leads   == {<<>>, <<1>>, <<2>>, <<3>>, <<1, 1>>, <<2, 1>>, <<1, 2>>, <<2, 3>>}
LeadsS  == {<<>>, <<1>>, <<2>>, <<1, 2>>, <<2, 1>>}

Leaf(sp, lead, salt, norm) == [kind |-> "leaf", subs |-> <<sp>>, lead |-> lead, salt |-> salt, norm |-> norm]
Comp(kind, subs, lead, norm) == [kind |-> kind, subs |-> subs, lead |-> lead, salt |-> 1, norm |-> norm]

\* Box of every rank 0..4 with extents in {1,2,3}; images with several bounds, normalisation on and off
BoxCases(shapes, leads) ==
     {Leaf(Box(s, 0, 4), l, 0, TRUE) : s \in shapes, l \in leads}
\cup {Leaf(Box(s, lo, 2), l, 1, nm) : s \in {t \in shapes : Len(t) = 3}, l \in leads, lo \in {-2}, nm \in BOOLEAN}
\cup {Leaf(Box(s, 0, hi), l, 2, TRUE) : s \in {t \in shapes : Len(t) = 3}, l \in leads, hi \in {1, 255}}
\cup {Leaf(Box(s, 0, 4), l, 1, FALSE) : s \in {t \in shapes : Len(t) \in {1, 3}}, l \in leads}
DiscCases(leads) == {Leaf(Disc(n), l, s, TRUE) : n \in 1..3, l \in leads, s \in 0..1}
NVecs == {<<1>>, <<2>>, <<3>>, <<1, 1>>, <<2, 3>>, <<3, 2>>, <<1, 3>>, <<2, 1>>, <<2, 2, 2>>, <<3, 1, 2>>}
MDCases(leads) == {Leaf(MD(nv), l, 0, TRUE) : nv \in NVecs, l \in leads}
MBCases(leads) == {Leaf(MB(n), l, s, TRUE) : n \in 1..3, l \in leads, s \in 0..1}

Palette == <<Box(<<2>>, 0, 4), Box(<<1, 2, 2>>, 0, 4), Box(<<>>, 0, 4), Box(<<1>>, 0, 4),
             Disc(1), Disc(3), MD(<<2, 3>>), MB(2)>>
PairCases(leads) == {Comp(kd, <<Palette[i], Palette[j]>>, l, nm) :
                        kd \in {"dict", "tuple"}, i \in 1..Len(Palette), j \in 1..Len(Palette), l \in leads, nm \in {TRUE}}
TripleCases(leads) == {Comp(kd, <<Palette[1], Palette[2], Palette[6]>>, l, nm) : kd \in {"dict", "tuple"}, l \in leads, nm \in BOOLEAN}
                 \cup {Comp(kd, <<Palette[5], Palette[7], Palette[8], Palette[3]>>, l, TRUE) : kd \in {"dict", "tuple"}, l \in leads}

MCCases == BoxCases(Shapes(4), Leads) \cup DiscCases(Leads) \cup MDCases(Leads) \cup MBCases(Leads)
           \cup PairCases(Leads) \cup TripleCases(Leads)
\* quick tier: rank-4 boxes and composites on the smaller set of leading shapes
MCCasesQ == BoxCases(Shapes(3), Leads) \cup BoxCases(ShapesOfRank(4), LeadsS)
            \cup DiscCases(Leads) \cup MDCases(Leads) \cup MBCases(Leads)
            \cup PairCases(LeadsS) \cup TripleCases(Leads)

\* homogeneous groups: every assignment of up to 4 agents to group labels {1,2} (all compositions and
\* interleavings, e.g. <<1,2,1>> = a_0, b_0, a_1), 1..3 environments, output width 1..2
Homo(grp, E, d) == [kind |-> "homo", grp |-> grp, E |-> E, d |-> d]
GrpSeqs(maxA) == {g \in UNION {[1..n -> {1, 2}] : n \in 1..maxA} : g[1] = 1}   \* labels are canonical: first agent's group is 1
HomoCases(maxA) == {Homo(g, E, d) : g \in GrpSeqs(maxA), E \in 1..3, d \in 1..2}
Critic(A, B, img, dims) == [kind |-> "critic", A |-> A, B |-> B, img |-> img, dims |-> dims]
CriticCases == {Critic(A, B, FALSE, SubSeq(dm, 1, A)) : A \in 1..3, B \in 1..3, dm \in {<<1, 1, 1>>, <<2, 1, 3>>, <<3, 2, 1>>}}
          \cup {Critic(A, B, TRUE, dm) : A \in 1..3, B \in 1..2, dm \in {<<1, 1, 1>>, <<1, 2, 2>>, <<2, 1, 2>>, <<3, 2, 1>>}}
MCMACases  == HomoCases(4) \cup CriticCases
MCMACasesQ == HomoCases(3) \cup CriticCases

--------------------------------------------------------------------------------
(* M2(a): print every finished case with the expected result *)
Payload ==
  IF IsPrep
    THEN [kind |-> cs.kind, subs |-> cs.subs, lead |-> cs.lead, norm |-> cs.norm, salt |-> cs.salt,
          x |-> x, rows |-> NRows(cs.lead), vect |-> VectDim(cs.lead), isvect |-> IsVect(cs.lead),
          out |-> out]
    ELSE IF cs.kind = "homo"
    THEN [kind |-> "homo", grp |-> cs.grp, E |-> cs.E, d |-> cs.d, x |-> x,
          groups |-> [g \in Groups(cs) |-> Members(cs, g)],
          mid |-> mid, out |-> out]
    ELSE [kind |-> "critic", A |-> cs.A, B |-> cs.B, img |-> cs.img, dims |-> cs.dims, x |-> x, out |-> out]
Dump == pc = "done" => PrintT(<<"CASE", ToJson(Payload)>>)
================================================================================
