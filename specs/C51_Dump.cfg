INIT Init
NEXT NextAll
CONSTANTS
  Shapes <- MCShapesQ
  Gs = {0, 1, 2, 3, 4}
  Q = 4
  PDen = 4
  Shifts <- MCShifts
INVARIANT DumpCase
INVARIANT ShiftCovariant
VIEW core
CHECK_DEADLOCK FALSE
