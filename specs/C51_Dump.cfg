INIT Init
NEXT NextAll
CONSTANTS
  Shapes <- MCShapesQ
  Gs = {0, 1, 2, 4}
  Q = 4
  PDen = 4
INVARIANT DumpCase
VIEW core
CHECK_DEADLOCK FALSE
