SPECIFICATION Spec
CONSTANTS
  EnvSet <- SAEnvs
  AgentSet <- SAAgents
  Kinds <- AllKinds
  MaxT = 3
  MaxRolls = 2
  MaxEp = 6
  Mode = "auto"
  ResetClears = FALSE
  FlagRule = "either"
INVARIANT TypeOK
INVARIANT FlagsMarkEpisodeStarts
INVARIANT NoLeak
INVARIANT ObsChain
INVARIANT BootstrapObs
INVARIANT FirstFlagZero
CONSTRAINT Bound
CHECK_DEADLOCK FALSE
