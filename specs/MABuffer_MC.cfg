SPECIFICATION Spec
CONSTANTS
  Caps = {1,2,3,4}
  MaxAdded = 10
  MaxW = 5
INVARIANT LenOK
INVARIANT ContentsOK
INVARIANT FifoOK
PROPERTY SampleSound
CONSTRAINT Bound
VIEW core
CHECK_DEADLOCK FALSE
