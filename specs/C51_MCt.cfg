SPECIFICATION Spec
CONSTANTS
  Shapes <- MCShapesT
  Gs = {0, 1, 2, 3, 4}
  Q = 4
  PDen = 8
  Shifts <- MCShifts
INVARIANT TypeOK
INVARIANT MassConserved
INVARIANT MeanConserved
INVARIANT InRange
INVARIANT Neighbours
INVARIANT NonNeg
INVARIANT StepMass
INVARIANT RunAllSame
PROPERTY IndicesFrozen
CONSTRAINT Bound
VIEW core
CHECK_DEADLOCK FALSE
