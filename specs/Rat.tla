---------------------------------- MODULE Rat ----------------------------------
(* Exact non-negative rationals <<num, den>> (den > 0), gcd-normalised.  TLC has  *)
(* only 32-bit integers: callers keep numerators / denominators small.            *)
EXTENDS Integers
RECURSIVE GCD(_, _)
GCD(a, b) == IF b = 0 THEN a ELSE GCD(b, a % b)
Norm(r) == LET g == GCD(IF r[1] < 0 THEN -r[1] ELSE r[1], r[2]) IN IF g = 0 THEN <<0, 1>> ELSE <<r[1] \div g, r[2] \div g>>
RMul(a, b) == Norm(<<a[1] * b[1], a[2] * b[2]>>)
RLeq(a, b) == a[1] * b[2] <= b[1] * a[2]
RLt(a, b)  == a[1] * b[2] < b[1] * a[2]
REq(a, b)  == a[1] * b[2] = b[1] * a[2]
RMin(a, b) == IF RLeq(a, b) THEN a ELSE b
RMax(a, b) == IF RLeq(a, b) THEN b ELSE a
RFloor(a)  == <<a[1] \div a[2], 1>>            \* a >= 0
RIsInt(a)  == a[1] % a[2] = 0
================================================================================
