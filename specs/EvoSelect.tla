------------------------------- MODULE EvoSelect -------------------------------
(***************************************************************************)
(* Tournament selection (agilerl/hpo/tournament.py), property C05.         *)
(* A population is a sequence of members [idx, fit] (fit = history of      *)
(* integer evaluation scores).  Select is parameterised by the random      *)
(* tournament draws and by which maximal member wins (ties are permitted   *)
(* to go either way: the property only demands "highest mean").            *)
(***************************************************************************)
EXTENDS Integers, Sequences, FiniteSets, TLC

CONSTANTS MaxPop, MaxN, Scores, MaxHist, MaxGen, Ks, Ws

VARIABLES pop,      \* Seq([idx, fit])
          par,      \* [k: tournament size, n: population size, elitism, W: evaluation window]
          elite,    \* last elite: [parent position, idx]
          prev,     \* population before the last selection
          lastsel,  \* last new population as Seq([parent, idx])
          gen, act
vars == <<pop, par, elite, prev, lastsel, gen, act>>

RECURSIVE SumSeq(_)
SumSeq(s) == IF s = <<>> THEN 0 ELSE Head(s) + SumSeq(Tail(s))
Window(f, W) == IF Len(f) <= W THEN f ELSE SubSeq(f, Len(f) - W + 1, Len(f))
\* mean(a) <= mean(b) by cross-multiplication (exact)
MeanLeq(a, b) == SumSeq(a) * Len(b) <= SumSeq(b) * Len(a)
Win(p, i) == Window(p[i].fit, par.W)
ArgMaxMean(p, S) == {i \in S : \A j \in S : MeanLeq(Win(p, j), Win(p, i))}
Idxs(p) == {p[i].idx : i \in 1..Len(p)}
MaxIdx(p) == CHOOSE m \in Idxs(p) : \A x \in Idxs(p) : x <= m

\* what a selection may produce: sel = Seq([parent, idx]) for the new population, e = elite parent position,
\* draws = the tournaments (sequence of sequences of positions), one per non-elite member
SelectOK(p, e, sel, draws) ==
  /\ e \in ArgMaxMean(p, 1..Len(p))                                   \* elite = highest mean of the last W scores
  /\ Len(sel) = par.n                                                 \* exactly the configured size
  /\ LET off == IF par.elitism THEN 1 ELSE 0 IN
     /\ Len(draws) = par.n - off
     /\ (par.elitism => sel[1].parent = e /\ sel[1].idx = p[e].idx)   \* with elitism the first member is the elite
     /\ \A j \in 1..Len(draws) :
          /\ Len(draws[j]) = par.k
          /\ sel[j + off].parent \in ArgMaxMean(p, {draws[j][m] : m \in 1..par.k})   \* best of its tournament
          /\ sel[j + off].idx \notin Idxs(p)                                         \* fresh index ...
     /\ \A i, j \in 1..Len(sel) : i # j => sel[i].idx # sel[j].idx                   \* ... that no other member has

Select(e, sel, draws) ==
  /\ gen < MaxGen /\ Len(pop) >= 1
  /\ SelectOK(pop, e, sel, draws)
  /\ prev' = pop
  /\ pop' = [j \in 1..Len(sel) |-> [idx |-> sel[j].idx, fit |-> pop[sel[j].parent].fit]]   \* faithful copies
  /\ elite' = [parent |-> e, idx |-> pop[e].idx]
  /\ lastsel' = sel
  /\ gen' = gen + 1 /\ UNCHANGED par /\ act' = "select"

Evaluate(scores) ==
  /\ act = "select" /\ Len(scores) = Len(pop)
  /\ pop' = [j \in 1..Len(pop) |-> [pop[j] EXCEPT !.fit = IF Len(@) < MaxHist THEN Append(@, scores[j]) ELSE Append(Tail(@), scores[j])]]
  /\ UNCHANGED <<par, elite, prev, lastsel, gen>> /\ act' = "eval"

Hists == UNION {[1..h -> Scores] : h \in 1..MaxHist}
Init == /\ \E m \in 1..MaxPop : \E f \in [1..m -> Hists] : pop = [i \in 1..m |-> [idx |-> i - 1, fit |-> f[i]]]
        /\ par \in [k : Ks, n : 1..MaxN, elitism : BOOLEAN, W : Ws]
        /\ elite = [parent |-> 0, idx |-> 0] /\ prev = <<>> /\ lastsel = <<>> /\ gen = 0 /\ act = "init"

\* model-checking instance: every draw, the code's index rule (max index + j), every permitted winner
MCSelect ==
  LET off == IF par.elitism THEN 1 ELSE 0 IN
  \E e \in ArgMaxMean(pop, 1..Len(pop)) :
  \E draws \in [1..(par.n - off) -> [1..par.k -> 1..Len(pop)]] :
  \E win \in [1..(par.n - off) -> 1..Len(pop)] :
     /\ \A j \in 1..(par.n - off) : win[j] \in ArgMaxMean(pop, {draws[j][m] : m \in 1..par.k})
     /\ LET sel == [j \in 1..par.n |-> IF par.elitism /\ j = 1 THEN [parent |-> e, idx |-> pop[e].idx]
                                   ELSE [parent |-> win[j - off], idx |-> MaxIdx(pop) + j - off]] IN
        Select(e, sel, draws)
MCEval == \E scores \in [1..Len(pop) -> Scores] : Evaluate(scores)
Next == MCSelect \/ (MaxGen > 1 /\ MCEval)
Spec == Init /\ [][Next]_vars

(* Properties *)
SizeOK == act = "select" => Len(pop) = par.n
DistinctIdx == \A i, j \in 1..Len(pop) : i # j => pop[i].idx # pop[j].idx
\* with elitism the fittest is never lost: right after selection some member has the best old mean
BestMean(p) == LET b == CHOOSE i \in 1..Len(p) : i \in ArgMaxMean(p, 1..Len(p)) IN Win(p, b)
EliteKept == (act = "select" /\ par.elitism) => MeanLeq(BestMean(prev), BestMean(pop)) /\ pop[1].fit = prev[elite.parent].fit
EliteIsBest == act = "select" => elite.parent \in ArgMaxMean(prev, 1..Len(prev))
================================================================================
