------------------------------ MODULE PERx_Trace ------------------------------
(***************************************************************************)
(* C11, inexact mode: float priorities, arbitrary alpha/beta/batch size.   *)
(* Leaf values are not predicted.  The state machine keeps the discrete    *)
(* part (capacity, length, tree pointer, storage cursor) and each event    *)
(* carries facts measured on the real object with a fixed tolerance        *)
(* (vfw/drive/per.py: root_ok, min_ok, stratum_ok, w_formula_ok, ...).     *)
(***************************************************************************)
EXTENDS Integers, Sequences, FiniteSets, TLC, Json, IOUtils, TLCExt
CONSTANT Diag
Traces == JsonDeserialize(IOEnv.TRACE_FILE)
VARIABLES N, size, ptr, tid, l
vars == <<N, size, ptr, tid, l>>
T  == Traces[tid]
Ev == T.ev[l]
MinI(a, b) == IF a <= b THEN a ELSE b
Check(name, c) == IF c THEN TRUE ELSE (Diag /\ PrintT(<<"FAILCLAUSE", tid, l, name>>) /\ FALSE)
TInit == /\ tid \in 1..Len(Traces) /\ l = 1 /\ N = Traces[tid].cfg.N /\ size = 0 /\ ptr = 0

Facts ==
  /\ Check("returns without raising", Ev.exc = "")
  /\ Check("len(buffer)", Ev.size = size')
  /\ Check("tree pointer follows the storage cursor", Ev.ptr = ptr' /\ Ev.cursor = ptr')
  /\ Check("running total agrees with a direct sum of the stored priorities", Ev.root_ok)
  /\ Check("running minimum agrees with a direct minimum of the stored priorities", Ev.min_ok)
  /\ Check("exactly the stored transitions have a positive priority", Ev.leaves_ok)
  /\ Check("max priority = highest priority seen so far", Ev.maxp_ok)

TAdd == /\ Ev.op = "add" /\ size' = MinI(size + Ev.w, N) /\ ptr' = (ptr + Ev.w) % N
        /\ Check("new transitions get the highest priority seen so far", Ev.newmax_ok)
        /\ Facts
TClear == /\ Ev.op = "clear" /\ size' = 0 /\ ptr' = 0 /\ Facts
TUpdate == /\ Ev.op = "update" /\ UNCHANGED <<size, ptr>>
           /\ Check("updated priorities are stored as max(p, eps)^alpha", Ev.upd_ok)
           /\ Facts
TSample == /\ Ev.op = "sample" /\ UNCHANGED <<size, ptr>>
           /\ Check("returns without raising", Ev.exc = "")
           /\ Check("B rows", Len(Ev.idxs) = Ev.B)
           /\ Check("sampled index is a stored transition", \A i \in 1..Len(Ev.idxs) : Ev.idxs[i] \in 0..(size - 1))
           /\ Check("sampled index has positive priority", Ev.leafpos_ok)
           /\ Check("index lies in its stratum of the priority mass", Ev.stratum_ok)
           /\ Check("weight in (0,1]", Ev.w_range_ok)
           /\ Check("weight = (N P(i))^-beta / max weight", Ev.w_formula_ok)
           /\ Check("rows handed out are the rows stored at the sampled indices", Ev.rows_match)
           /\ Facts

TAccept == /\ l = Len(T.ev) + 1 /\ PrintT(<<"ACCEPT", tid>>) /\ l' = l + 1 /\ UNCHANGED <<N, size, ptr, tid>>
TNext == \/ (l <= Len(T.ev) /\ (TAdd \/ TClear \/ TUpdate \/ TSample) /\ l' = l + 1 /\ UNCHANGED <<N, tid>>)
         \/ TAccept
TSpec == TInit /\ [][TNext]_vars
SizeOK == size \in 0..N /\ ptr \in 0..(N - 1)
================================================================================
