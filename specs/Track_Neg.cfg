INIT Init
NEXT NextResetClone
CONSTANTS
  NSlots = 2
  NFiles = 1
  PF = 2
  MaxLearn = 4
INVARIANT BoundedLag
CONSTRAINT Bound
VIEW core
CHECK_DEADLOCK FALSE
