INIT Init
NEXT Next
CONSTANTS
  Cfg <- MCCnnD
  Inits <- MCCnnDInits
ACTION_CONSTRAINT Dump
INVARIANT DumpInit
VIEW core
CHECK_DEADLOCK FALSE
