INIT Init
NEXT Next
CONSTANTS
  Cfg <- MCCnn3
  Inits <- MCCnnDInits
ACTION_CONSTRAINT Dump
INVARIANT DumpInit
VIEW core
CHECK_DEADLOCK FALSE
