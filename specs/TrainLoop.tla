------------------------------- MODULE TrainLoop -------------------------------
(***************************************************************************)
(* Evolutionary training loops of agilerl/training (property C20):         *)
(* train_off_policy, train_on_policy, train_offline, train_bandits,        *)
(* train_multi_agent_off_policy, train_multi_agent_on_policy.              *)
(*                                                                         *)
(* Counters only.  A population is a sequence of slots                     *)
(*   idx     agent.index                                                   *)
(*   steps   agent.steps[-1]                                               *)
(*   truth   ghost: environment steps really taken with this agent, summed *)
(*           along its lineage (fed by the instrumented environment)       *)
(*   fitlen  len(agent.fitness)                                            *)
(*   base    ghost: len(fitness) the lineage started with                  *)
(*   score   rank of mean(fitness[-eval_loop:]) (what selection ranks by)  *)
(* par: k (size), rule ("any": the loop runs while ALL agents are below    *)
(* max, i.e. the budget is met once any agent reached it -- off-policy,    *)
(* on-policy, offline, bandits, multi-agent off-policy; "sum": the budget  *)
(* is compared with the sum over the population -- multi-agent on-policy,  *)
(* whose docstring says "across the entire population"), max, evo          *)
(* (tournament + mutation given), elitism, mutate_elite, target.           *)
(*                                                                         *)
(* One generation = every agent takes d[s] environment steps, then every   *)
(* agent is evaluated once.  The budget predicate is evaluated where the   *)
(* loops evaluate it: on the population that would enter the next          *)
(* generation (after selection, if there is one).                          *)
(***************************************************************************)
EXTENDS Integers, Sequences, FiniteSets, TLC

CONSTANTS Params,     \* set of parameter records
          Ds,         \* environment steps an agent may take in one generation
          Scores,     \* ranks an evaluation may produce
          MaxGen      \* bound on generations (model checking only)

VARIABLES pop, par,
          act,        \* "init" | "gen" | "sel" | "ret"
          gen,        \* generations executed so far
          prev,       \* population before the last selection
          sel,        \* last selection: Seq([parent, same]) (same: the member is an unchanged copy of its parent)
          early       \* the run returned because the early-stopping target fired
vars == <<pop, par, act, gen, prev, sel, early>>

RECURSIVE SumSteps(_)
SumSteps(p) == IF p = <<>> THEN 0 ELSE Head(p).steps + SumSteps(Tail(p))

BudgetMet(p) == IF par.rule = "any" THEN \E s \in 1..Len(p) : p[s].steps >= par.max
                                     ELSE SumSteps(p) >= par.max
Best(p) == {i \in 1..Len(p) : \A j \in 1..Len(p) : p[j].score <= p[i].score}
IdxSet(p) == {p[i].idx : i \in 1..Len(p)}

(* every slot's agent takes d[s] environment steps (the loop adds what it counted, c[s], to steps[-1]), *)
(* then one evaluation per agent appends one fitness entry                                              *)
GenBody(d, c, sc) ==
  /\ act \in {"init", "gen", "sel"}
  /\ pop' = [s \in 1..Len(pop) |-> [pop[s] EXCEPT !.steps = @ + c[s], !.truth = @ + d[s],
                                                  !.fitlen = @ + 1, !.score = sc[s]]]
  /\ act' = "gen" /\ gen' = gen + 1
  /\ UNCHANGED <<par, prev, sel, early>>
GenerationC(d, c, sc) == ~BudgetMet(pop) /\ GenBody(d, c, sc)      \* a generation starts only while the budget is not met
Generation(d, sc) == GenerationC(d, d, sc)                         \* the counter follows the environment

(* new population of the same size built from copies; ps = parents, ix = indices, same = unchanged copies *)
SelectMutate(ps, ix, same) ==
  /\ act = "gen" /\ par.evo
  /\ Len(ps) = par.k /\ Len(ix) = par.k /\ Len(same) = par.k
  /\ \A j \in 1..par.k : ps[j] \in 1..Len(pop)
  /\ \A i, j \in 1..par.k : i # j => ix[i] # ix[j]
  /\ par.elitism => ps[1] \in Best(pop)
  /\ (par.elitism /\ ~par.mutate_elite) => same[1]
  /\ prev' = pop
  /\ pop' = [j \in 1..par.k |-> [pop[ps[j]] EXCEPT !.idx = ix[j]]]      \* steps, truth, fitlen inherited
  /\ sel' = [j \in 1..par.k |-> [parent |-> ps[j], same |-> same[j]]]
  /\ act' = "sel"
  /\ UNCHANGED <<par, gen, early>>

Return(e) ==
  /\ act \in {"init", "gen", "sel"}
  /\ \/ (~e /\ BudgetMet(pop))
     \/ (e /\ par.target /\ act = "gen")               \* early stopping is tested right after the evaluations
  /\ act' = "ret" /\ early' = e
  /\ UNCHANGED <<pop, par, gen, prev, sel>>

Slot0(i) == [idx |-> i - 1, steps |-> 0, truth |-> 0, fitlen |-> 0, base |-> 0, score |-> 0]
Init == /\ par \in Params
        /\ pop = [i \in 1..par.k |-> Slot0(i)]
        /\ act = "init" /\ gen = 0 /\ prev = <<>> /\ sel = <<>> /\ early = FALSE

MaxIdx(p) == CHOOSE m \in IdxSet(p) : \A x \in IdxSet(p) : x <= m
(* model-checking instance: every d, every score, every parent choice; the code's index rule *)
MCSelect ==
  \E ps \in [1..par.k -> 1..Len(pop)] : \E s1 \in BOOLEAN :
    LET same == [j \in 1..par.k |-> j = 1 /\ s1]      \* only member 1's faithfulness matters to the properties
        ix == [j \in 1..par.k |-> IF par.elitism /\ j = 1 THEN pop[ps[1]].idx ELSE MaxIdx(pop) + j] IN
    SelectMutate(ps, ix, same)
Next == \/ (gen < MaxGen /\ \E d \in [1..Len(pop) -> Ds] : \E sc \in [1..Len(pop) -> Scores] : Generation(d, sc))
        \/ MCSelect
        \/ \E e \in BOOLEAN : Return(e)
Spec == Init /\ [][Next]_vars

(* ------------------------------- properties ------------------------------- *)
StepsAreEnvSteps == \A s \in 1..Len(pop) : pop[s].steps = pop[s].truth
OneFitnessPerGeneration == \A s \in 1..Len(pop) : pop[s].fitlen = pop[s].base + gen
PopShape == /\ Len(pop) = par.k
            /\ \A i, j \in 1..Len(pop) : i # j => pop[i].idx # pop[j].idx
EliteCarried == (act = "sel" /\ par.elitism /\ ~par.mutate_elite) =>
                   /\ sel[1].parent \in Best(prev)
                   /\ sel[1].same
                   /\ [pop[1] EXCEPT !.idx = 0] = [prev[sel[1].parent] EXCEPT !.idx = 0]
Inherited == act = "sel" => \A j \in 1..Len(pop) : [pop[j] EXCEPT !.idx = 0] = [prev[sel[j].parent] EXCEPT !.idx = 0]
(* training stops in the first generation in which the budget is met: no generation starts once the  *)
(* budget predicate holds, and the loop returns only when it holds (or the early-stopping target fired) *)
NoGenerationOnceMet == [][act' = "gen" => ~BudgetMet(pop)]_vars
ReturnOnlyWhenMet == [][act' = "ret" => (BudgetMet(pop) \/ (early' /\ par.target))]_vars
Bound == gen <= MaxGen
================================================================================
