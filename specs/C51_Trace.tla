------------------------------- MODULE C51_Trace -------------------------------
(* Trace validation of the real RainbowDQN.learn / _dqn_loss against C51.tla (C18).     *)
(* cfg  = [N, vmin, B, gammaq, n, nstep, combined, per]   (gammaq = agent.gamma * Q)    *)
(*   further cfg fields describe how the driver built the agent and the inputs (support as *)
(*   affine image of the grid: scale, shift, vrange, exact; actions A, obs_shape, prior_eps, *)
(*   clone, bs_ctor, dtypes / shapes / container of the experiences): they do not change    *)
(*   what is demanded.  On non-dyadic supports (exact = 0) m and rew are rounded to the grid *)
(*   when within the float32 error bound of a grid point, off-grid markers otherwise.       *)
(* Event "loss" = one execution of _dqn_loss as seen through the guarded hook and the   *)
(*   driver's stubs:                                                                    *)
(*   set   "one" / "n": the experience batch the call worked on (decoded from the       *)
(*         observations the stubbed networks were called with and the role they were    *)
(*         called in), "mixed" if the call combined rows of different batches / roles   *)
(*   rows  the batch as the driver built it: per row the target network's weights for   *)
(*         the online-greedy next action (numerators over PDen), reward*Q, done         *)
(*   src, rew, dn  what reached the projection (hook): target_q_dist, rewards, dones    *)
(*   gq    gamma handed to the call, * Q  (-1 if not a multiple of 1/Q)                 *)
(*   m     proj_dist flattened, * Q*PDen  (-1 where not an integer)                     *)
(*   ce_ok returned element-wise loss = -sum proj * log q(action taken)  (harness, float)*)
(* Event "learn" = the return of learn(): prio_ok  new_priorities - prior_eps = sum of  *)
(*   the cross-entropies of the calls (harness, float), idx_ok, exc.                    *)
EXTENDS C51, Json, IOUtils, TLCExt
CONSTANT Diag
Traces == JsonDeserialize(IOEnv.TRACE_FILE)
VARIABLES tid, l, calls
tvars == <<vars, tid, l, calls>>
T  == Traces[tid]
C  == T.cfg
Ev == T.ev[l]
Check(name, c) == IF c THEN TRUE ELSE (Diag /\ PrintT(<<"FAILCLAUSE", tid, l, name>>) /\ FALSE)

TInit == /\ tid \in 1..Len(Traces) /\ l = 1 /\ calls = <<>>
         /\ Idle(Traces[tid].cfg.N, Traces[tid].cfg.vmin, Traces[tid].cfg.B)

RECURSIVE Pow(_, _)
Pow(x, e) == IF e = 0 THEN 1 ELSE x * Pow(x, e - 1)
\* gamma^e in units of 1/Q (the driver only uses gammas for which this is exact)
GPow(g, e) == Pow(g, e) \div Pow(Q, e - 1)
ExpectedG(set) == IF set = "n" THEN GPow(C.gammaq, C.n) ELSE C.gammaq
ExpectedSets == (IF C.combined = 1 \/ C.nstep = 0 THEN {"one"} ELSE {}) \cup (IF C.nstep = 1 THEN {"n"} ELSE {})

TCall ==
  /\ l <= Len(T.ev) /\ Ev.op = "loss" /\ phase \in {"idle", "done"}
  /\ Check("Raises: _dqn_loss returns without raising", Ev.exc = "")
  /\ Check("OneBatch: a loss term is computed from one experience batch (next_obs for the target, obs for the online distribution)",
           Ev.set \in {"one", "n"})
  /\ Check("Gamma: the 1-step term discounts with gamma, the n-step term with gamma^n", Ev.gq = ExpectedG(Ev.set))
  /\ Check("Shape: one row per transition", Len(Ev.rows) = B /\ Len(Ev.src) = B /\ Len(Ev.m) = B * N)
  /\ Check("Source: the source distribution is the target network's distribution for the online-greedy next action",
           \A i \in 1..B : Ev.src[i] = Ev.rows[i].p)
  /\ Check("Inputs: rewards and done flags of the batch reach the projection", \A i \in 1..B : Ev.rew[i] = Ev.rows[i].rq /\ Ev.dn[i] = Ev.rows[i].d)
  /\ Call(ExpectedG(Ev.set), Ev.rows)
  /\ calls' = Append(calls, Ev.set)
  /\ UNCHANGED <<tid, l>>

TMicro == (Indices \/ AddLower \/ NextPass \/ AddUpper) /\ UNCHANGED <<tid, l, calls>>

ObsMass(i) == SumRange(Ev.m, (i * N) + 1, (i * N) + N)
RECURSIVE ObsMeanTo(_, _)
ObsMeanTo(i, j) == IF j < 0 THEN 0 ELSE Ev.m[i * N + j + 1] * Z(j) + ObsMeanTo(i, j - 1)

TFinish ==
  /\ Finish
  /\ Check("NonNeg: observed projection has no negative or off-grid entry", \A e \in 1..(B * N) : Ev.m[e] >= 0)
  /\ Check("MassConserved: observed projection has the total mass of the source distribution",
           \A i \in Rows : ObsMass(i) = Q * SrcMass(i))
  /\ Check("MeanConserved: observed projection has the mean of clamp(r + gamma^n (1-done) z) under the source distribution",
           \A i \in Rows : ObsMeanTo(i, N - 1) = SrcMeanTo(i, N - 1))
  /\ Check("Projection: observed projection equals the specified redistribution", \A e \in Elems : Ev.m[e + 1] = m[e])
  /\ Check("CrossEntropy: returned per-sample loss = -sum proj * log q(action taken)", Ev.ce_ok)
  /\ l' = l + 1
  /\ UNCHANGED <<tid, calls>>

TLearn ==
  /\ l <= Len(T.ev) /\ Ev.op = "learn" /\ phase \in {"idle", "done"}
  /\ Check("Raises: learn returns without raising", Ev.exc = "")
  /\ Check("Terms: learn computes the 1-step term, the n-step term, or both, as configured",
           {calls[i] : i \in 1..Len(calls)} = ExpectedSets /\ Len(calls) = Cardinality(ExpectedSets))
  /\ Check("Priority: new priorities = per-sample cross-entropy (sum of the configured terms) + prior_eps", Ev.prio_ok)
  /\ Check("Idxs: indices are handed back unchanged", Ev.idx_ok)
  /\ calls' = <<>>
  /\ l' = l + 1
  /\ UNCHANGED <<vars, tid>>

TAccept == /\ l = Len(T.ev) + 1 /\ phase \in {"idle", "done"} /\ PrintT(<<"ACCEPT", tid>>) /\ l' = l + 1 /\ UNCHANGED <<vars, tid, calls>>
TNext == TCall \/ TMicro \/ TFinish \/ TLearn \/ TAccept
TSpec == TInit /\ [][TNext]_tvars
================================================================================
