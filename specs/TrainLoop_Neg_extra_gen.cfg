SPECIFICATION FSpec
CONSTANTS
  Params <- FParamsq
  Ds = {0}
  Scores = {0, 1}
  MaxGen = 4
  Loops <- MCLoopsq
  Bug = "extra_gen"
INVARIANT FStepsAreEnvSteps
INVARIANT OneFitnessPerGeneration
INVARIANT PopShape
INVARIANT EliteCarried
INVARIANT Inherited
INVARIANT LearnOnlyWhenSamplable
PROPERTY Refines
PROPERTY NoGenerationOnceMet
PROPERTY ReturnOnlyWhenMet
CHECK_DEADLOCK FALSE
