------------------------------- MODULE Arch -------------------------------
(* Architecture mutations of AgileRL's evolvable building blocks and of the networks built on     *)
(* them (C03, C04).                                                                                *)
(*                                                                                                 *)
(* An architecture is the tuple of integers its constructor description carries:                   *)
(*   mlp     [h  |-> <<nodes of hidden layer 1..L>>]                                               *)
(*   cnn     [ch |-> channels, ks |-> kernels, st |-> strides]   (square kernels, square images)   *)
(*   lstm    [l  |-> layers, h |-> hidden state size]                                              *)
(*   simba   [b  |-> residual blocks, h |-> hidden size]                                           *)
(*   resnet  [b  |-> residual blocks, c |-> channels]                                              *)
(*   multi   [lat |-> latent width, subs |-> <<architectures of the evolvable members>>]           *)
(*   net     [lat |-> latent width, enc |-> encoder architecture, head |-> mlp architecture]       *)
(* A configuration record c carries the declared bounds, the delta sets the code draws from and    *)
(* the constants that fix tensor shapes.  Every @mutation method is one operator XxxSucc(c,a,m)    *)
(* returning the SET of results [arch, applied, args] the code can produce: same guard, same       *)
(* strict / inclusive comparison, same fall-back as the code (file:line in the comments).          *)
(* `applied' is the method that really ran (last_mutation_attr), `args' the values drawn / passed. *)
(*                                                                                                 *)
(* Properties (checked by TLC on every reachable architecture / transition, and on every step      *)
(* observed from the real code through Arch_Trace):                                                *)
(*   InBounds, FeatureMapPositive, AllMethodsEnabled, ShapesTotal      (state)                     *)
(*   Advertised, SurvivorsOverlap                                      (action)                    *)
EXTENDS Integers, Sequences, FiniteSets, TLC

Rng(q)     == {q[i] : i \in DOMAIN q}
Min2(a, b) == IF a < b THEN a ELSE b
Last(q)    == q[Len(q)]
Front(q)   == SubSeq(q, 1, Len(q) - 1)
R(a, ap, l, k, s) == [arch |-> a, applied |-> ap, args |-> [l |-> l, k |-> k, s |-> s]]
\* name of a nested method as the enclosing module reports it; "None" (nothing was applied) stays "None"
Nest(p, ap) == IF ap = "None" THEN "None" ELSE p \o ap
\* a function from a set of <<name, value>> pairs with distinct names
Fn(pairs)  == [n \in {p[1] : p \in pairs} |-> (CHOOSE p \in pairs : p[1] = n)[2]]
Str(i)     == ToString(i)

(***************************************************************************************************)
(* MLP   agilerl/modules/mlp.py:193-261                                                            *)
(* c = [kind, name, ni, no, minl, maxl, minn, maxn, deltas, ln, oln, noisy]                        *)
(***************************************************************************************************)
MlpMethods     == {"add_layer", "remove_layer", "add_node", "remove_node"}
MlpNodeMethods == {"add_node", "remove_node"}
\* add_node(hidden_layer, numb_new_nodes): applies iff hidden + k <= max_mlp_nodes  (mlp.py:231)
MlpAddNode(c, a) ==
  { R(IF a.h[l] + k <= c.maxn THEN [h |-> [a.h EXCEPT ![l] = @ + k]] ELSE a, "add_node", l, k, 0)
      : l \in 1..Len(a.h), k \in Rng(c.deltas) }
\* remove_node: applies iff hidden - k > min_mlp_nodes (strict)  (mlp.py:258)
MlpRemoveNode(c, a) ==
  { R(IF a.h[l] - k > c.minn THEN [h |-> [a.h EXCEPT ![l] = @ - k]] ELSE a, "remove_node", l, k, 0)
      : l \in 1..Len(a.h), k \in Rng(c.deltas) }
MlpSucc(c, a, m) ==
  CASE m = "add_layer" ->                                                  \* mlp.py:198
         IF Len(a.h) < c.maxl THEN { R([h |-> Append(a.h, Last(a.h))], "add_layer", 0, 0, 0) }
                              ELSE MlpAddNode(c, a)
    [] m = "remove_layer" ->                                               \* mlp.py:207
         IF Len(a.h) > c.minl THEN { R([h |-> Front(a.h)], "remove_layer", 0, 0, 0) }
                              ELSE MlpAddNode(c, a)
    [] m = "add_node"    -> MlpAddNode(c, a)
    [] m = "remove_node" -> MlpRemoveNode(c, a)
    [] OTHER -> {}
MlpOK(c, a) == Len(a.h) >= 1 /\ \A i \in 1..Len(a.h) : a.h[i] >= 1
MlpInBounds(c, a) == /\ Len(a.h) >= c.minl /\ Len(a.h) <= c.maxl
                     /\ \A i \in 1..Len(a.h) : a.h[i] >= c.minn /\ a.h[i] <= c.maxn
\* parameter tensors of create_mlp (utils/evolvable_networks.py:496-598); p = path prefix incl. "model."
MlpShapes(c, a, p, ni, no) ==
  LET L     == Len(a.h)
      In(i) == IF i = 1 THEN ni ELSE a.h[i - 1]
      W     == IF c.noisy THEN {"weight_mu", "weight_sigma"} ELSE {"weight"}
      B     == IF c.noisy THEN {"bias_mu", "bias_sigma"} ELSE {"bias"}
      lin   == p \o c.name \o "_linear_layer_"
      nrm   == p \o c.name \o "_layer_norm_"
  IN Fn( {<<lin \o Str(i) \o "." \o w, <<a.h[i], In(i)>>>> : i \in 1..L, w \in W}
         \cup {<<lin \o Str(i) \o "." \o b, <<a.h[i]>>>> : i \in 1..L, b \in B}
         \cup (IF c.ln THEN {<<nrm \o Str(i) \o "." \o x, <<a.h[i]>>>> : i \in 1..L, x \in {"weight", "bias"}} ELSE {})
         \cup {<<lin \o "output." \o w, <<no, a.h[L]>>>> : w \in W}
         \cup {<<lin \o "output." \o b, <<no>>>> : b \in B}
         \cup (IF c.oln THEN {<<nrm \o "output." \o x, <<no>>>> : x \in {"weight", "bias"}} ELSE {}) )

(***************************************************************************************************)
(* CNN   agilerl/modules/cnn.py:457-578, utils/evolvable_networks.py:345-383                       *)
(* c = [kind, name, inc, inh, depth (0 = Conv2d, else depth of the Conv3d sample input), no,       *)
(*      minl, maxl, minc, maxc, deltas, ln, nolayer (layer mutations disabled: encoder of a        *)
(*      network)]                                                                                  *)
(***************************************************************************************************)
CnnMethods     == {"add_layer", "remove_layer", "change_kernel", "add_channel", "remove_channel"}
CnnNodeMethods == {"change_kernel", "add_channel", "remove_channel"}
\* feature-map size after layer i (0 = the image): out = (in - k) div s + 1, no padding
CnnOuts(c, a) == LET f[i \in 0..Len(a.ch)] == IF i = 0 THEN c.inh ELSE (f[i - 1] - a.ks[i]) \div a.st[i] + 1 IN f
\* images need not be square: the width of the feature maps (c.inw, the height when the record has no such field)
InW(c) == IF "inw" \in DOMAIN c THEN c.inw ELSE c.inh
CnnOutsW(c, a) == LET f[i \in 0..Len(a.ch)] == IF i = 0 THEN InW(c) ELSE (f[i - 1] - a.ks[i]) \div a.st[i] + 1 IN f
CnnSmall(c, a, i) == IF CnnOuts(c, a)[i] <= CnnOutsW(c, a)[i] THEN CnnOuts(c, a)[i] ELSE CnnOutsW(c, a)[i]
\* calc_max_kernel_sizes: int(0.25 * out_i) clipped to 1..9
CnnMaxK(c, a, i) == LET q == CnnSmall(c, a, i) \div 4 IN IF q <= 0 THEN 1 ELSE IF q > 9 THEN 9 ELSE q
\* add_channel: applies iff ch + k <= max_channel_size  (cnn.py:544)
CnnAddChannel(c, a) ==
  { R(IF a.ch[l] + k <= c.maxc THEN [a EXCEPT !.ch[l] = @ + k] ELSE a, "add_channel", l, k, 0)
      : l \in 1..Len(a.ch), k \in Rng(c.deltas) }
\* remove_channel: applies iff ch - k >= min_channel_size (inclusive)  (cnn.py:573)
CnnRemoveChannel(c, a) ==
  { R(IF a.ch[l] - k >= c.minc THEN [a EXCEPT !.ch[l] = @ - k] ELSE a, "remove_channel", l, k, 0)
      : l \in 1..Len(a.ch), k \in Rng(c.deltas) }
\* add_layer needs room: layers < max, last feature map > 2, max kernel of last layer > 2 (cnn.py:463-467);
\* kernel drawn from 2..maxk, stride from 1..last stride; else add_channel
CnnAddLayer(c, a) ==
  LET L == Len(a.ch) IN
  IF L < c.maxl /\ CnnSmall(c, a, L) > 2 /\ CnnMaxK(c, a, L) > 2
  THEN { R([ch |-> Append(a.ch, a.ch[L]), ks |-> Append(a.ks, k), st |-> Append(a.st, s)], "add_layer", 0, k, s)
           : k \in 2..CnnMaxK(c, a, L), s \in 1..a.st[L] }
  ELSE CnnAddChannel(c, a)
CnnRemoveLayer(c, a) ==                                                    \* cnn.py:480
  IF Len(a.ch) > c.minl
  THEN { R([ch |-> Front(a.ch), ks |-> Front(a.ks), st |-> Front(a.st)], "remove_layer", 0, 0, 0) }
  ELSE CnnAddChannel(c, a)
\* change_kernel: with one layer falls back to add_layer; else layer 2..min(4,L) when the layer is drawn (never
\* the first), ANY layer 1..L when the caller names it (hidden_layer argument);
\* kernel 1..maxk(layer)  (cnn.py:501-515, 143-165).  Inside a network the encoder's layer mutations are
\* disabled: the fall-back add_layer then returns at once (modules/base.py:184-187), nothing changes and
\* last_mutation_attr is None -- "stopped by a bound, no change".
CnnChangeKernel(c, a) ==
  LET L == Len(a.ch) IN
  IF L > 1
  THEN UNION { { R([a EXCEPT !.ks[l] = k], "change_kernel", l, k, 0) : k \in 1..CnnMaxK(c, a, l) } : l \in 1..L }
  ELSE IF c.nolayer THEN { R(a, "None", 0, 0, 0) } ELSE CnnAddLayer(c, a)
CnnSucc(c, a, m) ==
  CASE m = "add_layer"      -> CnnAddLayer(c, a)
    [] m = "remove_layer"   -> CnnRemoveLayer(c, a)
    [] m = "change_kernel"  -> CnnChangeKernel(c, a)
    [] m = "add_channel"    -> CnnAddChannel(c, a)
    [] m = "remove_channel" -> CnnRemoveChannel(c, a)
    [] OTHER -> {}
CnnOK(c, a) == /\ Len(a.ch) >= 1 /\ Len(a.ks) = Len(a.ch) /\ Len(a.st) = Len(a.ch)
               /\ \A i \in 1..Len(a.ch) : a.ch[i] >= 1 /\ a.ks[i] >= 1 /\ a.st[i] >= 1
\* every kernel fits the feature map it is applied to, every feature map has at least one cell
CnnFMPos(c, a) == CnnOK(c, a) /\ \A i \in 1..Len(a.ch) : a.ks[i] <= CnnSmall(c, a, i - 1) /\ CnnSmall(c, a, i) >= 1
CnnInBounds(c, a) == /\ Len(a.ch) >= c.minl /\ Len(a.ch) <= c.maxl
                     /\ \A i \in 1..Len(a.ch) : a.ch[i] >= c.minc /\ a.ch[i] <= c.maxc
CnnShapes(c, a, p, no) ==
  LET L      == Len(a.ch)
      Cin(i) == IF i = 1 THEN c.inc ELSE a.ch[i - 1]
      K(i)   == IF c.depth = 0 THEN <<a.ks[i], a.ks[i]>> ELSE <<(IF i = 1 THEN c.depth ELSE 1), a.ks[i], a.ks[i]>>
      o      == CnnOuts(c, a)[L]
      ow     == CnnOutsW(c, a)[L]
      cv     == p \o c.name \o "_conv_layer_"
      nrm    == p \o c.name \o "_layer_norm_"
  IN Fn( {<<cv \o Str(i) \o ".weight", <<a.ch[i], Cin(i)>> \o K(i)>> : i \in 1..L}
         \cup {<<cv \o Str(i) \o ".bias", <<a.ch[i]>>>> : i \in 1..L}
         \cup (IF c.ln THEN {<<nrm \o Str(i) \o "." \o x, <<a.ch[i]>>>> : i \in 1..L, x \in {"weight", "bias"}} ELSE {})
         \cup {<<p \o c.name \o "_linear_output.weight", <<no, a.ch[L] * o * ow>>>>,
               <<p \o c.name \o "_linear_output.bias", <<no>>>>} )

(***************************************************************************************************)
(* LSTM  agilerl/modules/lstm.py   c = [kind, name, ni, no, minl, maxl, minn, maxn, deltas]        *)
(***************************************************************************************************)
LstmMethods     == {"add_layer", "remove_layer", "add_node", "remove_node"}
LstmNodeMethods == {"add_node", "remove_node"}
LstmAddNode(c, a)    == { R(IF a.h + k <= c.maxn THEN [a EXCEPT !.h = @ + k] ELSE a, "add_node", 0, k, 0) : k \in Rng(c.deltas) }
LstmRemoveNode(c, a) == { R(IF a.h - k >= c.minn THEN [a EXCEPT !.h = @ - k] ELSE a, "remove_node", 0, k, 0) : k \in Rng(c.deltas) }
LstmSucc(c, a, m) ==
  CASE m = "add_layer"    -> IF a.l < c.maxl THEN { R([a EXCEPT !.l = @ + 1], "add_layer", 0, 0, 0) } ELSE LstmAddNode(c, a)
    [] m = "remove_layer" -> IF a.l > c.minl THEN { R([a EXCEPT !.l = @ - 1], "remove_layer", 0, 0, 0) } ELSE LstmAddNode(c, a)
    [] m = "add_node"     -> LstmAddNode(c, a)
    [] m = "remove_node"  -> LstmRemoveNode(c, a)
    [] OTHER -> {}
LstmOK(c, a) == a.l >= 1 /\ a.h >= 1
LstmInBounds(c, a) == a.l >= c.minl /\ a.l <= c.maxl /\ a.h >= c.minn /\ a.h <= c.maxn
LstmShapes(c, a, p, no) ==
  LET q == p \o c.name \o "_lstm." IN
  Fn( {<<q \o "weight_ih_l" \o Str(i - 1), <<4 * a.h, IF i = 1 THEN c.ni ELSE a.h>>>> : i \in 1..a.l}
      \cup {<<q \o "weight_hh_l" \o Str(i - 1), <<4 * a.h, a.h>>>> : i \in 1..a.l}
      \cup {<<q \o x \o Str(i - 1), <<4 * a.h>>>> : i \in 1..a.l, x \in {"bias_ih_l", "bias_hh_l"}}
      \cup {<<p \o c.name \o "_lstm_output.weight", <<no, a.h>>>>, <<p \o c.name \o "_lstm_output.bias", <<no>>>>} )

(***************************************************************************************************)
(* SimBa agilerl/modules/simba.py  c = [kind, name, ni, no, minb, maxb, minn, maxn, deltas, sf]    *)
(***************************************************************************************************)
SimbaMethods     == {"add_block", "remove_block", "add_node", "remove_node"}
SimbaNodeMethods == {"add_node", "remove_node"}
SimbaAddNode(c, a)    == { R(IF a.h + k <= c.maxn THEN [a EXCEPT !.h = @ + k] ELSE a, "add_node", 0, k, 0) : k \in Rng(c.deltas) }
SimbaRemoveNode(c, a) == { R(IF a.h - k > c.minn THEN [a EXCEPT !.h = @ - k] ELSE a, "remove_node", 0, k, 0) : k \in Rng(c.deltas) }
SimbaSucc(c, a, m) ==
  CASE m = "add_block"    -> IF a.b < c.maxb THEN { R([a EXCEPT !.b = @ + 1], "add_block", 0, 0, 0) } ELSE SimbaAddNode(c, a)
    [] m = "remove_block" -> IF a.b > c.minb THEN { R([a EXCEPT !.b = @ - 1], "remove_block", 0, 0, 0) } ELSE SimbaAddNode(c, a)
    [] m = "add_node"     -> SimbaAddNode(c, a)
    [] m = "remove_node"  -> SimbaRemoveNode(c, a)
    [] OTHER -> {}
SimbaOK(c, a) == a.b >= 1 /\ a.h >= 1
SimbaInBounds(c, a) == a.b >= c.minb /\ a.b <= c.maxb /\ a.h >= c.minn /\ a.h <= c.maxn
SimbaShapes(c, a, p, no) ==
  LET q == p \o c.name \o "_"
      blk(i) == q \o "residual_block_" \o Str(i) \o "." IN
  Fn( {<<q \o "linear_layer_input.weight", <<a.h, c.ni>>>>, <<q \o "linear_layer_input.bias", <<a.h>>>>,
       <<q \o "layer_norm_output.weight", <<a.h>>>>, <<q \o "layer_norm_output.bias", <<a.h>>>>,
       <<q \o "linear_layer_output.weight", <<no, a.h>>>>, <<q \o "linear_layer_output.bias", <<no>>>>}
      \cup UNION { {<<blk(i) \o "layer_norm.weight", <<a.h>>>>, <<blk(i) \o "layer_norm.bias", <<a.h>>>>,
                    <<blk(i) \o "linear1.weight", <<a.h * c.sf, a.h>>>>, <<blk(i) \o "linear1.bias", <<a.h * c.sf>>>>,
                    <<blk(i) \o "linear2.weight", <<a.h, a.h * c.sf>>>>, <<blk(i) \o "linear2.bias", <<a.h>>>>} : i \in 1..a.b } )

(***************************************************************************************************)
(* ResNet agilerl/modules/resnet.py                                                                *)
(* c = [kind, name, inc, inh, no, k, s, minb, maxb, minc, maxc, deltas, sf]                        *)
(***************************************************************************************************)
ResnetMethods     == {"add_block", "remove_block", "add_channel", "remove_channel"}
ResnetNodeMethods == {"add_channel", "remove_channel"}
ResnetAddChannel(c, a)    == { R(IF a.c + k < c.maxc THEN [a EXCEPT !.c = @ + k] ELSE a, "add_channel", 0, k, 0) : k \in Rng(c.deltas) }
ResnetRemoveChannel(c, a) == { R(IF a.c - k > c.minc THEN [a EXCEPT !.c = @ - k] ELSE a, "remove_channel", 0, k, 0) : k \in Rng(c.deltas) }
ResnetSucc(c, a, m) ==
  CASE m = "add_block"      -> IF a.b < c.maxb THEN { R([a EXCEPT !.b = @ + 1], "add_block", 0, 0, 0) } ELSE ResnetAddChannel(c, a)
    [] m = "remove_block"   -> IF a.b > c.minb THEN { R([a EXCEPT !.b = @ - 1], "remove_block", 0, 0, 0) } ELSE ResnetAddChannel(c, a)
    [] m = "add_channel"    -> ResnetAddChannel(c, a)
    [] m = "remove_channel" -> ResnetRemoveChannel(c, a)
    [] OTHER -> {}
ResnetOK(c, a) == a.b >= 1 /\ a.c >= 1
ResnetInBounds(c, a) == a.b >= c.minb /\ a.b <= c.maxb /\ a.c >= c.minc /\ a.c <= c.maxc
ResnetOut(c) == (c.inh + 2 * ((c.k - 1) \div 2) - c.k) \div c.s + 1
ResnetShapes(c, a, p, no) ==
  LET q == p \o c.name \o "_"
      blk(i) == q \o "residual_block_" \o Str(i) \o "."
      o == ResnetOut(c) IN
  Fn( {<<q \o "conv_input.weight", <<a.c, c.inc, c.k, c.k>>>>,
       <<q \o "linear_output.weight", <<no, a.c * o * o>>>>, <<q \o "linear_output.bias", <<no>>>>}
      \cup UNION { {<<blk(i) \o "conv1.weight", <<a.c * c.sf, a.c, c.k, c.k>>>>,
                    <<blk(i) \o "bn1.weight", <<a.c * c.sf>>>>, <<blk(i) \o "bn1.bias", <<a.c * c.sf>>>>,
                    <<blk(i) \o "conv2.weight", <<a.c, a.c * c.sf, c.k, c.k>>>>,
                    <<blk(i) \o "bn2.weight", <<a.c>>>>, <<blk(i) \o "bn2.bias", <<a.c>>>>} : i \in 1..a.b } )

(***************************************************************************************************)
(* Leaf dispatch                                                                                   *)
(***************************************************************************************************)
BlockMethods(c) == CASE c.kind = "mlp" -> MlpMethods [] c.kind = "cnn" -> CnnMethods [] c.kind = "lstm" -> LstmMethods
                     [] c.kind = "simba" -> SimbaMethods [] c.kind = "resnet" -> ResnetMethods [] OTHER -> {}
BlockNodeMethods(c) == CASE c.kind = "mlp" -> MlpNodeMethods [] c.kind = "cnn" -> CnnNodeMethods [] c.kind = "lstm" -> LstmNodeMethods
                         [] c.kind = "simba" -> SimbaNodeMethods [] c.kind = "resnet" -> ResnetNodeMethods [] OTHER -> {}
BlockSucc(c, a, m) == CASE c.kind = "mlp" -> MlpSucc(c, a, m) [] c.kind = "cnn" -> CnnSucc(c, a, m) [] c.kind = "lstm" -> LstmSucc(c, a, m)
                        [] c.kind = "simba" -> SimbaSucc(c, a, m) [] c.kind = "resnet" -> ResnetSucc(c, a, m) [] OTHER -> {}
BlockOK(c, a) == CASE c.kind = "mlp" -> MlpOK(c, a) [] c.kind = "cnn" -> CnnOK(c, a) [] c.kind = "lstm" -> LstmOK(c, a)
                   [] c.kind = "simba" -> SimbaOK(c, a) [] c.kind = "resnet" -> ResnetOK(c, a) [] OTHER -> FALSE
BlockInBounds(c, a) == CASE c.kind = "mlp" -> MlpInBounds(c, a) [] c.kind = "cnn" -> CnnInBounds(c, a) [] c.kind = "lstm" -> LstmInBounds(c, a)
                         [] c.kind = "simba" -> SimbaInBounds(c, a) [] c.kind = "resnet" -> ResnetInBounds(c, a) [] OTHER -> FALSE
BlockFMPos(c, a) == IF c.kind = "cnn" THEN CnnFMPos(c, a) ELSE IF c.kind = "resnet" THEN ResnetOut(c) >= 1 ELSE TRUE
\* p = path of the module (e.g. "encoder."); the blocks keep their layers under "<p>model."
BlockShapes(c, a, p, ni, no) ==
  CASE c.kind = "mlp" -> MlpShapes(c, a, p \o "model.", ni, no)
    [] c.kind = "cnn" -> CnnShapes(c, a, p \o "model.", no)
    [] c.kind = "lstm" -> LstmShapes(c, a, p \o "model.", no)
    [] c.kind = "simba" -> SimbaShapes(c, a, p \o "model.", no)
    [] c.kind = "resnet" -> ResnetShapes(c, a, p \o "model.", no)

(***************************************************************************************************)
(* MultiInput  agilerl/modules/multi_input.py:440-475                                              *)
(* c = [kind, no, minlat, maxlat, ldeltas, fixed (vector dims concatenated directly),              *)
(*      subs |-> << [key |-> "img", cfg |-> block cfg] ... >>]   (members' outputs = latent)       *)
(***************************************************************************************************)
LatentAdd(c, a)    == { R(IF a.lat + k < c.maxlat THEN [a EXCEPT !.lat = @ + k] ELSE a, "add_latent_node", 0, k, 0) : k \in Rng(c.ldeltas) }
LatentRemove(c, a) == { R(IF a.lat - k > c.minlat THEN [a EXCEPT !.lat = @ - k] ELSE a, "remove_latent_node", 0, k, 0) : k \in Rng(c.ldeltas) }
LatentMethods == {"add_latent_node", "remove_latent_node"}
SubPfx(c, i) == "feature_net." \o c.subs[i].key \o "."
MultiSubMethods(c, nodeonly) ==
  UNION { { SubPfx(c, i) \o bm : bm \in (IF nodeonly THEN BlockNodeMethods(c.subs[i].cfg) ELSE BlockMethods(c.subs[i].cfg)) } : i \in 1..Len(c.subs) }
MultiMethods(c)     == LatentMethods \cup MultiSubMethods(c, FALSE)
MultiNodeMethods(c) == LatentMethods \cup MultiSubMethods(c, TRUE)
MultiSucc(c, a, m) ==
  IF m = "add_latent_node" THEN LatentAdd(c, a)
  ELSE IF m = "remove_latent_node" THEN LatentRemove(c, a)
  ELSE UNION { UNION { { R([a EXCEPT !.subs[i] = r.arch], Nest(SubPfx(c, i), r.applied), r.args.l, r.args.k, r.args.s)
                           : r \in BlockSucc(c.subs[i].cfg, a.subs[i], bm) }
                       : bm \in {x \in BlockMethods(c.subs[i].cfg) : SubPfx(c, i) \o x = m} }
               : i \in 1..Len(c.subs) }
MultiOK(c, a) == a.lat >= 1 /\ Len(a.subs) = Len(c.subs) /\ \A i \in 1..Len(c.subs) : BlockOK(c.subs[i].cfg, a.subs[i])
MultiInBounds(c, a) == /\ a.lat >= c.minlat /\ a.lat <= c.maxlat
                       /\ \A i \in 1..Len(c.subs) : BlockInBounds(c.subs[i].cfg, a.subs[i])
MultiFMPos(c, a) == \A i \in 1..Len(c.subs) : BlockFMPos(c.subs[i].cfg, a.subs[i])
MergeAll(fs) == [n \in UNION {DOMAIN f : f \in fs} |-> (CHOOSE f \in fs : n \in DOMAIN f)[n]]
MultiShapes(c, a, p, no) ==
  MergeAll( { BlockShapes(c.subs[i].cfg, a.subs[i], p \o SubPfx(c, i), c.subs[i].cfg.ni, a.lat) : i \in 1..Len(c.subs) }
            \cup { Fn({<<p \o "final_dense.weight", <<no, Len(c.subs) * a.lat + c.fixed>>>>, <<p \o "final_dense.bias", <<no>>>>}) } )

(***************************************************************************************************)
(* Encoder = leaf block or multi-input                                                             *)
(***************************************************************************************************)
EncMethods(c)     == IF c.kind = "multi" THEN MultiMethods(c) ELSE BlockMethods(c)
EncNodeMethods(c) == IF c.kind = "multi" THEN MultiNodeMethods(c) ELSE BlockNodeMethods(c)
EncSucc(c, a, m)  == IF c.kind = "multi" THEN MultiSucc(c, a, m) ELSE BlockSucc(c, a, m)
EncOK(c, a)       == IF c.kind = "multi" THEN MultiOK(c, a) ELSE BlockOK(c, a)
EncInBounds(c, a) == IF c.kind = "multi" THEN MultiInBounds(c, a) ELSE BlockInBounds(c, a)
EncFMPos(c, a)    == IF c.kind = "multi" THEN MultiFMPos(c, a) ELSE BlockFMPos(c, a)
EncShapes(c, a, p, no) == IF c.kind = "multi" THEN MultiShapes(c, a, p, no) ELSE BlockShapes(c, a, p, c.ni, no)

(***************************************************************************************************)
(* Network  agilerl/networks/base.py:420-468, q_networks.py, actors.py, value_networks.py          *)
(* c = [kind, minlat, maxlat, ldeltas, enc (cfg), head (mlp cfg), hextra (head inputs besides the  *)
(*      latent: the action for a continuous Q network), hno (head outputs), hpath ("head_net." or  *)
(*      "head_net._wrapped."), logstd (0 or action dim), adv (0 or outputs of the Rainbow          *)
(*      advantage stream)]                                                                         *)
(* The encoder's layer mutations are disabled inside networks (base.py: disable_mutations(LAYER)). *)
(***************************************************************************************************)
NetMethods(c)    == LatentMethods \cup {"encoder." \o m : m \in EncNodeMethods(c.enc)} \cup {"head_net." \o m : m \in MlpMethods}
NetAllMethods(c) == LatentMethods \cup {"encoder." \o m : m \in EncMethods(c.enc)} \cup {"head_net." \o m : m \in MlpMethods}
NetSucc(c, a, m) ==
  IF m = "add_latent_node" THEN LatentAdd(c, a)
  ELSE IF m = "remove_latent_node" THEN LatentRemove(c, a)
  ELSE UNION { { R([a EXCEPT !.enc = r.arch], Nest("encoder.", r.applied), r.args.l, r.args.k, r.args.s) : r \in EncSucc(c.enc, a.enc, em) }
                 : em \in {x \in EncMethods(c.enc) : "encoder." \o x = m} }
       \cup UNION { { R([a EXCEPT !.head = r.arch], Nest("head_net.", r.applied), r.args.l, r.args.k, r.args.s) : r \in MlpSucc(c.head, a.head, hm) }
                 : hm \in {x \in MlpMethods : "head_net." \o x = m} }
NetOK(c, a) == a.lat >= 1 /\ EncOK(c.enc, a.enc) /\ MlpOK(c.head, a.head)
NetInBounds(c, a) == a.lat >= c.minlat /\ a.lat <= c.maxlat /\ EncInBounds(c.enc, a.enc) /\ MlpInBounds(c.head, a.head)
NetShapes(c, a) ==
  MergeAll( { EncShapes(c.enc, a.enc, "encoder.", a.lat),
              MlpShapes(c.head, a.head, c.hpath \o "model.", a.lat + c.hextra, c.hno) }
            \cup (IF c.adv > 0 THEN { MlpShapes([c.head EXCEPT !.name = "advantage"], a.head, c.hpath \o "advantage_net.", a.lat + c.hextra, c.adv) } ELSE {})
            \cup (IF c.logstd > 0 THEN { Fn({<<"head_net.log_std", <<1, c.logstd>>>>}) } ELSE {}) )

(***************************************************************************************************)
(* Top-level dispatch                                                                              *)
(***************************************************************************************************)
Methods(c)     == IF c.kind = "net" THEN NetMethods(c) ELSE EncMethods(c)
AllMethods(c)  == IF c.kind = "net" THEN NetAllMethods(c) ELSE EncMethods(c)
Succ(c, a, m)  == IF c.kind = "net" THEN NetSucc(c, a, m) ELSE EncSucc(c, a, m)
ArchOK(c, a)   == IF c.kind = "net" THEN NetOK(c, a) ELSE EncOK(c, a)
InBoundsOf(c, a) == IF c.kind = "net" THEN NetInBounds(c, a) ELSE EncInBounds(c, a)
FMPosOf(c, a)  == IF c.kind = "net" THEN EncFMPos(c.enc, a.enc) ELSE EncFMPos(c, a)
Shapes(c, a)   == IF c.kind = "net" THEN NetShapes(c, a) ELSE EncShapes(c, a, "", c.no)

\* C04: component-wise minimum of two shapes of the same rank, number of cells of a shape
MinShape(x, y) == [i \in 1..Len(x) |-> Min2(x[i], y[i])]
RECURSIVE Prod(_)
Prod(x) == IF Len(x) = 0 THEN 1 ELSE x[1] * Prod(Tail(x))
\* for two shape tables: number of cells of every surviving tensor that must carry their old value
CommonOf(S1, S2) == [n \in DOMAIN S1 \cap DOMAIN S2 |-> Prod(MinShape(S1[n], S2[n]))]
SameRank(S1, S2) == \A n \in DOMAIN S1 \cap DOMAIN S2 : Len(S1[n]) = Len(S2[n])
Common(c, a, b)  == CommonOf(Shapes(c, a), Shapes(c, b))

(***************************************************************************************************)
(* The transition system for exhaustive checking (Arch_MC instantiates Cfg and Inits)              *)
(***************************************************************************************************)
CONSTANTS Cfg, Inits
VARIABLES arch, act
vars == <<arch, act>>
core == arch
Init == arch \in Inits /\ act = [m |-> "init", applied |-> "init", args |-> [l |-> 0, k |-> 0, s |-> 0]]
Call(m) == \E r \in Succ(Cfg, arch, m) : arch' = r.arch /\ act' = [m |-> m, applied |-> r.applied, args |-> r.args]
\* three named classes of steps (vacuity guard: each must occur in every instance)
Direct   == \E m \in Methods(Cfg) : Call(m) /\ act'.applied = m /\ arch' # arch    \* the advertised change
Fallback == \E m \in Methods(Cfg) : Call(m) /\ act'.applied # m                    \* a bound turns it into another method
Stopped  == \E m \in Methods(Cfg) : Call(m) /\ act'.applied = m /\ arch' = arch    \* a bound stops it: nothing changes
Next == Direct \/ Fallback \/ Stopped
Spec == Init /\ [][Next]_vars

InBounds           == InBoundsOf(Cfg, arch)
FeatureMapPositive == FMPosOf(Cfg, arch)
WellFormed         == ArchOK(Cfg, arch)
\* every advertised method can be called in every reachable architecture (never advertised-but-disabled)
AllMethodsEnabled  == \A m \in Methods(Cfg) : Succ(Cfg, arch, m) # {}
\* (DESIGN's MethodsAdvertised: Next quantifies over exactly Methods(Cfg); that the real object's mutation_methods
\*  contain Methods(c) and nothing outside AllMethods(c) is a clause of Arch_Trace on every observed step)
MethodsAdvertised  == AllMethodsEnabled
\* every parameter tensor has a shape of positive extents (Shapes is total on reachable architectures)
ShapesTotal == LET S == Shapes(Cfg, arch) IN
               DOMAIN S # {} /\ \A n \in DOMAIN S : Len(S[n]) >= 1 /\ \A i \in 1..Len(S[n]) : S[n][i] >= 1
\* no surviving tensor changes rank, and the index range the two shapes have in common is not empty
SurvOK(S1, S2) == SameRank(S1, S2) /\ \A n \in DOMAIN S1 \cap DOMAIN S2 : CommonOf(S1, S2)[n] >= 1
SurvivorsOverlap == [][SurvOK(Shapes(Cfg, arch), Shapes(Cfg, arch'))]_vars

(***************************************************************************************************)
(* Advertised: the property's reading of each method, stated on the size measures, independently   *)
(* of the Succ operators: when no bound stops it the advertised quantity changes by exactly the    *)
(* advertised amount and nothing else changes; when a bound stops it the documented fall-back runs *)
(* or nothing changes.                                                                             *)
(***************************************************************************************************)
\* measures of a leaf architecture: number of layers/blocks, width vector
Layers(c, a) == CASE c.kind = "mlp" -> Len(a.h) [] c.kind = "cnn" -> Len(a.ch) [] c.kind = "lstm" -> a.l
                  [] c.kind = "simba" -> a.b [] c.kind = "resnet" -> a.b
Widths(c, a) == CASE c.kind = "mlp" -> a.h [] c.kind = "cnn" -> a.ch [] c.kind = "lstm" -> <<a.h>>
                  [] c.kind = "simba" -> <<a.h>> [] c.kind = "resnet" -> <<a.c>>
MinLayers(c) == IF c.kind \in {"simba", "resnet"} THEN c.minb ELSE c.minl
MaxLayers(c) == IF c.kind \in {"simba", "resnet"} THEN c.maxb ELSE c.maxl
MinWidth(c)  == IF c.kind \in {"cnn", "resnet"} THEN c.minc ELSE c.minn
MaxWidth(c)  == IF c.kind \in {"cnn", "resnet"} THEN c.maxc ELSE c.maxn
Grow(c)      == IF c.kind \in {"simba", "resnet"} THEN "add_block" ELSE "add_layer"
Shrink(c)    == IF c.kind \in {"simba", "resnet"} THEN "remove_block" ELSE "remove_layer"
Widen(c)     == IF c.kind \in {"cnn", "resnet"} THEN "add_channel" ELSE "add_node"
Narrow(c)    == IF c.kind \in {"cnn", "resnet"} THEN "remove_channel" ELSE "remove_node"
\* strictness of the width guards as the code has them
WidenFits(c, w, k)  == IF c.kind = "resnet" THEN w + k < c.maxc ELSE w + k <= MaxWidth(c)
NarrowFits(c, w, k) == IF c.kind \in {"cnn", "lstm"} THEN w - k >= MinWidth(c) ELSE w - k > MinWidth(c)
\* room for one more CNN layer
CnnRoom(c, a) == c.kind = "cnn" => (CnnSmall(c, a, Len(a.ch)) > 2 /\ CnnMaxK(c, a, Len(a.ch)) > 2)
WidthPos(c, l) == IF c.kind \in {"mlp", "cnn"} THEN l ELSE 1
BlockAdvertised(c, a, m, b, applied, args) ==
  LET L == Layers(c, a)  w == Widths(c, a)  w2 == Widths(c, b)  p == WidthPos(c, args.l) IN
  \* which method really runs
  /\ m = Grow(c)   => applied = IF L < MaxLayers(c) /\ CnnRoom(c, a) THEN Grow(c) ELSE Widen(c)
  /\ m = Shrink(c) => applied = IF L > MinLayers(c) THEN Shrink(c) ELSE Widen(c)
  /\ m \in {Widen(c), Narrow(c)} => applied = m
  /\ m = "change_kernel" => applied = IF L > 1 THEN "change_kernel" ELSE IF c.nolayer THEN "None"
                                       ELSE IF L < MaxLayers(c) /\ CnnRoom(c, a) THEN "add_layer" ELSE "add_channel"
  /\ applied = "None" => b = a
  \* what the method that ran does
  /\ applied = Grow(c) => /\ Layers(c, b) = L + 1 /\ SubSeq(w2, 1, Len(w)) = w
                          /\ c.kind \in {"mlp", "cnn"} => Last(w2) = Last(w)
                          /\ c.kind = "cnn" => /\ Front(b.ks) = a.ks /\ Front(b.st) = a.st
                                               /\ Last(b.ks) = args.k /\ Last(b.st) = args.s
                                               /\ args.k >= 2 /\ args.k <= CnnMaxK(c, a, L) /\ args.s >= 1 /\ args.s <= Last(a.st)
  /\ applied = Shrink(c) => /\ Layers(c, b) = L - 1
                            /\ c.kind \in {"mlp", "cnn"} => w2 = Front(w)
                            /\ c.kind \notin {"mlp", "cnn"} => w2 = w
                            /\ c.kind = "cnn" => b.ks = Front(a.ks) /\ b.st = Front(a.st)
  /\ applied = Widen(c) => /\ p \in 1..Len(w) /\ Layers(c, b) = L
                           /\ w2 = IF WidenFits(c, w[p], args.k) THEN [w EXCEPT ![p] = @ + args.k] ELSE w
                           /\ c.kind = "cnn" => b.ks = a.ks /\ b.st = a.st
  /\ applied = Narrow(c) => /\ p \in 1..Len(w) /\ Layers(c, b) = L
                            /\ w2 = IF NarrowFits(c, w[p], args.k) THEN [w EXCEPT ![p] = @ - args.k] ELSE w
                            /\ c.kind = "cnn" => b.ks = a.ks /\ b.st = a.st
  /\ applied = "change_kernel" => /\ b.ch = a.ch /\ b.st = a.st /\ args.l \in 1..L
                                  /\ args.k >= 1 /\ args.k <= CnnMaxK(c, a, args.l)
                                  /\ b.ks = [a.ks EXCEPT ![args.l] = args.k]
  /\ applied \in BlockMethods(c) \cup {"None"}
LatentAdvertised(c, a, m, b, applied, args) ==
  /\ applied = m
  /\ m = "add_latent_node"    => b.lat = IF a.lat + args.k < c.maxlat THEN a.lat + args.k ELSE a.lat
  /\ m = "remove_latent_node" => b.lat = IF a.lat - args.k > c.minlat THEN a.lat - args.k ELSE a.lat
MultiAdvertised(c, a, m, b, applied, args) ==
  IF m \in LatentMethods THEN LatentAdvertised(c, a, m, b, applied, args) /\ b.subs = a.subs
  ELSE \E i \in 1..Len(c.subs) : \E bm \in BlockMethods(c.subs[i].cfg), ba \in BlockMethods(c.subs[i].cfg) \cup {"None"} :
         /\ m = SubPfx(c, i) \o bm /\ applied = Nest(SubPfx(c, i), ba) /\ b.lat = a.lat
         /\ \A j \in 1..Len(c.subs) : j # i => b.subs[j] = a.subs[j]
         /\ BlockAdvertised(c.subs[i].cfg, a.subs[i], bm, b.subs[i], ba, args)
EncAdvertised(c, a, m, b, applied, args) ==
  IF c.kind = "multi" THEN MultiAdvertised(c, a, m, b, applied, args) ELSE BlockAdvertised(c, a, m, b, applied, args)
NetAdvertised(c, a, m, b, applied, args) ==
  IF m \in LatentMethods THEN LatentAdvertised(c, a, m, b, applied, args) /\ b.enc = a.enc /\ b.head = a.head
  ELSE \/ \E em \in EncMethods(c.enc), ea \in EncMethods(c.enc) \cup {"None"} :
            /\ m = "encoder." \o em /\ applied = Nest("encoder.", ea) /\ b.lat = a.lat /\ b.head = a.head
            /\ EncAdvertised(c.enc, a.enc, em, b.enc, ea, args)
       \/ \E hm, ha \in MlpMethods :
            /\ m = "head_net." \o hm /\ applied = "head_net." \o ha /\ b.lat = a.lat /\ b.enc = a.enc
            /\ BlockAdvertised(c.head, a.head, hm, b.head, ha, args)
AdvertisedOf(c, a, m, b, applied, args) ==
  IF c.kind = "net" THEN NetAdvertised(c, a, m, b, applied, args) ELSE EncAdvertised(c, a, m, b, applied, args)
Advertised == [][AdvertisedOf(Cfg, arch, act'.m, arch', act'.applied, act'.args)]_vars
\* bounds are never left (if the architecture started inside them)
StaysInBounds == [][InBoundsOf(Cfg, arch) => InBoundsOf(Cfg, arch')]_vars
================================================================================
