SPECIFICATION Spec
CONSTANTS
  Cfg <- MCCnn3
  Inits <- MCCnnDInits
INVARIANT WellFormed
INVARIANT InBounds
INVARIANT FeatureMapPositive
INVARIANT AllMethodsEnabled
INVARIANT ShapesTotal
PROPERTY Advertised
PROPERTY StaysInBounds
PROPERTY SurvivorsOverlap
VIEW core
CHECK_DEADLOCK FALSE
