------------------------------ MODULE Ring_Trace ------------------------------
(* Trace validation of the real ReplayBuffer against Ring.tla (C09).        *)
(* Event fields are produced by vfw/drive/ring.py from the real object:     *)
(*   op, w | B, ids (sample), size (len(buffer)), contents (ids decoded     *)
(*   field by field from storage[:len]), rows_ok (all fields of each row    *)
(*   decode to one id), handed_ok (every batch handed out earlier still     *)
(*   decodes to the ids it had when it was returned), idx_ok (sample with    *)
(*   return_idx: row i of the batch is the row stored at position idxs[i];   *)
(*   TRUE when no indices were requested).                                   *)
EXTENDS Ring, Json, IOUtils, TLCExt

CONSTANT Diag

Traces == JsonDeserialize(IOEnv.TRACE_FILE)

VARIABLES tid, l
tvars == <<vars, tid, l>>

T  == Traces[tid]
Ev == T.ev[l]
ToSet(s) == {s[i] : i \in DOMAIN s}

Check(name, c) == IF c THEN TRUE ELSE (Diag /\ PrintT(<<"FAILCLAUSE", tid, l, name>>) /\ FALSE)

TInit ==
  /\ tid \in 1..Len(Traces)
  /\ l = 1
  /\ InitWith(Traces[tid].cfg.N)

Post ==
  /\ Check("the operation returns without raising", Ev.exc = "")
  /\ Check("len(buffer) = min(N, added since clear)", Ev.size = size')
  /\ Check("stored ids = the most recent ones", ToSet(Ev.contents) = {store'[i] : i \in 0..(size' - 1)})
  /\ Check("fields of every row belong together", Ev.rows_ok)
  /\ Check("batches handed out earlier are unchanged", Ev.handed_ok)

TAdd ==
  /\ Ev.op = "add"
  /\ Check("width within capacity", Ev.w \in 1..N)
  /\ Add(Ev.w)
  /\ Post

TSample ==
  /\ Ev.op = "sample"
  /\ Check("batch size within length", Ev.B \in 1..size)
  /\ Check("sample has B rows", Len(Ev.ids) = Ev.B)
  /\ Check("sampled ids are stored ids", ToSet(Ev.ids) \subseteq Contents)
  /\ Check("no duplicates in one batch", Cardinality(ToSet(Ev.ids)) = Ev.B)
  /\ Check("returned idxs locate the returned rows in the storage", Ev.idx_ok)
  /\ Sample(Ev.B, [i \in 1..Ev.B |-> CHOOSE p \in 0..(size - 1) : store[p] = Ev.ids[i]])
  /\ Post

TClear ==
  /\ Ev.op = "clear"
  /\ Clear
  /\ Post

TAccept ==
  /\ l = Len(T.ev) + 1
  /\ PrintT(<<"ACCEPT", tid>>)
  /\ l' = l + 1
  /\ UNCHANGED <<vars, tid>>

TNext ==
  \/ /\ l <= Len(T.ev)
     /\ (TAdd \/ TSample \/ TClear)
     /\ l' = l + 1 /\ UNCHANGED tid
  \/ TAccept

TSpec == TInit /\ [][TNext]_tvars
================================================================================
