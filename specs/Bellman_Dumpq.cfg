SPECIFICATION Spec
CONSTANTS
  Shapes <- MCShapesQ
  Gs = {0, 1, 2}
INVARIANT DumpCase
VIEW core
CHECK_DEADLOCK FALSE
