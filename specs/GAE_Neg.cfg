INIT Init
NEXT NextId
CONSTANTS
  Params <- NegParams
  Rews = {0}
  Vals = {0}
  MaxT = 3
  Layouts <- NegLayouts
  Perturb = {0}
INVARIANT RowsAligned
VIEW core
CHECK_DEADLOCK FALSE
