SPECIFICATION Spec
CONSTANTS
  MCCat <- CatCustom
  MCSub <- SubCustom
  RootClasses <- RootsCustom
  FilterStrs <- FilterCustom
  AssignSpecs <- AssignCustom
  MaxSteps = 1
  DirectCalls = TRUE
CONSTRAINT Bound
ACTION_CONSTRAINT Dump
INVARIANT DumpInit
VIEW core
CHECK_DEADLOCK FALSE
