SPECIFICATION Spec
CONSTANTS
  Params <- MCParams1
  Vals <- MCVals3
  MaxB = 2
  MaxRows = 4
  Variant = "naive"
  Depth = 0
INVARIANT MomentsDef
INVARIANT CountDef
INVARIANT VarNonNeg
INVARIANT TypeOK
PROPERTY Frozen
PROPERTY Local
PROPERTY CarryExact
PROPERTY HandedPost
PROPERTY RowsCounted
VIEW core
CHECK_DEADLOCK FALSE
