------------------------------- MODULE MutReg -------------------------------
(***************************************************************************)
(* X02 -- the mutation-method registry of agilerl.modules.base              *)
(* (EvolvableModule, EvolvableWrapper, ModuleDict, @mutation,               *)
(* MutationContext) as an explicit state machine.                           *)
(*                                                                         *)
(* A state is a forest of at most two module trees (tree 1 = the module a  *)
(* user works with, tree 2 = its clone once clone() was called).  A tree   *)
(* is a function  path -> node,  a path being the sequence of attribute    *)
(* names leading from the root to a nested EvolvableModule (<<>> = root).  *)
(* A node carries                                                          *)
(*   cls    its class (an entry of the class catalogue `cat')             *)
(*   raw    [L |-> .., N |-> ..] the names the module itself keeps         *)
(*          (_layer_mutation_methods / _node_mutation_methods); a name is  *)
(*          a sequence of atoms, <<"encoder","add_node">> = the dotted     *)
(*          name "encoder.add_node"                                        *)
(*   last   last_mutation_attr (<<>> = None)                               *)
(* The PUBLIC registry Reg(T,p,k) (layer_mutation_methods /                *)
(* node_mutation_methods of the node at p) is computed from raw exactly as *)
(* the code promises: own names always, a forwarded name "c.rest" only as  *)
(* long as the child c itself still offers "rest".                         *)
(*                                                                         *)
(* The class catalogue is data (variable `cat', constant along a           *)
(* behaviour): for each class its own @mutation methods by kind, the       *)
(* documented fall-backs (add_layer -> add_node when a limit is reached;   *)
(* a parent method delegating to a registered method of a child), the      *)
(* children its constructor attaches (with the kinds the constructor       *)
(* disables in them), the children recreate_network() replaces, and        *)
(* whether it is a pure container (ModuleDict) or a wrapper.  An EvolvableWrapper and *)
(* the module it wraps form ONE node whose own methods are the wrapped     *)
(* module's ("maintaining its mutation methods at the top-level").         *)
(*                                                                         *)
(* What the code promises (docstrings of base.py), clause by clause:       *)
(*  R1 __setattr__: assigning a module to an attribute adds the module's   *)
(*     mutation methods to the parent under "attr."; names of a module     *)
(*     previously held by that attribute disappear; nothing else changes.  *)
(*  R2 disable_mutations(kind): the module and all nested modules offer no *)
(*     method of that kind any more; the other kind is untouched.          *)
(*  R3 filter_mutation_methods(s): exactly the names containing s vanish   *)
(*     from this module's registry.                                        *)
(*  R4 every registered name resolves (getattr) to the method of the       *)
(*     module CURRENTLY at that path, of the registered kind.              *)
(*  R5 sample_mutation_method returns a registered name; layer methods     *)
(*     share new_layer_prob, node methods 1 - new_layer_prob (uniform      *)
(*     inside a kind; uniform over everything when one kind is empty);     *)
(*     ValueError when nothing is registered.                              *)
(*  R6 MutationContext: after the OUTERMOST call of a registered name,     *)
(*     last_mutation_attr of every module the call went through names the  *)
(*     method really applied (relative to that module), the module owning   *)
(*     the applied method is recreated exactly once, nobody else is; a     *)
(*     method that is not registered (disabled) applies nothing and leaves *)
(*     last_mutation_attr None.                                            *)
(*  R7 clone(): a new tree with the same registry at every node, bound to  *)
(*     its own sub-modules; the two trees are independent afterwards.      *)
(***************************************************************************)
EXTENDS Naturals, Sequences, FiniteSets, TLC

CONSTANTS MCCat,        \* class catalogue of the model-checked instance
          MCSub,        \* substring oracle: set of <<s, atom>> with s occurring in atom
          RootClasses,  \* classes a behaviour may start from
          FilterStrs,   \* arguments of filter_mutation_methods
          AssignSpecs,  \* set of [a |-> attr, c |-> class]: root.a = c()
          MaxSteps,     \* bound on state-changing operations
          DirectCalls   \* TRUE: methods are also called on nested modules directly

VARIABLES cat, sub,     \* catalogue and substring oracle (constant along a behaviour)
          trees,        \* <<tree 1, tree 2>>, <<>> = no such tree
          out,          \* what the last operation returned / triggered
          act,          \* the last operation (bookkeeping, hidden by VIEW)
          steps
vars == <<cat, sub, trees, out, act, steps>>
core == <<cat, trees>>
coreSteps == <<cat, trees, steps>>   \* model checking with several workers: the step bound must be part of the view

Kinds == {"L", "N"}
None  == <<>>
Rng(s) == {s[i] : i \in DOMAIN s}
Min(S) == CHOOSE x \in S : \A y \in S : x <= y

Front(m) == SubSeq(m, 1, Len(m) - 1)
Last(m)  == m[Len(m)]
Drop(q, n) == SubSeq(q, n + 1, Len(q))
IsPrefix(p, q) == Len(p) <= Len(q) /\ SubSeq(q, 1, Len(p)) = p

---------------------------------------------------------------------------
(* catalogue access *)
Cls(c)    == CHOOSE r \in Rng(cat) : r.name = c
Own(c, k) == Rng(Cls(c)[k])
OwnAll(c) == Own(c, "L") \cup Own(c, "N")
Fb(c, x)  == LET S == {e \in Rng(Cls(c).fb) : e.f = x}
             IN  IF S = {} THEN None ELSE (CHOOSE e \in S : TRUE).to

(* trees *)
Live(T)        == <<>> \in DOMAIN T
Subtree(T, p)  == {q \in DOMAIN T : IsPrefix(p, q)}
Kids(T, p)     == {q \in DOMAIN T : Len(q) = Len(p) + 1 /\ IsPrefix(p, q)}
Container(T,p) == Cls(T[p].cls).container

(* R4/R9: the public registry of kind k of the node at p *)
RECURSIVE Reg(_, _, _)
Reg(T, p, k) ==
  IF Container(T, p)
  THEN UNION {{<<Last(q)>> \o m : m \in Reg(T, q, k)} : q \in Kids(T, p)}
  ELSE {m \in T[p].raw[k] :
          \/ Len(m) = 1
          \/ /\ (p \o <<Head(m)>>) \in DOMAIN T
             /\ Tail(m) \in Reg(T, p \o <<Head(m)>>, k)}
RegAll(T, p) == Reg(T, p, "L") \cup Reg(T, p, "N")

(* a tree S grafted at path p of T (whatever was there before is dropped) *)
Graft(T, p, S) ==
  [q \in (DOMAIN T \ Subtree(T, p)) \cup {p \o r : r \in DOMAIN S} |->
      IF IsPrefix(p, q) THEN S[Drop(q, Len(p))] ELSE T[q]]

(* R2 *)
DisableTree(T, p, Ks) ==
  [q \in DOMAIN T |->
      IF IsPrefix(p, q)
      THEN [T[q] EXCEPT !.raw = [k \in Kinds |-> IF k \in Ks THEN {} ELSE @[k]]]
      ELSE T[q]]

(* R3 *)
Has(m, s) == \E i \in DOMAIN m : <<s, m[i]>> \in sub
FilterNode(T, p, s) ==
  [T EXCEPT ![p].raw = [k \in Kinds |-> {m \in @[k] : ~Has(m, s)}]]

(* R1: the node at p gets the tree S as attribute a *)
AssignTree(T, p, a, S) ==
  LET T1 == [T EXCEPT ![p].raw = [k \in Kinds |->
                 {m \in @[k] : ~(Len(m) > 1 /\ Head(m) = a)}
                 \cup {<<a>> \o m : m \in Reg(S, <<>>, k)}]]
  IN  Graft(T1, p \o <<a>>, S)

(* what the constructor of class c builds: children are attached one after  *)
(* the other (R1), afterwards the constructor disables the kinds `pre' in   *)
(* a child (EvolvableNetwork: layer mutations of the encoder)               *)
RECURSIVE Build(_)
Build(c) ==
  LET K      == Cls(c).kids
      Sub(i) == DisableTree(Build(K[i].c), <<>>, Rng(K[i].pre))
      At(i, k) == {<<K[i].a>> \o m : m \in Reg(Build(K[i].c), <<>>, k)}
      root   == [cls |-> c,
                 raw |-> [k \in Kinds |-> {<<x>> : x \in Own(c, k)} \cup UNION {At(i, k) : i \in DOMAIN K}],
                 last |-> None]
      dom    == {<<>>} \cup UNION {{<<K[i].a>> \o q : q \in DOMAIN Sub(i)} : i \in DOMAIN K}
  IN  [p \in dom |->
         IF p = <<>> THEN root
         ELSE LET i == CHOOSE j \in DOMAIN K : K[j].a = Head(p) IN Sub(i)[Tail(p)]]

(* recreate_network() of the node at q: the children listed in `rebuild' are  *)
(* replaced by newly constructed modules of the same classes.  Applying a      *)
(* mutation does not change which mutations are on offer: the new children     *)
(* offer exactly what the replaced ones offered (in particular what the        *)
(* constructor or the user disabled stays disabled); they have not been        *)
(* mutated yet (last_mutation_attr None).                                      *)
Rebuild(T, q) ==
  LET A == Rng(Cls(T[q].cls).rebuild) IN
  [r \in DOMAIN T |->
     IF \E a \in A : IsPrefix(q \o <<a>>, r) THEN [T[r] EXCEPT !.last = None] ELSE T[r]]
Rebuilds(c) == Cls(c).rebuild # <<>>

---------------------------------------------------------------------------
(* R6: the fall-back chain starting at method x of the node at q *)
RECURSIVE FbSeq(_, _, _, _)
FbSeq(T, q, x, n) ==
  LET f == Fb(T[q].cls, x) IN
  IF n = 0 \/ f = None \/ (q \o Front(f)) \notin DOMAIN T
  THEN <<[q |-> q, x |-> x]>>
  ELSE <<[q |-> q, x |-> x]>> \o FbSeq(T, q \o Front(f), Last(f), n - 1)

MaxHopsOf(T, p, m) == Len(FbSeq(T, p \o Front(m), Last(m), 3)) - 1

(* outermost call of the registered name m on the node at p, the bodies     *)
(* deciding to fall back h times                                            *)
(* lenient: a fall-back INSIDE a wrapped module is taken even when the wrapper does not offer the target (the wrapped module   *)
(* runs its methods whenever it is reached through the wrapper); whether such a fall-back applies is left open (Ambiguous)    *)
HopRegistered(T, e) == Fb(T[e.q].cls, e.x) \in RegAll(T, e.q)
Ambiguous(T, p, m, h) ==
  LET S == FbSeq(T, p \o Front(m), Last(m), 3) IN
  \E i \in 1..h : ~HopRegistered(T, S[i]) /\ Cls(T[S[i].q].cls).wrapper
CallResult(T, p, m, h, lenient) ==
  LET S      == FbSeq(T, p \o Front(m), Last(m), 3)
      hopOK(i) == HopRegistered(T, S[i]) \/ (lenient /\ Cls(T[S[i].q].cls).wrapper)
      brk    == {i \in 1..h : ~hopOK(i)}
      thru(e) == {r \in DOMAIN T : IsPrefix(p, r) /\ IsPrefix(r, e) /\ ~Container(T, r)}
  IN  IF brk = {}
      THEN LET qa == S[h + 1].q
               xa == S[h + 1].x
               T1 == [r \in DOMAIN T |->
                        IF r \in thru(qa) THEN [T[r] EXCEPT !.last = Drop(qa, Len(r)) \o <<xa>>]
                        ELSE T[r]]
           IN  [tree |-> Rebuild(T1, qa),
                recr |-> {qa}, hooks |-> thru(qa), ret |-> Drop(qa, Len(p)) \o <<xa>>, owner |-> qa]
      ELSE LET qb == S[Min(brk)].q
           IN  [tree |-> [r \in DOMAIN T |-> IF r \in thru(qb) THEN [T[r] EXCEPT !.last = None] ELSE T[r]],
                recr |-> {}, hooks |-> thru(qb), ret |-> None, owner |-> qb]

(* names that denote a method of the module at p although p does not offer them *)
Known(T, p) ==
  {m \in UNION {{Drop(q, Len(p)) \o <<x>> : x \in OwnAll(T[q].cls)} : q \in Subtree(T, p)} :
      m \notin RegAll(T, p)}

(* R5: weights of sample_mutation_method(new_layer_prob = pl/2): name -> <<num, den>> *)
Weights(T, p, pl) ==
  LET RL == Reg(T, p, "L")
      RN == Reg(T, p, "N")
      nL == Cardinality(RL)
      nN == Cardinality(RN)
  IN  [m \in RL \cup RN |->
         IF nL = 0 \/ nN = 0 THEN <<1, nL + nN>>
         ELSE IF m \in RL THEN <<pl * nN, 2 * nL * nN>> ELSE <<(2 - pl) * nL, 2 * nL * nN>>]

CloneTree(T) == [p \in DOMAIN T |-> [T[p] EXCEPT !.last = None]]
Pristine(T)  == LET B == Build(T[<<>>].cls) IN
                DOMAIN B = DOMAIN T /\ \A p \in DOMAIN T : B[p].cls = T[p].cls

---------------------------------------------------------------------------
NoOut == [recr |-> {}, hooks |-> {}, ret |-> None, raised |-> ""]

InitWith(C, S, c) ==
  /\ cat = C /\ sub = S
  /\ trees = <<Build(c), <<>>>>
  /\ out = NoOut
  /\ act = [op |-> "construct", c |-> c]
  /\ steps = 0
Init == \E c \in RootClasses : InitWith(MCCat, MCSub, c)

Callable(t, p) == Live(trees[t]) /\ p \in DOMAIN trees[t] /\ ~Container(trees[t], p)
                  /\ (DirectCalls \/ p = <<>>)

Call(t, p, m, h) ==
  /\ Callable(t, p)
  /\ m \in RegAll(trees[t], p)
  /\ h \in 0..MaxHopsOf(trees[t], p, m)
  /\ ~Ambiguous(trees[t], p, m, h)
  /\ LET r == CallResult(trees[t], p, m, h, FALSE) IN
       /\ trees' = [trees EXCEPT ![t] = r.tree]
       /\ out' = [recr |-> {<<t, q>> : q \in r.recr}, hooks |-> {<<t, q>> : q \in r.hooks},
                  ret |-> r.ret, raised |-> ""]
  /\ act' = [op |-> "call", t |-> t, p |-> p, m |-> m, h |-> h]
  /\ steps' = steps + 1
  /\ UNCHANGED <<cat, sub>>

(* a method the module does not offer: nothing is applied; either getattr     *)
(* fails (never wrapped: AttributeError) or the call returns with             *)
(* last_mutation_attr None                                                    *)
CallDisabled(t, p, m, raises) ==
  /\ Callable(t, p)
  /\ m \in Known(trees[t], p)
  /\ trees' = IF raises THEN trees ELSE [trees EXCEPT ![t][p].last = None]
  /\ out' = [NoOut EXCEPT !.raised = IF raises THEN "AttributeError" ELSE ""]
  /\ act' = [op |-> "calldis", t |-> t, p |-> p, m |-> m, raises |-> raises]
  /\ steps' = steps + 1
  /\ UNCHANGED <<cat, sub>>

Sample(t, p, pl, m) ==
  /\ Callable(t, p)
  /\ pl \in 0..2
  /\ IF RegAll(trees[t], p) = {}
     THEN m = None /\ out' = [NoOut EXCEPT !.raised = "ValueError"]
     ELSE /\ m \in RegAll(trees[t], p)
          /\ Weights(trees[t], p, pl)[m][1] > 0
          /\ out' = [NoOut EXCEPT !.ret = m]
  /\ act' = [op |-> "sample", t |-> t, p |-> p, pl |-> pl, m |-> m]
  /\ UNCHANGED <<cat, sub, trees, steps>>

Disable(t, p, Ks) ==
  /\ Live(trees[t]) /\ p \in DOMAIN trees[t]
  /\ Ks \in {{"L"}, {"N"}, {"L", "N"}}
  /\ trees' = [trees EXCEPT ![t] = DisableTree(@, p, Ks)]
  /\ out' = NoOut
  /\ act' = [op |-> "disable", t |-> t, p |-> p, ks |-> Ks]
  /\ steps' = steps + 1
  /\ UNCHANGED <<cat, sub>>

Filter(t, p, s) ==
  /\ Live(trees[t]) /\ p \in DOMAIN trees[t] /\ ~Container(trees[t], p)
  /\ trees' = [trees EXCEPT ![t] = FilterNode(@, p, s)]
  /\ out' = NoOut
  /\ act' = [op |-> "filter", t |-> t, p |-> p, s |-> s]
  /\ steps' = steps + 1
  /\ UNCHANGED <<cat, sub>>

(* root.a = c(...): attach a new child or replace the one held by attribute a *)
Assign(t, a, c) ==
  /\ Live(trees[t]) /\ ~Container(trees[t], <<>>)
  /\ trees' = [trees EXCEPT ![t] = AssignTree(@, <<>>, a, Build(c))]
  /\ out' = NoOut
  /\ act' = [op |-> "assign", t |-> t, p |-> <<>>, a |-> a, c |-> c]
  /\ steps' = steps + 1
  /\ UNCHANGED <<cat, sub>>

Clone ==
  /\ Live(trees[1]) /\ ~Live(trees[2])
  /\ Pristine(trees[1])
  /\ trees' = [trees EXCEPT ![2] = CloneTree(trees[1])]
  /\ out' = NoOut
  /\ act' = [op |-> "clone", t |-> 1]
  /\ steps' = steps + 1
  /\ UNCHANGED <<cat, sub>>

LiveTrees == {t \in 1..2 : Live(trees[t])}
Nodes(t)  == DOMAIN trees[t]

CallAny     == \E t \in LiveTrees : \E p \in Nodes(t) : \E m \in RegAll(trees[t], p) :
                 \E h \in 0..MaxHopsOf(trees[t], p, m) : Call(t, p, m, h)
CallDisAny  == \E t \in LiveTrees : \E p \in Nodes(t) : \E m \in Known(trees[t], p), r \in BOOLEAN : CallDisabled(t, p, m, r)
SampleAny   == \E t \in LiveTrees : \E p \in Nodes(t), pl \in 0..2 : \E m \in RegAll(trees[t], p) \cup {None} : Sample(t, p, pl, m)
DisableAny  == \E t \in LiveTrees : \E p \in Nodes(t), Ks \in {{"L"}, {"N"}, {"L", "N"}} : Disable(t, p, Ks)
FilterAny   == \E t \in LiveTrees : \E p \in Nodes(t), s \in FilterStrs : Filter(t, p, s)
AssignAny   == \E t \in LiveTrees, sp \in AssignSpecs : Assign(t, sp.a, sp.c)

(* sampling changes nothing: the model-checked relation leaves it out (SampleLaw is a state invariant), the dumped one has it *)
NextCore == CallAny \/ CallDisAny \/ DisableAny \/ FilterAny \/ AssignAny \/ Clone
Next     == NextCore \/ SampleAny

Spec == Init /\ [][Next]_vars
SpecCore == Init /\ [][NextCore]_vars
Bound == steps <= MaxSteps

---------------------------------------------------------------------------
(* Invariants: the promises, stated without reference to how raw is kept.  *)
(* every tree is closed under parents *)
Shape == \A t \in LiveTrees : \A p \in DOMAIN trees[t] : p = <<>> \/ Front(p) \in DOMAIN trees[t]

(* R4: a registered name denotes a method of the module currently at that path, of that kind *)
Resolves ==
  \A t \in LiveTrees : \A p \in DOMAIN trees[t] : \A k \in Kinds : \A m \in Reg(trees[t], p, k) :
     LET q == p \o Front(m) IN
       /\ q \in DOMAIN trees[t]
       /\ ~Container(trees[t], q)
       /\ Last(m) \in Own(trees[t][q].cls, k)

(* no name is offered as a layer and as a node mutation *)
KindsDisjoint ==
  \A t \in LiveTrees : \A p \in DOMAIN trees[t] : Reg(trees[t], p, "L") \cap Reg(trees[t], p, "N") = {}

(* a parent never offers what the child itself does not offer (R2 seen from above) *)
NoPhantom ==
  \A t \in LiveTrees : \A p \in DOMAIN trees[t] : \A k \in Kinds : \A m \in Reg(trees[t], p, k) :
     Len(m) > 1 => Tail(m) \in Reg(trees[t], p \o <<Head(m)>>, k)

(* R6: at most one module is recreated per outermost call, and only by a call *)
RecreateOnce == Cardinality(out.recr) <= 1 /\ (out.recr # {} => act.op = "call")

(* R5: the law sample_mutation_method draws from, for every node and every new_layer_prob in {0, 1/2, 1}:   *)
(* a probability distribution over exactly the registered names; layer methods together weigh new_layer_prob *)
(* when both kinds are on offer; equal weights inside a kind                                                *)
RECURSIVE SumNum(_, _)
SumNum(W, S) == IF S = {} THEN 0 ELSE LET m == CHOOSE x \in S : TRUE IN W[m][1] + SumNum(W, S \ {m})
SampleLaw ==
  \A t \in LiveTrees : \A p \in DOMAIN trees[t] : \A pl \in 0..2 :
    LET T == trees[t]
        W == Weights(T, p, pl)
        RL == Reg(T, p, "L")
        RN == Reg(T, p, "N")
    IN  (~Container(T, p) /\ RL \cup RN # {}) =>
          /\ DOMAIN W = RL \cup RN
          /\ \A m \in DOMAIN W : \A n \in DOMAIN W : W[m][2] = W[n][2] /\ W[m][2] > 0
          /\ SumNum(W, DOMAIN W) = W[CHOOSE m \in DOMAIN W : TRUE][2]
          /\ (RL # {} /\ RN # {}) => 2 * SumNum(W, RL) = pl * W[CHOOSE m \in RL : TRUE][2]
          /\ \A k \in Kinds : \A m \in Reg(T, p, k) : \A n \in Reg(T, p, k) : W[m] = W[n]
(* what a draw may return *)
SampleSound ==
  act.op = "sample" =>
    LET T == trees[act.t] IN
      IF out.raised # "" THEN RegAll(T, act.p) = {}
      ELSE /\ out.ret \in RegAll(T, act.p)
           /\ (act.pl = 2 /\ Reg(T, act.p, "L") # {}) => out.ret \in Reg(T, act.p, "L")
           /\ (act.pl = 0 /\ Reg(T, act.p, "N") # {}) => out.ret \in Reg(T, act.p, "N")

(* Action properties *)
RegOf(T, p) == [k \in Kinds |-> Reg(T, p, k)]

(* R1 *)
AssignExact ==
  [][act'.op = "assign" =>
       LET T == trees[act'.t]  T2 == trees'[act'.t]  a == act'.a IN
         /\ \A k \in Kinds :
              Reg(T2, <<>>, k) = {m \in Reg(T, <<>>, k) : ~(Len(m) > 1 /\ Head(m) = a)}
                                   \cup {<<a>> \o m : m \in Reg(T2, <<a>>, k)}
         /\ \A p \in DOMAIN T : (p # <<>> /\ ~IsPrefix(<<a>>, p)) => (p \in DOMAIN T2 /\ RegOf(T2, p) = RegOf(T, p))]_vars

(* R2 *)
DisableEffective ==
  [][act'.op = "disable" =>
       LET T == trees[act'.t]  T2 == trees'[act'.t] IN
         /\ DOMAIN T2 = DOMAIN T
         /\ \A q \in DOMAIN T : \A k \in Kinds :
              IF k \in act'.ks /\ IsPrefix(act'.p, q) THEN Reg(T2, q, k) = {}
              ELSE IF k \in act'.ks THEN Reg(T2, q, k) \subseteq Reg(T, q, k)
              ELSE Reg(T2, q, k) = Reg(T, q, k)]_vars

(* R3 *)
FilterExact ==
  [][act'.op = "filter" =>
       LET T == trees[act'.t]  T2 == trees'[act'.t] IN
         /\ \A k \in Kinds : Reg(T2, act'.p, k) = {m \in Reg(T, act'.p, k) : ~Has(m, act'.s)}
         /\ \A q \in DOMAIN T : ~IsPrefix(q, act'.p) => RegOf(T2, q) = RegOf(T, q)]_vars

(* R6 *)
CallTracked ==
  [][act'.op = "call" =>
       LET T == trees[act'.t]  T2 == trees'[act'.t]  p == act'.p IN
         /\ T2[p].last = out'.ret
         /\ out'.ret # None =>
              /\ out'.recr = {<<act'.t, p \o Front(out'.ret)>>}
              /\ <<act'.t, p>> \in out'.hooks
              /\ \A r \in DOMAIN T : (IsPrefix(p, r) /\ IsPrefix(r, p \o Front(out'.ret)) /\ ~Container(T, r))
                    => T2[r].last = Drop(p \o out'.ret, Len(r))
         /\ out'.ret = None => out'.recr = {}
         /\ DOMAIN T2 = DOMAIN T /\ \A r \in DOMAIN T : RegOf(T2, r) = RegOf(T, r) /\ T2[r].cls = T[r].cls]_vars

DisabledAppliesNothing ==
  [][act'.op = "calldis" =>
       /\ out'.recr = {}
       /\ \A t \in LiveTrees : \A q \in DOMAIN trees[t] :
            /\ RegOf(trees'[t], q) = RegOf(trees[t], q)
            /\ (trees'[t][q].last # trees[t][q].last => (t = act'.t /\ q = act'.p /\ trees'[t][q].last = None))]_vars

(* R7 *)
CloneEqual ==
  [][act'.op = "clone" =>
       /\ trees'[1] = trees[1]
       /\ DOMAIN trees'[2] = DOMAIN trees[1]
       /\ \A p \in DOMAIN trees[1] : RegOf(trees'[2], p) = RegOf(trees[1], p) /\ trees'[2][p].cls = trees[1][p].cls]_vars

Independent ==
  [][act'.op \in {"call", "calldis", "sample", "disable", "filter", "assign"} => trees'[3 - act'.t] = trees[3 - act'.t]]_vars
================================================================================
