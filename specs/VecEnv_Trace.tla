------------------------------ MODULE VecEnv_Trace ------------------------------
(* Trace validation of the real AsyncPettingZooVecEnv against VecEnv.tla (C13).    *)
(* One logged event per finished public call: its outcome (ok / exception type /   *)
(* hang), _state, closed and -- after close -- which worker processes are alive.   *)
(* Worker progress is not logged: Exec / Raise / Kill / WorkerEOF are silent steps *)
(* TLC infers; faults are pinned to the command number given in the fault plan.    *)
EXTENDS VecEnv, Json, IOUtils, TLCExt
CONSTANT Diag
Traces == JsonDeserialize(IOEnv.TRACE_FILE)
VARIABLES tid, l, wcount
tvars == <<vars, tid, l, wcount>>
T  == Traces[tid]
Ev == T.ev[l]
Check(name, c) == IF c THEN TRUE ELSE (Diag /\ PrintT(<<"FAILCLAUSE", tid, l, name>>) /\ FALSE)

TInit == tid \in 1..Len(Traces) /\ l = 1 /\ wcount = [i \in W |-> 0] /\ Init

More == l <= Len(T.ev)
Plan(i, n) == {f \in {T.cfg.faults[k] : k \in 1..Len(T.cfg.faults)} : f.w = i /\ f.n = n}

\* silent worker steps
SExec(i) == /\ alive[i] /\ down[i] # <<>>
            /\ (Head(down[i]).cmd # "close" => Plan(i, wcount[i] + 1) = {})
            /\ Exec(i)
            /\ wcount' = [wcount EXCEPT ![i] = @ + 1] /\ UNCHANGED <<tid, l>>
SRaise(i) == \E f \in Plan(i, wcount[i] + 1) :
                /\ f.kind = "raise" /\ Raise(i, f.typ)
                /\ wcount' = [wcount EXCEPT ![i] = @ + 1] /\ UNCHANGED <<tid, l>>
SKill(i) == \E f \in Plan(i, wcount[i] + 1) :
                /\ f.kind = "kill" /\ down[i] # <<>> /\ Kill(i)
                /\ wcount' = [wcount EXCEPT ![i] = @ + 1] /\ UNCHANGED <<tid, l>>
SEOF(i) == WorkerEOF(i) /\ UNCHANGED <<tid, l, wcount>>

\* the client commits to the next logged call
SBegin == /\ More /\ Ev.ev = "call" /\ pc = Idle
          /\ Begin(Ev.call, Ev.to)
          /\ UNCHANGED <<tid, l, wcount>>
\* intermediate phases of set_attr / close
SPhase == /\ pc # Idle
          /\ (FinishSetAttrSend \/ CloseWaitPending \/ CloseTerminate \/ CloseSend \/ CloseRecv \/ CloseJoin)
          /\ pc' # Idle
          /\ UNCHANGED <<tid, l, wcount>>
\* the call returns: compare with what the real call did
Finish == FinishAsync \/ FinishWait \/ FinishSetAttrSend \/ FinishSetAttrRecv \/ CloseWaitPending \/ CloseJoin
TReturn == /\ More /\ Ev.ev = "call" /\ pc # Idle /\ pc.call = Ev.call
           /\ Check("the call returns (no hang)", Ev.kind # "hang")
           /\ Finish /\ pc' = Idle
           /\ Check("outcome (return / exception type) as specified", ret'.kind = Ev.kind /\ ret'.typ = Ev.typ)
           /\ Check("_state after the call", pstate' = Ev.pstate)
           /\ Check("closed flag after the call", closed' = Ev.closed)
           /\ Check("close() returns normally", Ev.call = "close" => Ev.kind = "ok")
           /\ Check("no worker process alive after close()", (Ev.call = "close" /\ Ev.kind = "ok") => \A i \in W : ~Ev.alive[i])
           /\ l' = l + 1 /\ UNCHANGED <<tid, wcount>>
TKillEv == /\ More /\ Ev.ev = "kill" /\ pc = Idle
           /\ Kill(Ev.w)
           /\ l' = l + 1 /\ UNCHANGED <<tid, wcount>>

TAccept == /\ l = Len(T.ev) + 1 /\ PrintT(<<"ACCEPT", tid>>) /\ l' = l + 1 /\ UNCHANGED <<vars, tid, wcount>>
TNext == \/ \E i \in W : SExec(i) \/ SRaise(i) \/ SKill(i) \/ SEOF(i)
         \/ SBegin \/ SPhase \/ TReturn \/ TKillEv
         \/ TAccept
TSpec == TInit /\ [][TNext]_tvars
================================================================================
