SPECIFICATION SpecCore
CONSTANTS
  MCCat <- CatNet
  MCSub <- SubNet
  RootClasses <- RootsNet
  FilterStrs <- FilterNet
  AssignSpecs <- AssignNet
  MaxSteps = 2
  DirectCalls = TRUE
INVARIANT Shape
INVARIANT Resolves
INVARIANT KindsDisjoint
INVARIANT NoPhantom
INVARIANT RecreateOnce
INVARIANT SampleLaw
PROPERTY AssignExact
PROPERTY DisableEffective
PROPERTY FilterExact
PROPERTY CallTracked
PROPERTY DisabledAppliesNothing
PROPERTY CloneEqual
PROPERTY Independent
CONSTRAINT Bound
VIEW coreSteps
CHECK_DEADLOCK FALSE
