INIT Init
NEXT Next
CONSTANTS
  Params <- MCParamsCol12
  Rews = {0,1,2}
  Vals = {0,1,2}
  MaxT = 3
  Layouts <- UniformLayouts
  Perturb = {0,5}
INVARIANT TypeOK
INVARIANT RecursionMeetsDefinition
INVARIANT ScaleExact
INVARIANT NoLeak
INVARIANT ColumnsSeparate
INVARIANT RowsAligned
INVARIANT RowsComplete
VIEW core
CHECK_DEADLOCK FALSE
