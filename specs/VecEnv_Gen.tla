------------------------------- MODULE VecEnv_Gen -------------------------------
(* M4: behaviours of VecEnv.tla with a history of client calls, worker progress   *)
(* and faults, printed as JSON when the behaviour reaches the depth bound.  The    *)
(* driver turns each history into a scenario for the real AsyncPettingZooVecEnv.   *)
EXTENDS VecEnv, Json
CONSTANTS Depth, MinBeforeClose, MaxMisuse
VARIABLES hist, wc, nmis
gvars == <<vars, hist, wc, nmis>>
GInit == Init /\ hist = <<>> /\ wc = [i \in W |-> 0] /\ nmis = 0
Accepted(c) == /\ ~closed
               /\ ((AsyncOf(c) # "" \/ c = "set_attr") => pstate = "default")
               /\ (WaitOf(c) # "" => pstate = WaitOf(c))
Lag == {<<i, wc[i] + 1>> : i \in {j \in W : alive[j] /\ down[j] # <<>>}}
GNext ==
  \/ \E c \in Calls, to \in Timeouts :
        /\ (c = "close" => ncalls >= MinBeforeClose)
        /\ (Accepted(c) \/ nmis < MaxMisuse)
        /\ nmis' = IF Accepted(c) THEN nmis ELSE nmis + 1
        /\ Begin(c, to)
        /\ hist' = Append(hist, [a |-> "begin", call |-> c, to |-> to, lag |-> Lag]) /\ UNCHANGED wc
  \/ /\ (FinishAsync \/ FinishWait \/ FinishSetAttrSend \/ FinishSetAttrRecv
         \/ CloseWaitPending \/ CloseTerminate \/ CloseSend \/ CloseRecv \/ CloseJoin)
     /\ hist' = IF pc' = Idle THEN Append(hist, [a |-> "end", call |-> pc.call, kind |-> ret'.kind, typ |-> ret'.typ]) ELSE hist
     /\ UNCHANGED <<wc, nmis>>
  \/ \E i \in W : /\ Exec(i) /\ hist' = Append(hist, [a |-> "exec", w |-> i]) /\ wc' = [wc EXCEPT ![i] = @ + 1] /\ UNCHANGED nmis
  \/ \E i \in W : /\ WorkerEOF(i) /\ UNCHANGED <<hist, wc, nmis>>
  \/ \E i \in W, t \in ExcTypes :
        /\ Raise(i, t)
        /\ hist' = Append(hist, [a |-> "raise", w |-> i, n |-> wc[i] + 1, typ |-> t]) /\ wc' = [wc EXCEPT ![i] = @ + 1] /\ UNCHANGED nmis
  \/ \E i \in W :
        /\ Kill(i)
        /\ hist' = Append(hist, [a |-> "kill", w |-> i, n |-> wc[i] + 1, mid |-> (down[i] # <<>>)])
        /\ wc' = IF down[i] # <<>> THEN [wc EXCEPT ![i] = @ + 1] ELSE wc
        /\ UNCHANGED nmis
  \/ Done /\ UNCHANGED <<hist, wc, nmis>>
GSpec == GInit /\ [][GNext]_gvars
Emit == (TLCGet("level") = Depth) => PrintT(<<"BEH", ToJson(hist)>>)
================================================================================
