SPECIFICATION Spec
CONSTANTS
  Cfg <- MCCfg
  NA = 2
  InitVals <- MCInitVals
  MaxMut = 5
INVARIANT InRange
INVARIANT IntIsInt
INVARIANT LrEffective
PROPERTY OneChange
PROPERTY OwnBase
CONSTRAINT Bound
CHECK_DEADLOCK FALSE
