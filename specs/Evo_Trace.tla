-------------------------------- MODULE Evo_Trace --------------------------------
(* Trace validation of real agents (all algorithms) against Evo.tla.               *)
(* Event: op, a (slot), c (new slot), b (batch), f (file), k (mutation kind),      *)
(*   h (mutated hp index), post = views of all slots after the operation (0 = no   *)
(*   agent), shared = pairs of slots that share any storage (data_ptr / id()).     *)
(* Views are built by vfw/project/agent.py + vfw/drive/evo.py from the real objects.*)
EXTENDS Evo, Json, IOUtils, TLCExt
CONSTANT Diag
Traces == JsonDeserialize(IOEnv.TRACE_FILE)
VARIABLES tid, l
tvars == <<vars, tid, l>>
T  == Traces[tid]
Ev == T.ev[l]
Check(name, c) == IF c THEN TRUE ELSE (Diag /\ PrintT(<<"FAILCLAUSE", tid, l, name>>) /\ FALSE)

TInit == /\ tid \in 1..Len(Traces) /\ l = 1
         /\ slots = [s \in 1..NSlots |-> Nil] /\ files = [f \in 1..NFiles |-> Nil]
         /\ learnMemo = {} /\ actMemo = {} /\ own = [s \in 1..NSlots |-> {}]
         /\ nops = 0 /\ act = [op |-> "init", a |-> 0]

IsNil(x) == x = Nil
V(s) == Ev.post[s]                       \* logged view of slot s (0 if empty)
Cells(s) == {Ev.cells[s][i] : i \in 1..Len(Ev.cells[s])}
OthersUnchanged(S) == \A s \in 1..NSlots : s \notin S => (IF slots[s] = Nil THEN IsNil(V(s)) ELSE V(s) = slots[s])
Common(S) ==
  /\ Check("the operation returns without raising", Ev.exc = "")
  /\ Check("Frame: no other agent changes (weights, optimizer state, counters, hp, scores)", OthersUnchanged(S))
  /\ Check("NoSharing: no storage shared between agents", Len(Ev.shared) = 0)
OwnUpd == own' = [s \in 1..NSlots |-> IF IsNil(V(s)) THEN {} ELSE Cells(s)]

FreshView(v) == /\ Check("new agent: optimizers coherent and on the agent's learning rate", Coherent(v))
                /\ Check("new agent: targets have the architecture and weights of their online network", ShadowArch(v) /\ ShadowW(v))
TCreate ==
  /\ Ev.op = "create" /\ Common({Ev.a})
  /\ FreshView(V(Ev.a))
  /\ Check("distinct indices", \A s \in Live : slots[s].idx # V(Ev.a).idx)
  /\ slots' = [slots EXCEPT ![Ev.a] = V(Ev.a)] /\ OwnUpd
  /\ UNCHANGED <<files, learnMemo, actMemo>> /\ Mark(Ev.a, "create")

TClone ==
  /\ Ev.op = "clone" /\ Common({Ev.c})
  /\ LET p == slots[Ev.a]  v == V(Ev.c) IN
     /\ Check("clone: index as requested", v.idx = Ev.idx)
     /\ Check("clone: same hyperparameters", v.hp = p.hp)
     /\ Check("clone: same architectures", v.arch = p.arch)
     /\ Check("clone: same weights (a re-synchronising target may equal the clone's online network)",
              \A n \in Nets : v.w[n] = p.w[n] \/ (Shape.resync /\ Shape.shadow[n] # 0 /\ v.w[n] = v.w[Shape.shadow[n]]))
     /\ Check("clone: same optimizer state", v.opt = p.opt)
     /\ Check("clone: optimizers coherent and on the agent's learning rate", Coherent(v))
     /\ Check("clone: same steps / scores / fitness / mut", v.steps = p.steps /\ v.scores = p.scores /\ v.fitness = p.fitness /\ v.mut = p.mut)
     /\ Check("clone: same greedy actions", v.greedy = p.greedy)
     /\ Check("clone: same algorithm-specific tensors (e.g. bandit confidence matrix)", v.aux = p.aux)
     /\ CloneOK(p, v, Ev.idx)
     /\ slots' = [slots EXCEPT ![Ev.c] = v] /\ OwnUpd
  /\ UNCHANGED <<files, learnMemo, actMemo>> /\ Mark(Ev.c, "clone")

TLearn ==
  /\ Ev.op = "learn" /\ Common({Ev.a})
  /\ LET p == slots[Ev.a]  v == V(Ev.a) IN
     /\ Check("learn: hp / architecture / bookkeeping untouched", v.hp = p.hp /\ v.arch = p.arch /\ v.idx = p.idx /\ v.steps = p.steps /\ v.scores = p.scores /\ v.fitness = p.fitness)
     /\ Check("learn: every trained network moves", \A n \in Trained : v.w[n] # p.w[n])
     /\ Check("learn: every optimizer steps", \A o \in Opts : v.opt[o] # p.opt[o])
     /\ Check("learn: optimizers stay coherent", Coherent(v) /\ ShadowArch(v))
     /\ Check("same state + same batch => same update (clone / restored agent learns like the original)",
              \A m \in learnMemo : (m.pre = TrainKey(p) /\ m.b = Ev.b) => m.post = TrainKey(v))
     /\ Check("greedy actions are a function of the policy weights",
              \A m \in actMemo : (m.w = ActKey(v).w /\ m.arch = ActKey(v).arch) => m.g = v.greedy)
     /\ LearnOK(p, v)
     /\ learnMemo' = learnMemo \cup {[pre |-> TrainKey(p), b |-> Ev.b, post |-> TrainKey(v)]}
     /\ actMemo' = actMemo \cup {[w |-> ActKey(v).w, arch |-> ActKey(v).arch, g |-> v.greedy]}
     /\ slots' = [slots EXCEPT ![Ev.a] = v]
  /\ UNCHANGED <<files, own>> /\ Mark(Ev.a, "learn")

TMutate ==
  /\ Ev.op = "mutate" /\ Common({Ev.a})
  /\ LET p == slots[Ev.a]  v == V(Ev.a)  k == Ev.k  h == Ev.h IN
     /\ Check("mutate: index and bookkeeping untouched", v.idx = p.idx /\ v.steps = p.steps /\ v.scores = p.scores /\ v.fitness = p.fitness)
     /\ Check("mutate: every optimizer steps exactly the current parameters of its networks", \A o \in Opts : v.coherent[o])
     /\ Check("mutate: every optimizer group uses the agent's current learning rate", \A o \in Opts : v.lrok[o])
     /\ Check("mutate: targets have the architecture of the network they shadow", ShadowArch(v))
     /\ Check("mutate: targets have the weights of the network they shadow right after the mutation",
              \A n \in Nets : Shape.shadow[n] # 0 => v.w[n] = v.w[Shape.shadow[n]])
     /\ Check("mutate: all networks trained alongside the policy receive the architecture change", k \in {"arch", "act"} => ArchAllOrNone(p, v))
     /\ Check("mutate: networks with the same layer configuration before the mutation have the same one afterwards (same change as the policy)", SameChange(p, v))
     /\ Check("mutate: hyperparameters change only for kind hp, and exactly one of them",
              (k # "hp" => v.hp = p.hp) /\ (k = "hp" => \A g \in 1..H : g # h => v.hp[g] = p.hp[g]))
     /\ Check("mutate: architectures change only for kinds arch / act", k \notin {"arch", "act"} => v.arch = p.arch)
     /\ Check("mutate: evaluation-network weights change only as the kind allows",
              /\ (k \in {"none", "hp"} => \A n \in Evals : v.w[n] = p.w[n])
              /\ (k = "param" => \A n \in Evals : n # Shape.policy => v.w[n] = p.w[n]))
     /\ Check("mutate: the agent reports the mutation it received", MutLabelOK(p, v, k, h))
     /\ Check("the agent can still act", Ev.can_act)
     /\ MutateOK(p, v, k, h)
     /\ slots' = [slots EXCEPT ![Ev.a] = v]
  /\ UNCHANGED <<files, learnMemo, actMemo, own>> /\ Mark(Ev.a, "mutate")

TMutPop ==
  /\ Ev.op = "mutpop" /\ Common(Live)
  /\ Check("the population keeps its size and order", Ev.order_ok)
  /\ Check("the agents can still act", Ev.can_act)
  /\ \A s \in Live : LET p == slots[s]  v == V(s)  k == (IF "ks" \in DOMAIN Ev THEN Ev.ks[s] ELSE Ev.k)  h == Ev.hs[s] IN
       /\ Check("mutate: every optimizer steps exactly the current parameters of its networks", \A o \in Opts : v.coherent[o])
       /\ Check("mutate: every optimizer group uses the agent's current learning rate", \A o \in Opts : v.lrok[o])
       /\ Check("mutate: targets follow the network they shadow", ShadowArch(v))
       /\ Check("mutate: the agent reports the mutation it received", MutLabelOK(p, v, k, h))
       /\ Check("mutate: only what the kind allows changes", MutateOK(p, v, k, h))
  /\ slots' = [s \in 1..NSlots |-> IF s \in Live THEN V(s) ELSE slots[s]]
  /\ UNCHANGED <<files, learnMemo, actMemo, own>> /\ Mark(0, "mutpop")

TBook ==
  /\ Ev.op = "book" /\ Common({Ev.a})
  /\ Check("bookkeeping only", V(Ev.a) = [slots[Ev.a] EXCEPT !.steps = V(Ev.a).steps, !.scores = V(Ev.a).scores, !.fitness = V(Ev.a).fitness])
  /\ slots' = [slots EXCEPT ![Ev.a] = V(Ev.a)]
  /\ UNCHANGED <<files, learnMemo, actMemo, own>> /\ Mark(Ev.a, "book")

\* acting in training mode may only update algorithm-specific statistics (e.g. the wrapper's running mean / variance)
TAct ==
  /\ Ev.op = "act" /\ Common({Ev.a})
  /\ Check("acting changes nothing but running statistics", V(Ev.a) = [slots[Ev.a] EXCEPT !.aux = V(Ev.a).aux])
  /\ slots' = [slots EXCEPT ![Ev.a] = V(Ev.a)]
  /\ UNCHANGED <<files, learnMemo, actMemo, own>> /\ Mark(Ev.a, "act")

TSave ==
  /\ Ev.op = "save" /\ Common({})
  /\ Save(Ev.a, Ev.f)

RestoreChecks(saved, v) ==
  /\ Check("restore: same hyperparameters", v.hp = saved.hp)
  /\ Check("restore: same (mutated) architectures", v.arch = saved.arch)
  /\ Check("restore: same weights of every evaluation network", \A n \in Evals : v.w[n] = saved.w[n])
  /\ Check("restore: same weights of every target network", \A n \in Nets : Shape.shadow[n] # 0 => v.w[n] = saved.w[n])
  /\ Check("restore: same optimizer state", v.opt = saved.opt)
  /\ Check("restore: optimizers coherent and on the agent's learning rate", Coherent(v))
  /\ Check("restore: same training bookkeeping (index, mut, steps, scores, fitness)",
           v.idx = saved.idx /\ v.mut = saved.mut /\ v.steps = saved.steps /\ v.scores = saved.scores /\ v.fitness = saved.fitness)
  /\ Check("restore: same greedy actions", v.greedy = saved.greedy)
  /\ Check("restore: same algorithm-specific tensors", v.aux = saved.aux)
TLoadNew ==
  /\ Ev.op = "loadnew" /\ Common({Ev.c})
  /\ RestoreChecks(files[Ev.f], V(Ev.c))
  /\ RestoreOK(files[Ev.f], V(Ev.c))
  /\ slots' = [slots EXCEPT ![Ev.c] = V(Ev.c)] /\ OwnUpd
  /\ UNCHANGED <<files, learnMemo, actMemo>> /\ Mark(Ev.c, "loadnew")
TLoadInto ==
  /\ Ev.op = "loadinto" /\ Common({Ev.a})
  /\ RestoreChecks(files[Ev.f], V(Ev.a))
  /\ RestoreOK(files[Ev.f], V(Ev.a))
  /\ slots' = [slots EXCEPT ![Ev.a] = V(Ev.a)] /\ OwnUpd
  /\ UNCHANGED <<files, learnMemo, actMemo>> /\ Mark(Ev.a, "loadinto")
TDiscard ==
  /\ Ev.op = "discard" /\ Common({Ev.a})
  /\ Check("discarded slot is empty", IsNil(V(Ev.a)))
  /\ Discard(Ev.a)

TAccept == /\ l = Len(T.ev) + 1 /\ PrintT(<<"ACCEPT", tid>>) /\ l' = l + 1 /\ UNCHANGED <<vars, tid>>
TNext == \/ /\ l <= Len(T.ev)
            /\ (TCreate \/ TClone \/ TLearn \/ TMutate \/ TMutPop \/ TAct \/ TBook \/ TSave \/ TLoadNew \/ TLoadInto \/ TDiscard)
            /\ l' = l + 1 /\ UNCHANGED tid
         \/ TAccept
TSpec == TInit /\ [][TNext]_tvars
================================================================================
