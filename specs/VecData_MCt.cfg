SPECIFICATION Spec
CONSTANTS
  Params <- MCParams
  MaxSteps = 7
  Acts = {0, 3}
INVARIANT ObsIsCurrent
INVARIANT ResetRestoresAgents
PROPERTY OnlyDoneEnvResets
CONSTRAINT Bound
VIEW core
CHECK_DEADLOCK FALSE
