------------------------------ MODULE EvoHP_Trace ------------------------------
(* Trace validation of the real Mutations.rl_hyperparam_mutation on real populations   *)
(* (C06).  Exact traces (dyadic factors): every value is logged as [num, den] and TLC   *)
(* checks OwnBase / Clip / Cast itself.  Inexact traces (default factors 0.8 / 1.2):    *)
(* values are not predicted, the events carry the facts measured by the harness.        *)
EXTENDS EvoHP, Json, IOUtils, TLCExt
CONSTANT Diag
NoCfg == <<>>
NoInit == {}
Traces == JsonDeserialize(IOEnv.TRACE_FILE)
VARIABLES tid, l
tvars == <<vars, tid, l>>
T  == Traces[tid]
Ev == T.ev[l]
Check(name, c) == IF c THEN TRUE ELSE (Diag /\ PrintT(<<"FAILCLAUSE", tid, l, name>>) /\ FALSE)
R(x) == <<x[1], x[2]>>
TC == [h \in 1..Len(T.cfg.hps) |-> [min |-> R(T.cfg.hps[h].min), max |-> R(T.cfg.hps[h].max), shrink |-> R(T.cfg.hps[h].shrink),
                                    grow |-> R(T.cfg.hps[h].grow), isint |-> T.cfg.hps[h].isint, islr |-> T.cfg.hps[h].islr]]
TH == Len(T.cfg.hps)
TNA == T.cfg.NA
TNew(own, c, d) == Cast(Clip(RMul(own, IF d = "shrink" THEN c.shrink ELSE c.grow), c), c)

TInit == /\ tid \in 1..Len(Traces) /\ l = 1
         /\ val = [a \in 1..Traces[tid].cfg.NA |-> [h \in 1..Len(Traces[tid].cfg.hps) |-> R(Traces[tid].cfg.init[a][h])]]
         /\ lrs = [a \in 1..Traces[tid].cfg.NA |-> [h \in 1..Len(Traces[tid].cfg.hps) |-> {}]]
         /\ nmut = 0 /\ act = [op |-> "init"]

After(a, h) == R(Ev.after[a][h])
MutOK(a, h) ==
  /\ Check("the agent reports which hyperparameter it mutated", h \in 1..TH)
  /\ Check("exactly one hyperparameter of the agent changes", \A g \in 1..TH : g # h => After(a, g) = val[a][g])
  /\ Check("new value = own current value x shrink or grow factor, clipped to [min, max], cast to the configured type",
           After(a, h) \in {TNew(val[a][h], TC[h], "shrink"), TNew(val[a][h], TC[h], "grow")})
  /\ Check("new value inside the configured range", RLeq(TC[h].min, After(a, h)) /\ RLeq(After(a, h), TC[h].max))
  /\ Check("integer hyperparameters stay integers", TC[h].isint => RIsInt(After(a, h)))
  /\ Check("a mutated learning rate is the lr of every optimizer group that uses it",
           TC[h].islr => \A i \in 1..Len(Ev.lrs[a][h]) : R(Ev.lrs[a][h][i]) = After(a, h))
TMutate ==
  /\ Ev.op = "mutate" /\ T.cfg.exact
  /\ Check("returns without raising", Ev.exc = "")
  /\ Check("no other agent's values move", \A b \in 1..TNA, g \in 1..TH : b # Ev.a => After(b, g) = val[b][g])
  /\ MutOK(Ev.a, Ev.h)
  /\ val' = [a \in 1..TNA |-> [h \in 1..TH |-> After(a, h)]]
  /\ UNCHANGED lrs /\ nmut' = nmut + 1 /\ act' = [op |-> "mutate", a |-> Ev.a, h |-> Ev.h, d |-> "?"]
TMutPop ==
  /\ Ev.op = "mutpop" /\ T.cfg.exact
  /\ Check("returns without raising", Ev.exc = "")
  /\ \A a \in 1..TNA : MutOK(a, Ev.hs[a])
  /\ val' = [a \in 1..TNA |-> [h \in 1..TH |-> After(a, h)]]
  /\ UNCHANGED lrs /\ nmut' = nmut + 1 /\ act' = [op |-> "mutpop"]
\* a learn step (or any other operation) in between must not move any hyperparameter
TNoop ==
  /\ Ev.op = "noop" /\ T.cfg.exact
  /\ Check("returns without raising", Ev.exc = "")
  /\ Check("learning does not change hyperparameters", \A b \in 1..TNA, g \in 1..TH : After(b, g) = val[b][g])
  /\ UNCHANGED <<val, lrs>> /\ nmut' = nmut + 1 /\ act' = [op |-> "noop"]
TCopy ==
  /\ Ev.op = "copy" /\ T.cfg.exact
  /\ Check("returns without raising", Ev.exc = "")
  /\ Check("the copy starts from its parent's values, nobody else moves",
           \A b \in 1..TNA, g \in 1..TH : After(b, g) = (IF b = Ev.c THEN val[Ev.a][g] ELSE val[b][g]))
  /\ val' = [a \in 1..TNA |-> [h \in 1..TH |-> After(a, h)]]
  /\ UNCHANGED lrs /\ nmut' = nmut + 1 /\ act' = [op |-> "copy", a |-> Ev.a, c |-> Ev.c]
\* the driver assigns a hyperparameter (not a learning rate) of one agent: the next mutation starts from it
TSet ==
  /\ Ev.op = "set" /\ T.cfg.exact
  /\ Check("returns without raising", Ev.exc = "")
  /\ Check("an assignment changes the assigned hyperparameter of that agent only",
           \A b \in 1..TNA, g \in 1..TH : After(b, g) = (IF b = Ev.a /\ g = Ev.h THEN R(Ev.x) ELSE val[b][g]))
  /\ val' = [a \in 1..TNA |-> [h \in 1..TH |-> After(a, h)]]
  /\ UNCHANGED lrs /\ nmut' = nmut + 1 /\ act' = [op |-> "set", a |-> Ev.a, h |-> Ev.h]
\* inexact mode: facts measured by the harness
TFacts ==
  /\ ~T.cfg.exact
  /\ Check("returns without raising", Ev.exc = "")
  /\ Check("no other agent's values move", Ev.others_unchanged)
  /\ Check("exactly one hyperparameter of the agent changes", Ev.one_changed)
  /\ Check("new value = own current value x shrink or grow factor, clipped and cast (1e-9)", Ev.own_base)
  /\ Check("new value inside the configured range", Ev.in_range)
  /\ Check("integer hyperparameters stay integers", Ev.is_int)
  /\ Check("a mutated learning rate is the lr of every optimizer group that uses it", Ev.lr_effective)
  /\ UNCHANGED <<val, lrs>> /\ nmut' = nmut + 1 /\ act' = [op |-> "facts"]

TAccept == /\ l = Len(T.ev) + 1 /\ PrintT(<<"ACCEPT", tid>>) /\ l' = l + 1 /\ UNCHANGED <<vars, tid>>
TNext == \/ (l <= Len(T.ev) /\ (TMutate \/ TMutPop \/ TNoop \/ TCopy \/ TSet \/ TFacts) /\ l' = l + 1 /\ UNCHANGED tid)
         \/ TAccept
TSpec == TInit /\ [][TNext]_tvars
================================================================================
