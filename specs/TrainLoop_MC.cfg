SPECIFICATION Spec
CONSTANTS
  Params <- MCParams2
  Ds = {4, 8}
  Scores = {0, 1}
  MaxGen = 3
INVARIANT StepsAreEnvSteps
INVARIANT OneFitnessPerGeneration
INVARIANT PopShape
INVARIANT EliteCarried
INVARIANT Inherited
PROPERTY NoGenerationOnceMet
PROPERTY ReturnOnlyWhenMet
CHECK_DEADLOCK FALSE
