SPECIFICATION Spec
CONSTANTS
  Cases <- MCCases
  MACases <- MCMACases
  Variant = "ok"
INVARIANT LeadingBatch
INVARIANT OneHotDef
INVARIANT MultiOneHotDef
INVARIANT ScaleDef
INVARIANT BatchConsistency
INVARIANT MemberWise
INVARIANT VectDef
INVARIANT HomoRowMap
INVARIANT RoundTrip
INVARIANT CriticMap
INVARIANT Total
CHECK_DEADLOCK FALSE
