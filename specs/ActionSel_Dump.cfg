SPECIFICATION Spec
CONSTANTS
  Calls <- MCCalls
  SC = 8
INVARIANT DumpInit
CONSTRAINT Bound
VIEW core
CHECK_DEADLOCK FALSE
