INIT MCInit
NEXT Next
CONSTANTS
  Full = TRUE
  SC = 8
INVARIANT DumpInit
CONSTRAINT Bound
VIEW core
CHECK_DEADLOCK FALSE
