------------------------------- MODULE Rows_Trace -------------------------------
(* Trace validation of the minibatches the real PPO / IPPO learn() trains on (guarded hook            *)
(* "ppo.minibatch" / "ippo.minibatch") against the flattened rollout it exported just before          *)
(* ("ppo.rows" / "ippo.rows").  Rows are tuples of value ids (equal id <=> bit-equal tensor row).     *)
EXTENDS Rows, Json, IOUtils, TLCExt
CONSTANT Diag
Traces == JsonDeserialize(IOEnv.TRACE_FILE)
VARIABLES tid, l
tvars == <<vars, tid, l>>
T  == Traces[tid]
Ev == T.ev[l]
Check(name, c) == IF c THEN TRUE ELSE (Diag /\ PrintT(<<"FAILCLAUSE", tid, l, name>>) /\ FALSE)
TInit == tid \in 1..Len(Traces) /\ l = 1 /\ flat = <<>> /\ used = {} /\ act = "init"
R(x) == <<x[1], x[2], x[3], x[4], x[5], x[6]>>
TFlat == /\ Ev.op = "flat"
         /\ Check("learn() returns without raising", Ev.exc = "")
         /\ flat' = [i \in 1..Len(Ev.rows) |-> R(Ev.rows[i])] /\ used' = {} /\ act' = "flat"
TMb ==
  /\ Ev.op = "mb"
  /\ LET rows == [i \in 1..Len(Ev.rows) |-> R(Ev.rows[i])]
         pos  == {Ev.idxs[i] + 1 : i \in 1..Len(Ev.idxs)} IN
     /\ Check("one minibatch row per drawn index", Len(Ev.rows) = Len(Ev.idxs))
     /\ Check("indices are positions of the flattened rollout not yet used in this epoch", pos \subseteq (1..Len(flat)) \ used)
     /\ Check("every minibatch row is the flattened row of its index: observation, action, old log-prob, advantage, return and old value of one sample stay together",
              \A i \in 1..Len(Ev.idxs) : rows[i] = flat[Ev.idxs[i] + 1])
     /\ Minibatch(pos)
TAccept == /\ l = Len(T.ev) + 1 /\ PrintT(<<"ACCEPT", tid>>) /\ l' = l + 1 /\ UNCHANGED <<vars, tid>>
TNext == \/ (l <= Len(T.ev) /\ (TFlat \/ TMb) /\ l' = l + 1 /\ UNCHANGED tid)
         \/ TAccept
TSpec == TInit /\ [][TNext]_tvars
================================================================================
