SPECIFICATION Spec
CONSTANTS
  Params <- MCParams3
  Ds = {4}
  Scores = {0, 1}
  MaxGen = 2
INVARIANT StepsAreEnvSteps
INVARIANT OneFitnessPerGeneration
INVARIANT PopShape
INVARIANT EliteCarried
INVARIANT Inherited
PROPERTY NoGenerationOnceMet
PROPERTY ReturnOnlyWhenMet
CHECK_DEADLOCK FALSE
