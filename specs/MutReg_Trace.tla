---------------------------- MODULE MutReg_Trace ----------------------------
(* X02: operations observed on REAL EvolvableModule trees, judged by TLC against MutReg.           *)
(*                                                                                               *)
(* A trace is the history of one real module tree (vfw/drive/mutreg.py): the construct event and  *)
(* then one event per operation.  T.cfg carries the class catalogue of the tree (cat), the         *)
(* substring oracle (sub), the family ("custom": the driver's own tiny classes, whose bodies log   *)
(* what they really applied -> truth = TRUE; "real": AgileRL networks).  Every event carries       *)
(*   op, t, p ...   the operation and its arguments (tree, path of the module it is called on)     *)
(*   exc, exct      text / class name of the exception it raised ("" if none)                      *)
(*   post           the projection of BOTH trees after the operation, per node:                    *)
(*                    cls, rawL/rawN (private lists), L/N (public registry), last,                 *)
(*                    res: for every registered name where getattr leads (status cur / old =       *)
(*                    a module that used to sit at that path / detached / unresolvable, path of    *)
(*                    the owner, routed = goes through this node's MutationContext, decorator kind)*)
(*                    dup, union, lastfn, wrapped_off, regerr (registry could not be read)         *)
(*   rc, lost, hk   recreate_network calls during the operation per node, on objects no longer in  *)
(*                  any tree, mutation-hook calls per node                                          *)
(*   bodies         (custom) the method bodies that really applied something, in order             *)
(*   changed        (calldis) nodes whose architecture fingerprint changed                         *)
(* The state of the specification is re-synchronised with the observation after every event        *)
(* (trees' = the observed trees), so every operation is judged on its own, starting from the       *)
(* state the real objects were really in; a failing clause never hides later events.               *)
(* Every clause is evaluated (Check always yields TRUE and prints FAILCLAUSE for a false clause).  *)
EXTENDS MutReg, Json, IOUtils, TLCExt

CONSTANT Diag
NoCat  == <<>>
NoSet  == {}
Traces == JsonDeserialize(IOEnv.TRACE_FILE)

VARIABLES tid, l, prev
tvars == <<vars, tid, l, prev>>

T  == Traces[tid]
Ev == T.ev[l]
ToSet(s) == {s[i] : i \in DOMAIN s}

Check(name, c) == IF c THEN TRUE ELSE PrintT(<<"FAILCLAUSE", tid, l, name>>)
All(S) == \A x \in S : x       \* S is a set enumeration of Check(..) values: all of them are evaluated

(* ----- observations ----- *)
NoObs == <<[live |-> FALSE, nodes |-> <<>>], [live |-> FALSE, nodes |-> <<>>]>>
Paths(o)      == {n.p : n \in ToSet(o.nodes)}
NodeRec(o, p) == CHOOSE n \in ToSet(o.nodes) : n.p = p
NodeOf(n)     == [cls |-> n.cls, raw |-> [L |-> ToSet(n.rawL), N |-> ToSet(n.rawN)], last |-> n.last]
TreeOf(o)     == IF ~o.live THEN <<>> ELSE [p \in Paths(o) |-> NodeOf(NodeRec(o, p))]
Pub(o, p, k)  == ToSet(NodeRec(o, p)[k])
ClassNames    == {c.name : c \in Rng(cat)}
KnownShape(o) == \A n \in ToSet(o.nodes) : n.cls \in ClassNames /\ (n.p = <<>> \/ Front(n.p) \in Paths(o))
Readable(o)   == \A n \in ToSet(o.nodes) : n.regerr = ""

MatchShape(Tx, o) == IF ~Live(Tx) THEN ~o.live
                     ELSE o.live /\ DOMAIN Tx = Paths(o) /\ \A q \in DOMAIN Tx : Tx[q].cls = NodeRec(o, q).cls
MatchReg(Tx, o)   == \A q \in DOMAIN Tx : \A k \in Kinds : Reg(Tx, q, k) = Pub(o, q, k)
MatchLast(Tx, o)  == \A q \in DOMAIN Tx : Tx[q].last = NodeRec(o, q).last

ObsRc == {<<e[1], e[2]>> : e \in ToSet(Ev.rc)}
ObsHk == {<<e[1], e[2]>> : e \in ToSet(Ev.hk)}
RcOnce == \A e \in ToSet(Ev.rc) : e[3] = 1

(* ----- clauses on the projection itself, for every live tree after every operation ----- *)
(* an entry of res: [n, reg, st, o, routed, kind] *)
EntryBad(q, e) ==
  IF e.st = "old" THEN "stale"
  ELSE IF e.st # "cur" THEN "lost"
  ELSE IF e.o # q \o Front(e.n) THEN "elsewhere"
  ELSE IF ~e.routed THEN "unrouted"
  ELSE IF e.kind # e.reg THEN "kind"
  ELSE "ok"
WasBad(tt, q, e, b) ==
  /\ prev[tt].live /\ q \in Paths(prev[tt])
  /\ \E f \in ToSet(NodeRec(prev[tt], q).res) : f.n = e.n /\ EntryBad(q, f) = b
NewBad(tt, b) ==
  UNION {{<<n.p, e.n>> : e \in {e \in ToSet(n.res) : EntryBad(n.p, e) = b /\ ~WasBad(tt, n.p, e, b)}} : n \in ToSet(Ev.post[tt].nodes)}
FlagWorse(tt, n, f) ==       \* boolean flag f of node n is bad now and was not bad before
  ~n[f] /\ ~(prev[tt].live /\ n.p \in Paths(prev[tt]) /\ ~NodeRec(prev[tt], n.p)[f])

Common(tt) ==
  LET o == Ev.post[tt] IN
  IF ~o.live THEN TRUE
  ELSE All({
    Check("the class of every module of the tree is in the catalogue", KnownShape(o)),
    Check("the registry of every module can be read (layer_mutation_methods / node_mutation_methods / mutation_methods return)",
          \A n \in ToSet(o.nodes) : n.regerr = "" \/ (prev[tt].live /\ n.p \in Paths(prev[tt]) /\ NodeRec(prev[tt], n.p).regerr # "")),
    Check("the public registry is the module's own list with forwarded names kept only while the child still offers them",
          (KnownShape(o) /\ Readable(o)) => MatchReg(TreeOf(o), o)),
    Check("no name is registered twice", \A n \in ToSet(o.nodes) : n.dup => (prev[tt].live /\ n.p \in Paths(prev[tt]) /\ NodeRec(prev[tt], n.p).dup)),
    Check("mutation_methods = layer_mutation_methods + node_mutation_methods", \A n \in ToSet(o.nodes) : n.union),
    Check("no name is offered both as layer and as node mutation", \A n \in ToSet(o.nodes) : ToSet(n.L) \cap ToSet(n.N) = {}),
    Check("a wrapped module offers nothing itself (its methods are handled by the wrapper)", \A n \in ToSet(o.nodes) : ~FlagWorse(tt, n, "wrapped_off")),
    Check("every registered name resolves to the module CURRENTLY at that path (not to one that was replaced)", NewBad(tt, "stale") = {}),
    Check("every registered name resolves (getattr) to a mutation method of a module of this tree", NewBad(tt, "lost") = {}),
    Check("every registered name resolves to the module its path names", NewBad(tt, "elsewhere") = {}),
    Check("every registered name is called through the module's own MutationContext (so that last_mutation_attr is tracked)", NewBad(tt, "unrouted") = {}),
    Check("every name is registered under the kind its @mutation decorator declares", NewBad(tt, "kind") = {}) })

(* ----- judging one operation against the candidates the specification allows ----- *)
Cand(tree, recr, hooks, ret) == [tree |-> tree, recr |-> recr, hooks |-> hooks, ret |-> ret]
Plain(tree) == Cand(tree, {}, {}, None)

Judge(tt, CS, cmpLast) ==
  LET o  == Ev.post[tt]
      C1 == {x \in CS : MatchShape(x.tree, o)}
      C2 == {x \in C1 : MatchReg(x.tree, o)}
      C3 == {x \in C2 : ~cmpLast \/ MatchLast(x.tree, o)}
      C4 == {x \in C3 : ObsRc = {<<tt, q>> : q \in x.recr} /\ RcOnce /\ Ev.lost = 0}
      C5 == {x \in C4 : IF x.ret # None THEN ObsHk = {<<tt, q>> : q \in x.hooks}
                                         ELSE ObsHk \subseteq {<<tt, q>> : q \in x.hooks}}
  IN All({
    Check("the tree has the modules (paths, classes) the operation leaves", C1 # {}),
    Check("the registry of every module after the operation is the one the operation promises", C1 = {} \/ ~Readable(o) \/ C2 # {}),
    Check("last_mutation_attr of every module the call went through names the method really applied (None: nothing applied); others keep theirs",
          C2 = {} \/ C3 # {}),
    Check("exactly the module owning the applied method is recreated, exactly once; nothing is recreated otherwise", C3 = {} \/ C4 # {}),
    Check("the mutation hook of every module the call went through runs after an applied mutation, and of no other module", C4 = {} \/ C5 # {}) })

Frame(tt) == Check("the other tree (clone / original) is not affected", Ev.post[tt] = prev[tt])
NoRaise   == Check("the operation returns without raising", Ev.exc = "")

PreT == trees[Ev.t]
Applicable == /\ Ev.t \in 1..2 /\ Live(trees[Ev.t]) /\ Ev.p \in DOMAIN trees[Ev.t] /\ KnownShape(prev[Ev.t])
NotApplicable == Check("the recorded operation is applicable in the observed state (harness)", FALSE)

JConstruct ==
  All({ NoRaise,
        Check("a new module starts without a clone", ~Ev.post[2].live),
        Check("last_mutation is the method last_mutation_attr names", \A n \in ToSet(Ev.post[1].nodes) : n.lastfn),
        IF Ev.exc # "" \/ Ev.c \notin ClassNames THEN TRUE ELSE Judge(1, {Plain(Build(Ev.c))}, TRUE) })

PreEntryOK ==
  \E e \in ToSet(NodeRec(prev[Ev.t], Ev.p).res) : e.n = Ev.m /\ EntryBad(Ev.p, e) = "ok"

JCall ==
  IF ~(Applicable /\ ~Container(PreT, Ev.p) /\ Ev.m \in RegAll(PreT, Ev.p)) THEN NotApplicable
  ELSE IF ~PreEntryOK THEN TRUE     \* the name was already bound to a replaced module / not routed: reported when that happened
  ELSE LET mh == MaxHopsOf(PreT, Ev.p, Ev.m)
           H  == IF T.cfg.truth THEN {IF Ev.h <= mh THEN Ev.h ELSE mh} ELSE 0..mh
           CS == {LET r == CallResult(PreT, Ev.p, Ev.m, hl[1], hl[2]) IN Cand(r.tree, r.recr, r.hooks, r.ret) :
                    hl \in {x \in H \X BOOLEAN : x[2] => Ambiguous(PreT, Ev.p, Ev.m, x[1])}}
           lastp == NodeRec(Ev.post[Ev.t], Ev.p).last
       IN All({ NoRaise,
                IF Ev.exc # "" THEN TRUE ELSE Judge(Ev.t, CS, TRUE),
                Frame(3 - Ev.t),
                Check("last_mutation is the method last_mutation_attr names", \A n \in ToSet(Ev.post[Ev.t].nodes) : ~FlagWorse(Ev.t, n, "lastfn")),
                Check("(ground truth) at most one method body applies something per outermost call", T.cfg.truth => Len(Ev.bodies) <= 1),
                Check("(ground truth) last_mutation_attr names the body that really ran, None if none ran",
                      (T.cfg.truth /\ Ev.exc = "" /\ Ev.p \in Paths(Ev.post[Ev.t]) /\ Len(Ev.bodies) <= 1) =>
                         IF Ev.bodies = <<>> THEN lastp = None
                         ELSE Ev.bodies[1][1] = Ev.t /\ lastp = Drop(Ev.bodies[1][2], Len(Ev.p)) \o <<Ev.bodies[1][3]>>),
                Check("(ground truth) the module whose body ran is the one that is recreated",
                      (T.cfg.truth /\ Ev.exc = "" /\ Len(Ev.bodies) = 1) => ObsRc = {<<Ev.bodies[1][1], Ev.bodies[1][2]>>}) })

JCallDis ==
  IF ~(Applicable /\ ~Container(PreT, Ev.p) /\ Ev.m \in Known(PreT, Ev.p)) THEN NotApplicable
  ELSE All({
    Check("calling a method the module does not offer either fails with AttributeError or returns", Ev.exct \in {"", "AttributeError"}),
    Check("a method that is not offered applies nothing (no body runs, no architecture changes, nothing is recreated)",
          Ev.bodies = <<>> /\ Ev.changed = <<>> /\ Ev.rc = <<>> /\ Ev.lost = 0),
    Judge(Ev.t, IF Ev.exct # "" THEN {Plain(PreT)}
                ELSE {Cand(PreT, {}, {Ev.p}, None), Cand([PreT EXCEPT ![Ev.p].last = None], {}, {Ev.p}, None)}, TRUE),
    Frame(3 - Ev.t) })

JSample ==
  IF ~(Applicable /\ ~Container(PreT, Ev.p)) THEN NotApplicable
  ELSE LET R  == RegAll(PreT, Ev.p)
           RL == Reg(PreT, Ev.p, "L")
           RN == Reg(PreT, Ev.p, "N")
           W  == Weights(PreT, Ev.p, Ev.pl)
           rets == {Ev.ret} \cup ToSet(Ev.draws)
       IN All({
         Check("sampling changes nothing", Ev.post = prev),
         IF R = {} THEN Check("sample_mutation_method raises ValueError when no mutation method is registered", Ev.exct = "ValueError")
         ELSE All({
           NoRaise,
           Check("the names sampled from are exactly the registered names, each once",
                 Ev.exc # "" \/ (ToSet(Ev.names) = R /\ Len(Ev.names) = Cardinality(R))),
           Check("layer methods share new_layer_prob, node methods the rest, uniformly inside a kind (uniform over all when one kind is empty)",
                 Ev.exc # "" \/ \A i \in DOMAIN Ev.names :
                     Ev.names[i] \in R => /\ Ev.probs[i][2] > 0
                                          /\ Ev.probs[i][1] * W[Ev.names[i]][2] = W[Ev.names[i]][1] * Ev.probs[i][2]),
           Check("the sampled name is registered", Ev.exc # "" \/ rets \subseteq R),
           Check("new_layer_prob = 1 yields a layer method and new_layer_prob = 0 a node method whenever that kind is on offer",
                 Ev.exc # "" \/ ~(rets \subseteq R) \/
                   /\ (Ev.pl = 2 /\ RL # {}) => rets \subseteq RL
                   /\ (Ev.pl = 0 /\ RN # {}) => rets \subseteq RN) }) })

JDisable ==
  IF ~Applicable THEN NotApplicable
  ELSE All({ NoRaise, IF Ev.exc # "" THEN TRUE ELSE Judge(Ev.t, {Plain(DisableTree(PreT, Ev.p, ToSet(Ev.ks)))}, TRUE), Frame(3 - Ev.t) })

JFilter ==
  IF ~(Applicable /\ ~Container(PreT, Ev.p)) THEN NotApplicable
  ELSE All({ NoRaise, IF Ev.exc # "" THEN TRUE ELSE Judge(Ev.t, {Plain(FilterNode(PreT, Ev.p, Ev.s))}, TRUE), Frame(3 - Ev.t) })

JAssign ==
  IF ~(Applicable /\ ~Container(PreT, Ev.p) /\ Ev.c \in ClassNames) THEN NotApplicable
  ELSE All({ NoRaise, IF Ev.exc # "" THEN TRUE ELSE Judge(Ev.t, {Plain(AssignTree(PreT, Ev.p, Ev.a, Build(Ev.c)))}, TRUE), Frame(3 - Ev.t) })

JClone ==
  IF ~(Live(trees[1]) /\ ~Live(trees[2]) /\ KnownShape(prev[1])) THEN NotApplicable
  ELSE All({ NoRaise,
             Check("the original is not affected by clone()", Ev.post[1] = prev[1]),
             IF Ev.exc # "" THEN TRUE ELSE Judge(2, {Plain(CloneTree(trees[1]))}, FALSE) })

Judgement ==
  CASE Ev.op = "construct" -> JConstruct
    [] Ev.op = "call"      -> JCall
    [] Ev.op = "calldis"   -> JCallDis
    [] Ev.op = "sample"    -> JSample
    [] Ev.op = "disable"   -> JDisable
    [] Ev.op = "filter"    -> JFilter
    [] Ev.op = "assign"    -> JAssign
    [] Ev.op = "clone"     -> JClone
    [] OTHER               -> NotApplicable

SafeTree(o) == IF o.live /\ KnownShape(o) THEN TreeOf(o) ELSE <<>>

TInit ==
  /\ tid \in 1..Len(Traces) /\ l = 1
  /\ cat = Traces[tid].cfg.cat
  /\ sub = {<<e[1], e[2]>> : e \in ToSet(Traces[tid].cfg.sub)}
  /\ trees = <<<<>>, <<>>>>
  /\ prev = NoObs
  /\ out = NoOut /\ act = [op |-> "none"] /\ steps = 0

TStep ==
  /\ l <= Len(T.ev)
  /\ Judgement
  /\ Common(1) /\ Common(2)
  /\ PrintT(<<"JUDGED", tid, l>>)
  /\ trees' = <<SafeTree(Ev.post[1]), SafeTree(Ev.post[2])>>
  /\ prev' = Ev.post
  /\ l' = l + 1
  /\ UNCHANGED <<cat, sub, out, act, steps, tid>>

TAccept ==
  /\ l = Len(T.ev) + 1
  /\ PrintT(<<"ACCEPT", tid>>)
  /\ l' = l + 1
  /\ UNCHANGED <<vars, tid, prev>>

TNext == TStep \/ TAccept
TSpec == TInit /\ [][TNext]_tvars
================================================================================
