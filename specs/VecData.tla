-------------------------------- MODULE VecData --------------------------------
(***************************************************************************)
(* C12, data part: N independent scripted multi-agent environments, each   *)
(* auto-reset on its own when all of its (remaining) agents have finished. *)
(* This is the reference the vectorised environment (and, with N = 1, the  *)
(* single-environment auto-reset wrapper) must reproduce position by       *)
(* position.  Environment script (vfw/drive/vecenv.py, ScriptedEnv):       *)
(*   episode length L[i]; agent a leaves after step leave[i][a] (0 = stays)*)
(*   last step: "term" all terminate, "trunc" all truncate, "mixed" agent 1*)
(*   terminates and the others truncate                                    *)
(*   obs id = ((i-1)*8 + ep)*8 + t)*4 + (a-1);  reward = 10*action + t     *)
(***************************************************************************)
EXTENDS Integers, Sequences, FiniteSets, TLC

CONSTANTS Params, MaxSteps, Acts

VARIABLES par,     \* [NW, A, L, leave, endk]
          es,      \* [1..NW -> [ep, t, tick, live]]
          out,     \* [1..NW -> [1..A -> [present, obs, rew, term, trunc, tick]]] results of the last call
          nsteps, act
vars == <<par, es, out, nsteps, act>>
core == <<par, es, nsteps>>

NW == par.NW
AG == 1..par.A
ObsId(i, ep, t, a) == (((i - 1) * 8 + ep) * 8 + t) * 4 + (a - 1)
Absent == [present |-> FALSE, obs |-> 0, rew |-> 0, term |-> TRUE, trunc |-> FALSE, tick |-> 0, aux |-> 0 - 1, aux2 |-> 0 - 1]

InitWith(p) ==
  /\ par = p
  /\ es = [i \in 1..p.NW |-> [ep |-> 0, t |-> 0, tick |-> 0, live |-> 1..p.A]]
  /\ out = [i \in 1..p.NW |-> [a \in 1..p.A |-> Absent]]
  /\ nsteps = 0 /\ act = [op |-> "init"]
Init == \E p \in Params : InitWith(p)

ResetOne(i, s) == [ep |-> s.ep + 1, t |-> 0, tick |-> s.tick, live |-> AG]

Reset ==
  /\ es' = [i \in 1..NW |-> ResetOne(i, es[i])]
  /\ out' = [i \in 1..NW |-> [a \in AG |->
               [present |-> TRUE, obs |-> ObsId(i, es[i].ep + 1, 0, a), rew |-> 0, term |-> FALSE, trunc |-> FALSE,
                tick |-> es[i].tick, aux |-> 0 - 1, aux2 |-> 0 - 1]]]
  /\ UNCHANGED <<par, nsteps>> /\ act' = [op |-> "reset"]

\* one step of environment i on its own
Last(i, s)        == s.t + 1 >= par.L[i]
Leaves(i, s, a)   == ~Last(i, s) /\ par.leave[i][a] # 0 /\ par.leave[i][a] <= s.t + 1
TermOf(i, s, a)   == IF Last(i, s) THEN (par.endk[i] = "term" \/ (par.endk[i] = "mixed" /\ a = 1)) ELSE Leaves(i, s, a)
TruncOf(i, s, a)  == Last(i, s) /\ ~TermOf(i, s, a)
Finished(i, s)    == \A a \in s.live : TermOf(i, s, a) \/ TruncOf(i, s, a)
StepOne(i, s) ==
  IF Finished(i, s)
    THEN [ep |-> s.ep + 1, t |-> 0, tick |-> s.tick + 1, live |-> AG]                \* this environment alone restarts
    ELSE [ep |-> s.ep, t |-> s.t + 1, tick |-> s.tick + 1, live |-> {a \in s.live : ~TermOf(i, s, a)}]
OutOne(i, s, acts) == [a \in AG |->
  IF a \in s.live
    THEN [present |-> TRUE,
          obs   |-> IF Finished(i, s) THEN ObsId(i, s.ep + 1, 0, a) ELSE ObsId(i, s.ep, s.t + 1, a),
          rew   |-> 20 * acts[a] + 2 * (s.t + 1) + 1,        \* in half units: the environments' rewards are 10 a + t + 1/2
          term  |-> TermOf(i, s, a), trunc |-> TruncOf(i, s, a), tick |-> s.tick + 1,
          \* info keys that only some sub-environments report at some steps (-1 = not reported)
          aux   |-> IF ((i - 1) + s.tick + 1) % 2 = 0 THEN s.tick + 1 ELSE 0 - 1,
          aux2  |-> IF i = 1 /\ (s.tick + 1) % 2 = 0 THEN s.tick + 1 ELSE 0 - 1]
    ELSE [Absent EXCEPT !.obs = IF Finished(i, s) THEN ObsId(i, s.ep + 1, 0, a) ELSE 0,
                        !.present = FALSE]]

Step(actions) ==          \* actions \in [1..NW -> [AG -> Acts]]
  /\ es' = [i \in 1..NW |-> StepOne(i, es[i])]
  /\ out' = [i \in 1..NW |-> OutOne(i, es[i], actions[i])]
  /\ nsteps' = nsteps + 1
  /\ UNCHANGED par /\ act' = [op |-> "step"]

StepAny == \E actions \in [1..NW -> [AG -> Acts]] : Step(actions)
Next == Reset \/ StepAny
Spec == Init /\ [][Next]_vars

(* Properties *)
\* only an environment all of whose agents finished starts a new episode, and it does so alone
OnlyDoneEnvResets ==
  [][ act'.op = "step" => \A i \in 1..NW : (es'[i].ep # es[i].ep) <=> Finished(i, es[i]) ]_vars
\* what is returned for a present agent is the observation of the environment's current state
ObsIsCurrent == act.op \in {"step", "reset"} =>
  \A i \in 1..NW, a \in AG : out[i][a].present => out[i][a].obs = ObsId(i, es[i].ep, es[i].t, a)
\* after an auto-reset every agent is back
ResetRestoresAgents == \A i \in 1..NW : es[i].t = 0 => es[i].live = AG
Bound == nsteps <= MaxSteps /\ \A i \in 1..NW : es[i].ep <= MaxSteps + 1
================================================================================
