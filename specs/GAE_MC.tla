-------------------------------- MODULE GAE_MC --------------------------------
EXTENDS GAE
P(t, e, g, a, b) == [T |-> t, E |-> e, G |-> g, gn |-> a, ln |-> b]
GL == {0, 1, 2}                                   \* gamma, lambda in {0, 1/2, 1}
\* one column, every reward / value / done placement (Next)
MCParamsCol  == { P(t, 1, 1, a, b) : t \in 1..3, a \in GL, b \in GL }
MCParamsCol12 == { P(t, 1, 1, a, b) : t \in 1..2, a \in GL, b \in GL }
MCParamsCol3  == { P(3, 1, 1, a, b) : a \in GL, b \in GL }
MCParamsCol3t == { P(3, 1, 1, a, b) : a \in {1, 2}, b \in {1, 2} }
\* several columns, id-coded values, every done placement (NextId)
MCParamsId   == { P(t, e, g, a, b) : t \in 1..3, e \in 1..2, g \in 1..2, a \in {1, 2}, b \in {1, 2} }
MCParamsIdQ  == ({ P(t, e, g, 1, 1) : t \in 1..3, e \in 1..2, g \in 1..2 } \ { P(3, 2, 2, 1, 1) })
                  \cup { P(2, 2, 2, 2, 1), P(3, 2, 1, 1, 2), P(3, 1, 2, 2, 2) }
UniformLayouts == { Uniform(o) : o \in Orders }
NegLayouts     == { IppoLayout }
NegParams      == { P(2, 1, 2, 1, 1) }
================================================================================
