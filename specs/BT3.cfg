SPECIFICATION SpecA
CONSTANTS
  NSlots = 1
  NFiles = 0
  MaxDim = 3
  Lams <- MCLams
  ValsLo <- MCLo
  ValsHi <- MCHi
  MaxDec = 3
  MaxOps = 5
CONSTRAINT Bound
VIEW core
CHECK_DEADLOCK FALSE
INVARIANT GramDef
