SPECIFICATION Spec
CONSTANTS
  EnvSet <- MAEnvs
  AgentSet <- MAAgents
  Kinds <- AllKinds
  MaxT = 3
  MaxRolls = 2
  MaxEp = 8
  Mode = "auto"
  ResetClears = FALSE
  FlagRule = "either"
INVARIANT TypeOK
INVARIANT FlagsMarkEpisodeStarts
INVARIANT NoLeak
INVARIANT ObsChain
INVARIANT BootstrapObs
INVARIANT FirstFlagZero
CONSTRAINT Bound
CHECK_DEADLOCK FALSE
