SPECIFICATION Spec
CONSTANTS
  NSlots = 3
  NFiles = 2
  PF = 3
  MaxLearn = 5
INVARIANT TypeOK
INVARIANT TargetTracks
INVARIANT BoundedLag
PROPERTY OnlyLearnDemands
PROPERTY Frame
CONSTRAINT Bound
VIEW core
CHECK_DEADLOCK FALSE
