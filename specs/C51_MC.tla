-------------------------------- MODULE C51_MC --------------------------------
(* Input grids for the exhaustive check of C51.tla (property C18).                     *)
(* fine  : one row, every reward k/Q from one unit below vmin to one unit above vmax,  *)
(*         every weight vector over pvals with total in sums (also totals /= PDen)     *)
(* coarse: B >= 2 rows (batch offsets), rewards below / on / next to / above the ends, *)
(*         weights 0, 1/2, 1                                                           *)
EXTENDS C51, Json
S(n, v, b, pv, su, rg) == [N |-> n, vmin |-> v, B |-> b, pvals |-> pv, sums |-> su, rgrid |-> rg]
FineQ(v) == { S(2, v, 1, 0..4, 1..8, "fine"), S(3, v, 1, 0..4, {3, 4, 5}, "fine"), S(4, v, 1, 0..4, {4}, "fine") }
CoarseQ  == { S(2, 0, 2, {0, 2, 4}, {4}, "coarse"), S(3, -1, 2, {0, 2, 4}, {4}, "coarse") }
MCShapesQ == FineQ(-2) \cup FineQ(1) \cup { S(5, -2, 1, 0..4, {4}, "fine") } \cup CoarseQ

FineT(v) == { S(2, v, 1, 0..8, 1..16, "fine"), S(3, v, 1, 0..8, 6..10, "fine"), S(4, v, 1, 0..8, {7, 8, 9}, "fine"),
              S(5, v, 1, 0..8, {8}, "fine") }
CoarseT  == { S(2, 0, 2, {0, 4, 8}, {8}, "coarse"), S(3, -1, 2, {0, 4, 8}, {8}, "coarse"), S(4, 2, 2, {0, 4, 8}, {8}, "coarse"),
              S(2, -1, 3, {0, 4, 8}, {8}, "coarse") }
MCShapesT == FineT(-2) \cup FineT(0) \cup FineT(3) \cup CoarseT

\* translations of the support (numerators over Q, in units of delta_z): v_min = (vmin + sh/Q) delta_z.
\* ShiftCovariant is an invariant of the dump configurations (it does not depend on the weights p, and the dumped
\* cases are exactly the ones replayed on translated supports)
MCShifts  == {-3, -2, -1, 0, 1, 2, 3, 5}
MCShiftsQ == {-3, -1, 1, 2}                    \* the ones the quick tier replays on

\* quick-tier replay grid: the full reward x done x discount grid of MCShapesQ, fewer weight vectors
DumpQ(v) == { S(2, v, 1, 0..4, {3, 4, 5}, "fine"), S(3, v, 1, 0..4, {4}, "fine"), S(4, v, 1, {0, 2, 4}, {4}, "fine") }
MCShapesD == DumpQ(-2) \cup DumpQ(1) \cup { S(5, -2, 1, {0, 2, 4}, {4}, "fine") } \cup CoarseQ
\* M2: one state per case, printed with the result the specification demands
NextAll == Indices \/ RunAll
DumpCase == phase = "done" =>
  PrintT(<<"CASE", ToJson([N |-> N, vmin |-> vmin, B |-> B, gq |-> gq, rows |-> inp,
                           m |-> [e \in 1..(B * N) |-> m[e - 1]]])>>)
================================================================================
