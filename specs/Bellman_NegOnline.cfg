INIT Init
NEXT NextOnline
CONSTANTS
  Shapes <- MCShapesQ
  Gs = {1}
INVARIANT Bootstraps
VIEW core
CHECK_DEADLOCK FALSE
