---------------------------------- MODULE Bellman ----------------------------------
(***************************************************************************)
(* The Bellman target of the value-based learners and the loss a learn     *)
(* step minimises -- property C08, first half.                             *)
(*                                                                         *)
(* Tabular value functions over states S = 1..NS and actions A = 1..NA:    *)
(*   tab.q1, tab.q2  online value tables   (second one: twin critic)       *)
(*   tab.t1, tab.t2  target value tables                                   *)
(*   tab.mu          target actor  S -> A  (actor-critic learners)         *)
(* A batch is a sequence of rows [s, a, r, s2, d].  The target is          *)
(*   Y(row) = r + gamma (1 - d) V(s2)                                      *)
(* with V chosen by the learner (mode):                                    *)
(*   "max"       max_a t1[s2][a]                      DQN, CQN             *)
(*   "double"    t1[s2][argmax_a q1[s2][a]]           DQN(double=True)     *)
(*   "actor"     t1[s2][mu[s2]]                       DDPG, MADDPG (joint) *)
(*   "actormin"  min(t1, t2)[s2][mu[s2]]              TD3,  MATD3 (joint)  *)
(* and the minimised quantity is  mean_i (q1[s_i][a_i] - Y_i)^2            *)
(* (+ the same term for q2 in mode "actormin").                            *)
(* For the multi-agent learners S and A are the joint state / joint action *)
(* (JIdx below), each learner has its own reward and done flag, and mu is  *)
(* the product of the agents' target actors (JointMu).                     *)
(*                                                                         *)
(* Units.  Table entries are integers in units of 1/2, rewards integers,   *)
(* gamma = g2/2; Y is kept in units of 1/4 (y), squared errors in units of *)
(* 1/16 (acc), so  loss = acc / (16 B).  With these inputs every float32   *)
(* operation of the real code is exact.                                    *)
(*                                                                         *)
(* Implementation shape: the code evaluates the target for the whole batch *)
(* (rewards + gamma * q_target * (1 - dones); action Target) and then the  *)
(* mean squared error (one action per row here, AccRow).  The property is  *)
(* stated on the result, independently of these steps: DoneMasks,          *)
(* TerminalIsReward, Bootstraps, LossDef, ZeroIffBellman.                  *)
(***************************************************************************)
EXTENDS Integers, Sequences, FiniteSets, TLC

CONSTANTS Shapes,   \* set of [mode, NS, NA, B, tab, rews]: the input grids explored by Init
          Gs        \* discounts explored, in units of 1/2

VARIABLES mode, NS, NA, B, g2, tab, batch,   \* the input
          y,                                 \* y[i]: target of row i, units 1/4
          acc,                               \* sum of squared errors so far, units 1/16
          k, phase,                          \* next row of the loss pass; "idle" | "target" | "loss" | "done"
          act
vars  == <<mode, NS, NA, B, g2, tab, batch, y, acc, k, phase, act>>
core  == <<mode, NS, NA, B, g2, tab, batch, y, acc, k, phase>>
Fixed == <<mode, NS, NA, B, g2, tab, batch>>

Modes == {"max", "double", "actor", "actormin"}

---------------------------------------------------------------------------
(* value of the next state under the target network(s)                     *)
MaxOf(f)      == CHOOSE m \in {f[a] : a \in DOMAIN f} : \A a \in DOMAIN f : f[a] <= m
\* torch.argmax returns the first maximal index (the grids avoid ties in q1 rows anyway: NoTies)
ArgMaxFirst(f) == CHOOSE a \in DOMAIN f : f[a] = MaxOf(f) /\ \A b \in DOMAIN f : f[b] = MaxOf(f) => a <= b
Min2(a, b)    == IF a <= b THEN a ELSE b

V2In(md, tb, s2) ==                                        \* units 1/2
  CASE md = "max"      -> MaxOf(tb.t1[s2])
    [] md = "double"   -> tb.t1[s2][ArgMaxFirst(tb.q1[s2])]
    [] md = "actor"    -> tb.t1[s2][tb.mu[s2]]
    [] md = "actormin" -> Min2(tb.t1[s2][tb.mu[s2]], tb.t2[s2][tb.mu[s2]])
V2(s2) == V2In(mode, tab, s2)

\* y_j = rewards + gamma * q_target * (1 - dones)        (units 1/4)
YRow(row)   == 4 * row.r + g2 * V2(row.s2) * (1 - row.d)
Critics     == IF mode = "actormin" THEN {1, 2} ELSE {1}
QTab(c)     == IF c = 1 THEN tab.q1 ELSE tab.q2
QEval(c, row) == 2 * QTab(c)[row.s][row.a]                  \* Q(s, a) of the stored state and action, units 1/4
Sq(x)       == x * x
\* squared error of one row against a target yy, summed over the critics of the learner (units 1/16)
RowErr(row, yy) == IF mode = "actormin" THEN Sq(QEval(1, row) - yy) + Sq(QEval(2, row) - yy)
                   ELSE Sq(QEval(1, row) - yy)

---------------------------------------------------------------------------
(* joint indexing for the multi-agent learners (row-major over the agents) *)
RECURSIVE JIdxTo(_, _, _)
JIdxTo(t, n, j) == IF j = 0 THEN 0 ELSE JIdxTo(t, n, j - 1) * n + (t[j] - 1)
JIdx(t, n)      == JIdxTo(t, n, Len(t)) + 1                 \* <<i_1..i_m>> over 1..n  ->  1..n^m
RECURSIVE Pow(_, _)
Pow(x, e)       == IF e = 0 THEN 1 ELSE x * Pow(x, e - 1)
\* component j (1-based) of joint index js over m agents with n local values each
Comp(js, n, m, j) == (((js - 1) \div Pow(n, m - j)) % n) + 1
\* product of the agents' target actors: joint state -> joint action
JointMu(mus, nsl, nal) ==
  LET m == Len(mus) IN
  [js \in 1..Pow(nsl, m) |-> JIdx([j \in 1..m |-> mus[j][Comp(js, nsl, m, j)]], nal)]

---------------------------------------------------------------------------
Rows(s) == [s : 1..s.NS, a : 1..s.NA, r : s.rews, s2 : 1..s.NS, d : {0, 1}]

InitWith(md, ns, na, b, g, tb, bt) ==
  /\ mode = md /\ NS = ns /\ NA = na /\ B = b /\ g2 = g /\ tab = tb /\ batch = bt
  /\ y = <<>> /\ acc = 0 /\ k = 1 /\ phase = "target"
  /\ act = [op |-> "init"]

Init == \E s \in Shapes, g \in Gs : \E bt \in [1..s.B -> Rows(s)] :
          InitWith(s.mode, s.NS, s.NA, s.B, g, s.tab, bt)

\* a further loss computation on the same learner (trace specification)
Idle ==
  /\ mode = "max" /\ NS = 0 /\ NA = 0 /\ B = 0 /\ g2 = 0 /\ tab = <<>> /\ batch = <<>>
  /\ y = <<>> /\ acc = 0 /\ k = 1 /\ phase = "idle" /\ act = [op |-> "idle"]
Call(md, ns, na, g, tb, bt) ==
  /\ phase \in {"idle", "done"}
  /\ mode' = md /\ NS' = ns /\ NA' = na /\ B' = Len(bt) /\ g2' = g /\ tab' = tb /\ batch' = bt
  /\ y' = <<>> /\ acc' = 0 /\ k' = 1 /\ phase' = "target"
  /\ act' = [op |-> "call"]

Target ==
  /\ phase = "target"
  /\ y' = [i \in 1..B |-> YRow(batch[i])]
  /\ phase' = "loss"
  /\ act' = [op |-> "target"]
  /\ UNCHANGED <<Fixed, acc, k>>

AccRow ==
  /\ phase = "loss" /\ k <= B
  /\ acc' = acc + RowErr(batch[k], y[k])
  /\ k' = k + 1
  /\ act' = [op |-> "row", i |-> k]
  /\ UNCHANGED <<Fixed, y, phase>>

Finish ==
  /\ phase = "loss" /\ k = B + 1
  /\ phase' = "done"
  /\ act' = [op |-> "finish"]
  /\ UNCHANGED <<Fixed, y, acc, k>>

Next == Target \/ AccRow \/ Finish
Spec == Init /\ [][Next]_vars

---------------------------------------------------------------------------
(* The property, stated on the result                                      *)
HasY == phase \in {"loss", "done"}
RECURSIVE ErrTo(_, _, _)
ErrTo(bt, yy, n) == IF n = 0 THEN 0 ELSE RowErr(bt[n], yy[n]) + ErrTo(bt, yy, n - 1)
YOf(bt)    == [i \in 1..Len(bt) |-> YRow(bt[i])]
LossOf(bt) == ErrTo(bt, YOf(bt), Len(bt))

TypeOK == /\ phase \in {"idle", "target", "loss", "done"} /\ mode \in Modes
          /\ k \in 1..(B + 1) /\ acc >= 0
          /\ HasY => DOMAIN y = 1..B
\* the grids never leave the argmax of the online table to tie-breaking
NoTies == (mode = "double" /\ phase # "idle") =>
            \A s \in 1..NS : \A a, b \in 1..NA : a # b => tab.q1[s][a] # tab.q1[s][b]

\* a batch that differs from the given one only in the next state of rows marked done
Alt(f) == [i \in 1..B |-> IF batch[i].d = 1 THEN [batch[i] EXCEPT !.s2 = f[i]] ELSE batch[i]]
\* DoneMasks: two batches equal up to s2 on done rows give the same targets and the same loss
DoneMasks == HasY => \A f \in [1..B -> 1..NS] :
               /\ YOf(Alt(f)) = y
               /\ phase = "done" => LossOf(Alt(f)) = acc
\* the same statement row by row (cheap form for large observed batches)
DoneMasksRow == HasY => \A i \in 1..B : batch[i].d = 1 =>
                  \A s \in 1..NS : YRow([batch[i] EXCEPT !.s2 = s]) = y[i]
\* a terminal transition is worth its reward, whatever the discount and the tables
TerminalIsReward == HasY => \A i \in 1..B : batch[i].d = 1 => y[i] = 4 * batch[i].r
\* a non-terminal transition bootstraps from the TARGET tables at the NEXT state with weight gamma
Bootstraps == HasY => \A i \in 1..B : batch[i].d = 0 => y[i] - 4 * batch[i].r = g2 * V2(batch[i].s2)
\* the loss is the sum over the rows (and critics) of the squared distance to the target
LossDef == phase = "done" => acc = ErrTo(batch, y, B)
PartialLoss == phase = "loss" => acc = ErrTo(batch, y, k - 1)
\* what is minimised vanishes exactly when the online table satisfies the Bellman equation on the batch
ZeroIffBellman == phase = "done" =>
  ((acc = 0) <=> \A i \in 1..B : \A c \in Critics : QEval(c, batch[i]) = y[i])
\* the target network decides the bootstrap value: with gamma > 0 and a non-terminal row, Y follows t1/t2, not q1/q2
Frozen == [][HasY => UNCHANGED <<Fixed, y>>]_vars

Bound == TRUE
================================================================================
