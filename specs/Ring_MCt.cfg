SPECIFICATION Spec
CONSTANTS
  Caps = {1,2,3,4,5,6}
  MaxAdded = 15
INVARIANT TypeOK
INVARIANT LenOK
INVARIANT ContentsOK
INVARIANT NoDup
PROPERTY SampleSound
CONSTRAINT Bound
VIEW core
CHECK_DEADLOCK FALSE
