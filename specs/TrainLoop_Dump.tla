----------------------------- MODULE TrainLoop_Dump -----------------------------
(* M4: the configurations (initial states of the fine model: loop shape x parameters) that the  *)
(* driver runs through the real train_* functions, printed as JSON.  No transition is explored. *)
EXTENDS TrainLoop_Fine, Json
CfgParams == {[k |-> k, rule |-> r, max |-> m, evo |-> e, elitism |-> el, mutate_elite |-> me, target |-> t] :
                k \in 1..3, r \in {"any", "sum"}, m \in {16, 24, 40}, e \in BOOLEAN, el \in BOOLEAN, me \in BOOLEAN, t \in BOOLEAN}
              \ {p \in [k : 1..3, rule : {"any", "sum"}, max : {16, 24, 40}, evo : {FALSE}, elitism : BOOLEAN, mutate_elite : BOOLEAN, target : BOOLEAN] :
                   p.elitism \/ p.mutate_elite}          \* without tournament / mutation the two flags are immaterial
CfgLoops == {[kind |-> kd, ne |-> ne, ls |-> ls, evo |-> ev, batch |-> b, cap |-> 64] :
               kd \in {"off", "on", "ma_off", "ma_on"}, ne \in {1, 2, 3, 4}, ls \in {1, 2, 3, 8}, ev \in {8, 10, 12}, b \in {4, 8}}
            \cup {[kind |-> kd, ne |-> 1, ls |-> ls, evo |-> ev, batch |-> b, cap |-> 64] :
               kd \in {"bandit", "offline"}, ls \in {1, 2}, ev \in {8, 12}, b \in {4, 8}}
DumpCase == PrintT(<<"CASE", ToJson([lp |-> lp, par |-> par])>>)
NoNext == FALSE /\ UNCHANGED fvars
================================================================================
