SPECIFICATION GSpec
CONSTANTS
  NW = 2
  EpLen <- MCEpLen
  MaxCalls = 6
  MaxFaults = 2
  FaultKinds = {"raise", "kill"}
  ExcTypes = {"ValueError", "KeyError"}
  Timeouts = {"none", "finite", "terminate"}
  ClientAssumptions = {"no_retry_when_wedged"}
  Depth = 40
  MinBeforeClose = 4
  MaxMisuse = 1
INVARIANT Emit
INVARIANT CloseNeverRaises
INVARIANT NoWorkerLeft
CHECK_DEADLOCK FALSE
