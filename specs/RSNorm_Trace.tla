----------------------------- MODULE RSNorm_Trace -----------------------------
(* Trace validation of the real RSNorm wrapper around a real DQN (X01).        *)
(* cfg  = [nslots, nstat, tracked, eps = <<num, den>>]                          *)
(* Every event carries, read from the real objects AFTER the call:             *)
(*   alive[a], mode[a] (training flag), stats[a][s] = <<mean, var, count>> of  *)
(*   every wrapper a and statistic s, as integers scaled by K = 10^4           *)
(*   (untracked statistics: the prior), exc = "" or the exception raised.      *)
(* "act" / "learn" events also carry what the wrapped agent was handed:        *)
(*   hand[i][s] (and hand2 for next_obs) scaled by KY = 100, same = the        *)
(*   caller's observation object is unchanged, routed = the call reached the   *)
(*   wrapper's own agent.                                                      *)
(* float32 results are compared with the exact rationals within TOL/K (stats)  *)
(* and TOLY/KY (handed observation, only when the cross-multiplication fits in *)
(* TLC's 32-bit integers); with Expect = TRUE the exact expectation of every   *)
(* handed observation is printed (tag EXP) and compared in Python to 5e-4.     *)
EXTENDS RSNorm, Json, IOUtils, TLCExt
CONSTANTS Diag, Expect
Traces == JsonDeserialize(IOEnv.TRACE_FILE)
VARIABLES tid, l
tvars == <<vars, tid, l>>
T  == Traces[tid]
Ev == T.ev[l]
Check(name, c) == IF c THEN TRUE ELSE (Diag /\ PrintT(<<"FAILCLAUSE", tid, l, name>>) /\ FALSE)

ParOf(c) == [nslots |-> c.nslots, nstat |-> c.nstat, tracked |-> {c.tracked[i] : i \in 1..Len(c.tracked)}, eps |-> <<c.eps[1], c.eps[2]>>]
TInit == /\ tid \in 1..Len(Traces) /\ l = 1 /\ InitWith(ParOf(Traces[tid].cfg))

K == 10000
TOL == 2
KY == 100
TOLY == 2
Near(x, r) == Abs(x * r[2] - K * r[1]) <= TOL * r[2]
\* |y| within TOLY/KY of sqrt(P/W), sign as expected; TRUE when the products would not fit
HandNear(ys, h) ==
  LET a == Abs(ys) IN
  IF h[2] > 200000 \/ h[3] > 2000 \/ a > 1000 THEN TRUE
  ELSE /\ (a > TOLY => Sgn(ys) = h[1])
       /\ KY * KY * h[2] <= (a + TOLY) * (a + TOLY) * h[3]
       /\ (a > TOLY => (a - TOLY) * (a - TOLY) * h[3] <= KY * KY * h[2])
HandOK(obs, exp) ==
  /\ Len(obs) = Len(exp)
  /\ \A i \in 1..Len(exp) : Len(obs[i]) = par.nstat /\ \A s \in Stats : HandNear(obs[i][s], exp[i][s])

Others(a) == {b \in Slots : b # a /\ ag'[b].alive}
Post(a) ==
  /\ Check("the set of live wrappers", \A b \in Slots : Ev.alive[b] = ag'[b].alive)
  /\ Check("training mode changes only through set_training_mode", \A b \in Slots : ag'[b].alive => Ev.mode[b] = ag'[b].training)
  /\ Check("count = epsilon + number of rows acted on in training mode",
           ag'[a].alive => \A s \in Stats : Near(Ev.stats[a][s][3], ag'[a].st[s].count))
  /\ Check("mean = mean of all training-mode rows (pooled with the prior)",
           ag'[a].alive => \A s \in Stats : Near(Ev.stats[a][s][1], ag'[a].st[s].mean))
  /\ Check("var = variance of all training-mode rows (pooled with the prior)",
           ag'[a].alive => \A s \in Stats : Near(Ev.stats[a][s][2], ag'[a].st[s].var))
  /\ Check("statistics of the other wrappers are untouched",
           \A b \in Others(a) : \A s \in Stats : /\ Near(Ev.stats[b][s][3], ag'[b].st[s].count)
                                                 /\ Near(Ev.stats[b][s][1], ag'[b].st[s].mean)
                                                 /\ Near(Ev.stats[b][s][2], ag'[b].st[s].var))
NoExc == Check("the operation returns without raising", Ev.exc = "")

TCreate == /\ Ev.op = "create" /\ l = 1 /\ NoExc /\ UNCHANGED vars /\ Post(1)
TAct ==
  /\ Ev.op = "act" /\ NoExc
  /\ Act(Ev.slot, Ev.batch, Ev.unb)
  /\ Post(Ev.slot)
  /\ Check("handed observation = (x - mean)/sqrt(var + eps) with the statistics after this call", HandOK(Ev.hand, out'.hand))
  /\ Check("the caller's observation object is not modified", Ev.same)
  /\ Check("the call reaches the wrapper's own agent", Ev.routed)
  /\ (Expect => PrintT(<<"EXP", ToJson([tid |-> tid, l |-> l, hand |-> out'.hand])>>))
TLearn ==
  /\ Ev.op = "learn" /\ NoExc
  /\ Learn(Ev.slot, Ev.batch, Ev.batch2)
  /\ Post(Ev.slot)
  /\ Check("learn: handed obs = (x - mean)/sqrt(var + eps) with the current statistics", HandOK(Ev.hand, out'.hand))
  /\ Check("learn: handed next_obs = (x - mean)/sqrt(var + eps) with the current statistics", HandOK(Ev.hand2, out'.hand2))
  /\ Check("the call reaches the wrapper's own agent", Ev.routed)
  /\ (Expect => PrintT(<<"EXP", ToJson([tid |-> tid, l |-> l, hand |-> out'.hand, hand2 |-> out'.hand2])>>))
TMode    == Ev.op = "mode" /\ NoExc /\ SetMode(Ev.slot, Ev.flag) /\ Post(Ev.slot)
TClone   == Ev.op = "clone" /\ NoExc /\ Clone(Ev.src, Ev.slot, Ev.mode[Ev.slot]) /\ Post(Ev.slot)
TSave    == Ev.op = "save" /\ NoExc /\ Save(Ev.slot) /\ Post(Ev.slot)
TLoad    == Ev.op = "load" /\ NoExc /\ Load(Ev.slot, Ev.mode[Ev.slot]) /\ Post(Ev.slot)
TLoadNew == Ev.op = "loadnew" /\ NoExc /\ LoadNew(Ev.slot, Ev.mode[Ev.slot]) /\ Post(Ev.slot)

TAccept == /\ l = Len(T.ev) + 1 /\ PrintT(<<"ACCEPT", tid>>) /\ l' = l + 1 /\ UNCHANGED <<vars, tid>>
TNext == \/ (l <= Len(T.ev) /\ (TCreate \/ TAct \/ TLearn \/ TMode \/ TClone \/ TSave \/ TLoad \/ TLoadNew) /\ l' = l + 1 /\ UNCHANGED tid)
         \/ TAccept
TSpec == TInit /\ [][TNext]_tvars
================================================================================
