SPECIFICATION Spec
CONSTANTS
  EnvSet <- SAEnvs
  AgentSet <- SAAgents
  Kinds <- AllKinds
  MaxT = 3
  MaxRolls = 2
  MaxEp = 8
  Mode = "auto"
  ResetClears = FALSE
  FlagRule = "term"
INVARIANT FlagsMarkEpisodeStarts
CONSTRAINT Bound
CHECK_DEADLOCK FALSE
