SPECIFICATION Spec
CONSTANTS
  EnvSet <- SAEnvs
  AgentSet <- SAAgents
  Kinds <- AllKinds
  MaxT = 3
  MaxRolls = 2
  MaxEp = 8
  FlagRule = "term"
INVARIANT FlagsMarkEpisodeStarts
CONSTRAINT Bound
CHECK_DEADLOCK FALSE
