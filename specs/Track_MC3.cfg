SPECIFICATION Spec
CONSTANTS
  NSlots = 2
  NFiles = 1
  PF = 3
  MaxLearn = 4
INVARIANT TypeOK
INVARIANT TargetTracks
INVARIANT BoundedLag
PROPERTY OnlyLearnDemands
PROPERTY Frame
CONSTRAINT Bound
VIEW core
CHECK_DEADLOCK FALSE
