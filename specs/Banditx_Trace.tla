------------------------------ MODULE Banditx_Trace -----------------------------
(* Trace validation of real NeuralUCB / NeuralTS agents with real (non-linear) actors (C19),          *)
(* inexact mode.  Gradient features are float vectors, so the matrices are not represented here:      *)
(* the specification keeps, per agent and per checkpoint, WHICH decisions count in its matrix         *)
(* (`hist`: the event numbers of the decisions since the matrix was last initialised, followed        *)
(* through clones and checkpoints) and the size of the output layer.  The protocol is the one of      *)
(* Bandit.tla (Create / Decide / Learn / Test / Mutate / Clone / Save / LoadNew / LoadInto with the   *)
(* outcomes carry | reinit; every agent has its own lambda `lam` = <<n, d>>, carried only while it    *)
(* is unchanged).                                                                                     *)
(* The driver evaluates, after every operation and for every live agent, in float64                   *)
(*     res = "ok"  iff  max | S (lambda I + SUM_{d in hist} g_d g_d^T) - I | <= tolerance             *)
(* for the hist it reports; TLC checks that this hist is the specification's (so the residual was     *)
(* taken over the right decisions) and that res = "ok".  Outcomes are resolved by two observed        *)
(* flags of the written slot: isinit (sigma_inv = (1/lambda) I of the output layer's size) and        *)
(* eqsrc (sigma_inv equals the matrix of the operation's source: the agent itself before learn /      *)
(* mutate, the parent for clone, the saved agent for loads).                                          *)
EXTENDS Integers, Sequences, FiniteSets, TLC, Json, IOUtils, TLCExt
CONSTANT Diag, NSlots, NFiles
Traces == JsonDeserialize(IOEnv.TRACE_FILE)
VARIABLES ag, fs, act, tid, l
vars  == <<ag, fs, act>>
tvars == <<vars, tid, l>>
T  == Traces[tid]
Ev == T.ev[l]
Check(name, c) == IF c THEN TRUE ELSE (Diag /\ PrintT(<<"FAILCLAUSE", tid, l, name>>) /\ FALSE)
Nil == [nil |-> TRUE]
Live(x) == x # Nil
Slots == 1..NSlots
Files == 1..NFiles
Outs == {"reinit", "carry"}

TInit == /\ tid \in 1..Len(Traces) /\ l = 1
         /\ ag = [a \in Slots |-> Nil] /\ fs = [f \in Files |-> Nil] /\ act = [op |-> "init"]

Fresh(k, lm) == [layer |-> k, dim |-> k, hist |-> <<>>, lam |-> lm]
Outcome(r, k, lm, out) == IF out = "reinit" THEN Fresh(k, lm) ELSE [r EXCEPT !.layer = k, !.lam = lm]
Allowed(r, k, lm, out) == out = "reinit" \/ (out = "carry" /\ r.dim = k /\ r.lam = lm)

Create(a, k, lm) == /\ ag[a] = Nil /\ ag' = [ag EXCEPT ![a] = Fresh(k, lm)] /\ UNCHANGED fs
                /\ act' = [op |-> "create", a |-> a, out |-> "init"]
Decide(a) == /\ Live(ag[a]) /\ ag' = [ag EXCEPT ![a].hist = Append(@, l)] /\ UNCHANGED fs
             /\ act' = [op |-> "decide", a |-> a, out |-> "update"]
Learn(a) == Live(ag[a]) /\ UNCHANGED <<ag, fs>> /\ act' = [op |-> "learn", a |-> a, out |-> "carry"]
Test(a) == Live(ag[a]) /\ UNCHANGED <<ag, fs>> /\ act' = [op |-> "test", a |-> a, out |-> "carry"]
Mutate(a, kind, k, lm, out) ==
  /\ Live(ag[a]) /\ Allowed(ag[a], k, lm, out)
  /\ (kind # "hp" => lm = ag[a].lam)
  /\ ag' = [ag EXCEPT ![a] = Outcome(ag[a], k, lm, out)] /\ UNCHANGED fs
  /\ act' = [op |-> "mutate", a |-> a, out |-> out]
Clone(a, c, k, out) == /\ Live(ag[a]) /\ c # a /\ Allowed(ag[a], k, ag[a].lam, out)
                       /\ ag' = [ag EXCEPT ![c] = Outcome(ag[a], k, ag[a].lam, out)] /\ UNCHANGED fs
                       /\ act' = [op |-> "clone", a |-> a, c |-> c, out |-> out]
Save(a, f) == /\ Live(ag[a]) /\ fs' = [fs EXCEPT ![f] = ag[a]] /\ UNCHANGED ag
              /\ act' = [op |-> "save", a |-> a, out |-> "carry"]
LoadNew(f, c, k, out) == /\ Live(fs[f]) /\ Allowed(fs[f], k, fs[f].lam, out)
                         /\ ag' = [ag EXCEPT ![c] = Outcome(fs[f], k, fs[f].lam, out)] /\ UNCHANGED fs
                         /\ act' = [op |-> "loadnew", c |-> c, out |-> out]
LoadInto(f, a, k, out) == /\ Live(fs[f]) /\ Live(ag[a]) /\ Allowed(fs[f], k, fs[f].lam, out)
                          /\ ag' = [ag EXCEPT ![a] = Outcome(fs[f], k, fs[f].lam, out)] /\ UNCHANGED fs
                          /\ act' = [op |-> "loadinto", a |-> a, out |-> out]

Target == IF "c" \in DOMAIN act' THEN act'.c ELSE act'.a
Post ==
  /\ Check("returns without raising", Ev.exc = "")
  /\ \A s \in Slots : LET p == Ev.post[s] IN
       IF ag'[s] = Nil THEN Check("slot is empty", p.nil)
       ELSE /\ Check("slot holds an agent", ~p.nil)
            /\ Check("size of the confidence matrix = number of parameters of the output layer", p.sq /\ p.dim = p.layer)
            /\ Check("output layer has the size the operation produced", p.layer = ag'[s].layer)
            /\ Check("the agent's lambda is the one the operation produced (constructor's / source's / unchanged)", p.lam = ag'[s].lam)
            /\ (s = Target /\ act'.out \in {"init", "reinit"}) =>
                 Check("freshly initialised confidence matrix = (1/lambda) I", p.isinit)
            /\ (s = Target /\ act'.out = "carry") =>
                 Check("carried confidence matrix equals the source's", p.eqsrc)
            /\ Check("driver's decision history = decisions since the matrix was initialised", p.hist = ag'[s].hist)
            /\ IF s = Target
               THEN Check("confidence matrix = inverse of lambda I + sum of outer products of the chosen arms' features since it was initialised", p.res = "ok")
               ELSE Check("confidence matrix of an agent that did not take part is unchanged", p.res = "ok" /\ p.same)

ObsLayer(s) == Ev.post[s].layer
ObsLam(s)   == Ev.post[s].lam
NoExc == Check("returns without raising", Ev.exc = "")
TCreate == Ev.op = "create" /\ NoExc /\ Create(Ev.a, ObsLayer(Ev.a), Ev.lam0) /\ Post
TDecide ==
  /\ Ev.op = "decide" /\ NoExc
  /\ Check("chosen arm is one of the arms", Ev.arm \in 0..(Ev.narms - 1))
  /\ Check("every arm's feature has the size of the confidence matrix", Ev.featdim = ag[Ev.a].dim)
  /\ Check("exploration bonus g^T S g >= 0 for every arm", Ev.bonus_ok)
  /\ Decide(Ev.a) /\ Post
TLearn    == Ev.op = "learn" /\ Learn(Ev.a) /\ Post
TTest     == Ev.op = "test" /\ Test(Ev.a) /\ Post
TMutate   == /\ Ev.op = "mutate" /\ NoExc
             /\ Check("only a hyper-parameter mutation changes lambda", Ev.kind = "hp" \/ ObsLam(Ev.a) = ag[Ev.a].lam)
             /\ \E out \in Outs : Mutate(Ev.a, Ev.kind, ObsLayer(Ev.a), ObsLam(Ev.a), out) /\ Post
TClone    == Ev.op = "clone" /\ NoExc /\ \E out \in Outs : Clone(Ev.a, Ev.c, ObsLayer(Ev.c), out) /\ Post
TSave     == Ev.op = "save" /\ Save(Ev.a, Ev.f) /\ Post
TLoadNew  == Ev.op = "loadnew" /\ NoExc /\ \E out \in Outs : LoadNew(Ev.f, Ev.c, ObsLayer(Ev.c), out) /\ Post
TLoadInto == Ev.op = "loadinto" /\ NoExc /\ \E out \in Outs : LoadInto(Ev.f, Ev.a, ObsLayer(Ev.a), out) /\ Post

TAccept == /\ l = Len(T.ev) + 1 /\ PrintT(<<"ACCEPT", tid>>) /\ l' = l + 1 /\ UNCHANGED <<vars, tid>>
TNext == \/ (l <= Len(T.ev) /\ (TCreate \/ TDecide \/ TLearn \/ TTest \/ TMutate \/ TClone \/ TSave \/ TLoadNew \/ TLoadInto)
             /\ l' = l + 1 /\ UNCHANGED tid)
         \/ TAccept
TSpec == TInit /\ [][TNext]_tvars

\* every matrix has the size of its output layer
DimFollowsLayer == \A s \in Slots : Live(ag[s]) => ag[s].dim = ag[s].layer
================================================================================
