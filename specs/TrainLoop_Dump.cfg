INIT FInit
NEXT NoNext
CONSTANTS
  Params <- CfgParams
  Ds = {0}
  Scores = {0}
  MaxGen = 1
  Loops <- CfgLoops
  Bug = "none"
INVARIANT DumpCase
CHECK_DEADLOCK FALSE
