SPECIFICATION Spec
CONSTANTS
  Params <- ParamsArith
  Vals <- ValsA
  MaxB = 3
  MaxRows = 5
  Ops <- ArithOps
  Variant = "chan"
  Depth = 0
INVARIANT MomentsDef
INVARIANT CountDef
INVARIANT VarNonNeg
INVARIANT TypeOK
PROPERTY Frozen
PROPERTY Local
PROPERTY CarryExact
PROPERTY HandedPost
PROPERTY RowsCounted
VIEW core
CHECK_DEADLOCK FALSE
