-------------------------------- MODULE RSNorm --------------------------------
(***************************************************************************)
(* X01 -- observation normalisation wrapper (agilerl.wrappers.agent.RSNorm *)
(* around an off-policy agent) and its RunningMeanStd objects as a state   *)
(* machine.                                                                *)
(*                                                                         *)
(* A "statistic" s \in 1..NStat is one scalar coordinate of the (flattened)*)
(* observation: Box(2) = statistics 1,2; Dict{a: Box(2), b: Box(1)} =      *)
(* statistics 1,2 (key a), 3 (key b).  Tracked = statistics of the keys    *)
(* that are normalised (norm_obs_keys; all of them by default); the others *)
(* are handed on unchanged.  A row = one observation = [1..NStat -> Int].  *)
(*                                                                         *)
(* Per wrapper (slot) and statistic the ABSTRACT state is the exact        *)
(* (n, S, Q) = (number, sum, sum of squares) of all rows the wrapper has   *)
(* acted on in training mode, and the CONCRETE state is what the code      *)
(* keeps, (mean, var, count), as exact rationals <<num, den>>, computed by *)
(* the code's own batched update (RunningMeanStd.update_from_moments: the  *)
(* parallel-variance formula of Chan et al.) starting from the prior       *)
(* (mean 0, var 1, count eps).                                             *)
(*                                                                         *)
(* Clauses (what docstrings / evident intent promise; see props/x01.py):   *)
(*  MomentsDef    (mean,var,count) = moments of the concatenation of all   *)
(*                training-mode rows pooled with the prior pseudo-sample   *)
(*                (weight eps, mean 0, var 1): a function of (n,S,Q) only, *)
(*                hence independent of how the rows were split in batches  *)
(*  Frozen        evaluation-mode acting and learn() leave every statistic *)
(*                unchanged ("statistics are only updated when the agent   *)
(*                is in training mode")                                    *)
(*  HandedPost    the observation handed to the wrapped agent is           *)
(*                (x - mean)/sqrt(var + eps) per coordinate with the       *)
(*                statistics AFTER this call's update (get_action updates  *)
(*                first, then normalises); untracked keys pass unchanged   *)
(*  OneRow        an unbatched observation counts as one row               *)
(*  Local         an operation on one wrapper never changes the statistics *)
(*                of another (clones / restored wrappers are independent)  *)
(*  CarryExact    clone / save+load carry (mean,var,count,eps) exactly     *)
(*  PerKey        a statistic depends on its own column of the rows only   *)
(*                (by construction of MomentsDef: Closed(n, S[s], Q[s]))   *)
(* The caller's observation object is not modified and the call reaches    *)
(* the wrapper's own agent: checked on recorded executions (RSNorm_Trace). *)
(***************************************************************************)
EXTENDS Integers, Sequences, FiniteSets, TLC, Rat

CONSTANTS Params,     \* set of [nslots, nstat, tracked, eps] explored
          Vals,       \* observation grid (integers)
          MaxB,       \* largest batch
          MaxRows,    \* bound on training rows per wrapper (state constraint is built into Act)
          Ops,        \* operations explored by Next (subset of {"act","learn","mode","clone","save","load","loadnew"})
          Variant     \* "chan"  : the code's recursive batched update
                      \* "closed": the definition (moments of everything seen); used for long recorded histories
                      \* "naive" : negative control (weighted average of batch variances, no between-batch term)

VARIABLES par,        \* [nslots, nstat, tracked, eps]
          ag,         \* slot -> [alive, training, eps, n, S, Q, st]   st[s] = [mean, var, count]
          ckpt,       \* last saved checkpoint: a slot record (alive = FALSE: none yet)
          out,        \* what the last call handed to the wrapped agent
          act,        \* last operation
          hist        \* operations so far (history generation only)

vars == <<par, ag, ckpt, out, act, hist>>
core == <<par, ag, ckpt>>

Slots  == 1..par.nslots
Stats  == 1..par.nstat
Abs(x) == IF x < 0 THEN -x ELSE x
Sgn(x) == IF x < 0 THEN -1 ELSE IF x = 0 THEN 0 ELSE 1

(* ---------------- signed exact rationals on top of Rat.tla ---------------- *)
Q0 == <<0, 1>>
Q1 == <<1, 1>>
QI(k) == <<k, 1>>
Lcm(a, b) == (a \div GCD(a, b)) * b
QAdd(a, b) == LET d == Lcm(a[2], b[2]) IN Norm(<<a[1] * (d \div a[2]) + b[1] * (d \div b[2]), d>>)
QNeg(a)    == <<-a[1], a[2]>>
QSub(a, b) == QAdd(a, QNeg(b))
QMul(a, b) == LET g1 == GCD(Abs(a[1]), b[2])  g2 == GCD(Abs(b[1]), a[2])
                  x1 == IF g1 = 0 THEN 1 ELSE g1   x2 == IF g2 = 0 THEN 1 ELSE g2
              IN Norm(<<(a[1] \div x1) * (b[1] \div x2), (a[2] \div x2) * (b[2] \div x1)>>)
QInv(a)    == IF a[1] > 0 THEN <<a[2], a[1]>> ELSE <<-a[2], -a[1]>>      \* a # 0
QDiv(a, b) == QMul(a, QInv(b))

(* ---------------- batches ---------------- *)
Rows == [Stats -> Vals]
RECURSIVE ColSum(_, _, _)
ColSum(b, s, k) == IF k = 0 THEN 0 ELSE ColSum(b, s, k - 1) + b[k][s]
RECURSIVE ColSq(_, _, _)
ColSq(b, s, k) == IF k = 0 THEN 0 ELSE ColSq(b, s, k - 1) + b[k][s] * b[k][s]

Prior(eps) == [mean |-> Q0, var |-> Q1, count |-> eps]

\* the definition: moments of all rows seen, pooled with the prior pseudo-sample
Closed(n, S, Q, eps) ==
  LET c == QAdd(eps, QI(n))
      m == QDiv(QI(S), c)
  IN [mean |-> m, var |-> QSub(QDiv(QAdd(eps, QI(Q)), c), QMul(m, m)), count |-> c]

\* RunningMeanStd.update -> update_from_moments, line by line
Chan(st, bs, bq, m) ==
  LET bmean == Norm(<<bs, m>>)
      bvar  == Norm(<<m * bq - bs * bs, m * m>>)          \* torch.var(unbiased=False)
      delta == QSub(bmean, st.mean)
      tot   == QAdd(st.count, QI(m))
      mean2 == QAdd(st.mean, QDiv(QMul(delta, QI(m)), tot))
      ma    == QMul(st.var, st.count)
      mb    == QMul(bvar, QI(m))
      M2    == QAdd(QAdd(ma, mb), QMul(QMul(delta, delta), QDiv(QMul(st.count, QI(m)), tot)))
  IN [mean |-> mean2, var |-> QDiv(M2, tot), count |-> tot]

Naive(st, bs, bq, m) ==
  LET bmean == Norm(<<bs, m>>)
      bvar  == Norm(<<m * bq - bs * bs, m * m>>)
      tot   == QAdd(st.count, QI(m))
  IN [mean |-> QDiv(QAdd(QMul(st.mean, st.count), QI(bs)), tot),
      var  |-> QDiv(QAdd(QMul(st.var, st.count), QMul(bvar, QI(m))), tot), count |-> tot]

\* a slot after acting on batch b in training mode
Updated(r, b) ==
  LET m == Len(b)
      S2 == [s \in Stats |-> IF s \in par.tracked THEN r.S[s] + ColSum(b, s, m) ELSE 0]
      Q2 == [s \in Stats |-> IF s \in par.tracked THEN r.Q[s] + ColSq(b, s, m) ELSE 0]
  IN [r EXCEPT !.n = r.n + m, !.S = S2, !.Q = Q2,
               !.st = [s \in Stats |->
                         IF s \notin par.tracked THEN r.st[s]
                         ELSE IF Variant = "closed" THEN Closed(r.n + m, S2[s], Q2[s], r.eps)
                         ELSE IF Variant = "naive" THEN Naive(r.st[s], ColSum(b, s, m), ColSq(b, s, m), m)
                         ELSE Chan(r.st[s], ColSum(b, s, m), ColSq(b, s, m), m)]]

\* y = (x - mean)/sqrt(var + eps) as <<sign(y), num, den>> with y^2 = num/den
Hand(x, st, eps) ==
  LET d  == QSub(QI(x), st.mean)
      sq == QDiv(QMul(d, d), QAdd(st.var, eps))
  IN <<Sgn(d[1]), sq[1], sq[2]>>
HandRow(r, row) == [s \in Stats |-> IF s \in par.tracked THEN Hand(row[s], r.st[s], r.eps) ELSE <<Sgn(row[s]), row[s] * row[s], 1>>]
HandBatch(r, b) == [i \in 1..Len(b) |-> HandRow(r, b[i])]

Dead == [alive |-> FALSE]
Fresh(p) == [alive |-> TRUE, training |-> TRUE, eps |-> p.eps, n |-> 0,
             S |-> [s \in 1..p.nstat |-> 0], Q |-> [s \in 1..p.nstat |-> 0],
             st |-> [s \in 1..p.nstat |-> Prior(p.eps)]]
NoOut == [op |-> "none"]

InitWith(p) ==
  /\ par = p
  /\ ag = [a \in 1..p.nslots |-> IF a = 1 THEN Fresh(p) ELSE Dead]
  /\ ckpt = Dead
  /\ out = NoOut
  /\ act = [op |-> "create", slot |-> 1]
  /\ hist = <<>>
Init == \E p \in Params : InitWith(p)

Log == hist' = Append(hist, act')

(* ---------------- operations of the code ---------------- *)
\* wrapper.get_action(obs): obs is a batch of rows, or (unb) a single unbatched observation = one row
Act(a, b, unb) ==
  /\ ag[a].alive /\ Len(b) >= 1 /\ (unb => Len(b) = 1)
  /\ IF ag[a].training
       THEN /\ ag[a].n + Len(b) <= MaxRows
            /\ ag' = [ag EXCEPT ![a] = Updated(ag[a], b)]
       ELSE ag' = ag
  /\ out' = [op |-> "act", slot |-> a, hand |-> HandBatch(ag'[a], b)]
  /\ act' = [op |-> "act", slot |-> a, batch |-> b, unb |-> unb, training |-> ag[a].training]
  /\ UNCHANGED <<par, ckpt>> /\ Log

\* wrapper.learn(experiences): obs and next_obs are normalised, nothing is updated
Learn(a, b, b2) ==
  /\ ag[a].alive /\ Len(b) >= 1 /\ Len(b2) = Len(b)
  /\ out' = [op |-> "learn", slot |-> a, hand |-> HandBatch(ag[a], b), hand2 |-> HandBatch(ag[a], b2)]
  /\ act' = [op |-> "learn", slot |-> a, batch |-> b, batch2 |-> b2, training |-> ag[a].training]
  /\ UNCHANGED <<par, ag, ckpt>> /\ Log

SetMode(a, t) ==
  /\ ag[a].alive
  /\ ag' = [ag EXCEPT ![a].training = t]
  /\ out' = NoOut
  /\ act' = [op |-> "mode", slot |-> a, training |-> t]
  /\ UNCHANGED <<par, ckpt>> /\ Log

\* b = a.clone(); the training flag of the clone is not prescribed (t = what it turns out to be)
Clone(a, b, t) ==
  /\ ag[a].alive /\ ~ag[b].alive
  /\ ag' = [ag EXCEPT ![b] = [ag[a] EXCEPT !.training = t]]
  /\ out' = NoOut
  /\ act' = [op |-> "clone", slot |-> b, src |-> a, training |-> t]
  /\ UNCHANGED <<par, ckpt>> /\ Log

Save(a) ==
  /\ ag[a].alive
  /\ ckpt' = ag[a]
  /\ out' = NoOut
  /\ act' = [op |-> "save", slot |-> a]
  /\ UNCHANGED <<par, ag>> /\ Log

\* b.load_checkpoint(path) into an existing wrapper
Load(b, t) ==
  /\ ckpt.alive /\ ag[b].alive
  /\ ag' = [ag EXCEPT ![b] = [ckpt EXCEPT !.training = t]]
  /\ out' = NoOut
  /\ act' = [op |-> "load", slot |-> b, training |-> t]
  /\ UNCHANGED <<par, ckpt>> /\ Log

\* b = Algo.load(path): a new wrapped agent from the checkpoint
LoadNew(b, t) ==
  /\ ckpt.alive /\ ~ag[b].alive
  /\ ag' = [ag EXCEPT ![b] = [ckpt EXCEPT !.training = t]]
  /\ out' = NoOut
  /\ act' = [op |-> "loadnew", slot |-> b, training |-> t]
  /\ UNCHANGED <<par, ckpt>> /\ Log

RECURSIVE Batches(_)
Batches(k) == IF k = 0 THEN {} ELSE [1..k -> Rows] \cup Batches(k - 1)

ActAny     == "act" \in Ops /\ \E a \in Slots, b \in Batches(MaxB) : Act(a, b, FALSE)
ActUnb     == "act" \in Ops /\ \E a \in Slots, r \in Rows : Act(a, <<r>>, TRUE)
LearnAny   == "learn" \in Ops /\ \E a \in Slots, r \in Rows, r2 \in Rows : Learn(a, <<r>>, <<r2>>)
ModeAny    == "mode" \in Ops /\ \E a \in Slots, t \in BOOLEAN : SetMode(a, t)
CloneAny   == "clone" \in Ops /\ \E a \in Slots, b \in Slots : ag[a].alive /\ Clone(a, b, ag[a].training)
SaveAny    == "save" \in Ops /\ \E a \in Slots : Save(a)
LoadAny    == "load" \in Ops /\ ckpt.alive /\ \E b \in Slots : Load(b, ckpt.training)
LoadNewAny == "loadnew" \in Ops /\ ckpt.alive /\ \E b \in Slots : LoadNew(b, ckpt.training)
Next == ActAny \/ ActUnb \/ LearnAny \/ ModeAny \/ CloneAny \/ SaveAny \/ LoadAny \/ LoadNewAny

Spec == Init /\ [][Next]_vars

(* ---------------- the clauses ---------------- *)
Live == {a \in Slots : ag[a].alive}

\* MomentsDef + PerKey: what the code keeps is the definition applied to the statistic's own column,
\* whatever the batching was
MomentsDef ==
  \A a \in Live : \A s \in Stats :
     IF s \in par.tracked THEN ag[a].st[s] = Closed(ag[a].n, ag[a].S[s], ag[a].Q[s], ag[a].eps)
     ELSE ag[a].st[s] = Prior(ag[a].eps)
CountDef == \A a \in Live : \A s \in par.tracked : ag[a].st[s].count = QAdd(ag[a].eps, QI(ag[a].n))
VarNonNeg == \A a \in Live : \A s \in Stats : ag[a].st[s].var[1] >= 0 /\ ag[a].st[s].var[2] > 0
\* more than the prior: with at least one row the mean lies within the range of the data and 0 (the prior mean)
TypeOK == \A a \in Live : ag[a].n \in 0..MaxRows /\ ag[a].training \in BOOLEAN

StatsOf(x, a) == IF x[a].alive THEN <<x[a].eps, x[a].st>> ELSE <<>>

\* Frozen: evaluation-mode acting and learning never change any statistic
Frozen == [][(act'.op = "learn" \/ (act'.op = "act" /\ ~act'.training) \/ act'.op \in {"mode", "save"})
             => \A a \in Slots : StatsOf(ag', a) = StatsOf(ag, a)]_vars
\* Local: only the slot an operation addresses may change
Local == [][\A a \in Slots : a # act'.slot => StatsOf(ag', a) = StatsOf(ag, a)]_vars
\* CarryExact: clone and both restore paths carry (mean, var, count, eps) exactly
CarryExact ==
  [][/\ act'.op = "clone" => StatsOf(ag', act'.slot) = StatsOf(ag, act'.src)
     /\ act'.op \in {"load", "loadnew"} => StatsOf(ag', act'.slot) = <<ckpt.eps, ckpt.st>>
     /\ act'.op = "save" => <<ckpt'.eps, ckpt'.st>> = StatsOf(ag, act'.slot)]_vars
\* HandedPost: the wrapped agent sees the batch normalised with the statistics as they are after the call
HandedPost ==
  [][/\ act'.op = "act" => out'.hand = HandBatch(ag'[act'.slot], act'.batch)
     /\ act'.op = "learn" => /\ out'.hand = HandBatch(ag'[act'.slot], act'.batch)
                             /\ out'.hand2 = HandBatch(ag'[act'.slot], act'.batch2)]_vars
\* training-mode acting counts every row once
RowsCounted ==
  [][(act'.op = "act" /\ act'.training) => ag'[act'.slot].n = ag[act'.slot].n + Len(act'.batch)]_vars
================================================================================
