---------------------------------- MODULE Rows ----------------------------------
(***************************************************************************)
(* C17, last clause: "each estimate, old log-probability and old value is  *)
(* then applied to exactly the observation and action of the agent,        *)
(* environment and time step it was computed for" -- at the point where    *)
(* the on-policy learners draw their minibatches.  The flattened rollout   *)
(* is a set of rows <<obs, act, logp, adv, ret, val>> (ids); every epoch   *)
(* partitions it into minibatches; a minibatch row must be one of the      *)
(* flattened rows and every flattened row is used exactly once per epoch.  *)
(***************************************************************************)
EXTENDS Integers, Sequences, FiniteSets, TLC
CONSTANTS MaxRows, BatchSizes
VARIABLES flat,     \* Seq of rows (the flattened rollout)
          used,     \* set of positions of flat already drawn in the current epoch
          act
vars == <<flat, used, act>>
Row(i) == <<i, i, i, i, i, i>>                    \* all six fields of sample i carry the id i
Init == /\ \E n \in 1..MaxRows : flat = [i \in 1..n |-> Row(i)]
        /\ used = {} /\ act = "init"
\* a minibatch = a set of not yet used positions; what is handed to the loss are the rows at those positions
Minibatch(pos) ==
  /\ pos # {} /\ pos \subseteq (1..Len(flat)) \ used
  /\ used' = IF used \cup pos = 1..Len(flat) THEN {} ELSE used \cup pos          \* epoch complete -> next epoch
  /\ UNCHANGED flat /\ act' = "mb"
Next == \E b \in BatchSizes : \E pos \in SUBSET ((1..Len(flat)) \ used) :
           (Cardinality(pos) = b \/ (Cardinality(pos) < b /\ pos = (1..Len(flat)) \ used)) /\ Minibatch(pos)
Spec == Init /\ [][Next]_vars
RowsIntact == \A i \in 1..Len(flat) : \A j, k \in 1..6 : flat[i][j] = flat[i][k]
UsedOK == used \subseteq 1..Len(flat)
================================================================================
