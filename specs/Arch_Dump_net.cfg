INIT Init
NEXT Next
CONSTANTS
  Cfg <- MCNet
  Inits <- MCNetInits
ACTION_CONSTRAINT Dump
INVARIANT DumpInit
VIEW core
CHECK_DEADLOCK FALSE
