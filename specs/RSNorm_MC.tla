------------------------------ MODULE RSNorm_MC ------------------------------
(* Model-checking / history-generation instances of RSNorm.tla (X01).        *)
EXTENDS RSNorm, Json
CONSTANTS Depth
P(k, n, tr, e) == [nslots |-> k, nstat |-> n, tracked |-> tr, eps |-> e]
AllOps == {"act", "learn", "mode", "clone", "save", "load", "loadnew"}
ArithOps == {"act", "mode"}
\* arithmetic: one wrapper, one statistic, three priors, a rich grid (batching = every split into batches of <= MaxB)
ParamsArith == { P(1, 1, {1}, <<1, 2>>), P(1, 1, {1}, <<1, 1>>), P(1, 1, {1}, <<1, 4>>) }
\* life cycle: two wrappers, clone / save / load / loadnew, small grid
ParamsLife == { P(2, 1, {1}, <<1, 2>>) }
ParamsLife3 == { P(3, 1, {1}, <<1, 2>>) }
\* keys: two statistics (two keys): both tracked, or only the first (norm_obs_keys)
ParamsKeys == { P(1, 2, {1, 2}, <<1, 2>>), P(1, 2, {1}, <<1, 2>>) }
\* histories for replay into the real wrapper: 2 or 3 statistics, 3 slots; TLC explores the structure of the
\* history (which operation, which wrapper, batch sizes, modes); batch contents are a fixed pseudo-random
\* function of (salt, position in the history, row, statistic) on the grid -2..2; unbatched observations
\* are exercised by dedicated hand-written histories (props/x01.py)
PG(n, e, salt) == [nslots |-> 3, nstat |-> n, tracked |-> 1..n, eps |-> e, salt |-> salt]
GenParams == { PG(2, <<1, 2>>, 0), PG(2, <<1, 1>>, 1), PG(3, <<1, 2>>, 2), PG(3, <<1, 4>>, 3), PG(2, <<1, 4>>, 4), PG(3, <<1, 1>>, 5) }
GVal(t, i, s) == LET h == par.salt * 11 + t * 7 + i * 3 + s * 4 + ((t * i * s) % 3) IN (h % 5) - 2
GB(k, t) == [i \in 1..k |-> [s \in Stats |-> GVal(t, i, s)]]
GT == Len(hist) + 1
GNext ==
  \/ \E a \in Slots, k \in 1..MaxB : Act(a, GB(k, GT), FALSE)
  \/ \E a \in Slots, k \in 1..MaxB : Learn(a, GB(k, GT), GB(k, GT + 1))
  \/ ModeAny \/ CloneAny \/ SaveAny \/ LoadAny \/ LoadNewAny
GSpec == Init /\ [][GNext]_vars
ValsA == {-2, -1, 0, 1, 2}
ValsAt == {-3, -2, -1, 0, 1, 2, 3}
ValsL == {-1, 2}
ValsK == {0, 1}
\* history generation: bounded number of operations, printed when the bound is reached
GenBound == Len(hist) <= Depth - 1
Emit == (TLCGet("level") = Depth) => PrintT(<<"BEH", ToJson([par |-> [nslots |-> par.nslots, nstat |-> par.nstat, eps |-> par.eps], ops |-> hist])>>)
================================================================================
