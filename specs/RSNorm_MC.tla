------------------------------ MODULE RSNorm_MC ------------------------------
(* Model-checking / history-generation instances of RSNorm.tla (X01).        *)
EXTENDS RSNorm, Json
CONSTANTS Depth
P(k, n, tr, e) == [nslots |-> k, nstat |-> n, tracked |-> tr, eps |-> e]
AllOps == {"act", "learn", "mode", "clone", "save", "load", "loadnew"}
ArithOps == {"act", "mode"}
\* arithmetic: one wrapper, one statistic, three priors, a rich grid (batching = every split into batches of <= MaxB)
ParamsArith == { P(1, 1, {1}, <<1, 2>>), P(1, 1, {1}, <<1, 1>>), P(1, 1, {1}, <<1, 4>>) }
\* life cycle: two wrappers, clone / save / load / loadnew, small grid
ParamsLife == { P(2, 1, {1}, <<1, 2>>) }
ParamsLife3 == { P(3, 1, {1}, <<1, 2>>) }
\* keys: two statistics (two keys): both tracked, or only the first (norm_obs_keys)
ParamsKeys == { P(1, 2, {1, 2}, <<1, 2>>), P(1, 2, {1}, <<1, 2>>) }
\* histories for replay into the real wrapper: 2 or 3 statistics, 3 slots
GenParams == { P(3, 2, {1, 2}, <<1, 2>>), P(3, 2, {1, 2}, <<1, 1>>), P(3, 3, {1, 2, 3}, <<1, 2>>), P(3, 3, {1, 2, 3}, <<1, 4>>) }
ValsA == {-2, -1, 0, 1, 2}
ValsAt == {-3, -2, -1, 0, 1, 2, 3}
ValsL == {-1, 2}
ValsK == {0, 1}
\* history generation: bounded number of operations, printed when the bound is reached
GenBound == Len(hist) <= Depth - 1
Emit == (TLCGet("level") = Depth) => PrintT(<<"BEH", ToJson([par |-> [nslots |-> par.nslots, nstat |-> par.nstat, eps |-> par.eps], ops |-> hist])>>)
================================================================================
