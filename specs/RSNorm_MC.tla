------------------------------ MODULE RSNorm_MC ------------------------------
(* Model-checking / history-generation instances of RSNorm.tla (X01).        *)
EXTENDS RSNorm, Json
CONSTANTS Depth
P(k, n, tr, e) == [nslots |-> k, nstat |-> n, tracked |-> tr, eps |-> e]
\* one statistic, two wrappers, two priors
MCParams1 == { P(2, 1, {1}, <<1, 2>>), P(2, 1, {1}, <<1, 1>>) }
MCParams1t == MCParams1 \cup { P(2, 1, {1}, <<1, 4>>) }
\* two statistics (two keys): both tracked, or only the first (norm_obs_keys)
MCParams2 == { P(2, 2, {1, 2}, <<1, 2>>), P(2, 2, {1}, <<1, 2>>) }
\* histories for replay into the real wrapper: 2 or 3 statistics, 3 slots
GenParams == { P(3, 2, {1, 2}, <<1, 2>>), P(3, 2, {1, 2}, <<1, 1>>), P(3, 3, {1, 2, 3}, <<1, 2>>), P(3, 3, {1, 2, 3}, <<1, 4>>) }
MCVals3 == {-1, 0, 2}
MCVals4 == {-2, 0, 1, 3}
MCVals2 == {0, 1}
MCValsG == {-2, -1, 0, 1, 2}
\* history generation: bounded number of operations, printed when the bound is reached
GenBound == Len(hist) <= Depth - 1
Emit == (TLCGet("level") = Depth) => PrintT(<<"BEH", ToJson([par |-> [nslots |-> par.nslots, nstat |-> par.nstat, eps |-> par.eps], ops |-> hist])>>)
================================================================================
