INIT DumpInit
NEXT DumpStep
CONSTANTS
  Shapes <- ShapesQ
  PDen = 8
  HObs = {}
  HActs = {}
  HMaxW = 0
  Impl = "arg"
INVARIANT DumpCase
VIEW kvars
CHECK_DEADLOCK FALSE
