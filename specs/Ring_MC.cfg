SPECIFICATION Spec
CONSTANTS
  Caps = {1,2,3,4}
  MaxAdded = 10
INVARIANT TypeOK
INVARIANT LenOK
INVARIANT ContentsOK
INVARIANT NoDup
PROPERTY SampleSound
CONSTRAINT Bound
VIEW core
CHECK_DEADLOCK FALSE
