---- MODULE BT ----
EXTENDS Bandit_MC
NextA == CreateAny \/ DecideAny \/ LearnAny
SpecA == Init /\ [][NextA]_vars
BoundB == nops <= MaxOps
====
