------------------------- MODULE CloneChain_Trace -------------------------
(* Trace validation of real clone-and-mutate chains (C04 chain stage).                           *)
(* cfg = [family, slots]; events: op ("clone" | "mutate" | "drop"), a, b, method, exc, and the    *)
(* observation of ALL slots after the operation: alive, arch (interned printed structure +        *)
(* parameter shapes), fn (interned outputs on the probe batches), carch / cfn (the same two       *)
(* measured on a fresh clone() of every live object = what its constructor description rebuilds).*)
EXTENDS CloneChain, Json, IOUtils, TLCExt, Sequences
CONSTANT Diag
Traces == JsonDeserialize(IOEnv.TRACE_FILE)
VARIABLES tid, l
tvars == <<vars, tid, l>>
T  == Traces[tid]
Ev == T.ev[l]
Check(name, c) == IF c THEN TRUE ELSE (Diag /\ PrintT(<<"FAILCLAUSE", tid, l, name>>) /\ FALSE)

TInit == /\ tid \in 1..Len(Traces) /\ l = 1
         /\ alive = [s \in Slots |-> Traces[tid].cfg.alive0[s]]
         /\ arch = [s \in Slots |-> Traces[tid].cfg.arch0[s]] /\ fn = [s \in Slots |-> Traces[tid].cfg.fn0[s]]
         /\ desc = [s \in Slots |-> Traces[tid].cfg.arch0[s]]
         /\ act = [op |-> "init", a |-> 1, b |-> 1, changed |-> FALSE] /\ nops = 0

Others(x) == {s \in Slots : alive[s] /\ s # x}
\* what holds after every operation, on the observation the event carries
Observed(touched) ==
  /\ Check("the operation returns without raising", Ev.exc = "")
  /\ Check("Local: architecture of every other object unchanged", \A s \in Others(touched) : Ev.arch[s] = arch[s])
  /\ Check("Local: function of every other object unchanged", \A s \in Others(touched) : Ev.fn[s] = fn[s])
  /\ Check("CloneSame: a fresh clone of every live object has its architecture",
           \A s \in Slots : Ev.alive[s] => Ev.carch[s] = Ev.arch[s])
  /\ Check("CloneSame: a fresh clone of every live object reproduces its outputs",
           \A s \in Slots : Ev.alive[s] => Ev.cfn[s] = Ev.fn[s])

TClone ==
  /\ Ev.op = "clone"
  /\ Observed(Ev.b)
  /\ Check("CloneSame: the clone has the architecture of its original", Ev.arch[Ev.b] = arch[Ev.a])
  /\ Check("CloneSame: the clone reproduces the outputs of its original", Ev.fn[Ev.b] = fn[Ev.a])
  /\ Clone(Ev.a, Ev.b, Ev.fn[Ev.b])

TMutate ==
  /\ Ev.op = "mutate"
  /\ Observed(Ev.a)
  /\ Check("NoopSame: unchanged architecture computes the same function", Ev.arch[Ev.a] = arch[Ev.a] => Ev.fn[Ev.a] = fn[Ev.a])
  /\ Mutate(Ev.a, Ev.arch[Ev.a], Ev.fn[Ev.a])

TDrop == /\ Ev.op = "drop" /\ Observed(Ev.a) /\ Drop(Ev.a)

Bound == /\ Check("post-state: architectures as the specification's action leaves them", \A s \in Slots : Ev.alive[s] => arch'[s] = Ev.arch[s])
         /\ Check("post-state: functions as the specification's action leaves them", \A s \in Slots : Ev.alive[s] => fn'[s] = Ev.fn[s])
         /\ Check("post-state: live objects", \A s \in Slots : alive'[s] = Ev.alive[s])

TAccept == /\ l = Len(T.ev) + 1 /\ PrintT(<<"ACCEPT", tid>>) /\ l' = l + 1 /\ UNCHANGED <<vars, tid>>
TNext == \/ (l <= Len(T.ev) /\ (TClone \/ TMutate \/ TDrop) /\ Bound /\ nops' = nops + 1 /\ l' = l + 1 /\ UNCHANGED tid)
         \/ TAccept
TSpec == TInit /\ [][TNext]_tvars
=============================================================================
