---------------------------------- MODULE Evo ----------------------------------
(***************************************************************************)
(* Life cycle of a population of evolvable agents: create, clone, learn,   *)
(* mutate, evaluate, save / load, discard.  Properties C01 (clone is       *)
(* faithful and independent), C02 (coherence after mutation), C06          *)
(* (hyperparameter mutation), C07 (checkpoint round trip).                 *)
(*                                                                         *)
(* Abstract state.  An agent is a *view*: for every network n its          *)
(* architecture id arch[n] and weight id w[n]; for every optimizer o its   *)
(* state id opt[o] and whether it is coherent (steps exactly the current   *)
(* parameters of the networks it covers) and uses the agent's current      *)
(* learning rate; hyperparameter values hp[h]; bookkeeping (idx, mut,      *)
(* steps, scores, fitness) and the id of its greedy actions on fixed probe *)
(* observations.  Ids are opaque: equal id <=> equal content (in the       *)
(* implementation: equal SHA-256 of the tensors).  The specification is    *)
(* relational: each action takes the resulting view as a parameter and     *)
(* constrains it (what must be equal to what, what must differ).           *)
(* `mem' models storage: own[s] is the set of mutable cells agent s holds. *)
(***************************************************************************)
EXTENDS Integers, Sequences, FiniteSets, TLC

CONSTANTS Shape,       \* algorithm shape, see below
          NSlots, MaxOps, NBatches, NFiles

(* Shape == [K: #nets, M: #optimizers, H: #hyperparameters,
             shadow: [1..K -> 0..K]   (0: evaluation network, e: target/shared copy of evaluation network e),
             covers: [1..M -> SUBSET (1..K)], lrhp: [1..M -> 1..H] (which hp is the lr of optimizer o),
             policy: 1..K, resync: BOOLEAN (copies may re-synchronise targets with their online network)] *)

VARIABLES slots,      \* [1..NSlots -> view or Nil]
          files,      \* [1..NFiles -> view or Nil]
          learnMemo,  \* set of [pre, b, post]: what a learn step computed from which state and batch
          actMemo,    \* set of [w, arch, g]: greedy actions as a function of the policy's weights
          own,        \* [1..NSlots -> set of cell ids]
          nops, act

vars == <<slots, files, learnMemo, actMemo, own, nops, act>>
core == <<slots, files, learnMemo, actMemo, own>>

Nil == [nil |-> TRUE]
K == Shape.K
M == Shape.M
H == Shape.H
Nets == 1..K
Opts == 1..M
Evals == {n \in Nets : Shape.shadow[n] = 0}
Trained == UNION {Shape.covers[o] : o \in Opts}
Live == {s \in 1..NSlots : slots[s] # Nil}

--------------------------------------------------------------------------------
(* Relational predicates on views -- shared with the trace specification *)

\* what "the same trainable state" means for a learn step / for acting
TrainKey(v) == [w |-> v.w, opt |-> v.opt, hp |-> v.hp, arch |-> v.arch, aux |-> v.aux]
ActKey(v)   == [w |-> v.w[Shape.policy], arch |-> v.arch[Shape.policy]]

Coherent(v) == \A o \in Opts : v.coherent[o] /\ v.lrok[o]
ShadowArch(v) == \A n \in Nets : Shape.shadow[n] # 0 => v.arch[n] = v.arch[Shape.shadow[n]]
ShadowW(v)    == \A n \in Nets : Shape.shadow[n] # 0 => v.w[n] = v.w[Shape.shadow[n]]

\* C01: the clone equals the parent in everything but its index; a re-synchronising algorithm may give
\* the clone's target the clone's online weights instead of the parent's target weights
CloneOK(p, v, idx) ==
  /\ v.idx = idx /\ v.mut = p.mut /\ v.hp = p.hp /\ v.arch = p.arch /\ v.opt = p.opt
  /\ v.steps = p.steps /\ v.scores = p.scores /\ v.fitness = p.fitness /\ v.greedy = p.greedy
  /\ v.coherent = p.coherent /\ v.lrok = p.lrok /\ v.aux = p.aux
  /\ \A n \in Nets : \/ v.w[n] = p.w[n]
                     \/ (Shape.resync /\ Shape.shadow[n] # 0 /\ v.w[n] = v.w[Shape.shadow[n]])

\* a learn step: only weights and optimizer state of trained networks (and their targets) move
LearnOK(p, v) ==
  /\ v.idx = p.idx /\ v.mut = p.mut /\ v.hp = p.hp /\ v.arch = p.arch
  /\ v.steps = p.steps /\ v.scores = p.scores /\ v.fitness = p.fitness
  /\ \A n \in Trained : v.w[n] # p.w[n]                       \* a learn step really moves all trained networks
  /\ \A o \in Opts : v.opt[o] # p.opt[o]
  /\ \A n \in Nets : (n \notin Trained /\ Shape.shadow[n] = 0) => v.w[n] = p.w[n]
  /\ Coherent(v) /\ ShadowArch(v)

\* C07: the restored agent equals what was saved -- every field, targets included
RestoreOK(saved, v) ==
  /\ v.idx = saved.idx /\ v.mut = saved.mut /\ v.hp = saved.hp /\ v.arch = saved.arch /\ v.w = saved.w
  /\ v.opt = saved.opt /\ v.steps = saved.steps /\ v.scores = saved.scores /\ v.fitness = saved.fitness
  /\ v.greedy = saved.greedy /\ v.aux = saved.aux /\ Coherent(v)

\* C02: after a mutation of kind k (h = index of the mutated hyperparameter for kind "hp")
MutKinds == {"none", "arch", "param", "act", "hp"}
ArchAllOrNone(p, v) == \/ \A n \in Evals : v.arch[n] # p.arch[n]
                       \/ \A n \in Evals : v.arch[n] = p.arch[n]
\* "the same architecture change as the policy": networks that had the same layer configuration (layers, nodes, channels,
\* kernels, latent width, activation -- acfg is its id) before the mutation have the same one afterwards
SameChange(p, v) == \A n, m \in Evals : p.acfg[n] = p.acfg[m] => v.acfg[n] = v.acfg[m]
MutLabelOK(p, v, k, h) ==
  CASE k = "none"  -> v.mut = "None"
    [] k = "param" -> v.mut = "param"
    [] k = "hp"    -> v.mut = Shape.hpnames[h]
    [] k = "act"   -> v.mut = "act" \/ (v.mut = "None" /\ v.arch = p.arch)
    [] k = "arch"  -> v.mut # "None" \/ v.arch = p.arch
MutateOK(p, v, k, h) ==
  /\ v.idx = p.idx /\ v.steps = p.steps /\ v.scores = p.scores /\ v.fitness = p.fitness
  /\ Coherent(v)                                                  \* optimizers follow
  /\ ShadowArch(v)                                                \* targets follow: architecture always,
  /\ \A n \in Nets : Shape.shadow[n] # 0 =>                       \* weights right after the mutation -- of EVERY member of the
        v.w[n] = v.w[Shape.shadow[n]]                               \* mutated population, also one that drew "no mutation"
  /\ CASE k = "none"  -> v.hp = p.hp /\ v.arch = p.arch /\ \A n \in Evals : v.w[n] = p.w[n]
       \* every network trained alongside the policy received the change -- or none did (a mutation stopped
       \* by a bound, or an algorithm that does not allow the kind, leaves every architecture as it was)
       [] k = "arch"  -> v.hp = p.hp /\ ArchAllOrNone(p, v)
       [] k = "param" -> v.hp = p.hp /\ v.arch = p.arch /\ \A n \in Evals : n # Shape.policy => v.w[n] = p.w[n]
       [] k = "act"   -> v.hp = p.hp /\ ArchAllOrNone(p, v)
       [] k = "hp"    -> /\ v.arch = p.arch /\ \A n \in Evals : v.w[n] = p.w[n]
                         /\ h \in 1..H /\ \A g \in 1..H : g # h => v.hp[g] = p.hp[g]    \* exactly one hp moves
  /\ MutLabelOK(p, v, k, h)
  /\ SameChange(p, v)

--------------------------------------------------------------------------------
(* Actions (the resulting view v is a parameter) *)
Mark(a, o) == /\ nops' = nops + 1 /\ act' = [op |-> o, a |-> a]

Create(s, v, cells) ==
  /\ slots[s] = Nil
  /\ Coherent(v) /\ ShadowArch(v) /\ ShadowW(v)
  /\ slots' = [slots EXCEPT ![s] = v] /\ own' = [own EXCEPT ![s] = cells]
  /\ UNCHANGED <<files, learnMemo, actMemo>> /\ Mark(s, "create")

Clone(a, c, v, cells) ==
  /\ slots[a] # Nil /\ slots[c] = Nil
  /\ \A s \in Live : slots[s].idx # v.idx
  /\ CloneOK(slots[a], v, v.idx)
  /\ slots' = [slots EXCEPT ![c] = v] /\ own' = [own EXCEPT ![c] = cells]
  /\ UNCHANGED <<files, learnMemo, actMemo>> /\ Mark(c, "clone")

Learn(a, b, v) ==
  /\ slots[a] # Nil /\ b \in 1..NBatches
  /\ LearnOK(slots[a], v)
  \* same trainable state + same batch => same update
  /\ \A m \in learnMemo : (m.pre = TrainKey(slots[a]) /\ m.b = b) => m.post = TrainKey(v)
  /\ learnMemo' = learnMemo \cup {[pre |-> TrainKey(slots[a]), b |-> b, post |-> TrainKey(v)]}
  /\ \A m \in actMemo : (m.w = ActKey(v).w /\ m.arch = ActKey(v).arch) => m.g = v.greedy
  /\ actMemo' = actMemo \cup {[w |-> ActKey(v).w, arch |-> ActKey(v).arch, g |-> v.greedy]}
  /\ slots' = [slots EXCEPT ![a] = v]
  /\ UNCHANGED <<files, own>> /\ Mark(a, "learn")

Mutate(a, k, h, v) ==
  /\ slots[a] # Nil /\ k \in MutKinds
  /\ MutateOK(slots[a], v, k, h)
  /\ slots' = [slots EXCEPT ![a] = v]
  /\ UNCHANGED <<files, learnMemo, actMemo, own>> /\ Mark(a, "mutate")

\* evaluation appends a fitness value (and, in the training loops, scores / steps)
Book(a, v) ==
  /\ slots[a] # Nil
  /\ v = [slots[a] EXCEPT !.steps = v.steps, !.scores = v.scores, !.fitness = v.fitness]
  /\ slots' = [slots EXCEPT ![a] = v]
  /\ UNCHANGED <<files, learnMemo, actMemo, own>> /\ Mark(a, "book")

Save(a, f) ==
  /\ slots[a] # Nil /\ f \in 1..NFiles
  /\ files' = [files EXCEPT ![f] = slots[a]]
  /\ UNCHANGED <<slots, learnMemo, actMemo, own>> /\ Mark(a, "save")

LoadNew(f, c, v, cells) ==
  /\ files[f] # Nil /\ slots[c] = Nil
  /\ RestoreOK(files[f], v)
  /\ slots' = [slots EXCEPT ![c] = v] /\ own' = [own EXCEPT ![c] = cells]
  /\ UNCHANGED <<files, learnMemo, actMemo>> /\ Mark(c, "loadnew")

LoadInto(f, a, v) ==
  /\ files[f] # Nil /\ slots[a] # Nil
  /\ RestoreOK(files[f], v)
  /\ slots' = [slots EXCEPT ![a] = v]
  /\ UNCHANGED <<files, learnMemo, actMemo, own>> /\ Mark(a, "loadinto")

Discard(a) ==
  /\ slots[a] # Nil
  /\ slots' = [slots EXCEPT ![a] = Nil] /\ own' = [own EXCEPT ![a] = {}]
  /\ UNCHANGED <<files, learnMemo, actMemo>> /\ Mark(a, "discard")

--------------------------------------------------------------------------------
(* Properties *)
\* C01: no two live agents share a mutable cell (weights, optimizer moments, counters, hp ranges, score lists)
NoSharing == \A s, t \in 1..NSlots : s # t => own[s] \cap own[t] = {}
\* C01/C02: every action changes only the agent it names
Frame == [][ \A s \in 1..NSlots : s # act'.a => slots'[s] = slots[s] ]_vars
\* every live agent is coherent at all times (C02 demands it after mutations; clone / load must keep it)
AllCoherent == \A s \in Live : Coherent(slots[s]) /\ ShadowArch(slots[s])
\* distinct indices in the population
DistinctIdx == \A s, t \in Live : s # t => slots[s].idx # slots[t].idx
\* C07: a file is never changed by loading it, and equal trainable states fed the same batch stay equal
Functional == \A m1, m2 \in learnMemo : (m1.pre = m2.pre /\ m1.b = m2.b) => m1.post = m2.post
ActFunctional == \A m1, m2 \in actMemo : (m1.w = m2.w /\ m1.arch = m2.arch) => m1.g = m2.g
Bound == nops <= MaxOps
================================================================================
