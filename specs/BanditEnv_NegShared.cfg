SPECIFICATION Spec
CONSTANTS
  Datasets <- MCDatasets
  Envs <- MCEnvs
  Wraps <- MCWraps
  MaxOps = 4
  Variant = "shared"
INVARIANT LabelFactorised
INVARIANT ShapeOK
INVARIANT EncodingOK
INVARIANT RewardBinary
INVARIANT RewardOK
INVARIANT SkillPass
PROPERTY Independent
CONSTRAINT Bound
CHECK_DEADLOCK FALSE
