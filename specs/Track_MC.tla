--------------------------------- MODULE Track_MC ---------------------------------
(* Negative control for Track.tla: a clone that restarts the learn counter lets the targets of a   *)
(* delayed learner fall more than PF - 1 learn steps behind (BoundedLag / TargetTracks violated).   *)
EXTENDS Track
NextResetClone == \/ \E a \in Slots : Create(a) \/ Learn(a)
                  \/ \E a, c \in Slots : CloneN(a, c, 0)
================================================================================
