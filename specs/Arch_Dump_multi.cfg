INIT Init
NEXT Next
CONSTANTS
  Cfg <- MCMulti
  Inits <- MCMultiInits
ACTION_CONSTRAINT Dump
INVARIANT DumpInit
VIEW core
CHECK_DEADLOCK FALSE
