INIT Init
NEXT Next
CONSTANTS
  Cfg <- MCNetC
  Inits <- MCNetCInits
ACTION_CONSTRAINT Dump
INVARIANT DumpInit
VIEW core
CHECK_DEADLOCK FALSE
