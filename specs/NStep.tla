--------------------------------- MODULE NStep ---------------------------------
(***************************************************************************)
(* n-step replay buffer filled alongside a 1-step buffer (property C10):   *)
(* agilerl.components.replay_buffer.MultiStepReplayBuffer + ReplayBuffer   *)
(* driven as train_off_policy drives them.                                 *)
(*                                                                         *)
(* A raw step t = 1,2,.. carries, per parallel environment e, a reward and *)
(* a done flag.  Row (t,e) of both buffers is identified by <<t,e>>.       *)
(* gamma = 1/2^gexp (or gnum/gden when par carries these fields); returns  *)
(* are scaled by gden^(n-1) = 2^(gexp*(n-1)) so they are                    *)
(* integers.  The specification is *permissive exactly as the property*:   *)
(* AllowedK(e) is the set of window lengths the statement permits; ImplK   *)
(* is the rule the implementation follows and must be one of them.         *)
(***************************************************************************)
EXTENDS Integers, Sequences, FiniteSets, TLC

CONSTANTS Params,      \* set of records [n, E, N, gexp] explored
          MaxT         \* bound on stream length (state constraint)

VARIABLES par,         \* [n |-> window length, E |-> #envs, N |-> capacity, gexp |-> gamma exponent]
          hist,        \* all raw steps so far: Seq([rew : [1..E -> Int], done : [1..E -> BOOLEAN]])
          nstore, curN, sizeN,     \* n-step ring (positions matter: alignment)
          store1, cur1, size1,     \* 1-step ring filled with what add() returns
          act

vars == <<par, hist, nstore, curN, sizeN, store1, cur1, size1, act>>
core == <<par, hist, nstore, curN, sizeN, store1, cur1, size1>>

n == par.n
E == par.E
N == par.N
Env == 1..E
Nil == [t |-> 0]

Min(S) == CHOOSE x \in S : \A y \in S : x <= y
MinI(a, b) == IF a <= b THEN a ELSE b
RECURSIVE Pow2(_)
Pow2(k) == IF k = 0 THEN 1 ELSE 2 * Pow2(k - 1)
RECURSIVE SumTo(_, _)
SumTo(f, k) == IF k = 0 THEN 0 ELSE f[k] + SumTo(f, k - 1)

InitWith(p) ==
  /\ par = p
  /\ hist = <<>>
  /\ nstore = [i \in 0..(p.N - 1) |-> Nil] /\ curN = 0 /\ sizeN = 0
  /\ store1 = [i \in 0..(p.N - 1) |-> Nil] /\ cur1 = 0 /\ size1 = 0
  /\ act = [op |-> "init"]
Init == \E p \in Params : InitWith(p)

--------------------------------------------------------------------------------
(* The window is the last n raw steps of h (defined when Len(h) >= n).     *)
WinOf(h)     == [i \in 1..n |-> h[Len(h) - n + i]]
T0(h)        == Len(h) - n + 1                       \* id of the oldest step in the window

OwnEnd(w, e)   == IF \E i \in 1..n : w[i].done[e] THEN Min({i \in 1..n : w[i].done[e]}) ELSE n
AnyEndAt(w, i) == \E e2 \in Env : w[i].done[e2]
\* what the property permits: stop at the own episode end (or n); a shorter cut only where some
\* environment ends inside the window
AllowedK(w, e) == {k \in 1..OwnEnd(w, e) : k = OwnEnd(w, e) \/ AnyEndAt(w, k)}
\* what the implementation does: one common cut at the first step (from the oldest on) at which any
\* environment is done
ImplK(w)       == IF \E i \in 1..n : AnyEndAt(w, i) THEN Min({i \in 1..n : AnyEndAt(w, i)}) ELSE n

\* gamma = GNum / GDen (by default 1 / 2^gexp); the weight of the i-th reward of a window, scaled by GDen^(n-1)
RECURSIVE PowN(_, _)
PowN(b, k) == IF k = 0 THEN 1 ELSE b * PowN(b, k - 1)
GNum == IF "gnum" \in DOMAIN par THEN par.gnum ELSE 1
GDen == IF "gden" \in DOMAIN par THEN par.gden ELSE Pow2(par.gexp)
Wt(i) == PowN(GNum, i - 1) * PowN(GDen, n - i)
Ret(w, e, k) == SumTo([i \in 1..k |-> Wt(i) * w[i].rew[e]], k)
Fused(h, e, k) == LET w == WinOf(h) IN
  [t |-> T0(h), e |-> e, k |-> k, ret |-> Ret(w, e, k), done |-> w[k].done[e]]

\* write E rows at a cursor, wrapping (ReplayBuffer.add with a batch of E rows)
Put(st, c, rows) == [i \in 0..(N - 1) |->
                       IF \E e \in Env : (c + e - 1) % N = i
                         THEN rows[CHOOSE e \in Env : (c + e - 1) % N = i]
                         ELSE st[i]]

Add(step, ks) ==
  /\ step \in [rew : [Env -> Int], done : [Env -> BOOLEAN]]
  /\ LET h == Append(hist, step) IN
     /\ hist' = h
     /\ IF Len(h) < n
          THEN UNCHANGED <<nstore, curN, sizeN, store1, cur1, size1>>
          ELSE /\ ks \in [Env -> 1..n]
               /\ \A e \in Env : ks[e] \in AllowedK(WinOf(h), e)
               /\ nstore' = Put(nstore, curN, [e \in Env |-> Fused(h, e, ks[e])])
               /\ curN' = (curN + E) % N /\ sizeN' = MinI(sizeN + E, N)
               \* add() returns the oldest raw step of the window; the caller stores it
               /\ store1' = Put(store1, cur1, [e \in Env |-> [t |-> T0(h), e |-> e]])
               /\ cur1' = (cur1 + E) % N /\ size1' = MinI(size1 + E, N)
  /\ UNCHANGED par
  /\ act' = [op |-> "add"]

\* model-checking instance: rewards are a fixed function of (t,e), done flags are arbitrary
\* (rewards -1, 0, 1, 2: negative and zero rewards are ordinary rewards)
MCStep(t, d) == [rew |-> [e \in Env |-> ((t + 2 * e) % 4) - 1], done |-> d]
AddAny == \E d \in [Env -> BOOLEAN] : \E ks \in [Env -> 1..n] : Add(MCStep(Len(hist) + 1, d), ks)
Next == AddAny
Spec == Init /\ [][Next]_vars

--------------------------------------------------------------------------------
(* Properties (C10) *)
Live(st, sz) == {i \in 0..(N - 1) : i < sz}          \* rows [0, size) are live, as storage[:len]

\* nothing that happened after a terminal step of e is mixed into a stored record of e
NoCross == \A i \in Live(nstore, sizeN) : LET r == nstore[i] IN
              \A j \in 0..(r.k - 2) : ~ hist[r.t + j].done[r.e]
\* the record carries the discounted sum of the k rewards that followed, and the done flag of the
\* last step it summed
ReturnDef == \A i \in Live(nstore, sizeN) : LET r == nstore[i] IN
              /\ r.k \in 1..n
              /\ r.ret = SumTo([j \in 1..r.k |-> Wt(j) * hist[r.t + j - 1].rew[r.e]], r.k)
              /\ r.done = hist[r.t + r.k - 1].done[r.e]
\* a record stops before n only at an episode end (own, or the permitted joint cut)
StopsOnlyAtEnd == \A i \in Live(nstore, sizeN) : LET r == nstore[i] IN
              r.k < n => \E e2 \in Env : hist[r.t + r.k - 1].done[e2]
\* the k-th n-step row and the k-th 1-step row describe the same (observation, action)
Aligned == /\ sizeN = size1 /\ curN = cur1
           /\ \A i \in Live(nstore, sizeN) : nstore[i].t = store1[i].t /\ nstore[i].e = store1[i].e
\* the implementation's rule is one of the permitted ones, for every window
ImplAllowed == Len(hist) >= n => \A e \in Env : ImplK(WinOf(hist)) \in AllowedK(WinOf(hist), e)

Bound == Len(hist) <= MaxT
================================================================================
