---------------------------- MODULE EvoSelect_Trace ----------------------------
(* Trace validation of the real TournamentSelection.select on populations of real  *)
(* agents (C05).  One event per generation:                                        *)
(*   fit (histories, x1000 as integers), idxs, k, n, elitism, W, draws (logged     *)
(*   np.random.randint results, 1-based positions), elite = [parent, idx],         *)
(*   sel = [[parent, idx, faithful]...] (parent identified by weight fingerprint), *)
(*   old_untouched, shared (storage shared between any two agents old/new)         *)
(*   fit is in integer units of 1/fscale (scores are dyadic multiples of 1/fscale; *)
(*   the comparison of means is scale invariant); optional: via, wiring            *)
EXTENDS EvoSelect, Json, IOUtils, TLCExt
CONSTANT Diag
Traces == JsonDeserialize(IOEnv.TRACE_FILE)
VARIABLES tid, l
tvars == <<vars, tid, l>>
T  == Traces[tid]
Ev == T.ev[l]
Check(name, c) == IF c THEN TRUE ELSE (Diag /\ PrintT(<<"FAILCLAUSE", tid, l, name>>) /\ FALSE)
TInit == /\ tid \in 1..Len(Traces) /\ l = 1
         /\ pop = <<>> /\ par = [k |-> 1, n |-> 1, elitism |-> FALSE, W |-> 1]
         /\ elite = [parent |-> 0, idx |-> 0] /\ prev = <<>> /\ lastsel = <<>> /\ gen = 0 /\ act = "init"

P == [i \in 1..Len(Ev.idxs) |-> [idx |-> Ev.idxs[i], fit |-> Ev.fit[i]]]
Off == IF Ev.elitism THEN 1 ELSE 0
\* candidate parents of member j (several when the old population contains identical twins)
Cand(j) == {Ev.sel[j].parents[m] : m \in 1..Len(Ev.sel[j].parents)}
ECand == {Ev.elite.parents[m] : m \in 1..Len(Ev.elite.parents)}
Best(S) == {i \in S : \A q \in S : MeanLeq(Window(P[q].fit, Ev.W), Window(P[i].fit, Ev.W))}
EliteParent == IF ECand \cap Best(1..Len(P)) # {} THEN CHOOSE i \in ECand \cap Best(1..Len(P)) : TRUE ELSE 1
Draw(j) == {Ev.draws[j][m] : m \in 1..Ev.k}
ParentOf(j) == IF Ev.elitism /\ j = 1 THEN EliteParent
               ELSE IF Cand(j) \cap Best(Draw(j - Off)) # {} THEN CHOOSE i \in Cand(j) \cap Best(Draw(j - Off)) : TRUE
               ELSE IF Cand(j) # {} THEN CHOOSE i \in Cand(j) : TRUE ELSE 1
Sel == [j \in 1..Len(Ev.sel) |-> [parent |-> ParentOf(j), idx |-> Ev.sel[j].idx]]
TSelect ==
  /\ Ev.op = "select"
  /\ par' = [k |-> Ev.k, n |-> Ev.n, elitism |-> Ev.elitism, W |-> Ev.W]
  /\ Check("select returns without raising", Ev.exc = "")
  /\ Check("one tournament of k draws per non-elite member", Len(Ev.draws) = Ev.n - Off /\ \A j \in 1..Len(Ev.draws) : Len(Ev.draws[j]) = Ev.k)
  /\ Check("new population has exactly the configured size", Len(Ev.sel) = Ev.n)
  /\ Check("elite is a copy of an agent with the highest mean of the last W scores",
           ECand \cap Best(1..Len(P)) # {})
  /\ Check("with elitism the first member is the elite", Ev.elitism => (Cand(1) \cap ECand # {} /\ Sel[1].idx = Ev.elite.idx /\ \E i \in ECand : P[i].idx = Ev.elite.idx))
  /\ Check("every other member is a copy of the best-ranked agent drawn for its tournament",
           \A j \in 1..Len(Ev.draws) :
              Cand(j + Off) \cap Best(Draw(j)) # {})
  /\ Check("non-elite members carry fresh indices", \A j \in 1..Len(Ev.draws) : Sel[j + Off].idx \notin {Ev.idxs[i] : i \in 1..Len(Ev.idxs)})
  /\ Check("no two members share an index", \A i, j \in 1..Len(Sel) : i # j => Sel[i].idx # Sel[j].idx)
  /\ Check("members are faithful copies of their parents", \A j \in 1..Len(Ev.sel) : Ev.sel[j].faithful)
  /\ Check("the elite is a faithful copy", Ev.elite.faithful)
  /\ Check("the old population is left untouched", Ev.old_untouched)
  /\ Check("no storage shared between old and new agents", Len(Ev.shared) = 0)
  \* round 4: the training loops' helper (utils.tournament_selection_and_mutation) hands the population to select as it is and
  \* returns (through mutation) select's generation; with save_elite the saved agent is the elite (field absent in older traces)
  /\ Check("the training-loop helper passes population, generation and elite through unchanged", "wiring" \in DOMAIN Ev => Ev.wiring)
  /\ pop' = [j \in 1..Len(Sel) |-> [idx |-> Sel[j].idx, fit |-> P[Sel[j].parent].fit]]
  /\ prev' = P /\ elite' = [parent |-> EliteParent, idx |-> Ev.elite.idx] /\ lastsel' = Sel
  /\ gen' = gen + 1 /\ act' = "select"

TAccept == /\ l = Len(T.ev) + 1 /\ PrintT(<<"ACCEPT", tid>>) /\ l' = l + 1 /\ UNCHANGED <<vars, tid>>
TNext == \/ (l <= Len(T.ev) /\ TSelect /\ l' = l + 1 /\ UNCHANGED tid)
         \/ TAccept
TSpec == TInit /\ [][TNext]_tvars
================================================================================
