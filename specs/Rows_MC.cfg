SPECIFICATION Spec
CONSTANTS
  MaxRows = 6
  BatchSizes = {1, 2, 4, 8}
INVARIANT RowsIntact
INVARIANT UsedOK
CHECK_DEADLOCK FALSE
