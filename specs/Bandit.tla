--------------------------------- MODULE Bandit ---------------------------------
(***************************************************************************)
(* Neural contextual bandits (property C19): agilerl.algorithms.           *)
(* neural_ucb_bandit.NeuralUCB / neural_ts_bandit.NeuralTS keep a          *)
(* "confidence matrix" sigma_inv that must be the exact inverse of the      *)
(* regularised Gram matrix                                                  *)
(*        G = lambda I + SUM  g g^T   over the gradient features g of the   *)
(*                                    arms chosen since the matrix was      *)
(*                                    last initialised,                     *)
(* maintained by the Sherman-Morrison rank-one update.                      *)
(*                                                                         *)
(* Exact rational arithmetic (TLC has 32-bit integers only):               *)
(*   lambda = Ln / Ld                                                       *)
(*   S (= sigma_inv)  = N / D     N integer k x k matrix, D > 0, in lowest  *)
(*                                terms (gcd of all entries of N and D = 1) *)
(*   G (Gram)         = M / Ld    M integer k x k matrix                    *)
(*   hist                         bag of the features counted in G, as a    *)
(*                                set of <<g, multiplicity>>                *)
(* An agent is [layer, dim, N, D, M, hist, lam]: `layer` is the number of   *)
(* parameters of the output layer of its network, `dim` the size of its     *)
(* confidence matrix, `lam` = <<Ln, Ld>> ITS OWN lambda (the members of a   *)
(* population may have different ones: a checkpoint written by an agent     *)
(* with another lambda is loaded, lambda is listed in the hyper-parameter   *)
(* mutation configuration).  Checkpoint files hold the same record.         *)
(*                                                                         *)
(* Protocol: which operations may (re-)initialise the matrix and which      *)
(* carry it over.  The property allows an operation that rebuilds the       *)
(* agent (mutation, clone, reload) either to carry the matrix (only if its  *)
(* size still matches the output layer and lambda is still the one it was    *)
(* built with) or to start again from (1/lambda) I of the right size;        *)
(* decisions update it, learn steps and evaluation runs leave it alone.      *)
(* Anything else (stale size, sharing, partial copies) is not a behaviour   *)
(* of this specification.                                                   *)
(***************************************************************************)
EXTENDS Integers, Sequences, FiniteSets, TLC

CONSTANTS NSlots,      \* agents live in slots 1..NSlots
          NFiles,      \* checkpoint files 1..NFiles
          MaxDim,      \* output-layer sizes explored: 1..MaxDim
          Lams,        \* values of lambda, each <<Ln, Ld>> in lowest terms
          ValsLo,      \* context values used for sizes 1, 2
          ValsHi,      \* context values used for sizes >= 3
          Kinds,       \* mutation kinds explored by the model checker (subset of MutKinds)
          MaxDec,      \* bound: decisions counted in one matrix of size 1, 2
          MaxDecHi,    \* bound: decisions counted in one matrix of size >= 3
          MaxOps,      \* bound: operations
          Hetero       \* TRUE: agents are created with / hyper-parameter mutations move to any lambda of Lams
                       \* FALSE: every agent of a behaviour has the lambda chosen at Init

VARIABLES lam, ag, fs, nops, act
vars == <<lam, ag, fs, nops, act>>
core == <<lam, ag, fs>>
\* the view used for model checking keeps the operation counter: with several TLC workers a state may be found first on a
\* longer path, and a view that hides the bounded counter would then cut its successors (incomplete, run-dependent exploration)
coreN == <<lam, ag, fs, nops>>

Nil  == [nil |-> TRUE]
Live(x) == x # Nil
Slots == 1..NSlots
Files == 1..NFiles
LamChoices == IF Hetero THEN Lams ELSE {lam}
MutKinds == {"none", "arch", "param", "act", "hp"}

--------------------------------------------------------------------------------
(* integer vectors / matrices of size k: functions on 1..k (= tuples); TLCEval forces TLC to evaluate the
   function constructors once instead of re-evaluating them lazily at every application *)
Abs(x) == IF x < 0 THEN -x ELSE x
RECURSIVE Gcd(_, _)
Gcd(a, b) == IF b = 0 THEN Abs(a) ELSE Gcd(b, a % b)         \* a % b is in 0..b-1 for b > 0
RECURSIVE SumTo(_, _)
SumTo(f, n) == IF n = 0 THEN 0 ELSE f[n] + SumTo(f, n - 1)
Dot(u, v, k)     == CASE k = 1 -> u[1] * v[1]
                      [] k = 2 -> u[1] * v[1] + u[2] * v[2]
                      [] k = 3 -> u[1] * v[1] + u[2] * v[2] + u[3] * v[3]
                      [] OTHER -> SumTo([i \in 1..k |-> u[i] * v[i]], k)
MatVec(A, v, k)  == TLCEval([i \in 1..k |-> Dot(A[i], v, k)])
Col(B, j, k)     == [t \in 1..k |-> B[t][j]]
MatMul(A, B, k)  == TLCEval([i \in 1..k |-> [j \in 1..k |-> Dot(A[i], Col(B, j, k), k)]])
Outer(u, v, k)   == TLCEval([i \in 1..k |-> [j \in 1..k |-> u[i] * v[j]]])
Idm(k, c)        == TLCEval([i \in 1..k |-> [j \in 1..k |-> IF i = j THEN c ELSE 0]])
MatAdd(A, B, k)  == TLCEval([i \in 1..k |-> [j \in 1..k |-> A[i][j] + B[i][j]]])
MatScale(A, c, k) == TLCEval([i \in 1..k |-> [j \in 1..k |-> c * A[i][j]]])
MatDivE(A, c, k) == TLCEval([i \in 1..k |-> [j \in 1..k |-> IF A[i][j] >= 0 THEN A[i][j] \div c ELSE -((-A[i][j]) \div c)]])
RECURSIVE GcdRow(_, _, _)
GcdRow(r, n, acc) == IF n = 0 THEN acc ELSE GcdRow(r, n - 1, Gcd(acc, Abs(r[n])))
RECURSIVE GcdMat(_, _, _, _)
GcdMat(A, k, n, acc) == IF n = 0 THEN acc ELSE GcdMat(A, k, n - 1, GcdRow(A[n], k, acc))
\* g^T A g
Quad(A, g, k) == Dot(g, MatVec(A, g, k), k)

Vals(k)  == IF k <= 2 THEN ValsLo ELSE ValsHi
Feats(k) == [1..k -> Vals(k)]

\* bag of features: set of <<g, n>>, n >= 1, at most one pair per g
BagAdd(B, g) == IF \E p \in B : p[1] = g
                THEN LET p == CHOOSE p \in B : p[1] = g IN (B \ {p}) \cup {<<g, p[2] + 1>>}
                ELSE B \cup {<<g, 1>>}
RECURSIVE BagCount(_)
BagCount(B) == IF B = {} THEN 0 ELSE LET p == CHOOSE p \in B : TRUE IN p[2] + BagCount(B \ {p})
RECURSIVE BagGram(_, _)
BagGram(B, k) == IF B = {} THEN Idm(k, 0)
                 ELSE LET p == CHOOSE p \in B : TRUE
                      IN MatAdd(MatScale(Outer(p[1], p[1], k), p[2], k), BagGram(B \ {p}, k), k)

--------------------------------------------------------------------------------
(* the matrix of a freshly initialised agent whose output layer has k parameters and whose lambda is l = <<Ln, Ld>>:
   S = (1/lambda) I = (Ld/Ln) I,  G = lambda I = (Ln I)/Ld *)
Fresh(k, l) == [layer |-> k, dim |-> k, N |-> Idm(k, l[2]), D |-> l[1], M |-> Idm(k, l[1]), hist |-> {}, lam |-> l]

(* Sherman-Morrison:  S' = S - (S g g^T S) / (1 + g^T S g)
   with S = N/D:  S g = u/D (u = N g),  g^T S g = q/D (q = g^T N g),
                  S' = (N (D + q) - u u^T) / (D (D + q))                    *)
RankOne(r, g) ==
  LET k   == r.dim
      u   == MatVec(r.N, g, k)
      q   == Dot(g, u, k)
      den == r.D + q
      N2  == MatAdd(MatScale(r.N, den, k), MatScale(Outer(u, u, k), -1, k), k)
      D2  == r.D * den
      c   == GcdMat(N2, k, k, D2)
  IN [r EXCEPT !.N = MatDivE(N2, c, k), !.D = D2 \div c,
               !.M = MatAdd(r.M, MatScale(Outer(g, g, k), r.lam[2], k), k),
               !.hist = BagAdd(r.hist, g)]

--------------------------------------------------------------------------------
InitWith(l) ==
  /\ lam = l
  /\ ag = [a \in Slots |-> Nil]
  /\ fs = [f \in Files |-> Nil]
  /\ nops = 0
  /\ act = [op |-> "init"]
Init == \E l \in Lams : InitWith(l)

Step == nops' = nops + 1 /\ UNCHANGED lam

\* a new agent whose output layer has k parameters, constructed with lambda l
Create(a, k, l) ==
  /\ ag[a] = Nil /\ k \in 1..MaxDim
  /\ ag' = [ag EXCEPT ![a] = Fresh(k, l)]
  /\ UNCHANGED fs /\ Step
  /\ act' = [op |-> "create", a |-> a, out |-> "init"]

\* get_action: the arm whose gradient feature is g (a vector of the agent's size) was chosen
Decide(a, g) ==
  /\ Live(ag[a])
  /\ DOMAIN g = 1..ag[a].dim
  /\ 1 * ag[a].D + Quad(ag[a].N, g, ag[a].dim) > 0              \* 1 + g^T S g > 0 (else the update is undefined)
  /\ ag' = [ag EXCEPT ![a] = RankOne(ag[a], g)]
  /\ UNCHANGED fs /\ Step
  /\ act' = [op |-> "decide", a |-> a, g |-> g, out |-> "update"]

\* learn: network weights move, the matrix is not touched
Learn(a) ==
  /\ Live(ag[a])
  /\ UNCHANGED <<ag, fs>> /\ Step
  /\ act' = [op |-> "learn", a |-> a, out |-> "carry"]

\* test(env): an evaluation run (greedy arms, evaluation mode); the matrix is not touched
Test(a) ==
  /\ Live(ag[a])
  /\ UNCHANGED <<ag, fs>> /\ Step
  /\ act' = [op |-> "test", a |-> a, out |-> "carry"]

(* The two outcomes the property allows for an operation that rebuilds an agent from a source record r
   whose network now has k output-layer parameters and whose lambda now is l. *)
Outcome(r, k, l, out) ==
  CASE out = "reinit" -> Fresh(k, l)
    [] out = "carry"  -> [r EXCEPT !.layer = k, !.lam = l]
Allowed(r, k, l, out) == out = "reinit" \/ (out = "carry" /\ r.dim = k /\ r.lam = l)

\* any mutation; an architecture mutation may change the number of output-layer parameters to k,
\* a hyper-parameter mutation may change lambda to l
Mutate(a, kind, k, l, out) ==
  /\ Live(ag[a]) /\ kind \in MutKinds /\ k \in 1..MaxDim
  /\ kind # "arch" => k = ag[a].layer
  /\ kind # "hp" => l = ag[a].lam
  /\ Allowed(ag[a], k, l, out)
  /\ ag' = [ag EXCEPT ![a] = Outcome(ag[a], k, l, out)]
  /\ UNCHANGED fs /\ Step
  /\ act' = [op |-> "mutate", a |-> a, kind |-> kind, out |-> out]

\* clone / load(path) -> new agent / load_checkpoint(path) into an existing agent.  k is the number of
\* output-layer parameters of the rebuilt network (the model checker takes the source's, a clone or a
\* reloaded agent having the network of its source; that is the business of other properties).
\* A clone / a reloaded agent has the lambda of its source.
Clone(a, c, k, out) ==
  /\ Live(ag[a]) /\ c # a /\ k \in 1..MaxDim
  /\ Allowed(ag[a], k, ag[a].lam, out)
  /\ ag' = [ag EXCEPT ![c] = Outcome(ag[a], k, ag[a].lam, out)]
  /\ UNCHANGED fs /\ Step
  /\ act' = [op |-> "clone", a |-> a, c |-> c, out |-> out]

Save(a, f) ==
  /\ Live(ag[a])
  /\ fs' = [fs EXCEPT ![f] = ag[a]]
  /\ UNCHANGED ag /\ Step
  /\ act' = [op |-> "save", a |-> a, f |-> f, out |-> "carry"]

LoadNew(f, c, k, out) ==
  /\ Live(fs[f]) /\ k \in 1..MaxDim
  /\ Allowed(fs[f], k, fs[f].lam, out)
  /\ ag' = [ag EXCEPT ![c] = Outcome(fs[f], k, fs[f].lam, out)]
  /\ UNCHANGED fs /\ Step
  /\ act' = [op |-> "loadnew", f |-> f, c |-> c, out |-> out]
LoadInto(f, a, k, out) ==
  /\ Live(fs[f]) /\ Live(ag[a]) /\ k \in 1..MaxDim
  /\ Allowed(fs[f], k, fs[f].lam, out)
  /\ ag' = [ag EXCEPT ![a] = Outcome(fs[f], k, fs[f].lam, out)]
  /\ UNCHANGED fs /\ Step
  /\ act' = [op |-> "loadinto", f |-> f, a |-> a, out |-> out]

Outs == {"reinit", "carry"}
CreateAny  == \E a \in Slots, k \in 1..MaxDim, l \in LamChoices : Create(a, k, l)
DecideAny  == \E a \in Slots : Live(ag[a]) /\ \E g \in Feats(ag[a].dim) : Decide(a, g)
LearnAny   == \E a \in Slots : Learn(a)
TestAny    == \E a \in Slots : Test(a)
MutateAny  == \E a \in Slots, kind \in Kinds, k \in 1..MaxDim, out \in Outs :
                 Live(ag[a]) /\ \E l \in (IF kind = "hp" THEN LamChoices \cup {ag[a].lam} ELSE {ag[a].lam}) : Mutate(a, kind, k, l, out)
CloneAny   == \E a, c \in Slots, out \in Outs : Live(ag[a]) /\ Clone(a, c, ag[a].layer, out)
SaveAny    == \E a \in Slots, f \in Files : Save(a, f)
LoadNewAny == \E f \in Files, c \in Slots, out \in Outs : Live(fs[f]) /\ LoadNew(f, c, fs[f].layer, out)
LoadIntoAny == \E f \in Files, a \in Slots, out \in Outs : Live(fs[f]) /\ LoadInto(f, a, fs[f].layer, out)
Next == CreateAny \/ DecideAny \/ LearnAny \/ TestAny \/ MutateAny \/ CloneAny \/ SaveAny \/ LoadNewAny \/ LoadIntoAny
Spec == Init /\ [][Next]_vars

--------------------------------------------------------------------------------
(* Properties (C19).  They are stated for every matrix that exists: live agents and checkpoints. *)
Recs == {ag[a] : a \in {a \in Slots : Live(ag[a])}} \cup {fs[f] : f \in {f \in Files : Live(fs[f])}}

\* G is lambda I plus the outer products of the features counted since the matrix was initialised
GramDefOf(r) == r.M = MatAdd(Idm(r.dim, r.lam[1]), MatScale(BagGram(r.hist, r.dim), r.lam[2], r.dim), r.dim)
\* S G = I exactly:  (N/D)(M/Ld) = I  <=>  N M = (D Ld) I
IsInverseOf(r) == r.D > 0 /\ MatMul(r.N, r.M, r.dim) = Idm(r.dim, r.D * r.lam[2])
SymmetricOf(r) == \A i, j \in 1..r.dim : r.N[i][j] = r.N[j][i]
\* leading principal minors of S > 0 (D > 0, so those of N)
Minor(A, m) == CASE m = 1 -> A[1][1]
                 [] m = 2 -> A[1][1] * A[2][2] - A[1][2] * A[2][1]
                 [] m = 3 -> A[1][1] * (A[2][2] * A[3][3] - A[2][3] * A[3][2])
                           - A[1][2] * (A[2][1] * A[3][3] - A[2][3] * A[3][1])
                           + A[1][3] * (A[2][1] * A[3][2] - A[2][2] * A[3][1])
PosDefOf(r) == \A m \in 1..r.dim : Minor(r.N, m) > 0
\* exploration bonus gamma * sqrt(g^T S g) is defined for every arm
BonusOf(r, g) == Quad(r.N, g, r.dim) >= 0
LowestTermsOf(r) == GcdMat(r.N, r.dim, r.dim, r.D) = 1

GramDef         == \A r \in Recs : GramDefOf(r)
IsInverse       == \A r \in Recs : IsInverseOf(r)
Symmetric       == \A r \in Recs : SymmetricOf(r)
PosDef          == \A r \in Recs : PosDefOf(r)
BonusNonNeg     == \A r \in Recs : \A g \in Feats(r.dim) : BonusOf(r, g)
DimFollowsLayer == \A r \in Recs : r.dim = r.layer /\ DOMAIN r.N = 1..r.dim /\ DOMAIN r.M = 1..r.dim
LowestTerms     == \A r \in Recs : LowestTermsOf(r)
\* a decision touches the deciding agent only; every other operation leaves all other agents alone
Ownership == [][ \A s \in Slots : (s # (IF "c" \in DOMAIN act' THEN act'.c ELSE act'.a)) => ag'[s] = ag[s] ]_vars
\* a freshly initialised matrix is (1/lambda) I of the size of the output layer, lambda being the agent's own
InitScale == [][ \A s \in Slots : (act'.out \in {"init", "reinit"} /\ s = (IF "c" \in DOMAIN act' THEN act'.c ELSE act'.a))
                    => ag'[s].N = Idm(ag'[s].layer, ag'[s].lam[2]) /\ ag'[s].D = ag'[s].lam[1] /\ ag'[s].hist = {} ]_vars
\* lambda is positive and only a hyper-parameter mutation / a load from a checkpoint changes the lambda of an existing agent
LamPositive == \A r \in Recs : r.lam[1] > 0 /\ r.lam[2] > 0
LamStable == [][ \A s \in Slots : (Live(ag[s]) /\ Live(ag'[s]) /\ ag'[s].lam # ag[s].lam)
                    => (act'.op \in {"clone", "loadnew", "loadinto"} \/ (act'.op = "mutate" /\ act'.kind = "hp")) ]_vars

Bound == nops <= MaxOps /\ \A r \in Recs : BagCount(r.hist) <= (IF r.dim <= 2 THEN MaxDec ELSE MaxDecHi)
================================================================================
