SPECIFICATION Spec
CONSTANTS
  ClientAssumptions = {"no_retry_when_wedged"}
  NW = 3
  EpLen <- MCEpLen3
  MaxCalls = 3
  MaxFaults = 2
  FaultKinds = {"raise"}
  ExcTypes = {"ValueError", "KeyError"}
  Timeouts = {"none", "finite", "terminate"}
INVARIANT ErrorTypeOK
INVARIANT CloseNeverRaises
INVARIANT NoWorkerLeft
INVARIANT StepEquivalence
PROPERTY MisuseRejected
PROPERTY TimeoutIsTimeout
PROPERTY SlotIsolation
CHECK_DEADLOCK TRUE
