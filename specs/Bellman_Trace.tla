------------------------------ MODULE Bellman_Trace ------------------------------
(* Trace validation of the real learn() of the value-based learners against Bellman.tla (C08).     *)
(* cfg = [algo, mode, g2, n (agents), nsl, nal (local states / actions per agent)]                 *)
(* Event "loss" = what one learner (the single agent, or agent l of MADDPG / MATD3) computed in    *)
(*   one learn() call on tabular networks:                                                         *)
(*   tab   [q1, q2, t1, t2] value tables of this learner over joint states x joint actions (1/2)   *)
(*   mus   target actor of every agent (local state -> local action)                               *)
(*   rows  the batch as the driver built it: [sl, al, s2l (per agent), r, d (of this learner)]      *)
(*   qe    per critic the online values that entered the criterion (hook on agent.criterion), 1/4  *)
(*   y     per critic the targets that entered the criterion, units 1/4                            *)
(*   lossN value returned by learn() for this learner, units 1/(16 B)  (999999 = off grid)         *)
(*   mse   sum of the criterion outputs, same units (CQN: the returned loss adds a regulariser)    *)
(* Event "diff" = differential DoneMasks run on the real default networks: two identically seeded  *)
(*   agents learn from batches differing only in next_obs of the rows in `pert`:                   *)
(*   d (done flag per row, for this learner), same_loss, same_w (every weight of the learner's     *)
(*   networks equal after the step; bit-equal, for RainbowDQN up to float32 rounding of the mass   *)
(*   of the target distribution -- see vfw/drive/bellman.py run_diff)                              *)
EXTENDS Bellman, Json, IOUtils, TLCExt
CONSTANT Diag
Traces == JsonDeserialize(IOEnv.TRACE_FILE)
VARIABLES tid, l
tvars == <<vars, tid, l>>
T  == Traces[tid]
C  == T.cfg
Ev == T.ev[l]
Check(name, c) == IF c THEN TRUE ELSE (Diag /\ PrintT(<<"FAILCLAUSE", tid, l, name>>) /\ FALSE)

TInit == tid \in 1..Len(Traces) /\ l = 1 /\ Idle

JNS == Pow(C.nsl, C.n)
JNA == Pow(C.nal, C.n)
EvTab == [q1 |-> Ev.tab.q1, q2 |-> Ev.tab.q2, t1 |-> Ev.tab.t1, t2 |-> Ev.tab.t2, mu |-> JointMu(Ev.mus, C.nsl, C.nal)]
EvBatch == [i \in 1..Len(Ev.rows) |->
             [s |-> JIdx(Ev.rows[i].sl, C.nsl), a |-> JIdx(Ev.rows[i].al, C.nal), r |-> Ev.rows[i].r,
              s2 |-> JIdx(Ev.rows[i].s2l, C.nsl), d |-> Ev.rows[i].d]]
NCrit == IF C.mode = "actormin" THEN 2 ELSE 1

TCall ==
  /\ l <= Len(T.ev) /\ Ev.op = "loss" /\ phase \in {"idle", "done"}
  /\ Check("Raises: learn returns without raising", Ev.exc = "")
  /\ Check("Shape: one criterion call per critic on (B,1) columns", Len(Ev.qe) = NCrit /\ Len(Ev.y) = NCrit /\ Ev.shape_ok)
  /\ Call(C.mode, JNS, JNA, C.g2, EvTab, EvBatch)
  /\ UNCHANGED <<tid, l>>

TMicro == (Target \/ AccRow) /\ UNCHANGED <<tid, l>>

TFinish ==
  /\ Finish
  /\ Check("QEval: the online value entering the loss is Q(s,a) of the stored state and action",
           \A c \in 1..NCrit : \A i \in 1..B : Ev.qe[c][i] = QEval(c, batch[i]))
  /\ Check("DoneMasks: the target of a transition marked done is its reward",
           \A c \in 1..NCrit : \A i \in 1..B : batch[i].d = 1 => Ev.y[c][i] = 4 * batch[i].r)
  /\ Check("Bootstraps: y = r + gamma (1 - done) V(target network, next state)",
           \A c \in 1..NCrit : \A i \in 1..B : batch[i].d = 0 => Ev.y[c][i] = y[i])
  /\ Check("Loss: the minimised quantity is the mean squared distance to the target",
           IF C.regularised = 1 THEN Ev.mse = acc ELSE Ev.lossN = acc)
  /\ l' = l + 1
  /\ UNCHANGED tid

\* differential form of DoneMasks on the real networks (nothing to compute: the specification's DoneMasks
\* says the results are equal whenever the perturbed rows are all done)
TDiff ==
  /\ l <= Len(T.ev) /\ Ev.op = "diff" /\ phase \in {"idle", "done"}
  /\ Check("Raises: learn returns without raising", Ev.exc = "")
  /\ LET onlyDone == \A i \in 1..Len(Ev.pert) : Ev.d[Ev.pert[i]] = 1 IN
       /\ Check("DoneMasks: next_obs of rows marked done does not influence the loss", onlyDone => Ev.same_loss)
       /\ Check("DoneMasks: next_obs of rows marked done does not influence the updated weights", onlyDone => Ev.same_w)
       /\ Check("Bootstraps: next_obs of a row not marked done influences the update (gamma > 0)",
                (~onlyDone /\ C.g2 > 0) => ~(Ev.same_loss /\ Ev.same_w))
  /\ l' = l + 1
  /\ UNCHANGED <<vars, tid>>

TAccept == /\ l = Len(T.ev) + 1 /\ phase \in {"idle", "done"} /\ PrintT(<<"ACCEPT", tid>>) /\ l' = l + 1 /\ UNCHANGED <<vars, tid>>
TNext == TCall \/ TMicro \/ TFinish \/ TDiff \/ TAccept
TSpec == TInit /\ [][TNext]_tvars
================================================================================
