--------------------------------- MODULE Evo_MC ---------------------------------
(* Model-checking instance of Evo.tla: ideal constructors for the views (what a     *)
(* correct implementation produces), so that TLC explores every operation sequence  *)
(* up to the bound and checks that the relational predicates used for trace        *)
(* validation are mutually consistent and imply the user-level invariants.          *)
EXTENDS Evo
MCShapeDQN == [K |-> 2, M |-> 1, H |-> 2, shadow |-> <<0, 1>>, covers |-> <<{1}>>, lrhp |-> <<1>>,
               hpnames |-> <<"lr", "batch_size">>, policy |-> 1, resync |-> TRUE]
MCShapeAC  == [K |-> 4, M |-> 2, H |-> 2, shadow |-> <<0, 0, 1, 2>>, covers |-> <<{1}, {2}>>, lrhp |-> <<1, 2>>,
               hpnames |-> <<"lr_actor", "lr_critic">>, policy |-> 1, resync |-> FALSE]

Fresh(k) == 1000 + nops * 50 + k                 \* ids never seen before (nops grows with every action)
TT(n) == [i \in 1..n |-> TRUE]
NewView(idx) ==
  LET wv == [n \in Nets |-> IF Shape.shadow[n] = 0 THEN Fresh(n) ELSE Fresh(Shape.shadow[n])] IN
  [idx |-> idx, mut |-> "None", hp |-> [h \in 1..H |-> h], arch |-> [n \in Nets |-> 1], acfg |-> [n \in Nets |-> 1],
   w |-> wv, opt |-> [o \in Opts |-> 7], coherent |-> TT(M), lrok |-> TT(M),
   steps |-> 1, scores |-> 1, fitness |-> 1, aux |-> 1, greedy |-> Fresh(20)]
GreedyOf(wp, ar, dflt) == IF \E m \in actMemo : m.w = wp /\ m.arch = ar
                            THEN (CHOOSE m \in actMemo : m.w = wp /\ m.arch = ar).g ELSE dflt
IdealLearn(p, b) ==
  IF \E m \in learnMemo : m.pre = TrainKey(p) /\ m.b = b
    THEN LET m == CHOOSE m \in learnMemo : m.pre = TrainKey(p) /\ m.b = b IN
         [p EXCEPT !.w = m.post.w, !.opt = m.post.opt, !.greedy = GreedyOf(m.post.w[Shape.policy], p.arch[Shape.policy], Fresh(21))]
    ELSE [p EXCEPT !.w = [n \in Nets |-> IF n \in Trained \/ Shape.shadow[n] # 0 THEN Fresh(n) ELSE p.w[n]],
                   !.opt = [o \in Opts |-> Fresh(10 + o)], !.greedy = Fresh(21)]
Resync(v) == [v EXCEPT !.w = [n \in Nets |-> IF Shape.shadow[n] # 0 THEN v.w[Shape.shadow[n]] ELSE v.w[n]]]
IdealMutate(p, k, h) ==
  CASE k = "none"  -> Resync([p EXCEPT !.mut = "None"])
    [] k = "arch"  -> Resync([p EXCEPT !.mut = "add_node", !.arch = [n \in Nets |-> Fresh(30)], !.acfg = [n \in Nets |-> Fresh(32)],
                                       !.w = [n \in Nets |-> Fresh(n)], !.opt = [o \in Opts |-> 7], !.greedy = Fresh(22)])
    [] k = "param" -> Resync([p EXCEPT !.mut = "param", !.w = [p.w EXCEPT ![Shape.policy] = Fresh(1)],
                                       !.opt = [o \in Opts |-> 7], !.greedy = Fresh(22)])
    [] k = "act"   -> Resync([p EXCEPT !.mut = "act", !.arch = [n \in Nets |-> Fresh(31)], !.acfg = [n \in Nets |-> Fresh(33)], !.opt = [o \in Opts |-> 7], !.greedy = Fresh(22)])
    [] k = "hp"    -> Resync([p EXCEPT !.mut = Shape.hpnames[h], !.hp = [p.hp EXCEPT ![h] = Fresh(40)]])
NewCells == {Fresh(1), Fresh(2)}
FreeIdx == CHOOSE i \in 0..(NSlots * 4) : \A s \in Live : slots[s].idx # i

MCCreate  == \E s \in 1..NSlots : slots[s] = Nil /\ Live = {} /\ Create(s, NewView(FreeIdx), NewCells)
MCClone   == \E a \in Live, c \in 1..NSlots :
                LET p == slots[a] IN
                \E rs \in (IF Shape.resync THEN {TRUE, FALSE} ELSE {FALSE}) :
                   Clone(a, c, IF rs THEN Resync([p EXCEPT !.idx = FreeIdx]) ELSE [p EXCEPT !.idx = FreeIdx], NewCells)
MCLearn   == \E a \in Live, b \in 1..NBatches : Learn(a, b, IdealLearn(slots[a], b))
MCMutate  == \E a \in Live, k \in MutKinds, h \in 1..H : Mutate(a, k, h, IdealMutate(slots[a], k, h))
MCSave    == \E a \in Live, f \in 1..NFiles : Save(a, f)
MCLoadNew == \E f \in 1..NFiles, c \in 1..NSlots :
                files[f] # Nil /\ (\A s \in Live : slots[s].idx # files[f].idx) /\ LoadNew(f, c, files[f], NewCells)
MCLoadInto == \E f \in 1..NFiles, a \in Live :
                files[f] # Nil /\ (\A s \in Live \ {a} : slots[s].idx # files[f].idx) /\ LoadInto(f, a, files[f])
MCDiscard == \E a \in Live : Cardinality(Live) > 1 /\ Discard(a)
MCInit == /\ slots = [s \in 1..NSlots |-> Nil] /\ files = [f \in 1..NFiles |-> Nil]
          /\ learnMemo = {} /\ actMemo = {} /\ own = [s \in 1..NSlots |-> {}]
          /\ nops = 0 /\ act = [op |-> "init", a |-> 0]
MCNext == MCCreate \/ MCClone \/ MCLearn \/ MCMutate \/ MCSave \/ MCLoadNew \/ MCLoadInto \/ MCDiscard
MCSpec == MCInit /\ [][MCNext]_vars
\* C07 at design level: a restored agent and the original, fed the same batch, reach the same weights
ContinueEqual == \A s, t \in Live : TrainKey(slots[s]) = TrainKey(slots[t]) =>
                    \A b \in 1..NBatches : TrainKey(IdealLearn(slots[s], b)).arch = TrainKey(IdealLearn(slots[t], b)).arch
================================================================================
