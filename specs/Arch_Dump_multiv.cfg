INIT Init
NEXT Next
CONSTANTS
  Cfg <- MCMultiV
  Inits <- MCMultiVInits
ACTION_CONSTRAINT Dump
INVARIANT DumpInit
VIEW core
CHECK_DEADLOCK FALSE
