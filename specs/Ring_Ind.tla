------------------------------ MODULE Ring_Ind ------------------------------
(***************************************************************************)
(* Unbounded-history argument for Ring.tla (property C09), for Apalache.   *)
(* Same Add / Clear as Ring.tla (two-slice write), typed, with the slot    *)
(* array padded to CapMax so that its domain is constant.  `added` and     *)
(* `base` are unbounded integers: IndInv is shown inductive               *)
(*   Init => IndInv,  IndInv /\ Next => IndInv',  IndInv => Safety          *)
(* for every capacity 1..CapMax and histories of ANY length, which TLC's   *)
(* bounded exploration (MaxAdded) cannot give.  Weak (IndInv without the   *)
(* Layout clause) is the negative control: it does not imply Safety.       *)
(***************************************************************************)
EXTENDS Integers, Sequences, FiniteSets, Apalache
CONSTANT
  \* @type: Int;
  CapMax
VARIABLES
  \* @type: Int;
  N,
  \* @type: Int -> Int;
  store,
  \* @type: Int;
  cursor,
  \* @type: Int;
  size,
  \* @type: Int;
  added,
  \* @type: Int;
  base

Min(a, b) == IF a <= b THEN a ELSE b
Slots == 0..(CapMax - 1)

Add(w) ==
  /\ w \in 1..CapMax /\ w <= N
  /\ LET end == cursor + w
         n   == N - cursor
     IN  store' = [i \in Slots |->
                     IF i >= N THEN 0 ELSE
                     IF end > N
                       THEN IF i >= cursor THEN added + (i - cursor + 1)
                            ELSE IF i < w - n THEN added + (n + i + 1)
                            ELSE store[i]
                       ELSE IF i >= cursor /\ i < end THEN added + (i - cursor + 1)
                            ELSE store[i]]
  /\ cursor' = (cursor + w) % N
  /\ size' = Min(size + w, N)
  /\ added' = added + w
  /\ UNCHANGED <<N, base>>

Clear ==
  /\ store' = [i \in Slots |-> 0]
  /\ cursor' = 0 /\ size' = 0 /\ base' = added
  /\ UNCHANGED <<N, added>>

Next == (\E w \in 1..CapMax : Add(w)) \/ Clear

Init ==
  /\ N \in 1..CapMax
  /\ store = [i \in Slots |-> 0]
  /\ cursor = 0 /\ size = 0 /\ added = 0 /\ base = 0

LenOK == size = Min(N, added - base)
\* the k-th most recent transition sits k slots behind the cursor
Layout == \A k \in 1..CapMax : k <= size => store[(cursor - k + CapMax * N) % N] = added - k + 1
ContentsOK == \A i \in Slots : i < size => (store[i] >= added - size + 1 /\ store[i] <= added)
NoDup == \A i, j \in Slots : (i < size /\ j < size /\ i # j) => store[i] # store[j]

IndInv ==
  /\ N \in 1..CapMax /\ cursor \in 0..(CapMax - 1) /\ size \in 0..CapMax /\ base \in Nat /\ added \in Nat
  /\ store \in [Slots -> Int]
  /\ cursor < N /\ size <= N /\ base <= added
  /\ LenOK
  /\ (size < N => cursor = size)
  /\ Layout
CI4 == CapMax = 4
CI6 == CapMax = 6
CI8 == CapMax = 8
Weak ==
  /\ N \in 1..CapMax /\ cursor \in 0..(CapMax - 1) /\ size \in 0..CapMax /\ base \in Nat /\ added \in Nat
  /\ store \in [Slots -> Int]
  /\ cursor < N /\ size <= N /\ base <= added
  /\ LenOK
  /\ (size < N => cursor = size)
Safety == LenOK /\ ContentsOK /\ NoDup
=============================================================================
