INIT Init
NEXT NextNoMask
CONSTANTS
  Shapes <- MCShapesQ
  Gs = {1}
INVARIANT DoneMasks
VIEW core
CHECK_DEADLOCK FALSE
