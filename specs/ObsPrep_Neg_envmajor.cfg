SPECIFICATION Spec
CONSTANTS
  Cases <- MCCasesQ
  MACases <- MCMACasesQ
  Variant = "envmajor"
INVARIANT LeadingBatch
INVARIANT OneHotDef
INVARIANT MultiOneHotDef
INVARIANT ScaleDef
INVARIANT BatchConsistency
INVARIANT MemberWise
INVARIANT VectDef
INVARIANT HomoRowMap
INVARIANT RoundTrip
INVARIANT CriticMap
INVARIANT Total
CHECK_DEADLOCK FALSE
