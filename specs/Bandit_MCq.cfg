SPECIFICATION Spec
CONSTANTS
  NSlots = 1
  NFiles = 0
  MaxDim = 3
  Lams <- MCLamsQ
  ValsLo <- MCLo
  ValsHi <- MCHi
  Kinds = {"arch", "param"}
  MaxDec = 4
  MaxDecHi = 2
  MaxOps = 100
  Hetero = FALSE
INVARIANT GramDef
INVARIANT IsInverse
INVARIANT Symmetric
INVARIANT PosDef
INVARIANT BonusNonNeg
INVARIANT DimFollowsLayer
INVARIANT LowestTerms
PROPERTY Ownership
PROPERTY InitScale
INVARIANT LamPositive
PROPERTY LamStable
CONSTRAINT Bound
VIEW core
CHECK_DEADLOCK FALSE
