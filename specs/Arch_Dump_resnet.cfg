INIT Init
NEXT Next
CONSTANTS
  Cfg <- MCResnet
  Inits <- MCResnetInits
ACTION_CONSTRAINT Dump
INVARIANT DumpInit
VIEW core
CHECK_DEADLOCK FALSE
