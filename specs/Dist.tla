---------------------------------- MODULE Dist ----------------------------------
(***************************************************************************)
(* Stochastic policies report the true log-probability and entropy of      *)
(* their actions -- property C16.                                          *)
(*                                                                         *)
(* Two machines with disjoint variables live in this module.               *)
(*                                                                         *)
(* KERNEL (variables kvars): exact-arithmetic transcription of             *)
(*   agilerl.networks.distributions.EvolvableDistribution.forward /        *)
(*   TorchDistribution.{sample, log_prob} for one row of the batch.        *)
(*   Discrete families.  The network outputs one flat logit vector; the    *)
(*   input of the case is the pmf it encodes, p[j]/PDen (logit = ln p),    *)
(*   and a flat 0/1 mask of the same layout.                               *)
(*     "disc"  Discrete(n):        one component, nvec = <<n>>             *)
(*     "multi" MultiDiscrete(nvec): the flat vector is split in nvec order,*)
(*                                 component c owns entries Off(c)+1 ..    *)
(*                                 Off(c)+nvec[c]                          *)
(*     "bits"  MultiBinary(n):     nvec = <<n>>; entry c is P(bit c = 1)   *)
(*                                 (logit = ln p/(1-p)); component c has   *)
(*                                 the two outcomes 0, 1; the mask acts on *)
(*                                 outcome 1 (its logit is replaced)       *)
(*   ApplyMask  = torch.where(mask, logits, -1e8)  (weight p*m)            *)
(*   Normalise  = Categorical / Bernoulli normalisation (weight / total)   *)
(*   Sample     = an outcome of non-zero weight per component              *)
(*   EvalArg    = log_prob of an arbitrary stored action                   *)
(*   AccComp(c) = torch.stack([...]).sum(dim=1): one component at a time   *)
(*   The reported probability is the rational rn/rd.                       *)
(*   Box family.  Normal(mu, exp(log_std)) with mu[i]/4 and                *)
(*   log_std[i] = ks[i] ln 2.  The action is mu + 2^ks * eps with          *)
(*   eps[i] = e[i]/2 (the scripted draw of Sample, or a stored action of   *)
(*   EvalArg); act is kept in units of 1/4.  The spec yields the rational  *)
(*   quadratic form  Q = qn/128 = sum (a-mu)^2 / (2 * 4^ks)  and the       *)
(*   integer  K = kk = sum ks;  log-density = -Q - K ln 2 - (d/2) ln 2pi   *)
(*   (evaluated by the harness: one transcendental constant).              *)
(*   The property's clauses are stated on the input, independently of the  *)
(*   recursion: MassOne, MaskedZero, ProductOverComponents, Support,       *)
(*   BoxQuadratic.                                                         *)
(*                                                                         *)
(* HISTORY (variables hvars): any action space, also tanh-squashed.        *)
(*   The log-probability is a term of (weights, observation, action) only. *)
(*   HSample(o)   forward pass on o: draws an action, reports its value,   *)
(*                the (o, action) pair is stored in the rollout            *)
(*   HEval(o, a)  re-evaluation of a stored pair (a forward pass on o,     *)
(*                whose own draw s is discarded, then log_prob(a))         *)
(*   HLearn       the weights change                                       *)
(*   memo records every reported value with its key (w, o, a);             *)
(*   EvalIsFunctionOfArgument: equal keys carry equal values.              *)
(*   Impl = "arg" is the specification; Impl = "cached" (the density is    *)
(*   evaluated at the draw of the last forward pass instead of the         *)
(*   argument) is the negative control of Dist_Negh.cfg.                   *)
(***************************************************************************)
EXTENDS Integers, Sequences, FiniteSets, TLC

CONSTANTS Shapes,        \* kernel input grids explored by KInit (records, see Dist_MC.tla)
          PDen,          \* denominator of the probabilities of the discrete families
          HObs, HActs,   \* history machine: observation ids, action ids
          HMaxW,         \* ... number of learn steps explored
          Impl           \* "arg" | "cached"

VARIABLES inp,           \* the case: [fam, nvec, p, m] or [fam |-> "box", nvec |-> <<d>>, mu, ks, e]
          mw, tot,       \* per component: weights after the mask (seq over outcomes 0..), their total
          act, mode,     \* the action (outcome per component, 0-based / 1/4 units for box), "sample" | "eval"
          kc,            \* next component / dimension to accumulate
          rn, rd,        \* reported probability rn/rd (discrete families)
          qn, kk,        \* reported quadratic form qn/128 and sum of log2(std) (box)
          phase          \* "idle" | "init" | "masked" | "dist" | "acc" | "done"
VARIABLES w,             \* version of the policy's weights
          stored,        \* set of <<o, a>>: the rollout
          last,          \* draw of the last forward pass
          memo,          \* set of [w, o, a, v]
          hact
kvars == <<inp, mw, tot, act, mode, kc, rn, rd, qn, kk, phase>>
hvars == <<w, stored, last, memo, hact>>
hcore == <<w, stored, last, memo>>
vars  == <<kvars, hvars>>

RECURSIVE SumTo(_, _)
SumTo(f, n) == IF n = 0 THEN 0 ELSE f[n] + SumTo(f, n - 1)          \* f[1] + ... + f[n]
RECURSIVE Pow(_, _)
Pow(x, e) == IF e = 0 THEN 1 ELSE x * Pow(x, e - 1)

---------------------------------------------------------------------------
(* Layout of the flat network output                                       *)
Discrete(i)   == i.fam \in {"disc", "multi", "bits"}
NComp(i)      == IF i.fam = "multi" THEN Len(i.nvec) ELSE IF i.fam = "disc" THEN 1 ELSE i.nvec[1]
Size(i, c)    == IF i.fam = "bits" THEN 2 ELSE i.nvec[c]
Off(i, c)     == IF i.fam = "bits" THEN c - 1 ELSE SumTo(i.nvec, c - 1)
Width(i)      == IF i.fam = "bits" THEN i.nvec[1] ELSE SumTo(i.nvec, Len(i.nvec))
\* unmasked weight (numerator over PDen) and mask bit of outcome x (0-based) of component c
PW(i, c, x)   == IF i.fam = "bits" THEN (IF x = 1 THEN i.p[c] ELSE PDen - i.p[c]) ELSE i.p[Off(i, c) + x + 1]
MK(i, c, x)   == IF i.fam = "bits" THEN (IF x = 1 THEN i.m[c] ELSE 1) ELSE i.m[Off(i, c) + x + 1]
Outcomes(i, c) == 0..(Size(i, c) - 1)
AllActs(i)    == { a \in [1..NComp(i) -> 0..4] : \A c \in 1..NComp(i) : a[c] \in Outcomes(i, c) }

---------------------------------------------------------------------------
(* The property's definition, on the input                                 *)
RECURSIVE SumOut(_, _, _)
\* sum over outcomes 0..x of component c of p*m
SumOut(i, c, x) == IF x < 0 THEN 0 ELSE PW(i, c, x) * MK(i, c, x) + SumOut(i, c, x - 1)
MaskedNum(i, c, x) == PW(i, c, x) * MK(i, c, x)                   \* Masked(p_c, m_c)(x) = MaskedNum / MaskedDen
MaskedDen(i, c)    == SumOut(i, c, Size(i, c) - 1)
RECURSIVE JointNumTo(_, _, _)
JointNumTo(i, a, c) == IF c = 0 THEN 1 ELSE MaskedNum(i, c, a[c]) * JointNumTo(i, a, c - 1)
RECURSIVE JointDenTo(_, _)
JointDenTo(i, c)    == IF c = 0 THEN 1 ELSE MaskedDen(i, c) * JointDenTo(i, c - 1)
JointNum(i, a) == JointNumTo(i, a, NComp(i))                      \* P(action a) = JointNum / JointDen
JointDen(i)    == JointDenTo(i, NComp(i))
RECURSIVE SumSet(_, _)
SumSet(S, i) == IF S = {} THEN 0 ELSE LET a == CHOOSE x \in S : TRUE IN JointNum(i, a) + SumSet(S \ {a}, i)
Legal(i, a)  == \A c \in 1..NComp(i) : MK(i, c, a[c]) = 1
\* box: a = mu + 2^ks * e/2 in units of 1/4 ;  (a-mu)^2 / (2 * 4^ks) in units of 1/128
BoxAct(i, d)  == i.mu[d] + i.e[d] * Pow(2, i.ks[d] + 1)
BoxTerm(i, a, d) == (a[d] - i.mu[d]) * (a[d] - i.mu[d]) * Pow(4, 1 - i.ks[d])
RECURSIVE BoxQnTo(_, _, _)
BoxQnTo(i, a, d) == IF d = 0 THEN 0 ELSE BoxTerm(i, a, d) + BoxQnTo(i, a, d - 1)
RECURSIVE SqTo(_, _)
SqTo(e, d)    == IF d = 0 THEN 0 ELSE e[d] * e[d] + SqTo(e, d - 1)

---------------------------------------------------------------------------
(* Kernel machine                                                          *)
KIdle == /\ inp = [fam |-> "none"] /\ mw = <<>> /\ tot = <<>> /\ act = <<>> /\ mode = "" /\ kc = 0
         /\ rn = 0 /\ rd = 0 /\ qn = 0 /\ kk = 0 /\ phase = "idle"
KInitWith(i) == /\ inp = i /\ mw = <<>> /\ tot = <<>> /\ act = <<>> /\ mode = "" /\ kc = 0
                /\ rn = 0 /\ rd = 0 /\ qn = 0 /\ kk = 0 /\ phase = "init"

\* input grids
SliceSum(f, i, c) == SumTo([x \in 1..Size(i, c) |-> f[Off(i, c) + x]], Size(i, c))
DiscInputs(s) ==
  LET i0 == [fam |-> s.fam, nvec |-> s.nvec]
      wd == Width(i0)
  IN IF s.fam = "bits"
     THEN { [fam |-> s.fam, nvec |-> s.nvec, p |-> pp, m |-> mm] : pp \in [1..wd -> s.pvals], mm \in [1..wd -> {0, 1}] }
     ELSE { [fam |-> s.fam, nvec |-> s.nvec, p |-> pp, m |-> mm] :
              pp \in { q \in [1..wd -> s.pvals] : \A c \in 1..NComp(i0) : SliceSum(q, i0, c) = PDen },
              mm \in { q \in [1..wd -> {0, 1}] : \A c \in 1..NComp(i0) : SliceSum(q, i0, c) >= 1 } }
BoxInputs(s) == { [fam |-> "box", nvec |-> <<s.d>>, mu |-> u, ks |-> k, e |-> ee] :
                    u \in [1..s.d -> s.mus], k \in [1..s.d -> s.kset], ee \in [1..s.d -> s.es] }
Inputs(s) == IF s.fam = "box" THEN BoxInputs(s) ELSE DiscInputs(s)
KInit == \E s \in Shapes : \E i \in Inputs(s) : KInitWith(i)

ApplyMask ==
  /\ phase = "init" /\ Discrete(inp)
  /\ mw' = [c \in 1..NComp(inp) |-> [x \in 1..Size(inp, c) |-> PW(inp, c, x - 1) * MK(inp, c, x - 1)]]
  /\ phase' = "masked"
  /\ UNCHANGED <<inp, tot, act, mode, kc, rn, rd, qn, kk>>

Normalise ==
  /\ phase = "masked"
  /\ tot' = [c \in 1..NComp(inp) |-> SumTo(mw[c], Size(inp, c))]
  /\ phase' = "dist"
  /\ UNCHANGED <<inp, mw, act, mode, kc, rn, rd, qn, kk>>

BoxDist ==
  /\ phase = "init" /\ inp.fam = "box"
  /\ phase' = "dist"
  /\ UNCHANGED <<inp, mw, tot, act, mode, kc, rn, rd, qn, kk>>

Start(a, md) ==
  /\ act' = a /\ mode' = md /\ kc' = 1 /\ rn' = 1 /\ rd' = 1 /\ qn' = 0 /\ kk' = 0 /\ phase' = "acc"
  /\ UNCHANGED <<inp, mw, tot>>

\* dist.sample(): every component draws an outcome of non-zero weight
Sample ==
  /\ phase = "dist" /\ Discrete(inp)
  /\ \E a \in AllActs(inp) : (\A c \in 1..NComp(inp) : mw[c][a[c] + 1] > 0) /\ Start(a, "sample")
\* dist.log_prob(stored action): any element of the action space
EvalArg ==
  /\ phase = "dist" /\ Discrete(inp)
  /\ \E a \in AllActs(inp) : Start(a, "eval")
\* box: the draw mu + std * eps (Sample) / the same point handed in as a stored action (EvalArg)
BoxPoint(md) ==
  /\ phase = "dist" /\ inp.fam = "box"
  /\ Start([d \in 1..inp.nvec[1] |-> BoxAct(inp, d)], md)

AccComp ==
  /\ phase = "acc" /\ Discrete(inp) /\ kc <= NComp(inp)
  /\ rn' = rn * mw[kc][act[kc] + 1]
  /\ rd' = rd * tot[kc]
  /\ kc' = kc + 1
  /\ UNCHANGED <<inp, mw, tot, act, mode, qn, kk, phase>>

AccDim ==
  /\ phase = "acc" /\ inp.fam = "box" /\ kc <= inp.nvec[1]
  /\ qn' = qn + BoxTerm(inp, act, kc)
  /\ kk' = kk + inp.ks[kc]
  /\ kc' = kc + 1
  /\ UNCHANGED <<inp, mw, tot, act, mode, rn, rd, phase>>

Finish ==
  /\ phase = "acc" /\ kc = (IF inp.fam = "box" THEN inp.nvec[1] ELSE NComp(inp)) + 1
  /\ phase' = "done"
  /\ UNCHANGED <<inp, mw, tot, act, mode, kc, rn, rd, qn, kk>>

KNext == ApplyMask \/ Normalise \/ BoxDist \/ Sample \/ EvalArg \/ BoxPoint("sample") \/ BoxPoint("eval")
         \/ AccComp \/ AccDim \/ Finish

---------------------------------------------------------------------------
(* Kernel invariants                                                       *)
HasDist == phase \in {"dist", "acc", "done"} /\ Discrete(inp)
KTypeOK == /\ phase \in {"idle", "init", "masked", "dist", "acc", "done"}
           /\ mode \in {"", "sample", "eval"}
           /\ HasDist => (DOMAIN mw = 1..NComp(inp) /\ DOMAIN tot = 1..NComp(inp))
\* every component is a probability distribution and so is the joint distribution
AtDist == phase = "dist" /\ Discrete(inp)       \* statements about the distribution: evaluated once per case
MassOne == AtDist =>
  /\ \A c \in 1..NComp(inp) : tot[c] > 0 /\ tot[c] = MaskedDen(inp, c)
                              /\ \A x \in Outcomes(inp, c) : mw[c][x + 1] = MaskedNum(inp, c, x)
  /\ SumSet(AllActs(inp), inp) = JointDen(inp)
DistFrozen == [][(phase \in {"dist", "acc"}) => UNCHANGED <<inp, mw, tot>>]_vars
\* masked actions have zero probability; legal actions of positive network probability have positive probability
MaskedZero == AtDist =>
  \A a \in AllActs(inp) : /\ ~Legal(inp, a) => JointNum(inp, a) = 0
                          /\ (Legal(inp, a) /\ \A c \in 1..NComp(inp) : PW(inp, c, a[c]) > 0) => JointNum(inp, a) > 0
\* the reported probability is the product of the components' masked probabilities, and the joint
\* distribution has the components as its marginals (independent components, split in nvec order)
ProductOverComponents ==
  /\ (phase = "done" /\ Discrete(inp)) => rn * JointDen(inp) = JointNum(inp, act) * rd
  /\ AtDist =>
        \A c \in 1..NComp(inp) : \A x \in Outcomes(inp, c) :
           SumSet({a \in AllActs(inp) : a[c] = x}, inp) * MaskedDen(inp, c) = MaskedNum(inp, c, x) * JointDen(inp)
\* the action returned lies in the support
Support == (Discrete(inp) /\ mode = "sample" /\ phase \in {"acc", "done"}) => JointNum(inp, act) > 0 /\ Legal(inp, act)
\* box: the quadratic form is the sum over the dimensions; at mu + std*eps it is |eps|^2 / 2
BoxQuadratic == (phase = "done" /\ inp.fam = "box") =>
  /\ qn = BoxQnTo(inp, act, inp.nvec[1])
  /\ qn = 16 * SqTo(inp.e, inp.nvec[1])
  /\ kk = SumTo(inp.ks, inp.nvec[1])

---------------------------------------------------------------------------
(* History machine                                                         *)
HIdle == /\ w = 0 /\ stored = {} /\ last = 0 /\ memo = {} /\ hact = [op |-> "idle"]
HInit == /\ w = 0 /\ stored = {} /\ last = 0 /\ memo = {} /\ hact = [op |-> "init"]
Term(ww, o, a) == <<"LP", ww, o, a>>
Used(a, s) == IF Impl = "cached" THEN s ELSE a           \* the point at which the density is evaluated
\* forward pass on o drawing a; the value v is reported for (w, o, a)
HSample(o, a, v) ==
  /\ memo' = memo \cup {[w |-> w, o |-> o, a |-> a, v |-> v]}
  /\ stored' = stored \cup {<<o, a>>}
  /\ last' = a
  /\ hact' = [op |-> "sample", o |-> o, a |-> a]
  /\ UNCHANGED w
\* re-evaluation of the stored pair (o, a); the forward pass draws s
HEval(o, a, s, v) ==
  /\ <<o, a>> \in stored
  /\ memo' = memo \cup {[w |-> w, o |-> o, a |-> a, v |-> v]}
  /\ last' = s
  /\ hact' = [op |-> "eval", o |-> o, a |-> a]
  /\ UNCHANGED <<w, stored>>
HLearn(nw) ==
  /\ nw # w
  /\ w' = nw
  /\ hact' = [op |-> "learn"]
  /\ UNCHANGED <<stored, last, memo>>

\* equal (weights, observation, action) => equal reported log-probability
EvalIsFunctionOfArgument == \A m1, m2 \in memo : (m1.w = m2.w /\ m1.o = m2.o /\ m1.a = m2.a) => m1.v = m2.v
\* in the abstract machine the value is the term of its own key
ValueOfArgument == \A r \in memo : r.v = Term(r.w, r.o, r.a)
HTypeOK == /\ w \in 0..HMaxW /\ stored \subseteq (HObs \X HActs)

---------------------------------------------------------------------------
InitK == KInit /\ HIdle
KApplyMask == ApplyMask /\ UNCHANGED hvars
KNormalise == Normalise /\ UNCHANGED hvars
KBoxDist   == BoxDist /\ UNCHANGED hvars
KSample    == (Sample \/ BoxPoint("sample")) /\ UNCHANGED hvars
KEvalArg   == (EvalArg \/ BoxPoint("eval")) /\ UNCHANGED hvars
KAccComp   == AccComp /\ UNCHANGED hvars
KAccDim    == AccDim /\ UNCHANGED hvars
KFinish    == Finish /\ UNCHANGED hvars
NextK == KApplyMask \/ KNormalise \/ KBoxDist \/ KSample \/ KEvalArg \/ KAccComp \/ KAccDim \/ KFinish
SpecK == InitK /\ [][NextK]_vars
InitH == KIdle /\ HInit
MSample == (\E o \in HObs, a \in HActs : HSample(o, a, Term(w, o, a))) /\ UNCHANGED kvars
MEval   == (\E o \in HObs, a \in HActs, s \in HActs : HEval(o, a, s, Term(w, o, Used(a, s)))) /\ UNCHANGED kvars
MLearn  == (w < HMaxW /\ HLearn(w + 1)) /\ UNCHANGED kvars
NextH == MSample \/ MEval \/ MLearn
SpecH == InitH /\ [][NextH]_vars
================================================================================
