SPECIFICATION FairSpec
CONSTANTS
  ClientAssumptions = {"no_retry_when_wedged"}
  NW = 2
  EpLen <- MCEpLen
  MaxCalls = 3
  MaxFaults = 1
  FaultKinds = {"raise", "kill"}
  ExcTypes = {"ValueError"}
  Timeouts = {"none", "finite"}
PROPERTY NoHang
CHECK_DEADLOCK TRUE
