----------------------------- MODULE Arch_Trace -----------------------------
(* Validation of mutation steps observed on the REAL AgileRL modules and networks (C03, C04).    *)
(*                                                                                               *)
(* A trace is a chain of steps of one walk (edge replay of the dumped relation on small bounds,  *)
(* or a long seeded random walk with the default bounds).  Its configuration T.cfg.c is the      *)
(* Arch configuration record derived from the real object's declared bounds; T.cfg.prop says     *)
(* which property's clauses are evaluated.  Every event carries                                  *)
(*   pre, post   architecture projected from the constructor description before / after         *)
(*   m, applied  method called (getattr(net, m)) and last_mutation_attr afterwards               *)
(*   adv         mutation_methods advertised in the pre-state                                    *)
(*   raised      text of the exception the call raised ("" if none)                              *)
(*   spre, spost name -> shape of every real parameter tensor before / after                     *)
(*   kept        name -> number of cells inside the common index range that still carry the      *)
(*               value (unique code) the same cell had before the mutation                       *)
(*   norm        names the harness classifies as normalisation parameters (only selects which    *)
(*               clause reports a loss; every surviving tensor must keep its cells)              *)
(*   ob          implementation-side obligations measured on the post-state:                     *)
(*               rebuild  rebuilt = type(m) called with m.init_dict; rebuilt.load_state_dict(.., strict) *)
(*               forward  batches of 1..3 observations -> finite outputs of the declared shape   *)
(*               samefn   outputs on 3 probe batches bit-equal before / after                    *)
(*               clone    clone() reproduces the outputs bit-exactly on 3 probe batches          *)
(* TLC decides whether (pre, m, post) is a step of Arch (Succ), whether `applied' is the method  *)
(* that really ran, the bounds, the feature maps, that the real tensors are Shapes(post) and     *)
(* that kept = Common(pre, post).                                                                *)
EXTENDS Arch, Json, IOUtils, TLCExt
CONSTANT Diag
NoCfg == [kind |-> "none"]
NoInits == {}
Traces == JsonDeserialize(IOEnv.TRACE_FILE)
VARIABLES tid, l
tvars == <<vars, tid, l>>
T  == Traces[tid]
Ev == T.ev[l]
C  == T.cfg.c
Check(name, c) == IF c THEN TRUE ELSE (Diag /\ PrintT(<<"FAILCLAUSE", tid, l, name>>) /\ FALSE)

SameTable(S, J) == DOMAIN S = DOMAIN J /\ \A n \in DOMAIN S : S[n] = J[n]
Allowed == { r \in Succ(C, Ev.pre, Ev.m) : r.arch = Ev.post }
IsNorm(n) == n \in Rng(Ev.norm)

C03Clauses ==
  /\ Check("the walk is a chain: the step starts where the last one ended", Ev.pre = arch)
  /\ Check("the architecture before the step is well formed", ArchOK(C, Ev.pre))
  /\ Check("every mutation method of the configuration is advertised", Methods(C) \subseteq Rng(Ev.adv))
  /\ Check("only mutation methods of the configuration are advertised", Rng(Ev.adv) \subseteq AllMethods(C))
  /\ Check("the called method was advertised", Ev.m \in Rng(Ev.adv))
  /\ Check("the mutation returns without raising", Ev.raised = "")
  /\ Check("the constructor description changed only in the way the method advertises (or its documented fall-back, or not at all when a bound stops it)",
           Allowed # {})
  /\ Check("last_mutation_attr names the method that was really applied", \E r \in Allowed : r.applied = Ev.applied)
  /\ Check("layers, nodes, channels, blocks and latent width stay inside the declared bounds", InBoundsOf(C, Ev.pre) => InBoundsOf(C, Ev.post))
  /\ Check("every kernel fits the feature map it is applied to", FMPosOf(C, Ev.post))
  /\ Check("the real parameter tensors are those of the described architecture", SameTable(Shapes(C, Ev.post), Ev.spost))
  /\ Check("the constructor description rebuilds an architecture that accepts the current weights exactly", Ev.ob.rebuild)
  /\ Check("batches of 1..3 observations map to finite outputs of the declared shape", Ev.ob.forward)

C04Clauses ==
  /\ Check("the walk is a chain: the step starts where the last one ended", Ev.pre = arch)
  /\ Check("the real parameter tensors are those of the described architecture (before)", SameTable(Shapes(C, Ev.pre), Ev.spre))
  /\ Check("the real parameter tensors are those of the described architecture (after)", SameTable(Shapes(C, Ev.post), Ev.spost))
  /\ LET K == Common(C, Ev.pre, Ev.post) IN
     /\ Check("no surviving tensor changes rank", SameRank(Shapes(C, Ev.pre), Shapes(C, Ev.post)))
     /\ Check("every surviving weight keeps its value on the index range the two shapes have in common",
              \A n \in DOMAIN K : ~IsNorm(n) => (n \in DOMAIN Ev.kept /\ Ev.kept[n] = K[n]))
     /\ Check("an unchanged architecture computes exactly the same function", (Ev.post = Ev.pre) => Ev.ob.samefn)
     /\ Check("the clone reproduces the outputs bit-exactly", Ev.ob.clone)
     /\ Check("normalisation weights whose shape did not change keep their values",
              \A n \in DOMAIN K : (IsNorm(n) /\ Shapes(C, Ev.pre)[n] = Shapes(C, Ev.post)[n]) => (n \in DOMAIN Ev.kept /\ Ev.kept[n] = K[n]))
     /\ Check("every surviving normalisation weight keeps its value on the common index range",
              \A n \in DOMAIN K : IsNorm(n) => (n \in DOMAIN Ev.kept /\ Ev.kept[n] = K[n]))

\* steps C04 does not judge: the call raised, or it is not a step of the specification, or the code itself reports
\* another applied method than the specification allows (all C03's business): consumed without clauses
C04Skip == Ev.raised # "" \/ ~(\E r \in Allowed : r.applied = Ev.applied)

TInit == /\ tid \in 1..Len(Traces) /\ l = 1
         /\ arch = Traces[tid].ev[1].pre
         /\ act = [m |-> "init", applied |-> "init", args |-> [l |-> 0, k |-> 0, s |-> 0]]
TStep == /\ l <= Len(T.ev)
         /\ IF T.cfg.prop = "C03" THEN C03Clauses
            ELSE IF Ev.clone_failed THEN Check("the clone reproduces the outputs bit-exactly", FALSE)   \* clone() itself failed
            ELSE IF C04Skip THEN TRUE ELSE C04Clauses
         /\ arch' = Ev.post
         /\ act' = [m |-> Ev.m, applied |-> Ev.applied, args |-> [l |-> 0, k |-> 0, s |-> 0]]
         /\ l' = l + 1 /\ UNCHANGED tid
TAccept == /\ l = Len(T.ev) + 1 /\ PrintT(<<"ACCEPT", tid>>) /\ l' = l + 1 /\ UNCHANGED <<vars, tid>>
TNext == TStep \/ TAccept
TSpec == TInit /\ [][TNext]_tvars
================================================================================
