SPECIFICATION Spec
CONSTANTS
  Shapes <- MCShapes3
  Gs = {0, 1, 2}
INVARIANT TypeOK
INVARIANT NoTies
INVARIANT DoneMasks
INVARIANT DoneMasksRow
INVARIANT TerminalIsReward
INVARIANT Bootstraps
INVARIANT LossDef
INVARIANT PartialLoss
INVARIANT ZeroIffBellman
PROPERTY Frozen
CONSTRAINT Bound
VIEW core
CHECK_DEADLOCK FALSE
