INIT Init
NEXT NextNoSample
CONSTANTS
  Caps = {1,2,3,4}
  MaxAdded = 10
CONSTRAINT Bound
ACTION_CONSTRAINT Dump
INVARIANT DumpInit
VIEW core
CHECK_DEADLOCK FALSE
