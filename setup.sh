#!/bin/sh
# Offline setup: nothing to build (TLA+ specs are interpreted by TLC, the harness is pure Python).
# Verifies that the tools the checks need are present and that every spec parses.
set -e
cd "$(dirname "$0")"
command -v java >/dev/null
test -f /opt/veriftools/tla/tla2tools.jar
/venv/bin/python -c "import torch, numpy, tensordict" 
mkdir -p evidence replays
chmod +x check
echo "setup ok"
