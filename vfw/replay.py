"""Generic --replay: re-validate a recorded counterexample.

A replay file written by Ctx.finish holds the violation signature and, for a rejected trace, the recorded
execution of the real code (events with projected states) together with the trace-spec module and cfg.  Replaying
feeds exactly that execution to TLC again in diagnostic mode and prints, step by step, the failing clause(s); for a
TLC counterexample of a model-checking run it prints TLC's behaviour.  (Re-executing the real code is done by the
check itself: the trace carries the operation script / scenario in its cfg.)"""
from __future__ import annotations

import json

from . import trace as trace_mod


def generic_replay(path: str) -> int:
    d = json.load(open(path))
    print(f"property={d['property']} signature={d['signature']}")
    print(f"what: {d['what'][:2000]}")
    r = d.get("replay") or {}
    if r.get("kind") == "rejected-trace" and r.get("cfg_text"):
        trace_mod.WRAPPER = tuple(r["wrapper"]) if r.get("wrapper") else None
        try:
            v = trace_mod.validate(r["module"], r["cfg_text"], [r["trace"]])[0]
        finally:
            trace_mod.WRAPPER = None
        print(f"re-validation by TLC ({r['module']}): accepted={v.accepted} step={v.step} clauses={v.clauses} invariant={v.invariant}")
        for i, e in enumerate(r["trace"]["ev"][:max(v.step, 1)], start=1):
            es = json.dumps({k: x for k, x in e.items() if k not in ("cells", "post")})[:300]
            print(f"  event {i}: {es}")
        return 0 if v.accepted else 1
    if r.get("kind") == "tlc-counterexample":
        print(r.get("text", "")[:6000])
        return 1
    print(json.dumps(r)[:4000])
    return 1
