"""Projection of a real AgileRL agent onto the abstract state of specs/Evo.tla.

Everything is read through public attributes: registry (network groups, optimizers, hp_config), the
evolvable attributes themselves, scores / fitness / steps / index / mut.  Tensors are fingerprinted
(SHA-256 of their bytes); the trace builder turns fingerprints into small integers (equal fingerprint
<=> equal id) so that the TLA+ side only compares identities.
"""
from __future__ import annotations

import hashlib
import json

import numpy as np
import torch


def _h(*parts) -> str:
    m = hashlib.sha256()
    for p in parts:
        if isinstance(p, torch.Tensor):
            t = p.detach().cpu().contiguous()
            m.update(str(t.dtype).encode() + str(tuple(t.shape)).encode())
            m.update(t.numpy().tobytes() if t.dtype != torch.bfloat16 else t.float().numpy().tobytes())
        elif isinstance(p, np.ndarray):
            m.update(str(p.dtype).encode() + str(p.shape).encode() + np.ascontiguousarray(p).tobytes())
        else:
            m.update(repr(p).encode())
    return m.hexdigest()[:16]


def _jsonable(x):
    if isinstance(x, dict):
        return {str(k): _jsonable(v) for k, v in sorted(x.items(), key=lambda kv: str(kv[0]))}
    if isinstance(x, (list, tuple)):
        return [_jsonable(v) for v in x]
    if isinstance(x, (int, float, str, bool)) or x is None:
        return x
    if isinstance(x, np.ndarray):
        return ["nd", x.tolist()]
    if isinstance(x, torch.Tensor):
        return ["t", x.tolist()]
    return repr(x) if not hasattr(x, "__dict__") else type(x).__name__ + ":" + repr(_jsonable({k: v for k, v in vars(x).items() if not k.startswith("_")}))


def _mods(agent, name):
    obj = getattr(agent, name)
    return list(obj) if isinstance(obj, list) else [obj]


def net_names(agent):
    """(eval names, shared names per eval) in registry order."""
    groups = agent.registry.groups
    evals = [g.eval for g in groups]
    shared = {g.eval: ([] if g.shared is None else ([g.shared] if isinstance(g.shared, str) else list(g.shared))) for g in groups}
    return evals, shared


def all_tensors(mod):
    """name -> tensor for every parameter, buffer and plain tensor attribute reachable through submodules
    (functional targets installed with TensorDict.to_module keep their weights as plain attributes)."""
    out = {}
    for mname, m in mod.named_modules():
        pre = mname + "." if mname else ""
        for k, v in m._parameters.items():
            if v is not None:
                out[pre + k] = v
        for k, v in m._buffers.items():
            if v is not None:
                out[pre + k] = v
        for k, v in vars(m).items():
            if isinstance(v, torch.Tensor) and not k.startswith("_") and (pre + k) not in out:
                out[pre + k] = v
    return out


def w_hash(mod) -> str:
    ts = all_tensors(mod)
    return _h(*[x for k in sorted(ts) for x in (k, ts[k])])


def arch_hash(mod) -> str:
    """Structural signature of the module as built: class of every submodule and name/shape of every
    tensor (layers, nodes, channels, kernels, activations). Independent of how init_dict spells it."""
    parts = []
    for mname, m in mod.named_modules():
        parts.append((mname, type(m).__name__))
    for k, t in sorted(all_tensors(mod).items()):
        parts.append((k, tuple(t.shape)))
    return _h(json.dumps(parts))


_LAYER_KEYS = ("hidden_size", "channel_size", "kernel_size", "stride_size", "num_layers", "num_blocks", "latent_dim", "activation",
               "encoder_config", "head_config", "cnn_config", "mlp_config", "lstm_config", "init_dicts")


def layer_cfg(mod):
    """The part of a network's constructor description that architecture / activation mutations change (layers, nodes,
    channels, kernels, blocks, latent width, hidden activation) -- without input / output sizes, so that an actor and the
    critics trained alongside it can be compared: equal before a mutation => equal after it."""
    def keep(x):
        if isinstance(x, dict):
            return {str(k): keep(v) for k, v in sorted(x.items(), key=lambda kv: str(kv[0])) if k in _LAYER_KEYS or not isinstance(k, str) or k not in _ALL_CFG_KEYS}
        if isinstance(x, (list, tuple)):
            return [keep(v) for v in x]
        if hasattr(x, "__dataclass_fields__"):
            return keep({k: getattr(x, k) for k in x.__dataclass_fields__})
        if isinstance(x, np.integer):
            return int(x)
        if isinstance(x, np.floating):
            return float(x)
        return x if isinstance(x, (int, float, str, bool)) or x is None else repr(type(x).__name__)
    try:
        d = mod.init_dict
    except Exception:                                            # noqa: BLE001
        return None
    return keep({k: v for k, v in d.items() if k in _LAYER_KEYS})


# configuration keys that are NOT part of the layer configuration (sizes of inputs / outputs, bounds, switches)
_ALL_CFG_KEYS = {"num_inputs", "num_outputs", "input_shape", "input_size", "observation_space", "action_space", "device", "name",
                 "output_activation", "min_hidden_layers", "max_hidden_layers", "min_mlp_nodes", "max_mlp_nodes", "min_channel_size",
                 "max_channel_size", "layer_norm", "output_layernorm", "output_vanish", "init_layers", "noisy", "noise_std", "new_gelu",
                 "sample_input", "block_type", "support", "num_atoms", "n_agents", "min_latent_dim", "max_latent_dim", "vector_space_mlp",
                 "min_layers", "max_layers", "min_blocks", "max_blocks", "scale_factor", "dropout", "rainbow", "arch", "random_seed",
                 "squash_output", "action_std_init", "use_experimental_distribution", "clip_actions", "normalize_actions", "std_init",
                 "encoder_cls", "encoder_name", "output_coeff", "std_coeff"}


def opt_list(agent, name):
    w = getattr(agent, name)
    o = w.optimizer
    return list(o) if isinstance(o, list) else [o]


def snapshot(agent, probe=None, greedy_fn=None):
    """dict with fingerprints (strings), plain values and pointer sets."""
    evals, shared = net_names(agent)
    nets = {}
    ptrs = set()
    for e in evals:
        for nm in [e] + shared[e]:
            ms = _mods(agent, nm)
            cfgs = [layer_cfg(m) for m in ms]
            nets[nm] = {"arch": _h(*[arch_hash(m) for m in ms]), "w": _h(*[w_hash(m) for m in ms]),
                        "cfg": (_h(json.dumps(cfgs, sort_keys=True, default=str)) if all(c is not None for c in cfgs) else "nocfg:" + nm),
                        "n": len(ms), "empty": all(len(m.state_dict()) == 0 for m in ms)}
            for m in ms:
                for t in all_tensors(m).values():
                    if t.numel() > 0:
                        ptrs.add(("weight", t.data_ptr()))
    opts = {}
    for cfg in agent.registry.optimizers:
        name = cfg.name
        ol = opt_list(agent, name)
        wrapper = getattr(agent, name)
        sd = [o.state_dict() for o in ol]
        st_parts = []
        for s in sd:
            for pid in sorted(s["state"]):
                for k in sorted(s["state"][pid]):
                    st_parts += [pid, k, s["state"][pid][k]]
        lrs = [float(g["lr"]) for o in ol for g in o.param_groups]
        # coherent: the optimizer's parameter objects are exactly the current parameters of its networks
        covered = wrapper.network_names
        cur = []
        for nm in covered:
            for m in _mods(agent, nm):
                cur += [id(p) for p in m.parameters()]
        have = [id(p) for o in ol for g in o.param_groups for p in g["params"]]
        coherent = sorted(cur) == sorted(have)
        for o in ol:
            for st in o.state.values():
                for v in st.values():
                    if isinstance(v, torch.Tensor) and v.numel() > 0:
                        ptrs.add(("optstate", v.data_ptr()))
        opts[name] = {"state": _h(*st_parts), "fresh": len(st_parts) == 0, "lrs": lrs, "lr_name": cfg.lr,
                      "lr_attr": float(getattr(agent, cfg.lr)), "coherent": bool(coherent), "covers": list(covered)}
    hp = {}
    for n in agent.registry.hp_config.names():
        hp[n] = getattr(agent, n)
    for cfg in agent.registry.optimizers:
        hp.setdefault(cfg.lr, getattr(agent, cfg.lr))
    for k in ("batch_size", "learn_step", "gamma", "tau"):
        if hasattr(agent, k):
            hp.setdefault(k, getattr(agent, k))
    ranges = {n: [p.min, p.max, p.shrink_factor, p.grow_factor, p.dtype.__name__] for n, p in agent.registry.hp_config.items()}
    for attr in ("scores", "fitness", "steps"):
        ptrs.add(("list:" + attr, id(getattr(agent, attr))))
    ptrs.add(("hp_config", id(agent.registry.hp_config)))
    for n, p in agent.registry.hp_config.items():
        ptrs.add(("rlparam:" + n, id(p)))
    aux = {k: v for k, v in vars(getattr(agent, "agent", agent)).items() if isinstance(v, torch.Tensor) and not k.startswith("_")}
    # agent wrappers (RSNorm): running statistics
    def _rms(prefix, o):
        if o is None:
            return
        if isinstance(o, dict):
            for k, v in o.items():
                _rms(f"{prefix}.{k}", v)
        elif isinstance(o, (tuple, list)):
            for i, v in enumerate(o):
                _rms(f"{prefix}.{i}", v)
        elif hasattr(o, "mean") and hasattr(o, "var") and hasattr(o, "count"):
            for k in ("mean", "var", "count"):
                t = getattr(o, k)
                aux[f"{prefix}.{k}"] = t
                if isinstance(t, torch.Tensor) and t.numel() > 0:
                    ptrs.add(("rms", t.data_ptr()))
    if "obs_rms" in vars(agent):
        _rms("obs_rms", vars(agent)["obs_rms"])
    out = {"aux": _h(*[x for k in sorted(aux) for x in (k, aux[k])]), "algo": agent.algo, "index": int(agent.index), "mut": agent.mut if agent.mut is None else str(agent.mut),
           "hp": {k: (int(v) if isinstance(v, (int, np.integer)) and not isinstance(v, bool) else float(v)) for k, v in hp.items()},
           "ranges": ranges, "nets": nets, "opts": opts,
           "steps": list(agent.steps), "scores": [float(x) for x in agent.scores], "fitness": [float(x) for x in agent.fitness],
           "ptrs": ptrs}
    if greedy_fn is not None:
        out["greedy"] = greedy_fn(agent)
    return out


class Ids:
    """fingerprint / value -> small integer (equal value <=> equal id), per trace."""

    def __init__(self):
        self.tab = {}

    def __call__(self, kind, v):
        key = (kind, json.dumps(v, sort_keys=True, default=str))
        if key not in self.tab:
            self.tab[key] = len(self.tab) + 1
        return self.tab[key]
