from __future__ import annotations

import argparse
import importlib
import os
import sys
import traceback

from .core import Ctx, Vacuous
from .tlc import TLCError


def main(argv=None) -> int:
    ap = argparse.ArgumentParser()
    ap.add_argument("pid")
    ap.add_argument("--tier", default=os.environ.get("VERIF_TIER", "quick"), choices=["quick", "thorough"])
    ap.add_argument("--replay", default=None)
    a = ap.parse_args(argv)
    seed = int(os.environ.get("VERIF_SEED", "0") or 0)
    pid = a.pid.upper()
    try:
        mod = importlib.import_module(f"vfw.props.{pid.lower()}")
    except ModuleNotFoundError as e:
        print(f"no check for {pid}: {e}", file=sys.stderr)
        return 2
    if a.replay:
        if hasattr(mod, "replay"):
            return int(mod.replay(a.replay) or 0)
        from .replay import generic_replay
        return generic_replay(a.replay)
    ctx = Ctx(pid, a.tier, seed)
    try:
        level, rule, exhaustive = mod.run(ctx)
        return ctx.finish(level, rule, exhaustive)
    except (TLCError, Vacuous) as e:
        print(f"MACHINERY-FAILURE {pid}: {e}", file=sys.stderr)
        return 2
    except Exception:
        traceback.print_exc()
        print(f"MACHINERY-FAILURE {pid}: unexpected exception in the harness", file=sys.stderr)
        return 2


if __name__ == "__main__":
    sys.exit(main())
