"""C16 -- stochastic policies report the true log-probability and entropy of their actions.

M1  Dist_MC(.cfg|t.cfg): kernel machine of Dist.tla -- exact rational transcription of EvolvableDistribution.forward /
    TorchDistribution.{sample, log_prob} for one row (mask -> normalise -> sample / evaluate a stored action -> one
    component at a time), on the whole grid: Discrete(2..4), MultiDiscrete([2,3],[3,2],[2,2,2],[3],...), MultiBinary(1..3),
    probabilities in 1/8, every mask with a legal outcome per component; Box(1..3) with mu in 1/4, log_std = k ln 2,
    eps in 1/2.  Invariants MassOne, MaskedZero, ProductOverComponents (product and marginals), Support, BoxQuadratic.
    Dist_MCh.cfg: history machine (Sample / Eval(stored) / Learn, memo) with EvalIsFunctionOfArgument; Dist_Negh.cfg is
    the negative control (density evaluated at the cached draw instead of the argument) and must violate it.
M2  Dist_Dump(q).cfg: TLC prints every case with the masked component pmfs and the probability of every joint action
    (Box: the point, the quadratic form qn/128 and K).  Every case is replayed into the REAL StochasticActor, PPO
    (get_action, evaluate_actions, learn) and IPPO (get_action, learn) with the wrapped head network stubbed by
    logits = ln p / mu; exp(log_prob) is compared with the rational (1e-6 relative), the entropy with -sum p ln p of
    the masked component pmfs, sampled actions are looked up in the support, stored actions inside learn() are observed
    through a spy on actor.action_log_prob.  Squashed actors: log_prob = Normal(atanh a) - sum log(1 - a^2 + 1e-6) with
    the Normal part from the specification's rational quadratic form.
    Varied along the replay (audit of the quantifier's dimensions): the batch size of every call (1 .. 32; PPO and IPPO also
    with un-batched observations of a non-vectorised environment), the container / dtype of the mask (None, int64 / int8 / bool /
    float32 arrays, the object array of per-environment masks of gymnasium's vector environments, torch bool / integer tensors;
    IPPO: arrays of these dtypes or lists inside the info dictionaries), training / evaluation mode, the key order of every
    dictionary handed to IPPO (observations, infos, the eight components of the experience tuple), a heterogeneous IPPO
    population (level IPPO-hetero: a second policy group with another action space and without masks, its member interleaved in
    agent_ids), the layout of the roll-out given to learn() (vectorised (T, E) and the non-vectorised layout of the training
    loops; minibatches of 64 / 6 / 7 rows; one or two epochs), fresh policies / policies as the last mutation of a
    clone-and-mutate history left them / the clone taken right after that mutation, MultiDiscrete components with a single outcome.
M3  real, unstubbed networks of every family (with and without squash_output; PPO and IPPO with unit and non-unit
    bounds): get_action / evaluate_actions / learn sequences recorded (one event per row: ids of weights fingerprint,
    observation, action, reported value) and validated by TLC against Dist_Trace (memo: EvalIsFunctionOfArgument).
"""
from __future__ import annotations

import collections
import json
import time

from .. import tlc
from ..core import Vacuous

TRACE_CFG = """SPECIFICATION TSpec
CONSTANTS
  Shapes = {}
  PDen = 8
  HObs = {}
  HActs = {}
  HMaxW = 0
  Impl = "arg"
  Diag = @DIAG@
INVARIANT EvalIsFunctionOfArgument
CHECK_DEADLOCK FALSE
"""

HIST_KEYS = [("disc", (3,)), ("disc", (2,)), ("multi", (2, 3)), ("multi", (3,)), ("multi", (2, 2, 2)), ("multi", (1, 2)), ("bits", (3,)), ("bits", (1,)),
             ("box", (1,)), ("box", (2,)), ("box", (3,))]


def sig(t, v):
    cl = (v.clauses[0] if v.clauses else v.invariant).split(":")[0]
    via = v.event.get("via", "") if isinstance(v.event, dict) else ""
    if cl == "Raises" and isinstance(v.event, dict):
        cl = f"Raises[{v.event.get('exc', '').split(':')[0]}]"
    c = t["cfg"]
    return f"dist:{c['level']}:{c['shape']}:history:{via or 'trace'}:{cl}"


def what(t, v):
    c = t["cfg"]
    ev = v.event if isinstance(v.event, dict) else {}
    first = next((e for e in t["ev"][:max(v.step - 1, 0)] if e["op"] in ("sample", "eval") and e["w"] == ev.get("w") and e["o"] == ev.get("o")
                  and e["a"] == ev.get("a")), None)
    return (f"{c['level']} policy over {c['shape']} (seed {c['seed']}, batch_size {c.get('batch_size')}): trace rejected at event {v.step}: "
            f"{v.clauses or v.invariant}; event={ev}; earlier event with the same (weights, observation, action): {first}")


def _case_key(level, shape, c):
    if c["fam"] == "box":
        return (level, shape, str(c["mu"]), str(c["ks"]), str(c["e"]))
    return (level, shape, str(c["p"]), str(c["m"]))


def _nontrivial(c):
    return c["fam"] == "box" or len(c["comps"]) > 1 or not all(x == 1 for x in c["m"])


def run(ctx):
    import torch

    from ..drive import dist

    torch.set_num_threads(1)
    quick = ctx.quick
    ctx.mc("Dist_MC", "Dist_MC.cfg" if quick else "Dist_MCt.cfg",
           must_cover=["KApplyMask", "KNormalise", "KBoxDist", "KSample", "KEvalArg", "KAccComp", "KAccDim", "KFinish"], timeout=3000)
    ctx.mc("Dist_MC", "Dist_MCh.cfg", must_cover=["MSample", "MEval", "MLearn"])
    neg = tlc.model_check("Dist_MC", "Dist_Negh.cfg")
    if neg.ok or neg.violated_name != "EvalIsFunctionOfArgument":
        raise Vacuous(f"negative control Dist_Negh.cfg (density evaluated at the cached draw) does not violate EvalIsFunctionOfArgument: {neg.violated_name!r}")
    ctx.extra["negative_control"] = {"cfg": "Dist_Negh.cfg", "violated": neg.violated_name, "distinct_states": neg.distinct}

    # ---- M2: every dumped case into the real code
    r = tlc.dump("Dist_MC", "Dist_Dumpq.cfg" if quick else "Dist_Dump.cfg", heap="8g")
    cases = r.tagged.get("CASE", [])
    if len(cases) < 1000 or not all(isinstance(c, dict) for c in cases[:50]):
        raise tlc.TLCError(f"dump produced {len(cases)} cases")
    ctx.extra["dump_cases"] = len(cases)
    ctx.extra["dump_states"] = r.distinct
    by = collections.defaultdict(list)
    for c in cases:
        by[dist.shape_key(c)].append(c)
    stats = collections.Counter()
    fails = []
    walls = collections.Counter()
    for key, cs in sorted(by.items()):
        def make(ev):
            return ([dist.BoxKernel(key[1][0], ctx.seed, squash=False, evolved=ev), dist.BoxKernel(key[1][0], ctx.seed, squash=True, evolved=ev)]
                    if key[0] == "box" else [dist.DiscKernel(key, ctx.seed, evolved=ev)])
        # fresh policies; the same policies after a clone-and-mutate history (latent / head / encoder mutations through the HPO code)
        # as the last mutation left them (True) and as the clone taken right after it ("cloned")
        for ev in (False, True, "cloned"):
            for k in make(ev):
                kcs = cs
                if ev and quick:
                    kcs = cs[(ctx.seed % 3)::3] if ev is True else cs[((ctx.seed + 1) % 6)::6]
                for level in ("actor", "ppo", "ippo", "ippo-hetero"):
                    lcs = kcs
                    t0 = time.time()
                    if level == "ippo-hetero":
                        # a second policy group with another action space, members interleaved in agent_ids
                        if quick and ev:
                            continue
                        if quick:
                            lcs = kcs[(ctx.seed % 4)::4]
                        k.run_ippo(lcs, hetero=True)
                    else:
                        getattr(k, "run_" + level)(lcs)
                    walls[level] += time.time() - t0
                    for c in lcs:
                        ctx.case(_case_key(level, k.shape, c), nontrivial=_nontrivial(c))
                stats.update(k.stats)
                fails += k.fails
                for s in getattr(k, "samples", [])[:1]:
                    ctx.sample(s)
    ctx.extra["kernel_wall_s"] = {k: round(v, 1) for k, v in walls.items()}
    ctx.extra["kernel_replay"] = dict(stats)
    ctx.extra["ppo_share_encoders"] = dist.INFO.get("ppo_share_encoders")
    if stats["rows"] < 10000:
        raise Vacuous(f"kernel replay compared only {stats['rows']} rows")
    for f in fails:
        ctx.violation(f.signature, f"{f.level} over {f.shape}, {f.path}: {f.clause}: {f.detail}; case={_brief(f.case)}; {f.extra}", f.replay())

    # ---- M3: histories of real networks
    traces = []
    seeds = [ctx.seed] if quick else [ctx.seed + i for i in range(6)]
    for sd in seeds:
        for key in HIST_KEYS:
            for sq in ([False, True] if key[0] == "box" else [False]):
                traces.append(dist.history_actor(key, sq, sd))
                for bounds in (["unit", "wide"] if sq else ["unit"]):
                    for bs in (8, 4):
                        traces.append(dist.history_ppo(key, sq, bounds, sd, bs))
                        traces += dist.history_ippo(key, sq, bounds, sd, bs)
    for t in traces:
        c = t["cfg"]
        ctx.case(("history", c["level"], c["shape"], c["seed"], c.get("batch_size"), c.get("policy")))
    good = next((t for t in traces if t["cfg"]["level"] == "PPO" and t["cfg"]["shape"] == "multi2x3"), traces[0])
    ctx.sample({"history_trace_cfg": good["cfg"], "first_events": good["ev"][:6]})
    n_events = sum(len(t["ev"]) for t in traces)
    ctx.extra["history_events"] = n_events
    ctx.validate("Dist_Trace", TRACE_CFG, traces, sig=sig, what=what, chunk=120)

    ctx.assume("the head network's forward pass is an input of the property: it is stubbed by a table lookup keyed by observation content "
               "(logits = ln p + a per-row constant, ln p/(1-p) for MultiBinary, mu for Box); its value passes unchanged through "
               "`x + (real(latent) - real(latent).detach())` so that learn() can back-propagate")
    ctx.assume("float32: exp(log_prob) is compared with the specification's rational at 1e-6 relative, entropies at 2e-6, Box log-densities at "
               "1e-5 (1 + |value|) plus, for squashed actors, the float32 conditioning of log(1 - a^2 + 1e-6): 3 * 2^-23 / (1 - a^2 + 1e-6) per dimension")
    ctx.assume("Gaussian draws are scripted (torch.normal -> mean + std * eps, eps on the 1/2 grid); log_std is written into the actor's parameter "
               "(k ln 2); -Q - K ln 2 - (d/2) ln 2pi and -sum p ln p are evaluated by the harness in float64 from the specification's integers")
    ctx.assume("every component keeps at least one legal outcome (an all-masked component has no distribution); probabilities are >= 1/8 and "
               "logits are of ordinary magnitude (the -1e8 mask fill against logits below -1e8 is C14's known finding)")
    ctx.assume("masks are handed over as ArrayOrTensor (the declared type) resp., inside IPPO's info dictionaries, as numpy arrays or lists; "
               "a plain Python list passed directly to the actor / PPO.get_action and torch tensors inside info dictionaries are outside "
               "the declared interface and not exercised")
    ctx.assume("IPPO's env_defined_actions / agent masks replace the sampled action by design (the reported log-probability then belongs to "
               "the discarded sample): not exercised")
    ctx.assume("evaluate_actions / learn() take no mask: stored actions are re-evaluated under the unmasked policy, which is what is demanded there "
               "(cases with an all-ones mask); masked re-evaluation is demanded of actor(obs, mask) + actor.action_log_prob only")
    ctx.assume("the numeric value of the tanh-squashed density is not demanded beyond the code's own definition Normal(atanh a) - sum log(1-a^2+1e-6) "
               "(unit bounds; stored actions with |atanh a| <= 1.5); squashed entropies (PPO's -mean(log_prob) surrogate) are not demanded; the "
               "constant Jacobian of the affine rescaling to non-unit bounds is not demanded")
    ctx.assume("Box bounds of un-squashed policies are +-64 so that evaluation-mode clipping never changes a returned action (clipped actions: C14)")
    ctx.assume("history traces: values are identified up to 1e-5 (squashed: 1e-4) relative; squashed rows with |a| > 0.95 are not recorded "
               "(atanh ill conditioned in float32); weights are identified by SHA-256 of the actor's state_dict")
    rule = ("case = (level actor/PPO/IPPO/IPPO-hetero, action-space shape, component pmfs, mask) resp. (mu, log2 std, eps) from TLC's dump -- non-trivial = "
            "masked, several components or Box; plus one case per history trace (level, shape, squash/bounds, seed, batch size, policy)")
    return "model_checking", rule, False


def _brief(c):
    return {k: c[k] for k in ("fam", "nvec", "p", "m", "d", "mu", "ks", "e", "act") if k in c}


def replay(path):
    """./check C16 --replay PATH: re-execute one recorded counterexample against the real code."""
    import torch

    from .. import trace as trace_mod
    from ..drive import dist

    torch.set_num_threads(1)
    d = json.load(open(path))
    rp = d["replay"]
    seed = int(d.get("seed", 0))
    print(f"signature: {d['signature']}")
    if rp.get("kind") == "kernel-case":
        c = rp["case"]
        key = dist.shape_key(c)
        # the case is replayed inside batches of its neighbours in TLC's grid (same shape; Box: same log_std)
        r = tlc.dump("Dist_MC", "Dist_Dumpq.cfg" if d.get("tier", "quick") == "quick" else "Dist_Dump.cfg", heap="8g")
        same = [x for x in r.tagged.get("CASE", []) if dist.shape_key(x) == key and (key[0] != "box" or x["ks"] == c["ks"])]
        i = next((j for j, x in enumerate(same) if _brief(x) == _brief(c)), None)
        if i is None:
            same, i = [c] + same, 0
        lo = max(0, min(i - 30, len(same) - 61))
        cs = same[lo:lo + 61]
        ev = "+evolved" in rp["shape"]
        if ev and rp.get("evolve") == "cloned":
            ev = "cloned"
        k = dist.BoxKernel(key[1][0], seed, squash="+squash" in rp["shape"], evolved=ev) if key[0] == "box" else dist.DiscKernel(key, seed, evolved=ev)
        if rp["level"] == "IPPO-hetero":
            k.run_ippo(cs, hetero=True)
        else:
            getattr(k, "run_" + rp["level"].lower())(cs)
        print(f"case: {_brief(c)}   (replayed with {len(cs) - 1} neighbouring cases of TLC's grid)")
        mine = [f for f in k.fails if _brief(f.case) == _brief(c)]
        hits = [f for f in mine if f.signature == d["signature"]] or [f for f in k.fails if f.signature == d["signature"]]
        for f in (hits or mine)[:5]:
            print(f"  {f.signature}: {f.detail}   case={_brief(f.case)}")
        if hits:
            print("DISAGREES with the specification")
            return 1
        print("the real code agrees with the specification on this case" + (" (other clauses failed)" if mine else ""))
        return 1 if mine else 0
    if rp.get("kind") == "rejected-trace":
        c = rp["trace"]["cfg"]
        shape = c["shape"]
        squash = bool(c["squash"])
        bounds = "wide" if shape.endswith("+wide") else "unit"
        base = shape.split("+")[0]
        fam = "".join(ch for ch in base if ch.isalpha())
        key = (fam, tuple(int(x) for x in base[len(fam):].split("x")))
        if c["level"] == "actor":
            ts = [dist.history_actor(key, squash, c["seed"])]
        elif c["level"] == "PPO":
            ts = [dist.history_ppo(key, squash, bounds, c["seed"], c["batch_size"])]
        else:
            ts = [dist.history_ippo(key, squash, bounds, c["seed"], c["batch_size"])[c.get("policy", 0)]]
        v = trace_mod.validate("Dist_Trace", TRACE_CFG, ts)[0]
        for i, ev in enumerate(ts[0]["ev"], start=1):
            print(i, ev)
        print("reported values (first rows):", ts[0]["cfg"].get("values"))
        print("verdict:", "accepted" if v.accepted else f"rejected at event {v.step}: {v.clauses or v.invariant}")
        return 0 if v.accepted else 1
    print(rp.get("text", rp))
    return 1
