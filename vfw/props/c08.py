"""C08 -- value-based learning uses the Bellman target and really tracks its target network.

Part 1 (specs/Bellman.tla): Y = r + gamma (1 - done) V(target tables, next state), V = max (DQN, CQN), double-Q
(DQN/CQN double=True), critic of the target actor (DDPG, MADDPG joint), min of two target critics (TD3, MATD3 joint);
loss = mean squared distance of Q(s,a) to Y.
M1  Bellman_MC(.cfg|q.cfg|3.cfg): every batch of 2 (3) rows over |S| = |A| = 2, r in {-1,0,1}, done in {0,1},
    gamma in {0,1/2,1}, fixed value tables; invariants DoneMasks, TerminalIsReward, Bootstraps, LossDef, ZeroIffBellman.
M2  Bellman_Dump(q).cfg: TLC prints every case with the targets and the loss the specification demands; the cases are
    replayed into the REAL learn() of DQN, DQN(double), CQN, CQN(double), DDPG, TD3 built with tabular custom networks
    (table lookup on one-hot observations); Q(s,a) and Y are read from the agent's criterion (forward hook), the returned
    loss is compared exactly (CQN: the criterion value, its returned loss adds a logsumexp regulariser).
M3a larger random cases (|S| <= 4, |A| <= 4, B <= 8, 1-3 agents) through the real learn() of all eight learners incl.
    MADDPG / MATD3 with joint tabular critics; TLC (Bellman_Trace) computes the targets and the loss from the recorded inputs.
M3b DoneMasks in differential form on the real default networks, every learner incl. RainbowDQN (1-step, n-step, combined,
    prioritised): next_obs of rows marked done perturbed -> loss and all weights equal; control row -> they change.
    RainbowDQN additionally on the stubbed harness of C18 (target distributions of mass exactly 1): bit-equal projections.
Part 2 (specs/Track.tla): protocol state machine (create / learn / clone / mutate / save / load, learn counter, policy delay).
M1  Track_MC{1,2,3}.cfg: TargetTracks, BoundedLag, OnlyLearnDemands, Frame.
M3  life-cycle scripts on real agents of every learner (real Mutations object, real checkpoints): after each learn every target
    tensor is classified lerp / noop / copy / same / other against tau*online_after + (1-tau)*target_before; Track_Trace
    demands lerp at the policy steps and noop between them (DDPG / TD3 / MATD3 with policy_freq 2, 3).
Round 4 (coverage audit).  M3a also with batch sizes 1, 3, 5, 6 (mean not exact: the returned loss is taken up to the rounding of
    the one division), values on a finer / coarser grid (rewards in quarters, tables in eighths; x 4), every form of the batch
    learn() accepts (tuple / list / TensorDict / dict, int64 actions as column or vector, int64 done flags), target policy
    smoothing switched off by noise_clip = 0 instead of policy_noise = 0, and with the learner replaced between learn calls by its
    clone / by its checkpoint (load, load_checkpoint) / sent through a Mutations round; DDPG / TD3 / MATD3 also with policy_freq 2.  M3b also with batch sizes 3, 5, 6 and heterogeneous MADDPG / MATD3 teams.
    Part 2 M3 also with heterogeneous teams and scripts that chain life-cycle operations without learn steps in between.
"""
from __future__ import annotations

import random

from .. import tlc
from ..core import Vacuous

ALG_OF_MODE = {"max": ["DQN", "CQN"], "double": ["DQN-double", "CQN-double"], "actor": ["DDPG"], "actormin": ["TD3"]}

BELLMAN_TRACE_CFG = """SPECIFICATION TSpec
CONSTANTS
  Shapes = {}
  Gs = {}
  Diag = @DIAG@
INVARIANT TypeOK
INVARIANT NoTies
INVARIANT DoneMasksRow
INVARIANT TerminalIsReward
INVARIANT Bootstraps
INVARIANT LossDef
INVARIANT PartialLoss
CHECK_DEADLOCK FALSE
"""


def track_cfg(pf: int) -> str:
    return f"""SPECIFICATION TSpec
CONSTANTS
  NSlots = 3
  NFiles = 2
  PF = {pf}
  MaxLearn = 1000
  Diag = @DIAG@
INVARIANT TypeOK
CHECK_DEADLOCK FALSE
"""


def _clause(v):
    return (v.clauses[0] if v.clauses else (v.invariant or "?")).split(":")[0]


def bellman_sig(t, v):
    ev = v.event if isinstance(v.event, dict) else {}
    c = t["cfg"]
    if ev.get("op") == "diff":
        return f"bellman:{c['algo']}:diff:{c['family']}:{ev.get('what', '?')}:{_clause(v)}"
    after = ev.get("after", "learn")
    return (f"bellman:{c['algo']}:learn-trace:{_clause(v)}:{ev.get('kind', '?')}:agents={c['n']}"
            + (f":after-{after}" if after not in ("learn", "create") else ""))


def bellman_what(t, v):
    ev = v.event if isinstance(v.event, dict) else {}
    brief = {k: ev.get(k) for k in ("op", "learner", "what", "after", "form", "vs", "rows", "qe", "y", "lossN", "mse", "loss", "d", "pert", "same_loss",
                                     "same_w", "w_diff", "exc") if k in ev}
    return f"{t['cfg']['algo']} learn() rejected by Bellman_Trace at event {v.step}: {v.clauses or v.invariant}; cfg={t['cfg']}; event={brief}"


def track_sig(t, v):
    ev = v.event if isinstance(v.event, dict) else {}
    seen = "+".join(sorted(set(ev.get("cls") or []))) or "-"
    return f"track:{t['cfg']['algo']}:{ev.get('op', '?')}:{_clause(v)}:{seen}:after-{ev.get('after', '?')}:pf={t['cfg']['pf']}"


def track_what(t, v):
    ev = v.event if isinstance(v.event, dict) else {}
    brief = {k: ev.get(k) for k in ("op", "a", "c", "f", "k", "lc", "cls", "detail", "exc", "after") if k in ev}
    return (f"{t['cfg']['algo']} (policy_freq={t['cfg']['pf']}, tau={t['cfg']['tau']}) life-cycle trace rejected at event {v.step}: "
            f"{v.clauses or v.invariant}; targets={t['cfg']['targets']}; event={brief}; script={t['cfg']['ops'][:v.step]}")


def run(ctx):
    from ..drive import bellman as bm

    quick = ctx.quick
    rng = random.Random(ctx.seed)

    # ------------------------------------------------------------------ M1
    steps = ["Target", "AccRow", "Finish"]
    ctx.mc("Bellman_MC", "Bellman_MCq.cfg" if quick else "Bellman_MC.cfg", must_cover=steps, timeout=1500)
    if not quick:
        ctx.mc("Bellman_MC", "Bellman_MC3.cfg", must_cover=steps, timeout=3000)
    for pf in (1, 2, 3):
        ctx.mc("Track", f"Track_MC{pf}.cfg" if quick else f"Track_MCt{pf}.cfg",
               must_cover=["Create", "Learn", "CloneN|Clone", "MutateN|Mutate", "Save", "LoadN|Load", "Discard"], timeout=1500)

    # negative controls: the invariants reject a learner without the (1 - done) factor, one that bootstraps from the online
    # table, and a clone that restarts the policy-delay counter
    negs = {}
    for module, cfg, inv in (("Bellman_MC", "Bellman_NegMask.cfg", "DoneMasks"), ("Bellman_MC", "Bellman_NegOnline.cfg", "Bootstraps"),
                             ("Track_MC", "Track_Neg.cfg", "BoundedLag")):
        neg = tlc.model_check(module, cfg, coverage=False)
        if neg.ok or neg.violated_name != inv:
            raise Vacuous(f"negative control {cfg} did not violate {inv} (ok={neg.ok}, violated={neg.violated_name})")
        negs[cfg] = {"violated": neg.violated_name, "distinct_states": neg.distinct}
    ctx.extra["negative_controls"] = negs

    # ------------------------------------------------------------------ M2: dumped cases -> real learn() on tabular networks
    r = tlc.dump("Bellman_MC", "Bellman_Dumpq.cfg" if quick else "Bellman_Dump.cfg", heap="8g", timeout=3000)
    cases = r.tagged.get("CASE", [])
    tables = (r.tagged.get("TABLES") or [None])[0]
    if len(cases) < 10000 or not isinstance(tables, list) or not all(isinstance(c, dict) for c in cases[:50]):
        raise tlc.TLCError(f"dump produced {len(cases)} cases")
    ctx.extra["dump_cases"] = len(cases)
    rp = bm.Replayer(tables, ctx.seed)
    stride = {"DQN": 6, "DQN-double": 6, "DDPG": 6, "TD3": 6, "CQN": 24, "CQN-double": 24} if quick else \
             {"DQN": 1, "DQN-double": 1, "DDPG": 1, "TD3": 1, "CQN": 4, "CQN-double": 4}
    replayed = {}
    sampled = set()
    for i, c in enumerate(cases):
        for algo in ALG_OF_MODE[c["mode"]]:
            if (i + ctx.seed) % stride[algo]:
                continue
            bad = rp.run(algo, c)
            replayed[algo] = replayed.get(algo, 0) + 1
            rows = bm.case_rows(c)
            ctx.case((algo, c["g2"], c["tid"], str(c["rows"])), nontrivial=c["g2"] > 0 and any(rw["d"] == 0 for rw in c["rows"]))
            if bad:
                ctx.violation(f"bellman:{algo}:learn:{bad['clause']}:{bm.kind_of(rows)}:gamma{'0' if c['g2'] == 0 else '+'}",
                              f"{algo}.learn on tabular networks disagrees with Bellman.tla ({bad['clause']}): {bad['detail']}; case={c}, "
                              f"tables={rp.tables[c['tid']]}", {"kind": "spec-case", "module": "Bellman_MC", "algo": algo, "case": c,
                                                                "tables": tables, "clause": bad["clause"], "detail": bad["detail"]})
            if algo not in sampled and c["g2"] == 1 and bm.kind_of(rows) == "some-done" and len(sampled) < 2:
                sampled.add(algo)
                ctx.sample({"algo": algo, "case": c, "loss_expected": f"{c['acc']}/{16 * len(c['rows'])}", "agreed": bad is None})
    ctx.extra["cases_replayed"] = replayed
    if any(replayed.get(a, 0) < 100 for a in stride):
        raise Vacuous(f"too few cases replayed: {replayed}")

    # ------------------------------------------------------------------ M3a: larger random cases, all eight learners
    traces = []
    shapes = {"DQN": [(4, 3, 1, 8), (3, 4, 1, 4)], "DQN-double": [(3, 4, 1, 4), (4, 2, 1, 8)], "CQN": [(4, 3, 1, 8)], "CQN-double": [(2, 3, 1, 4)],
              "DDPG": [(3, 3, 1, 8), (4, 2, 1, 2)], "TD3": [(4, 2, 1, 4), (3, 3, 1, 8)],
              "MADDPG": [(2, 2, 2, 4), (2, 3, 2, 8), (2, 2, 3, 8)], "MATD3": [(2, 3, 2, 8), (2, 2, 2, 2), (2, 2, 3, 4)]}
    j = 0
    for rep in range(1 if quick else 6):
        for algo, shs in shapes.items():
            for (nsl, nal, n, B) in shs:
                g2 = [1, 2, 1, 0][(j + rep) % 4]
                t = bm.run_tab_trace(algo, nsl=nsl, nal=nal, n=n, B=B, g2=g2, seed=ctx.seed * 10007 + j, learns=3 if quick else 6)
                traces.append(t)
                ctx.case(("tab-trace", algo, nsl, nal, n, B, g2, j))
                j += 1
    # round 4 (coverage audit): batch sizes that are not powers of two and B = 1, rewards / values that are not integers
    # (value scale 1/4: rewards in quarters, tables in eighths) or large (scale 4), the other forms of the same batch that learn()
    # accepts (container, action shape / dtype, done dtype, learn arguments), and learn steps directly after clone / checkpoint load
    # on the tabular learners (the Bellman half of "also directly after clone ... and checkpoint load")
    for rep in range(1 if quick else 4):
        for ai, (algo, shs) in enumerate(shapes.items()):
            for si in range(2):
                nsl, nal, n, _ = shs[(si + rep) % len(shs)]
                k0 = ai + 3 * si + rep + ctx.seed
                Bs = [[3, 1, 6, 5, 2, 7][(k0 + i) % 6] for i in range(6)]         # successive learn calls of one agent
                vss = [[0.25, 4.0, 1.0, 0.25][(k0 + i) % 4] for i in range(4)]
                g2 = [1, 2, 2, 1, 2, 1, 1, 2][(j + rep) % 8]                      # (gamma = 0 is covered by the plain traces above)
                t = bm.run_tab_trace(algo, nsl=nsl, nal=nal, n=n, B=Bs[0], g2=g2, seed=ctx.seed * 10007 + j, learns=5 if quick else 7,
                                     vary=True, lifecycle=True, Bs=Bs, vss=vss, pf=1 + (si + rep) % 2)
                traces.append(t)
                ctx.case(("tab-trace-varied", algo, nsl, nal, n, tuple(Bs), g2, tuple(vss), j))
                j += 1
    forms = sorted({f for t in traces for e in t["ev"] if e["op"] == "loss" for f in e.get("form", "").split("+") if f})
    afters = sorted({e.get("after", "") for t in traces for e in t["ev"] if e["op"] == "loss"})
    ctx.extra["tab_batch_forms_seen"], ctx.extra["tab_learn_after"] = forms, afters
    need = {"done:int64", "action:int64(B,1)", "action:int64(B,)", "batch:TensorDict", "batch:list", "batch:dict", "keys:rotated", "noise_clip=0"}
    need_after = {"clone", "loadnew", "loadinto", "mutate:none", "mutate:param"}
    if not need <= set(forms) or not need_after <= set(afters):
        raise Vacuous(f"tabular traces: batch forms {sorted(need - set(forms))} / life-cycle steps "
                      f"{sorted(need_after - set(afters))} never exercised")
    ctx.sample({"tab_trace_cfg": traces[-1]["cfg"], "first_event": {k: traces[-1]["ev"][0][k] for k in ("learner", "rows", "y", "lossN")}})

    # ------------------------------------------------------------------ M3b: differential DoneMasks on the real networks
    fams = ["vector", "discrete"] if quick else ["vector", "discrete", "dict", "image"]
    j = 0
    for rep in range(1 if quick else 4):
        for fi, fam in enumerate(fams):
            for vi, variant in enumerate(bm.VARIANTS):
                if quick and fi > 0 and (vi + ctx.seed) % 3 != 0:
                    continue
                gamma = 0.0 if (not quick and rep == 3 and vi % 2 == 0) else None
                Bd = [8, 5, 8, 3, 8, 6][(j + ctx.seed) % 6]          # batch (and configured batch size) also not a power of two
                t = bm.run_diff(variant, fam, seed=ctx.seed * 7919 + 13 * j + 1, gamma=gamma, B=Bd)
                traces.append(t)
                ctx.case(("diff", variant, fam, gamma, Bd, j))
                j += 1
        # heterogeneous teams: agents whose observation / action spaces differ in size
        for vi, variant in enumerate(bm.HETERO):
            t = bm.run_diff(variant, "vector", seed=ctx.seed * 7919 + 13 * j + 1, B=[8, 5][(vi + rep) % 2])
            traces.append(t)
            ctx.case(("diff", variant, "vector", None, j))
            j += 1
    k = 0
    for rep in range(1 if quick else 4):
        for (nstep, combined, per) in [(False, False, False), (False, False, True), (True, False, False), (True, False, True),
                                       (True, True, False), (True, True, True)]:
            N, vmin, B = [(5, -2, 4), (3, 0, 8), (11, -5, 8), (4, 1, 2), (6, -1, 5), (7, -3, 3)][(k + rep + ctx.seed) % 6]
            t = bm.run_diff_rainbow_stub(N=N, vmin=vmin, B=B, n=2 + k % 2, nstep=nstep, combined=combined, per=per, seed=ctx.seed * 31 + k)
            traces.append(t)
            ctx.case(("diff-stub", N, vmin, B, nstep, combined, per, k))
            k += 1
    ctx.sample({"diff_cfg": traces[-1]["cfg"], "events": [{x: e[x] for x in ("what", "d", "pert", "same_loss", "same_w")} for e in traces[-1]["ev"]]})
    ctx.validate("Bellman_Trace", BELLMAN_TRACE_CFG, traces, sig=bellman_sig, what=bellman_what, chunk=80)
    ndiff = sum(1 for t in traces for e in t["ev"] if e["op"] == "diff" and e["what"] == "done-rows" and e["pert"])
    if ndiff < 10:
        raise Vacuous(f"only {ndiff} differential runs perturbed a done row")

    # ------------------------------------------------------------------ Part 2 M3: life-cycle traces
    combos = [("DQN", 1), ("DQN-double", 1), ("CQN", 1), ("RainbowDQN", 1), ("RainbowDQN-per", 1), ("RainbowDQN-nstep", 1),
              ("DDPG", 1), ("DDPG", 2), ("TD3", 1), ("TD3", 2), ("TD3", 3), ("MADDPG", 1), ("MATD3", 1), ("MATD3", 2), ("MATD3", 3)]
    combos += [("MADDPG-hetero", 1), ("MATD3-hetero", 2)]
    if not quick:
        combos += [("CQN-double", 1), ("RainbowDQN-nstep-per", 1), ("RainbowDQN-nstep-combined", 1), ("DDPG", 3), ("MATD3-hetero", 1)]
    by_pf = {1: [], 2: [], 3: []}
    j = 0
    for rep in range(2 if quick else 8):
        for ci, (variant, pf) in enumerate(combos):
            fam = "vector" if quick or rep % 4 != 3 else ["image", "dict", "discrete"][j % 3]
            tau = [0.25, 0.5][(ci + rep) % 2]            # every learner sees both (tau = 1/2 cannot tell tau from 1 - tau)
            # every third script chains life-cycle operations without learn steps in between (clone right after a mutation, ...)
            dense = 0.45 if (ci + 2 * rep + ctx.seed) % 3 == 2 else 0.0
            if variant in bm.HETERO:
                fam = "vector"
                if quick and rep > 0:
                    continue
            ops = bm.script(random.Random(ctx.seed * 1009 + j), pf, length=13 if quick else 22, dense=dense)
            t = bm.run_track(variant, fam, ops, pf=pf, tau=tau, seed=ctx.seed * 17 + j)
            by_pf[pf].append(t)
            ctx.case(("track", variant, pf, tau, fam, dense, j))
            j += 1
    # the boundary tau = 1 (hard update): the target equals the online network after every update step and must keep those weights
    # between the delayed learners' policy steps
    for variant, pf in (("DQN", 1), ("DDPG", 2), ("TD3", 2), ("TD3", 3), ("MATD3", 2)):
        ops = bm.script(random.Random(ctx.seed * 1009 + j), pf, length=13 if quick else 22)
        t = bm.run_track(variant, "vector", ops, pf=pf, tau=1.0, seed=ctx.seed * 17 + j)
        by_pf[pf].append(t)
        ctx.case(("track", variant, pf, 1.0, "vector", j))
        j += 1
    allt = [t for ts in by_pf.values() for t in ts]
    ctx.sample({"track_cfg": {k_: allt[9]["cfg"][k_] for k_ in ("algo", "pf", "tau", "targets")},
                "events": [(e["op"], e["a"] or e["c"], e["lc"], e["cls"]) for e in allt[9]["ev"]]})
    rejected = set()
    for pf, ts in by_pf.items():
        for t, v in zip(ts, ctx.validate("Track_Trace", track_cfg(pf), ts, sig=track_sig, what=track_what, chunk=100)):
            if not v.accepted:
                rejected.add((t["cfg"]["algo"], pf))
    # vacuity: every learner showed a decided lerp, delayed learners a decided noop, and learn steps directly follow
    # clone / mutation / load
    seen = {}
    for t in allt:
        s = seen.setdefault((t["cfg"]["algo"], t["cfg"]["pf"]), set())
        for e in t["ev"]:
            if e["op"] == "learn":
                s.update(e["cls"])
                s.add("after-" + e["after"].split(":")[0])
    ctx.extra["track_classes_seen"] = {f"{a}/pf{p}": sorted(v) for (a, p), v in seen.items()}
    for (a, p), s in seen.items():
        if (a, p) in rejected:
            continue                    # reported as a violation above
        if "lerp" not in s or (p > 1 and "noop" not in s):
            raise Vacuous(f"no decided lerp / noop observed for {a} pf={p}: {sorted(s)}")
    chains = sorted({f"{a['op']}>{b['op']}" for t in allt for a, b in zip(t["ev"], t["ev"][1:])
                     if a["op"] not in ("learn", "create", "save") and b["op"] not in ("learn", "save")})
    ctx.extra["track_lifecycle_chains_seen"] = chains
    if len(chains) < 3:
        raise Vacuous(f"life-cycle scripts: hardly any operation directly followed by another one ({chains})")
    everything = set().union(*seen.values())
    for need in ("after-clone", "after-mutate", "after-loadnew", "after-loadinto"):
        if need not in everything:
            raise Vacuous(f"no learn step directly {need} in the life-cycle scripts")

    # ---- RainbowDQN: "the quantity minimised is the loss defined by the algorithm with target r + gamma^n (1 - done) z": the
    # loss learn() works with is validated against the C51 specification (the specification and trace format of C18) on
    # real learn() calls, including targets that reach the top of the support (seed C08-g)
    from . import c18
    from ..drive import c51
    rb_traces = []
    rb_shapes = [(5, 1, 4), (11, -5, 8), (4, -3, 3)] + ([] if quick else [(2, 0, 1), (21, -20, 16), (7, 2, 5)])
    jj = 0
    for si, (N_, vmin_, B_) in enumerate(rb_shapes):
        for vi, (nstep_, combined_, per_) in enumerate(c18.VARIANTS):
            if quick and (vi + si) % 2:
                continue
            gq_, n_ = [(16, 2), (16, 3), (8, 1), (24, 1)][(jj + ctx.seed) % 4]
            opt = c18.learn_options(jj + ctx.seed, [1.0, 2.0][jj % 2])
            rb_traces.append(c51.run_learn(N=N_, vmin=vmin_, B=B_, gammaq=gq_, n=n_, nstep=nstep_, combined=combined_, per=per_,
                                           q=c18.Q_T, pden=c18.PDEN_T, seed=ctx.seed * 7919 + jj, learns=2, **opt))
            ctx.case(("rainbow-loss", N_, vmin_, B_, gq_, n_, nstep_, combined_, per_, jj))
            jj += 1
    for fi, (v_min_, v_max_, N_, B_) in enumerate(c18.TOP_SUPPORTS_Q if quick else c18.TOP_SUPPORTS_T):
        for vi in ([1, 2] if quick else range(6)):
            nstep_, combined_, per_ = c18.VARIANTS[vi]
            gq_, n_ = [(16, 2), (24, 1), (16, 3)][(fi + vi) % 3]
            opt = c18.learn_options(jj, 1.0)
            opt.pop("scale"), opt.pop("shift")
            opt["rdtype"] = "f32"
            rb_traces.append(c51.run_learn(N=N_, vmin=0, B=B_, gammaq=gq_, n=n_, nstep=nstep_, combined=combined_, per=per_, q=c18.Q_T,
                                           pden=c18.PDEN_T, seed=ctx.seed * 7919 + jj, vrange=(v_min_, v_max_), top=1, **opt))
            ctx.case(("rainbow-loss-top", v_min_, v_max_, N_, B_, gq_, n_, nstep_, combined_, per_, jj))
            jj += 1
    ctx.extra["rainbow_loss_traces"] = len(rb_traces)
    ctx.validate("C51_Trace", c18.TRACE_CFG, rb_traces, sig=lambda t, v: "bellman:rainbow-loss:" + c18.sig(t, v), what=c18.what, chunk=60)

    ctx.assume("tabular custom networks (EvolvableModule, table lookup on one-hot observations, table = nn.Parameter) stand for 'every "
               "network': the networks' forward passes are inputs of the property; table entries in 1/2, rewards integers, gamma in "
               "{0, 1/2, 1}, B a power of two: every float32 operation of the target and the loss is exact, comparison is equality")
    ctx.assume("Q(s,a) and Y are observed with a forward hook on the agent's own criterion object (nn.MSELoss); the loss is the value "
               "learn() returns (CQN: the criterion value; the returned CQN loss = logsumexp regulariser + 0.5 * criterion is not predicted)")
    ctx.assume("DDPG / TD3 learn() are called with policy_noise=0 in the tabular runs (target policy smoothing is a parameter of learn; "
               "with noise the target is random); the default noise is used in the differential runs (identically seeded)")
    ctx.assume("differential DoneMasks: two agents built from the same seed and warmed up identically, all RNGs seeded identically before "
               "learn; equality is bit-equality of the returned losses and of every weight tensor of the learner; for RainbowDQN the "
               "projected target of a done row is mass(p) x (split of r), mass(p) = 1 only up to float32 rounding / the 1e-3 clamp of the "
               "network's softmax, so equality is up to 1e-5 + 2 x observed relative mass difference (weights: 1e-6 + 10 lr x that)")
    ctx.assume("multi-agent learners: done flags are per agent; DoneMasks is checked per learner (loss and networks of agent l do not "
               "depend on next_obs of rows with done_l = 1)")
    ctx.assume("target tracking is classified per parameter tensor of the online network (buffers such as BatchNorm statistics or "
               "NoisyLinear noise are not 'weights') with relative tolerance 1e-5; a tensor whose online_after equals target_before "
               "within 16 x tolerance decides nothing ('same'); tau in {1/2, 1/4}")
    ctx.assume("the learn counter after clone / mutation / load is read from the agent (attribute learn_counter) and the policy steps "
               "are counted from it; between life-cycle operations the specification counts itself")
    ctx.assume("the rainbow.proj hook (AGILERL_VERIF=1) reports the projected distribution _dqn_loss uses (stubbed RainbowDQN runs)")
    rule = ("case = (learner, gamma, value tables, batch rows) for replayed grid cases -- non-trivial = gamma > 0 and some row not done; "
            "plus (learner, |S|, |A|, agents, B, gamma, seed) for tabular traces, (variant, observation family, seed) for differential "
            "runs and (variant, policy_freq, tau, family, script seed) for life-cycle traces")
    return "model_checking", rule, False


def replay(path):
    """./check C08 --replay PATH: re-execute one recorded counterexample against the real code."""
    import json

    from .. import trace as trace_mod
    from ..drive import bellman as bm

    d = json.load(open(path))
    rp = d["replay"]
    print(f"signature: {d['signature']}")
    if rp.get("kind") == "spec-case":
        bad = bm.Replayer(rp["tables"], int(d.get("seed", 0))).run(rp["algo"], rp["case"])
        print(f"algo: {rp['algo']}  case: {rp['case']}")
        print(f"specified targets (units 1/4): {rp['case']['y']}  loss: {rp['case']['acc']}/{16 * len(rp['case']['rows'])}")
        if bad:
            print("observed:", bad["observed"])
            print(f"DISAGREES ({bad['clause']}): {bad['detail']}")
            return 1
        print("the real learn() agrees with the specification on this case")
        return 0
    if rp.get("kind") == "rejected-trace":
        c = rp["trace"]["cfg"]
        if rp["module"] == "Track_Trace":
            t = bm.run_track(c["algo"], c["family"], [tuple(o) for o in c["ops"]], pf=c["pf"], tau=c["tau"], seed=c["seed"], nslots=c["NSlots"])
            v = trace_mod.validate("Track_Trace", track_cfg(c["pf"]), [t])[0]
            for i, ev in enumerate(t["ev"], start=1):
                print(i, {k: ev.get(k) for k in ("op", "a", "c", "f", "k", "lc", "cls", "exc") if ev.get(k) not in (None, "", 0, [])})
        else:
            ev0 = rp["trace"]["ev"][0]
            if ev0["op"] == "loss":
                t = bm.run_tab_trace(c["algo"], nsl=c["nsl"], nal=c["nal"], n=c["n"], B=c["B"], g2=c["g2"], seed=c["seed"], learns=c["learns"],
                                     vs=c.get("vs", 1.0), vary=c.get("vary", False), lifecycle=c.get("lifecycle", False),
                                     Bs=c.get("Bs") or None, vss=c.get("vss") or None, pf=c.get("pf", 1))
            elif c["family"] == "stub":
                t = bm.run_diff_rainbow_stub(N=c["N"], vmin=c["vmin"], B=c["B"], n=c["nstep_n"], nstep="-nstep" in c["algo"],
                                             combined="-combined" in c["algo"], per="-per" in c["algo"], seed=c["seed"])
            else:
                t = bm.run_diff(c["algo"], c["family"], seed=c["seed"], gamma=(0.0 if c["g2"] == 0 else None), B=c["B"])
            v = trace_mod.validate("Bellman_Trace", BELLMAN_TRACE_CFG, [t])[0]
            for i, ev in enumerate(t["ev"], start=1):
                print(i, {k: ev.get(k) for k in ("op", "learner", "what", "kind", "y", "lossN", "same_loss", "same_w", "w_diff", "exc") if k in ev})
        print("verdict:", "accepted" if v.accepted else f"rejected at event {v.step}: {v.clauses or v.invariant}")
        return 0 if v.accepted else 1
    print(rp.get("text", rp))
    return 1
