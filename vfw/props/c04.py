"""C04 -- mutations reuse learned weights; an unchanged architecture computes the same; cloning reproduces outputs.

M1  Arch_MC_<instance>.cfg (mlp, cnn 16x16 / 8x8 / Conv3d, lstm, simba, resnet, multi-input, networks): every reachable
    architecture under all mutation methods with all argument choices, small bounds: WellFormed, InBounds, StaysInBounds,
    FeatureMapPositive, AllMethodsEnabled (never advertised-but-disabled), Advertised (guard true => exactly the advertised
    delta, guard false => documented fall-back or no change), ShapesTotal, SurvivorsOverlap.
M2  Arch_Dump_<instance>.cfg: the transition relation is dumped and its edges are executed on the REAL module / network
    built with the same constructor arguments (explicit arguments where the API takes them, scripted numpy draws otherwise),
    alternately on a fresh clone (the clone-and-mutate protocol of Mutations.architecture_mutate) and in place.
M3  seeded random walks (getattr(net, name)() over the advertised methods) on every building block and on Q / Rainbow Q /
    continuous Q / value / deterministic / stochastic actor networks over vector, image, sequence, dict and tuple
    observations with the default bounds.
Same specification and same walk as C03 (re-computed here).  Before every real mutation each parameter cell is overwritten
with a unique float32-exact code ((tensor ordinal + 1) * 2^bits + flat index) and every floating running statistic with a
seeded value; afterwards the codes are decoded.  Every observed step is validated by TLC against Arch_Trace (C04 clauses):
the real tensors are Shapes(pre) / Shapes(post), no surviving tensor changes rank, every surviving tensor still carries, on
Common(pre, post) = component-wise minimum of the two shapes, the code the same cell had before; an unchanged architecture
gives bit-equal outputs on 3 probe batches; clone() gives bit-equal outputs.
"""
from __future__ import annotations

import json

PROP = "C04"
RULE = ("case = (object kind and configuration, architecture before, method called, method really applied, architecture after, "
        "mutated on a fresh clone or in place)")


CHAIN_CFG = """SPECIFICATION TSpec
CONSTANTS
  Slots = {1, 2, 3, 4}
  Archs = {}
  Fns = {}
  MaxOps = 0
  Variant = "faithful"
  Diag = @DIAG@
INVARIANT Described
CHECK_DEADLOCK FALSE
"""


def _chain_sig(t, v):
    e = v.event if isinstance(v.event, dict) else {}
    cl = (v.clauses[0] if v.clauses else (v.invariant or "?")).split(":")[0]
    if e.get("exc"):
        cl = f"Raises[{e['exc'].split(':')[0]}]"
    return f"chain:{t['cfg']['family']}:{e.get('op', '?')}:{cl}"


def _chain_what(t, v):
    e = v.event if isinstance(v.event, dict) else {}
    return (f"clone-and-mutate chain rejected at operation {v.step} ({e.get('op')} {e.get('method', '')} a={e.get('a')} b={e.get('b')}): "
            f"{v.clauses or v.invariant}; cfg={t['cfg']}; event={json.dumps(e)[:500]}")


def chain_stage(ctx):
    """Chains seen from the outside (specs/CloneChain*.tla): parent / clone / sibling objects live side by side, every one of
    them is measured after every operation (seed C04-f: clones that share nested constructor arguments)."""
    from concurrent.futures import ProcessPoolExecutor
    from .. import tlc
    from ..core import Vacuous
    from ..drive import chain
    jobs = [(fam, 10 if ctx.quick else 16, ctx.seed * 1000 + 17 * j + i)
            for i, fam in enumerate(chain.FAMILIES) for j in range(4 if ctx.quick else 24)]
    with ProcessPoolExecutor(max_workers=12) as ex:
        pending = ex.map(chain.run_job, jobs)
        ctx.mc("CloneChain_MC", "CloneChain_MC.cfg", must_cover=["CloneAny", "MutateAny", "DropAny"])
        neg = tlc.run_tlc("CloneChain_MC", "CloneChain_Neg.cfg")
        ctx.extra["chain_negative_control"] = {"cfg": "CloneChain_Neg.cfg", "violated": neg.violated_name}
        if neg.ok:
            raise Vacuous("negative control CloneChain_Neg.cfg (clones share their description) violates nothing")
        traces = list(pending)
    n_noop = n_clone_after_mut = 0
    for t, jb in zip(traces, jobs):
        ctx.case(("chain",) + tuple(jb), nontrivial=len(t["ev"]) >= 3)
        prev = dict(enumerate(t["cfg"]["arch0"], 1))
        mutated = False
        for e in t["ev"]:
            if e["op"] == "mutate" and not e["exc"]:
                n_noop += e["arch"][e["a"] - 1] == prev.get(e["a"])
                mutated = True
            if e["op"] == "clone" and mutated:
                n_clone_after_mut += 1
            prev = dict(enumerate(e["arch"], 1))
    ctx.extra["chain"] = {"chains": len(traces), "operations": sum(len(t["ev"]) for t in traces),
                          "mutations_leaving_architecture_unchanged": int(n_noop), "clones_after_a_mutation": n_clone_after_mut}
    if n_noop == 0 or n_clone_after_mut == 0:
        raise Vacuous("chain stage: no architecture-preserving mutation / no clone after a mutation was exercised")
    ctx.validate("CloneChain_Trace", CHAIN_CFG, traces, sig=_chain_sig, what=_chain_what, chunk=400)
    ctx.assume("chain stage: the function of an object is identified by the bit pattern of its outputs on two fixed probe batches in "
               "evaluation mode, its architecture by the printed layer structure plus parameter shapes; objects: MakeEvolvable (MLP, MLP with "
               "LayerNorm, CNN), EvolvableMLP, EvolvableCNN, QNetwork, EvolvableMultiInput; up to 4 live objects, 10 (16) operations")


def run(ctx):
    from ..drive import arch
    traces = arch.collect(ctx, PROP)
    arch.validate(ctx, traces)
    arch.bookkeeping(ctx, traces)
    chain_stage(ctx)
    ctx.assume("numpy draws inside mutation methods (np.random.randint / np.random.choice) are inputs: in the edge replay they are scripted "
               "to the values of the TLC edge (must lie in the domain of the call, otherwise a seeded value of the domain is returned)")
    ctx.assume("the architecture of an object is read from its constructor description (init_dict); the real tensors are bound to it by "
               "the clause 'the real parameter tensors are those of the described architecture' (Shapes(post) = named_parameters shapes)")
    ctx.assume("forward / clone / rebuild obligations are measured in evaluation mode on seeded batches of 1..3 observations, images are square")
    ctx.assume("every reachable small-bound architecture is also built directly by the constructor (start of a replay path); chains are "
               "covered by paths of up to 8 consecutive edges and by the random walks")
    ctx.assume("only what the statement demands is checked: cells inside the common index range keep their value; cells outside it are "
               "not inspected; buffers (running statistics, noise) only matter through the computed function (no-op and clone clauses)")
    ctx.assume("steps that raise or that are not steps of the specification are C03 violations and are skipped here")
    ctx.assume("walk objects cap channel sizes at 64 (48 inside networks) so that every tensor can carry float32-exact cell codes; node, "
               "layer, block and latent bounds are the defaults")
    return "model_checking", RULE, False


def replay(path):
    from ..drive import arch
    d = json.loads(open(path).read())
    r = d["replay"]
    print(f"signature: {d['signature']}\n{d['what']}")
    if r.get("kind") != "rejected-step":
        print(r.get("text", "")[:4000])
        return 1
    cfg = r["cfg"]
    if cfg["kind"] == "walk":
        t = arch.walk(r["desc"], cfg["step"] + 1, cfg["seed"], cfg["mode"])
    else:
        t = arch.replay(cfg["c"], [h["edge"] for h in r["history"]], cfg["seed"], cfg["inst"], cfg["mode"])
    for i, ev in enumerate(t["ev"]):
        want = f" (TLC edge: applied={ev['want']['applied']} -> {ev['want']['to']})" if "want" in ev else ""
        print(f"  step {i}: {ev['m']}() cloned={ev['cloned']} -> applied={ev['applied']} {ev['pre']} -> {ev['post']}{want} ob={ev['ob']} "
              f"raised={ev['raised']!r} {ev.get('detail')}")
    return 1
