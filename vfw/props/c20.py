"""C20 -- training loops compose end to end and keep step and population accounting right.

M1  TrainLoop_MC*.cfg: the abstract loop specification (population of counters; Generation, SelectMutate, Return)
    for every budget rule ("any" agent reached max_steps / "sum" over the population), every size <= 2..3, every
    flag combination, every per-agent step vector, score vector, parent choice: StepsAreEnvSteps,
    OneFitnessPerGeneration, PopShape, EliteCarried, Inherited, NoGenerationOnceMet, ReturnOnlyWhenMet.
    TrainLoop_Fine*.cfg: the loops' inner control flow (one action per vectorised environment step, the local
    `steps` counter, learn scheduling of learn_step against num_envs in both directions, per loop kind) refines
    the abstract specification (PROPERTY Refines) and calls learn only when the memory holds a batch; three
    seeded defects (counter +1 instead of +num_envs, `<=` in the while condition, learn before the memory holds a
    batch) must be rejected (negative controls).
M4  TrainLoop_Dump.cfg: TLC enumerates the configurations (loop kind x num_envs x learn_step x evo_steps x batch
    x population size x budget x evolution flags x target); a seeded, stratified subset is executed.
M3  every configuration is run through the REAL train_* function with real agents (create_population), real
    buffers (uniform, n-step, prioritised, multi-agent), real Sampler, TournamentSelection, Mutations, checkpoints
    in a scratch directory, on probe environments that count reset / step calls.  The recorded trace (one event
    per generation, selection+mutation, return; `crash` if an exception escapes) is validated by TLC against
    TrainLoop_Trace.  "Composes end to end" = the run completes for every configuration.
"""
from __future__ import annotations

import json
import random
from concurrent.futures import ProcessPoolExecutor

from .. import tlc
from ..core import Vacuous
from ..drive.trainloop import ALGOS, MEMS

FUNC = {"off": "train_off_policy", "on": "train_on_policy", "offline": "train_offline", "bandit": "train_bandits",
        "ma_off": "train_multi_agent_off_policy", "ma_on": "train_multi_agent_on_policy"}

TRACE_CFG = """SPECIFICATION TSpec
CONSTANTS
  Params = {}
  Ds = {0}
  Scores = {0}
  MaxGen = 1000000
  Diag = @DIAG@
INVARIANT TStepsAreEnvSteps
INVARIANT PopShape
INVARIANT EliteCarried
INVARIANT Inherited
CHECK_DEADLOCK FALSE
"""

NEG = (("unit1", "FStepsAreEnvSteps"), ("extra_gen", "Refines"), ("learn_early", "LearnOnlyWhenSamplable"))


def _run(cfg):
    from ..drive import trainloop
    return trainloop.run(cfg)


def _short(clause):
    return {"the training function runs to completion": "crash"}.get(clause, clause)


def _env_kind(c):
    if c["loop"] == "bandit":
        return "BanditEnv" if c.get("bandit_env") != "float32" else f"float32{'-batch=arms' if c['batch'] == 3 else ''}"
    return "single" if c["num_envs"] == 0 else "vec"


def sig(t, v):
    c = t["cfg"]
    head = f"{FUNC[c['loop']]}:{c['algo']}:{c['mem']}:{_env_kind(c)}"
    ev = v.event if isinstance(v.event, dict) else {}
    if ev.get("op") == "crash":
        return f"compose:{head}:{ev.get('exc')}@{ev.get('where')}"
    cl = v.clauses[0] if v.clauses else (v.invariant or "?")
    return f"accounting:{head}:{cl}"


def what(t, v):
    c = t["cfg"]
    ev = dict(v.event) if isinstance(v.event, dict) else {}
    if ev.get("op") == "crash":
        return (f"{FUNC[c['loop']]} with {c['algo']} / memory={c['mem']} / env={_env_kind(c)} did not run to completion: "
                f"{ev.get('exc')}: {ev.get('msg')} (raised in {ev.get('where')}, phase {ev.get('phase')}, after "
                f"{sum(1 for e in t['ev'] if e['op'] == 'gen')} generations); cfg={json.dumps(c)}; traceback tail: {str(ev.get('tb'))[-500:]}")
    return (f"{FUNC[c['loop']]} with {c['algo']} / memory={c['mem']}: trace rejected at event {v.step}: {v.clauses or v.invariant}; "
            f"cfg={json.dumps(c)}; event={json.dumps(ev)[:900]}; history={[(e['op'], [s['steps'] for s in e['slots']] if e['op'] == 'gen' else e.get('steps')) for e in t['ev'][:v.step]]}")


def per_gen(kind, ne, ls, evo):
    """environment steps one agent takes per generation (NIter x Unit of TrainLoop_Fine.tla) with its initial learn_step"""
    if kind in ("off", "ma_off"):
        return (evo // ne) * ne
    if kind in ("on", "ma_on"):
        return -(evo // -ls) * -(ls // -ne) * ne
    return evo


def _exact(c):
    """the budget is reached exactly at a generation boundary (where `<` and `<=` in the loop condition differ)"""
    lp, par = c["lp"], c["par"]
    g = per_gen(lp["kind"], lp["ne"], lp["ls"], lp["evo"]) * (par["k"] if par["rule"] == "sum" else 1)
    return g > 0 and par["max"] % g == 0


def configurations(cases, quick, seed):
    """Seeded, stratified choice among TLC's configurations + the decorations TLC does not enumerate (algorithm,
    memory kind, mutation kind, checkpoints, learning delay, episode length, single / vectorised)."""
    rng = random.Random(seed)
    by_kind = {}
    for c in cases:
        by_kind.setdefault(c["lp"]["kind"], []).append(c)
    for k in by_kind:
        by_kind[k].sort(key=lambda c: json.dumps(c, sort_keys=True))
        rng.shuffle(by_kind[k])
    per = 2 if quick else 21
    muts = ["all", "hp", "arch", "param", "act", "none"]
    out = []
    n = 0
    for loop in ("off", "on", "offline", "bandit", "ma_off", "ma_on"):
        for algo in ALGOS[loop]:
            for mem in MEMS[algo]:
                pool = by_kind[loop]
                seen_pairs, picked = set(), []
                # first cover distinct (num_envs, learn_step) pairs with evolution on, then anything
                # the second pick: the number of sub-environments does not divide evo_steps (the rollout is shorter than evo_steps)
                for c in pool:
                    pair = (c["lp"]["ne"], c["lp"]["ls"])
                    if (len(picked) < per and pair not in seen_pairs and (c["par"]["evo"] or len(picked) % 3 == 2) and c["par"]["k"] >= 2
                            and _exact(c) == (len(picked) % 2 == 0)           # alternate: budget hit exactly / overshot
                            and (len(picked) % 2 == 0 or loop in ("offline", "bandit") or c["lp"]["evo"] % c["lp"]["ne"] != 0)):
                        seen_pairs.add(pair)
                        picked.append(c)
                for c in pool:
                    if len(picked) < per and c not in picked:
                        picked.append(c)
                pool.append(pool.pop(0))       # rotate so that the next combination starts elsewhere
                rng.shuffle(pool)
                for j, c in enumerate(picked):
                    lp, par = c["lp"], c["par"]
                    n += 1
                    cfg = dict(loop=loop, algo=algo, mem=mem, k=par["k"], num_envs=lp["ne"], learn_step=lp["ls"], batch=lp["batch"],
                               evo_steps=lp["evo"], max_steps=par["max"], evo=par["evo"], elitism=par["elitism"],
                               mutate_elite=par["mutate_elite"], tsize=1 + n % 3, mut=muts[n % len(muts)],
                               checkpoint=(lp["evo"] if n % 2 else None), target=None,
                               learning_delay=(6 if n % 5 == 0 else 0), L=3 + 2 * (n % 2), eval_loop=1 + (n % 4 == 0),
                               eval_steps=(None if n % 3 else 4), seed=seed + n, memsize=lp["cap"], verbose=bool(n % 2))
                    if loop in ("on", "ma_on") and par["k"] >= 2 and j % 2 == 0:
                        cfg["hetero"] = 1 + n % 2          # members with different learn_step: step counters drift apart
                    if par["target"]:
                        cfg["target"] = -100.0 if n % 2 else 1.0e6          # fires after the first generation / never fires
                    if loop == "bandit":
                        # train_bandits on the library's own BanditEnv, and on the same contexts cast to float32
                        cfg["bandit_env"] = ["BanditEnv", "float32", "float32"][j % 3]
                        if j % 3 == 2:
                            cfg["batch"] = 3                                 # = number of arms (see the findings)
                            cfg["mut"] = ["param", "act", "arch", "none"][n % 4]   # batch_size must stay 3: no hp mutation
                            if n % 2:
                                cfg["episode_steps"] = lp["evo"] // 2        # selection every second generation
                    if not quick and lp["ne"] == 1 and j % 7 == 3:
                        cfg["num_envs"] = 0                                   # the bare, non-vectorised environment
                    out.append(cfg)
    # the non-vectorised environment, once per loop that takes an environment to step
    for loop, algo, mem in (("off", "DQN", "uniform"), ("on", "PPO", "none"), ("ma_off", "MADDPG", "ma"), ("ma_on", "IPPO", "none")):
        out.append(dict(loop=loop, algo=algo, mem=mem, k=2, num_envs=0, learn_step=2, batch=4, evo_steps=8, max_steps=24, evo=True,
                        elitism=True, mutate_elite=False, seed=seed + 900))
    # on-policy members with different learn_step and no selection in between: their step counters drift apart, and the budget is
    # met by the fastest member strictly before the slowest (where "any member" and "every member" stopping rules differ)
    for loop, algo, ne, ls, h, mx in (("on", "PPO", 2, 2, 1, 24), ("ma_on", "IPPO", 2, 2, 1, 24), ("on", "PPO", 1, 3, 2, 40)):
        out.append(dict(loop=loop, algo=algo, mem="none", k=2, num_envs=ne, learn_step=ls, batch=4, evo_steps=8, max_steps=mx, evo=False,
                        elitism=False, mutate_elite=False, hetero=h, seed=seed + 950))
    # populations that enter with non-zero step counters (second call of the training function / resumed from checkpoints): the
    # budget is judged on the agents' counters, not on the steps of this call
    for loop, algo, mem, mx, pre in (("ma_on", "IPPO", "none", 64, [24, 16]), ("on", "PPO", "none", 48, [24, 8]), ("off", "DQN", "uniform", 48, [16, 24]),
                                     ("ma_off", "MADDPG", "ma", 48, [24, 16])):
        out.append(dict(loop=loop, algo=algo, mem=mem, k=2, num_envs=2, learn_step=2, batch=4, evo_steps=8, max_steps=mx, evo=True,
                        elitism=True, mutate_elite=False, presteps=pre, seed=seed + 970))
    # members with different batch sizes sharing one memory that is still smaller than the larger batch; an offline data set more than
    # twice as large as the memory (the newest transitions are kept)
    for loop, algo, mem in (("ma_off", "MADDPG", "ma"), ("ma_off", "MATD3", "ma"), ("off", "DQN", "uniform")):
        out.append(dict(loop=loop, algo=algo, mem=mem, k=2, num_envs=2, learn_step=2, batch=4, evo_steps=8, max_steps=32, evo=False,
                        elitism=False, mutate_elite=False, hetero_batch=[4, 32], seed=seed + 980))
    out.append(dict(loop="offline", algo="CQN", mem="uniform", k=2, num_envs=1, learn_step=1, batch=4, evo_steps=8, max_steps=24, evo=True,
                    elitism=True, mutate_elite=False, memsize=9, seed=seed + 981))
    if quick:   # bandits: contexts cast to float32, batch = arms (the only shape on which learn() accepts what the loop stores)
        out.append(dict(loop="bandit", algo="NeuralTS", mem="uniform", k=2, num_envs=1, learn_step=1, batch=3, evo_steps=8, max_steps=24,
                        evo=True, elitism=True, mutate_elite=False, bandit_env="float32", mut="param", episode_steps=4, seed=seed + 901))
    return out


def _sanitise(t):
    def f(x):
        if isinstance(x, float):
            return repr(x)
        if x is None:
            return "none"
        if isinstance(x, dict):
            return {k: f(v) for k, v in x.items()}
        if isinstance(x, list):
            return [f(v) for v in x]
        return x
    return {"cfg": f(t["cfg"]), "ev": [f({k: v for k, v in e.items() if k != "tb"} | ({"tb": e["tb"][-600:]} if "tb" in e else {})) for e in t["ev"]]}


def run(ctx):
    quick = ctx.quick
    # ---- M4: configurations from TLC
    d = tlc.dump("TrainLoop_Dump", "TrainLoop_Dump.cfg")
    cases = [c for c in d.tagged.get("CASE", []) if isinstance(c, dict)]
    if len(cases) != d.distinct or len(cases) < 1000:
        raise tlc.TLCError(f"configuration dump produced {len(cases)} cases for {d.distinct} states")
    ctx.extra["configurations_enumerated"] = len(cases)
    cfgs = configurations(cases, quick, ctx.seed)
    ex = ProcessPoolExecutor(max_workers=12)
    futs = [ex.submit(_run, c) for c in cfgs]            # the real runs proceed while TLC model-checks
    try:
        # ---- M1
        ctx.mc("TrainLoop_MC", "TrainLoop_MCq.cfg" if quick else "TrainLoop_MC.cfg",
               must_cover=["Next|Generation|GenerationC|GenBody", "MCSelect|SelectMutate", "Return"])
        if not quick:
            ctx.mc("TrainLoop_MC", "TrainLoop_MC3.cfg", must_cover=["Next|Generation|GenerationC|GenBody", "MCSelect|SelectMutate", "Return"])
        ctx.mc("TrainLoop_Fine", "TrainLoop_Fineq.cfg" if quick else "TrainLoop_Fine.cfg",
               must_cover=["FStartGen", "FStep", "FEndRollout", "FEvaluate", "FSelect", "FReturn"])
        neg = {}
        for bug, inv in NEG:
            n = tlc.model_check("TrainLoop_Fine", f"TrainLoop_Neg_{bug}.cfg", coverage=False)
            if n.ok or n.violated_name != inv:
                raise Vacuous(f"negative control {bug}: expected {inv} to be violated, got {n.violated_name or 'no violation'}")
            neg[bug] = n.violated_name
        ctx.extra["negative_controls"] = neg
        traces = [f.result() for f in futs]
    finally:
        ex.shutdown(wait=True, cancel_futures=True)
    # ---- M3
    for t in traces:
        last = t["ev"][-1]
        if last["op"] == "crash" and last.get("phase") == "setup" and "/agilerl/" not in str(last.get("tb")):
            raise RuntimeError(f"harness failure while preparing {t['cfg']}: {last.get('tb')}")
    gens = []
    builders = {}
    for t in traces:
        c = t["cfg"]
        g = sum(1 for e in t["ev"] if e["op"] == "gen")
        gens.append(g)
        builders[c["algo"]] = c.get("built_by", "?")
        ctx.case(json.dumps({k: c[k] for k in sorted(c) if k not in ("seed", "built_by", "rule", "verbose")}, sort_keys=True), nontrivial=g >= 2)
    done = [t for t in traces if t["ev"][-1]["op"] == "ret"]
    for t in done[:2]:
        ctx.sample({"cfg": {k: t["cfg"][k] for k in ("loop", "algo", "mem", "k", "num_envs", "learn_step", "evo_steps", "max_steps", "evo")},
                    "events": [{k: v for k, v in e.items() if k != "slots"} | ({"slots": [{x: s[x] for x in ("d", "steps", "fitlen", "idx")} for s in e["slots"]]} if "slots" in e else {})
                               for e in t["ev"][:4]]})
    crashed = [t for t in traces if t["ev"][-1]["op"] == "crash"]
    if crashed:
        e = crashed[0]["ev"][-1]
        ctx.sample({"cfg": {k: crashed[0]["cfg"][k] for k in ("loop", "algo", "mem", "num_envs", "batch")}, "crash": {k: e[k] for k in ("exc", "msg", "where", "phase")}})
    ctx.extra["runs"] = len(traces)
    ctx.extra["runs_completed"] = len(done)
    ctx.extra["generations_validated"] = sum(gens)
    ctx.extra["selections_validated"] = sum(1 for t in traces for e in t["ev"] if e["op"] == "sel")
    ctx.extra["early_stops"] = sum(1 for t in done if t["ev"][-1].get("early"))
    ctx.extra["checkpoint_files_written"] = sum(t["ev"][-1].get("files", 0) for t in done)
    ctx.extra["population_built_by"] = builders
    # returned fitness table: one row per generation (observed, not demanded by the statement)
    ctx.extra["fitness_rows_not_one_per_generation"] = sorted({FUNC[t["cfg"]["loop"]] for t in done
                                                              if t["ev"][-1]["fit_rows"] != sum(1 for e in t["ev"] if e["op"] == "gen")})
    ctx.validate("TrainLoop_Trace", TRACE_CFG, [_sanitise(t) for t in traces], sig=sig, what=what, chunk=200)
    ctx.assume("environment steps are counted at the vector level: one step() of the (vectorised) environment handed to the training "
               "function = num_envs environment steps, attributed to the agent that called get_action last outside test(); "
               "evaluation steps inside agent.test() are not training steps")
    ctx.assume("train_offline takes no environment steps while training; its documented unit of max_steps / evo_steps is one learn() "
               "call on a sampled batch, so `truth` counts learn() calls there")
    ctx.assume("lineage is taken from the clone() log; 'carried unchanged' compares evaluation networks (architecture + weights), "
               "hyperparameters, steps[-1] and the fitness history (target / shared networks are C01 / C08)")
    ctx.assume("the budget predicate is evaluated where the loops evaluate it, on the population that would enter the next generation "
               "(after selection); 'best agent' = highest mean of the last eval_loop fitness entries, ties permitted either way")
    ctx.assume("PPO / DDPG / TD3 cannot be built by create_population under Python 3.12 (share_encoders=True, DESIGN 6-P); they are "
               "constructed directly with share_encoders=False; every other algorithm comes from create_population")
    ctx.assume("early stopping needs 100 recorded generations in the loops; the driver starts such runs with steps = [0]*100")
    return "model_checking", ("case = (training function, algorithm, memory kind, population size, num_envs or bare env, learn_step, "
                              "batch, evo_steps, max_steps, evolution flags, mutation kind, checkpoint, target, delay, episode length); "
                              "non-trivial = the run crossed at least two generations"), False
