"""C17 -- advantage estimation (GAE) of PPO and IPPO follows its definition, respects episode boundaries,
and every estimate / old log-prob / old value is applied to the observation and action it was computed for.

M1  GAE.tla  rollout state machine Collect* ; EndRollout ; GaeStep(T..1) ; Returns ; Flatten with exact scaled
    arithmetic (gamma, lambda in {0,1/2,1}).  Invariants RecursionMeetsDefinition (the code-shaped masked
    recursion = the per-episode-segment definition AdvDef), ScaleExact, NoLeak, ColumnsSeparate, RowsAligned.
    Full value grid for one column (GAE_MC*.cfg), id-coded values x every done placement for up to 2 envs x 2
    agents (GAE_MCid*.cfg), negative control: IPPO's mixed layout violates RowsAligned (GAE_Neg.cfg).
M2  GAE_Dump.cfg: TLC prints every complete single-column rollout of the grid with the expected advantages;
    the columns are packed (pairwise distinct) into (env, agent) columns of real PPO.learn / IPPO.learn calls;
M3  every call is observed through the guarded recorder hook and validated by TLC (GAE_Trace): each
    backward step, the returns, a second call with everything after the first boundary replaced (NoLeak), and
    the flattened rows decoded to (t, env, agent) ids.  Seeded larger rollouts (T<=6, 4 envs, 3 agents, two
    policy groups) go the same way.  Un-stubbed critic: bootstrap value = critic(final next obs), float check.
"""
from __future__ import annotations

import json
import random

from .. import tlc
from ..core import Vacuous

TRACE_CFG = """SPECIFICATION TSpec
CONSTANTS
  Params = {}
  Rews = {}
  Vals = {}
  MaxT = 6
  Layouts = {}
  Perturb = {0, 7}
  Diag = @DIAG@
INVARIANT RecursionMeetsDefinition
INVARIANT ScaleExact
INVARIANT NoLeak
INVARIANT ColumnsSeparate
INVARIANT RowsAligned
CHECK_DEADLOCK FALSE
"""

COVER = ["CollectAny|Collect", "EndAny|EndRollout", "GaeAny|GaeStep", "Returns", "FlattenAny|Flatten"]
COVER_ID = ["CollectId|Collect", "EndId|EndRollout", "GaeAny|GaeStep", "Returns", "FlattenAny|Flatten"]


def shape_class(c):
    return f"T{'1' if c['T'] == 1 else 'n'}E{'1' if c['E'] == 1 else 'n'}G{'1' if c['G'] == 1 else 'n'}"


def variant(c):
    return f"nd={c['nd_form']}" if c["alg"] == "ippo" else f"{c['obs']}/{c['form']}"


def sig(t, v):
    cl = (v.clauses[0] if v.clauses else ("invariant " + v.invariant))
    key = cl.split(":")[0]
    if key == "no-exception":
        key += cl[cl.find("["):cl.find("]") + 1]
    c = t["cfg"]
    return f"{c['alg']}:{key}:{shape_class(c)}:{variant(c)}"


def what(t, v):
    c = t["cfg"]
    ev = v.event if isinstance(v.event, dict) else {}
    roll = {k: [e[k] for e in t["ev"] if e["op"] == "collect"] for k in ("rew", "val", "done")}
    end = next((e for e in t["ev"] if e["op"] == "end"), {})
    return (f"{c['alg'].upper()}.learn trace rejected at event {v.step} ({ev.get('op', '?')}"
            f"{' t=' + str(ev['t']) if 't' in ev else ''}): {v.clauses or v.invariant}; cfg={c}; "
            f"rollout[t][env][agent] rew={roll['rew']} val={roll['val']} done={roll['done']} nv={end.get('nv')} nd={end.get('nd')}; "
            f"observed={json.dumps(ev)[:700]}")


# ------------------------------------------------------------------------------------------ case construction
def colkey(col, T):
    return (tuple(col["rew"]), tuple(col["val"]), tuple(col["done"][1:]))


def column_of_case(c):
    T = c["par"]["T"]
    return {"T": T, "gn": c["par"]["gn"], "ln": c["par"]["ln"], "S": c["S"],
            "rew": [c["rew"][t][0][0] for t in range(T)], "val": [c["val"][t][0][0] for t in range(T)],
            "done": [c["done"][t][0][0] for t in range(T)], "nv": c["nv"][0][0], "nd": c["nd"][0][0],
            "adv": [c["adv"][t][0][0] for t in range(T)], "ret": [c["ret"][t][0][0] for t in range(T)]}


def pack(cols, E, G):
    """rollout with E x G columns from single-column cases (same T, gn, ln)"""
    T = cols[0]["T"]
    at = lambda e, g: cols[e * G + g]
    return {"T": T, "E": E, "G": G, "gn": cols[0]["gn"], "ln": cols[0]["ln"],
            "rew": [[[at(e, g)["rew"][t] for g in range(G)] for e in range(E)] for t in range(T)],
            "val": [[[at(e, g)["val"][t] for g in range(G)] for e in range(E)] for t in range(T)],
            "done": [[[at(e, g)["done"][t] for g in range(G)] for e in range(E)] for t in range(T)],
            "nv": [[at(e, g)["nv"] for g in range(G)] for e in range(E)],
            "nd": [[at(e, g)["nd"] for g in range(G)] for e in range(E)],
            "_expect": [[[at(e, g)["adv"][t] * (2048 // at(e, g)["S"]) for g in range(G)] for e in range(E)] for t in range(T)]}


def select(cases, k, rng):
    """k value vectors for every (T, done placement incl. done[0] and next_done, gamma, lambda)"""
    groups = {}
    for c in cases:
        col = column_of_case(c)
        groups.setdefault((col["T"], col["gn"], col["ln"], tuple(col["done"]), col["nd"]), []).append(col)
    out = {}
    for key in sorted(groups):
        g = groups[key]
        rng.shuffle(g)
        out.setdefault(key[:3], []).extend(g[:k])
    return out, len(groups)


def batches(cols, shapes, rng):
    """greedily pack columns into calls; the columns of a call are pairwise distinct"""
    cols = list(cols)
    rng.shuffle(cols)
    i = 0
    out = []
    while cols:
        E, G = shapes[i % len(shapes)]
        i += 1
        T = cols[0]["T"]
        chosen, keys, rest = [], set(), []
        for c in cols:
            kx = colkey(c, T)
            if len(chosen) < E * G and kx not in keys:
                chosen.append(c)
                keys.add(kx)
            else:
                rest.append(c)
        if len(chosen) < E * G:            # not enough distinct columns left: shrink the call
            E, G = (len(chosen), 1)
        out.append((chosen, E, G))
        cols = rest
    return out


def random_roll(rng, T, E, G, gn, ln, pdone):
    while True:
        r = {"T": T, "E": E, "G": G, "gn": gn, "ln": ln,
             "rew": [[[rng.randint(-3, 6) for _ in range(G)] for _ in range(E)] for _ in range(T)],
             "val": [[[rng.randint(-2, 5) for _ in range(G)] for _ in range(E)] for _ in range(T)],
             "done": [[[int(t > 0 and rng.random() < pdone) for _ in range(G)] for _ in range(E)] for t in range(T)],
             "nv": [[rng.randint(-2, 5) for _ in range(G)] for _ in range(E)],
             "nd": [[int(rng.random() < max(pdone, 0.3)) for _ in range(G)] for _ in range(E)]}
        keys = {(tuple(r["rew"][t][e][g] for t in range(T)), tuple(r["val"][t][e][g] for t in range(T)),
                 tuple(r["done"][t][e][g] for t in range(1, T))) for e in range(E) for g in range(G)}
        if len(keys) == E * G:
            return r


def has_boundary(r):
    T = r["T"]
    return any(r["nd"][e][g] or any(r["done"][t][e][g] for t in range(1, T)) for e in range(r["E"]) for g in range(r["G"]))


def strip(r):
    return {k: v for k, v in r.items() if not k.startswith("_")}


# ------------------------------------------------------------------------------------------ the check
def _rows_job(a):
    from ..drive import rows
    return rows.run(*a)


def run(ctx):
    quick = ctx.quick
    rng = random.Random(ctx.seed)

    # ---- M1
    if quick:
        ctx.mc("GAE_MC", "GAE_MCq.cfg", must_cover=COVER)
        ctx.mc("GAE_MC", "GAE_MCq3.cfg", must_cover=COVER)
        ctx.mc("GAE_MC", "GAE_MCidq.cfg", must_cover=COVER_ID)
    else:
        ctx.mc("GAE_MC", "GAE_MCq.cfg", must_cover=COVER)
        ctx.mc("GAE_MC", "GAE_MCq3.cfg", must_cover=COVER)
        ctx.mc("GAE_MC", "GAE_MCt3.cfg", must_cover=COVER, timeout=3000)
        ctx.mc("GAE_MC", "GAE_MCid.cfg", must_cover=COVER_ID, timeout=3000)
    neg = tlc.model_check("GAE_MC", "GAE_Neg.cfg")
    if neg.ok or neg.violated_name != "RowsAligned":
        raise Vacuous("negative control: IPPO's mixed layout (obs/act agent-major, estimates time-major) was not rejected by RowsAligned")
    ctx.extra["negative_control"] = {"cfg": "GAE_Neg.cfg", "violated": neg.violated_name, "distinct_states": neg.distinct}

    # ---- M2: the grid of complete single-column rollouts with TLC's expected advantages
    d = tlc.dump("GAE_Dump", "GAE_Dump.cfg")
    cases = d.tagged.get("CASE", [])
    if len(cases) < 1000:
        raise Vacuous(f"GAE_Dump printed only {len(cases)} cases")
    ctx.states += d.distinct
    ctx.transitions += d.generated
    ctx.extra["dump_cases"] = len(cases)
    from ..drive import gae
    import numpy as np
    import torch

    torch.manual_seed(ctx.seed)          # network initialisation and minibatch shuffling (verdicts do not depend on them)
    np.random.seed(ctx.seed)
    traces, expects = [], []

    def add(tr, roll):
        traces.append(tr)
        expects.append(roll.get("_expect"))
        c = tr["cfg"]
        ctx.case((c["alg"], variant(c), json.dumps(strip(roll), sort_keys=True)), nontrivial=has_boundary(roll))

    sel_ppo, ngroups = select(cases, 2 if quick else 12, random.Random(ctx.seed + 1))
    sel_ippo, _ = select(cases, 2 if quick else 12, random.Random(ctx.seed + 2))
    ctx.extra["done_placements_x_gamma_lambda"] = ngroups
    k = 0
    for key in sorted(sel_ppo):
        for cols, E, G in batches(sel_ppo[key], [(1, 1), (2, 1), (2, 1), (3, 1), (4, 1)], rng):
            roll = pack(cols, E * G, 1)
            if roll["E"] == 1 and k % 3 == 0:
                obs, form = "box", "scalar"
            else:
                obs, form = ("box", "discrete")[k % 2], "vector"
            add(gae.run_ppo(strip(roll), obs, form, perturb_seed=ctx.seed + k), roll)
            k += 1
    n_ppo_grid = len(traces)
    for key in sorted(sel_ippo):
        for cols, E, G in batches(sel_ippo[key], [(1, 1), (2, 1), (1, 2), (2, 2)], rng):
            roll = pack(cols, E, G)
            for tr in gae.run_ippo([("agent", strip(roll))], ("loop", "loop", "row")[k % 3], perturb_seed=ctx.seed + k, order=("id", "rev")[k % 2]):
                add(tr, roll)
            k += 1
    n_ippo_grid = len(traces) - n_ppo_grid

    # ---- M3: seeded larger rollouts (beyond the model-checked scope)
    for j in range(30 if quick else 300):
        T, E = rng.randint(1, 6), rng.randint(1, 4)
        roll = random_roll(rng, T, E, 1, rng.randint(0, 2), rng.randint(0, 2), rng.choice([0.0, 0.2, 0.5]))
        form = "scalar" if (E == 1 and j % 2 == 0) else "vector"
        add(gae.run_ppo(roll, ("box", "discrete")[j % 2] if form == "vector" else "box", form, perturb_seed=ctx.seed + j), roll)
    for j in range(40 if quick else 400):
        T, E, G = rng.randint(1, 6), rng.randint(1, 3), rng.randint(1, 3)
        gn, ln, pd = rng.randint(0, 2), rng.randint(0, 2), rng.choice([0.0, 0.2, 0.5])
        groups = [("agent", random_roll(rng, T, E, G, gn, ln, pd))]
        if j % 4 == 0:
            groups.append(("other", random_roll(rng, T, E, rng.randint(1, 2), gn, ln, pd)))
        for tr, (_, roll) in zip(gae.run_ippo(groups, ("loop", "row")[j % 2], perturb_seed=ctx.seed + j, order=("rev", "id", "mixed")[j % 3]), groups):
            add(tr, roll)
    ctx.extra.update({"ppo_grid_calls": n_ppo_grid, "ippo_grid_calls": n_ippo_grid,
                      "random_traces": len(traces) - n_ppo_grid - n_ippo_grid})
    kinds = {e["op"] for t in traces for e in t["ev"]}
    for need in ("collect", "end", "gaestep", "returns", "perturbed", "flatten"):
        if need not in kinds:
            raise Vacuous(f"no recorded trace contains a '{need}' event")
    ctx.sample({"ppo_trace": {"cfg": traces[3]["cfg"], "ev": traces[3]["ev"]}})
    ctx.sample({"ippo_trace": {"cfg": traces[n_ppo_grid + 1]["cfg"], "ev": traces[n_ppo_grid + 1]["ev"][:6]}})
    vs = ctx.validate("GAE_Trace", TRACE_CFG, traces, sig=sig, what=what, chunk=400)
    # harness self-check: an accepted grid trace carries exactly the advantages TLC printed for the case
    for t, v, ex in zip(traces, vs, expects):
        if v.accepted and ex is not None:
            got = {e["t"]: e["adv"] for e in t["ev"] if e["op"] == "gaestep"}
            if any(got[tt + 1] != ex[tt] for tt in range(t["cfg"]["T"])):
                raise RuntimeError(f"harness inconsistency: trace accepted but advantages differ from the dumped case: {t['cfg']}")
    ctx.extra["traces_accepted"] = sum(1 for v in vs if v.accepted)
    full = sum(1 for t, v in zip(traces, vs) if v.accepted and any(
        e["op"] == "flatten" and len(e["rows"]) == t["cfg"]["T"] * t["cfg"]["E"] * t["cfg"]["G"] for e in t["ev"]))
    ctx.extra["accepted_traces_using_every_sample_once"] = full      # informative: C17 does not demand completeness
    if full == 0:
        raise Vacuous("no accepted trace carried a complete set of flattened rows")

    # ---- un-stubbed critic: the bootstrap value is the critic's value of the final next observation
    for j in range(12 if quick else 80):
        alg = ("ppo", "ippo")[j % 2]
        T, E = rng.randint(1, 4) if alg == "ppo" else rng.randint(2, 4), rng.randint(1, 3)
        G = 1 if alg == "ppo" else rng.randint(1, 2)
        roll = random_roll(rng, T, E, G, rng.randint(1, 2), rng.randint(0, 2), rng.choice([0.0, 0.3]))
        roll["nd"] = [[int(rng.random() < 0.3) for _ in range(G)] for _ in range(E)]
        roll["nv"] = [[0] * G for _ in range(E)]
        nd_form = ("loop", "row")[(j // 2) % 2]
        obs = ("box", "discrete")[(j // 2) % 2] if alg == "ppo" else "box"
        res, detail = gae.run_unstubbed(alg, roll, obs, nd_form)
        cfg = {"alg": alg, "T": T, "E": E, "G": G, "nd_form": nd_form, "obs": obs, "form": "vector"}
        ctx.case(("unstubbed", alg, obs, nd_form, json.dumps(roll, sort_keys=True)), nontrivial=True)
        for clause, ok in res.items():
            if not ok:
                ctx.violation(f"{alg}:unstubbed-{clause}:{shape_class(cfg)}:{variant(cfg)}",
                              f"{alg.upper()}.learn with its real critic: clause '{clause}' failed; cfg={cfg}; rollout={roll}; {json.dumps(detail)[:900]}",
                              {"kind": "unstubbed", "cfg": cfg, "roll": roll, "result": res, "detail": detail})
        if j < 2:
            ctx.sample({"unstubbed": cfg, "result": res, "next_value_observed": detail.get("hook_next_value")})

    ctx.assume("gamma, lambda in {0, 1/2, 1} and small integer rewards/values, so every float32/float64 intermediate of the "
               "real code is exact and comparison with the specification is equality (scaled by 2*4^5)")
    ctx.assume("the critic's forward on the final next observation is a stubbed *input* returning a scripted value per "
               "observation; with the real critic only a float comparison by the definition with tolerance 1e-5 is made")
    ctx.assume("the GAE tensors and the flattened rows are read from the guarded recorder hook (agilerl.utils.verif_hooks, "
               "AGILERL_VERIF=1); hook columns are matched to (env, agent) by their reward/value/done content, not by position")
    ctx.assume("IPPO experiences are shaped as train_multi_agent_on_policy produces them for a vector env (next_done (E,) per "
               "agent = nd_form 'loop'); nd_form 'row' is the (1,E) shape used by the repository's tests")
    ctx.assume("NoLeak on the real code: the second call replaces rewards/values/next value after the first boundary of each "
               "column, keeps the done flags, and the earlier estimates must be bit-identical")
    ctx.assume("PPO is constructed with share_encoders=False when construction with sharing fails (Python 3.12 Protocol check)")
    rule = ("case = (algorithm, input form, rollout: T, envs, agents, gamma, lambda, rewards, values, done flags incl. "
            "done[0] and next_done, next value); grid: columns printed by TLC (every done placement x gamma x lambda, "
            "k value vectors each) packed into calls; random: seeded larger rollouts; non-trivial = the rollout "
            "contains at least one episode boundary")
    # ---- minibatch clause (Rows.tla): every minibatch row is the flattened row of its index
    from concurrent.futures import ProcessPoolExecutor as _PPE
    ctx.mc("Rows", "Rows_MC.cfg", must_cover=["Next|Minibatch"])
    rjobs = []
    rj = 0
    for algo, fams in (("PPO", ["vector", "dict", "image", "discrete"]), ("IPPO", ["vector", "image", "discrete"])):
        for fam in fams:
            for bs in (2, 3, 8, 64):          # 64 >= number of samples: one minibatch is the whole rollout
                rjobs.append((algo, fam, bs, 1 + rj % 2, ctx.seed + rj))
                rj += 1
    with _PPE(max_workers=8) as ex:
        rtraces = list(ex.map(_rows_job, rjobs))
    for t in rtraces:
        ctx.case(("rows", str(t["cfg"])), nontrivial=len(t["ev"]) >= 2)
    ROWS_CFG = "SPECIFICATION TSpec\nCONSTANTS\n  MaxRows = 1\n  BatchSizes = {1}\n  Diag = @DIAG@\nINVARIANT UsedOK\nCHECK_DEADLOCK FALSE\n"
    ctx.validate("Rows_Trace", ROWS_CFG, rtraces,
                 sig=lambda t, v: f"rows:{t['cfg']['algo']}:{t['cfg']['family']}:{'full' if t['cfg']['batch_size'] >= 64 else 'part'}:{(v.clauses[0] if v.clauses else v.invariant)[:60]}",
                 what=lambda t, v: f"minibatch trace rejected at event {v.step}: {v.clauses or v.invariant}; cfg={t['cfg']}; event={str(v.event)[:300]}")
    # ---- rollout flags (training loops)                                   [stage added after the others: begin]
    _rollout_stage(ctx)
    # ---- rollout flags (training loops)                                   [end]
    return "model_checking", rule, False


# ------------------------------------------------------------------------------------------ rollout flags (training loops)
# Rollout.tla: how train_on_policy / train_multi_agent_on_policy PRODUCE the done flags that the stages above take
# as inputs of learn(): d[t+1] = 1 exactly where the vector environment ended the episode (termination OR
# truncation) at step t, next_done likewise for the last step, next_state = the observation after the last step.
ROLLOUT_CFG = """SPECIFICATION TSpec
CONSTANTS
  EnvSet = {1}
  AgentSet = {1}
  Kinds = {"term"}
  MaxT = 1000
  MaxRolls = 100000
  MaxEp = 100000
  FlagRule = "either"
  Mode = "auto"
  ResetClears = FALSE
  Diag = @DIAG@
INVARIANT TypeOK
INVARIANT FlagsMarkEpisodeStarts
INVARIANT NoLeak
INVARIANT ObsChain
INVARIANT BootstrapObs
INVARIANT FirstFlagZero
CHECK_DEADLOCK FALSE
"""
ROLLOUT_COVER = ["Reset|ResetTo", "StepContinue|StepWith", "StepTermOnly", "StepTruncOnly", "StepMixed", "Learn"]
# "loop" mode (one plain environment that the loop resets itself): additionally a reset by the loop inside a rollout
ROLLOUT_COVER_LOOP = ROLLOUT_COVER + ["LoopReset|LoopResetTo"]


def _rollout_sig(t, v):
    if v.clauses:
        key = v.clauses[0].split(":")[0]
        if key == "crash" and isinstance(v.event, dict):
            key += f"[{v.event.get('exc', '?')}]"
    else:
        key = "inv-" + (v.invariant or "?")
    mode = ":gymnasium-default-autoreset" if t["cfg"].get("autoreset", "same") == "next" else ""
    return f"rollout:{t['cfg']['loop']}:{key}{mode}"


def _rollout_what(t, v):
    c = t["cfg"]
    before = [e for e in t["ev"][:max(v.step - 1, 0)]][-4:]
    return (f"{'train_on_policy (PPO)' if c['loop'] == 'ppo' else 'train_multi_agent_on_policy (IPPO)'}"
            f"{'' if c.get('vec', True) else ' on a NON-vectorised ParallelEnv (the loop resets the finished environment inside the rollout)'}: trace rejected at event "
            f"{v.step}: {v.clauses or ('invariant ' + v.invariant)}; envs={c['E']} agents={c['agents'] or 1} learn_steps={c['learn_steps']} "
            f"scripts(length, end kind per episode, cyclic)={c['scripts']}; event={json.dumps(v.event)[:900]}; "
            f"preceding events={json.dumps([{k: x[k] for k in x if k in ('op', 'term', 'trunc', 'ep', 'k')} for x in before])[:900]}")


def _rollout_cfgs(quick, seed):
    out = []
    n = 2 if quick else 12
    for j in range(n):
        E = (2, 3, 1, 2)[j % 4]
        # learn_step = T * E: rollouts of T = 3 and T = 1 (only next_done matters) / T = 2 and 4 steps in one population
        ls = ([3 * E, E], [2 * E, 4 * E], [5 * E, 2 * E])[j % 3]
        out.append({"loop": "ppo", "E": E, "seed": seed + j, "learn_steps": ls, "rolls": 2 + j % 2, "gens": 2})
        names = (["agent_0", "agent_1"], ["agent_0", "agent_1", "other_0"], ["speaker_0", "listener_0"])[j % 3]
        out.append({"loop": "ippo", "E": (2, 3, 1, 2)[j % 4], "seed": seed + j, "learn_steps": ls, "rolls": 2 + j % 2, "gens": 2, "agents": names})
    # Box action space with narrow bounds: most sampled actions are clipped by the loop before env.step(); learn() must still get the
    # sampled action next to its log-probability (clause stored-action-is-sampled-action)
    for j in range(1 if quick else 4):
        E = (2, 3, 1, 2)[j % 4]
        out.append({"loop": "ppo", "box": True, "E": E, "seed": seed + 200 + j, "learn_steps": ([3 * E, E], [2 * E, 4 * E])[j % 2], "rolls": 2, "gens": 2})
    # non-vectorised: IPPO on the raw ParallelEnv; the loop itself resets the finished environment inside the rollout
    # (train_on_policy on a raw gymnasium environment fails in stack_experiences on the unchanged tree, known finding F-C20-4: left out)
    for j in range(1 if quick else 4):
        names = (["agent_0", "agent_1"], ["agent_0", "agent_1", "other_0"], ["speaker_0", "listener_0"])[j % 3]
        out.append({"loop": "ippo", "vec": False, "E": 1, "seed": seed + 100 + j, "learn_steps": ([5, 3], [4, 2], [6, 4])[j % 3], "rolls": 3, "gens": 2,
                    "agents": names})
    return out


def _rollout_stage(ctx):
    quick = ctx.quick
    if quick:
        ctx.mc("Rollout_MC", "Rollout_MCq.cfg", must_cover=ROLLOUT_COVER)
        ctx.mc("Rollout_MC", "Rollout_MCma.cfg", must_cover=ROLLOUT_COVER)
        ctx.mc("Rollout_MC", "Rollout_MCloop.cfg", must_cover=ROLLOUT_COVER_LOOP)
    else:
        ctx.mc("Rollout_MC", "Rollout_MC.cfg", must_cover=ROLLOUT_COVER, timeout=3000)
        ctx.mc("Rollout_MC", "Rollout_MCma.cfg", must_cover=ROLLOUT_COVER)
        ctx.mc("Rollout_MC", "Rollout_MCmat.cfg", must_cover=ROLLOUT_COVER, timeout=3000)
        ctx.mc("Rollout_MC", "Rollout_MCloop.cfg", must_cover=ROLLOUT_COVER_LOOP)
        ctx.mc("Rollout_MC", "Rollout_MCloopt.cfg", must_cover=ROLLOUT_COVER_LOOP)
    # negative controls: flags from terminations only (truncations dropped); flags cleared after the loop's own reset inside a rollout
    negs = [("Rollout_Neg.cfg", "FlagsMarkEpisodeStarts"), ("Rollout_NegClear.cfg", "FlagsMarkEpisodeStarts")] + \
           ([] if quick else [("Rollout_NegLeak.cfg", "NoLeak"), ("Rollout_NegClearLeak.cfg", "NoLeak")])
    for cfg, inv in negs:
        neg = tlc.model_check("Rollout_MC", cfg)
        if neg.ok or neg.violated_name != inv:
            raise Vacuous(f"negative control {cfg}: wrong done flags (terminations only / cleared after the loop's reset) were not rejected by {inv}")
        ctx.extra.setdefault("rollout_negative_controls", []).append({"cfg": cfg, "violated": neg.violated_name, "distinct_states": neg.distinct})

    from ..drive import rollout
    traces = [rollout.run(c) for c in _rollout_cfgs(quick, ctx.seed)]
    agg = {}
    for t in traces:
        st = rollout.stats(t)
        a = agg.setdefault(t["cfg"]["loop"] + ("" if t["cfg"].get("vec", True) else "-nonvec") + ("-box" if t["cfg"].get("box") else ""), {})
        for k, x in st.items():
            a[k] = a.get(k, 0) + x
        ctx.case(("rollout", json.dumps(t["cfg"], sort_keys=True)), nontrivial=st["term_inner"] + st["trunc_inner"] + st["term_last"] + st["trunc_last"] > 0)
    ctx.extra["rollout_runs"] = agg
    ctx.sample({"rollout_trace": {"cfg": traces[0]["cfg"], "ev": traces[0]["ev"][:6]}})
    vs = ctx.validate("Rollout_Trace", ROLLOUT_CFG, traces, sig=_rollout_sig, what=_rollout_what)
    ctx.extra["rollout_traces_accepted"] = sum(1 for v in vs if v.accepted)
    if all(v.accepted for v in vs):          # vacuity: the accepted runs contain every kind of boundary the clauses talk about
        for loop, a in agg.items():
            need = ["learn", "term_inner", "trunc_inner", "term_last", "trunc_last", "cont_last", "envs_differ", "carry"] + (["agents_differ"] if loop == "ippo" else [])
            if loop.endswith("-box"):         # the flag clauses are covered by the Discrete runs; here: rollouts were re-evaluated
                need = ["learn", "reeval_rows"]
            if loop.endswith("-nonvec"):      # one environment; the loop's reset inside a rollout, followed by further steps of the same rollout
                need = ["learn", "term_inner", "trunc_inner", "cont_last", "loop_reset", "loop_reset_inner"]
            missing = [k for k in need if a.get(k, 0) == 0]
            if missing:
                raise Vacuous(f"rollout stage: the recorded {loop} runs contain no {missing} (stats {a})")
    # the vector environment users get from agilerl.utils.utils.make_vect_envs: gymnasium >= 1.0 resets a finished sub-environment in
    # the NEXT step (the action of that step is ignored); the loop then stores a transition from the terminal observation into the
    # new episode whose estimate bootstraps from the new episode's value (known finding F-C17-5)
    nxt = rollout.run({"loop": "ppo", "E": 2, "seed": ctx.seed, "learn_steps": [6], "rolls": 2, "gens": 1, "autoreset": "next"})
    ctx.case(("rollout", json.dumps(nxt["cfg"], sort_keys=True)))
    ctx.validate("Rollout_Trace", ROLLOUT_CFG, [nxt], sig=_rollout_sig, what=_rollout_what)
    ctx.assume("rollout stage: the vector environments reset a finished sub-environment in the same step and return the first "
               "observation of the next episode (gymnasium SyncVectorEnv(autoreset_mode=SAME_STEP); AsyncPettingZooVecEnv); the "
               "recorded observations are checked against this rule (clause env-same-step-autoreset), it is not trusted")
    ctx.assume("rollout stage: all agents of a scripted multi-agent sub-environment end their episode in the same step (each by "
               "termination or by truncation); agents that leave an episode early get placeholder transitions from the vector "
               "environment, which C12 covers")
    ctx.assume("rollout stage: the flags, states and next_state are read by a spy around PPO.learn / IPPO.learn that calls the real "
               "learn(); terminations, truncations and observations are read from the vector environment's own step()/reset() "
               "return values; evaluation episodes (agent.test) between generations are not part of any rollout; the episode an "
               "observation belongs to is read from the observation itself (the scripted environment writes its reset count into it)")
    ctx.assume("rollout stage, non-vectorised runs: train_multi_agent_on_policy on one plain scripted ParallelEnv (no num_envs); the loop "
               "resets the finished environment itself inside the rollout; next_state is then the terminal observation (masked by "
               "next_done = 1), which the clauses allow; train_on_policy on a plain gymnasium environment is not run (it fails in "
               "stack_experiences on the unchanged tree, known finding F-C20-4)")
    ctx.assume("rollout stage, clause stored-action-is-sampled-action (PPO runs): inside the spy, before the real learn() and with the "
               "torch RNG state restored afterwards, the stored (observation, action) rows are evaluated with the agent's own "
               "evaluate_actions; the policy has not been updated since the rollout was collected, so the stored log-probabilities and "
               "values must be reproduced (tolerance 1e-5); Box(-0.25, 0.25, (2,)) actions with the default unit-variance Gaussian policy "
               "make the loop's clipping change most actions")
    ctx.assume("rollout stage: the flag of the first row of a rollout (always 0 in the loops, also right after an episode end) is "
               "not constrained: the recursion never reads it")


def _rollout_replay(rp):
    from .. import trace as trace_mod
    from ..drive import rollout
    t = rp["replay"]["trace"]
    c = dict(t["cfg"])
    c["scripts"] = [[tuple(x) for x in s] for s in c["scripts"]]
    new = rollout.run(c)
    v = trace_mod.validate("Rollout_Trace", ROLLOUT_CFG, [new])[0]
    for i, e in enumerate(new["ev"], start=1):
        mark = "  <-- rejected here: " + "; ".join(v.clauses) if (not v.accepted and i == v.step) else ""
        print(f"{i:3d} {json.dumps({k: x for k, x in e.items() if k != 'tb'})[:500]}{mark}")
    print("ACCEPTED" if v.accepted else f"REJECTED at event {v.step}: {v.clauses or v.invariant}")
    return 0 if v.accepted else 1


# ------------------------------------------------------------------------------------------ replay
def replay(path):
    from .. import trace as trace_mod
    from ..drive import gae

    rp = json.loads(open(path).read())
    r = rp["replay"]
    print(f"replaying {rp['signature']}")
    if r.get("kind") == "unstubbed":
        res, detail = gae.run_unstubbed(r["cfg"]["alg"], r["roll"], r["cfg"]["obs"], r["cfg"]["nd_form"])
        print(json.dumps({"result": res, "detail": detail}, indent=1)[:4000])
        return 0 if all(res.values()) else 1
    if r.get("kind") != "rejected-trace":
        print(r.get("text", "")[:6000])
        return 1
    if r.get("module") == "Rollout_Trace":          # rollout flags (training loops) stage
        return _rollout_replay(rp)
    t = r["trace"]
    c = t["cfg"]
    roll = {k: c[k] for k in ("T", "E", "G", "gn", "ln")}
    for k in ("rew", "val", "done"):
        roll[k] = [e[k] for e in t["ev"] if e["op"] == "collect"]
    end = next(e for e in t["ev"] if e["op"] == "end")
    roll["nv"], roll["nd"] = end["nv"], end["nd"]
    if c["alg"] == "ppo":
        new = gae.run_ppo(roll, c["obs"], c["form"], perturb_seed=rp.get("seed", 0))
    else:
        new = gae.run_ippo([("agent", roll)], c["nd_form"], perturb_seed=rp.get("seed", 0), order=c.get("order", "id"))[0]
    v = trace_mod.validate("GAE_Trace", TRACE_CFG, [new])[0]
    for i, e in enumerate(new["ev"], start=1):
        mark = "  <-- rejected here: " + "; ".join(v.clauses) if (not v.accepted and i == v.step) else ""
        print(f"{i:3d} {json.dumps(e)[:600]}{mark}")
    print("ACCEPTED" if v.accepted else f"REJECTED at event {v.step}: {v.clauses or v.invariant}")
    return 0 if v.accepted else 1
