"""C13 -- the vector environment rejects misuse and survives worker faults without hanging.

M1  VecEnv.tla (implementation-shaped protocol): VecEnv_raise.cfg / VecEnv_kill.cfg (safety: MisuseRejected,
    ErrorTypeOK, TimeoutIsTimeout, CloseNeverRaises, NoWorkerLeft, deadlock = hang), VecEnv_live.cfg
    (liveness NoHang under fairness).  VecEnv_retry.cfg drops the client assumption and exhibits the
    recorded finding F-C13-2 at design level.
M4  tlc -simulate on VecEnv_Gen: behaviours (client call sequences, fault positions, which workers lag)
    become scenarios for the real AsyncPettingZooVecEnv with scripted sub-environments (raise /
    sleep / SIGKILL at a given command); every public call runs under a watchdog.
M3  the recorded outcomes are validated by TLC against VecEnv_Trace (worker progress inferred).
"""
from __future__ import annotations

import json
import os
import random
import shutil
import tempfile
from concurrent.futures import ProcessPoolExecutor

from .. import tlc
from .. import trace as trace_mod


def trace_cfg(nw):
    return f"""SPECIFICATION TSpec
CONSTANTS
  ClientAssumptions = {{}}
  NW = {nw}
  EpLen <- TEpLen
  MaxCalls = 1000
  MaxFaults = 1000
  FaultKinds = {{"raise", "kill"}}
  ExcTypes = {{"ValueError", "KeyError", "RuntimeError", "ZeroDivisionError"}}
  Timeouts = {{"none", "finite", "terminate"}}
  Diag = @DIAG@
INVARIANT NoWorkerLeft
INVARIANT ErrorTypeOK
CHECK_DEADLOCK FALSE
"""


def wrapper(L):
    return ("VT", "---- MODULE VT ----\nEXTENDS VecEnv_Trace\nTEpLen == <<%s>>\n====\n" % ", ".join(str(x) for x in L))


def scenario_from_history(hist, NW, L, sleep=0.45):
    """A TLC behaviour (VecEnv_Gen history) -> scenario for the real environment."""
    calls = []
    faults = {}
    progressed = False
    for h in hist:
        a = h["a"]
        if a == "begin":
            if progressed:
                calls.append({"call": "settle", "s": 0.12})
                progressed = False
            if h["to"] == "finite" and h["call"].endswith("_wait"):
                for (w, n) in h.get("lag", []):
                    faults.setdefault(str(w - 1), {}).setdefault(str(n), ["sleep", sleep])
            calls.append({"call": h["call"], "to": h["to"]})
        elif a == "exec":
            progressed = True
        elif a == "raise":
            faults.setdefault(str(h["w"] - 1), {})[str(h["n"])] = ["raise", h["typ"]]
            progressed = True
        elif a == "kill":
            if h["mid"]:
                faults.setdefault(str(h["w"] - 1), {})[str(h["n"])] = ["kill", ""]
                progressed = True
            else:
                calls.append({"call": "settle", "s": 0.12})
                calls.append({"call": "kill", "w": h["w"] - 1})
    calls.append({"call": "settle", "s": 0.05})
    calls.append({"call": "close", "to": "none"})        # every scenario ends with close(): NoWorkerLeft
    return {"NW": NW, "L": list(L), "faults": faults, "calls": calls}


HANDWRITTEN = [
    # misuse in every state
    {"calls": [{"call": "reset_wait"}, {"call": "step_wait"}, {"call": "call_wait"}, {"call": "reset_async"}, {"call": "step_async"},
               {"call": "call_async"}, {"call": "set_attr"}, {"call": "reset_wait"}, {"call": "close"}, {"call": "step_async"}, {"call": "close"}]},
    # every entry point after close (idle, and with a call that was pending at close)
    {"calls": [{"call": "reset_async"}, {"call": "reset_wait"}, {"call": "close"}, {"call": "reset_wait"}, {"call": "step_wait"}, {"call": "call_wait"},
               {"call": "reset_async"}, {"call": "step_async"}, {"call": "call_async"}, {"call": "set_attr"}, {"call": "close"}]},
    {"calls": [{"call": "reset_async"}, {"call": "reset_wait"}, {"call": "step_async"}, {"call": "close"}, {"call": "step_wait"}, {"call": "call_wait"},
               {"call": "reset_wait"}, {"call": "close"}]},
    # raise at reset / step / call / set_attr in either worker, then close
    {"faults": {"0": {"1": ["raise", "ValueError"]}}, "calls": [{"call": "reset_async"}, {"call": "reset_wait"}, {"call": "close"}]},
    {"faults": {"1": {"2": ["raise", "KeyError"]}}, "calls": [{"call": "reset_async"}, {"call": "reset_wait"}, {"call": "step_async"}, {"call": "step_wait"}, {"call": "close"}]},
    {"faults": {"0": {"2": ["raise", "RuntimeError"]}, "1": {"2": ["raise", "KeyError"]}},
     "calls": [{"call": "reset_async"}, {"call": "reset_wait"}, {"call": "call_async"}, {"call": "call_wait"}, {"call": "close"}]},
    {"faults": {"1": {"2": ["raise", "ZeroDivisionError"]}}, "calls": [{"call": "reset_async"}, {"call": "reset_wait"}, {"call": "set_attr"}, {"call": "close"}]},
    # pending call + fault + close (F-C13-1, fixed)
    {"faults": {"1": {"1": ["raise", "ValueError"]}}, "calls": [{"call": "reset_async"}, {"call": "settle", "s": 0.15}, {"call": "close"}]},
    # timeout, then close
    {"faults": {"0": {"2": ["sleep", 0.5]}}, "calls": [{"call": "reset_async"}, {"call": "reset_wait"}, {"call": "step_async"}, {"call": "step_wait", "to": "finite"}, {"call": "close"}]},
    {"faults": {"1": {"1": ["sleep", 0.5]}}, "calls": [{"call": "reset_async"}, {"call": "reset_wait", "to": "finite"}, {"call": "close", "to": "finite"}]},
    # a sub-environment that is stuck for good (sleeps far beyond the watchdog): the wait reports the timeout, a forced close
    # returns promptly and leaves no worker behind
    {"faults": {"0": {"2": ["sleep", 40.0]}}, "calls": [{"call": "reset_async"}, {"call": "reset_wait"}, {"call": "step_async"}, {"call": "step_wait", "to": "finite"}, {"call": "close", "to": "terminate"}]},
    {"faults": {"1": {"1": ["sleep", 40.0]}}, "calls": [{"call": "reset_async"}, {"call": "reset_wait", "to": "finite"}, {"call": "close", "to": "terminate"}]},
    {"faults": {"1": {"2": ["sleep", 40.0]}}, "calls": [{"call": "reset_async"}, {"call": "reset_wait"}, {"call": "call_async"}, {"call": "call_wait", "to": "finite"}, {"call": "close", "to": "terminate"}]},
    # an exception with a very long message (the worker's report exceeds a pipe buffer): raised like any other, then close
    {"faults": {"0": {"2": ["raise", "ValueError", "big"]}}, "calls": [{"call": "reset_async"}, {"call": "reset_wait"}, {"call": "step_async"}, {"call": "step_wait"}, {"call": "close"}]},
    {"faults": {"1": {"1": ["raise", "KeyError", "big"]}, "0": {"1": ["raise", "KeyError", "big"]}}, "calls": [{"call": "reset_async"}, {"call": "reset_wait"}, {"call": "close"}]},
    {"faults": {"1": {"2": ["raise", "RuntimeError", "big"]}}, "calls": [{"call": "reset_async"}, {"call": "reset_wait"}, {"call": "set_attr"}, {"call": "close"}]},
    {"faults": {"1": {"2": ["raise", "ValueError", "huge"]}}, "calls": [{"call": "reset_async"}, {"call": "reset_wait"}, {"call": "step_async"}, {"call": "step_wait"}, {"call": "close"}]},
    {"faults": {"0": {"1": ["raise", "RuntimeError", "huge"]}}, "calls": [{"call": "reset_async"}, {"call": "reset_wait"}, {"call": "close"}]},
    # killed worker: mid-step, idle; then close
    {"faults": {"1": {"2": ["kill", ""]}}, "calls": [{"call": "reset_async"}, {"call": "reset_wait"}, {"call": "step_async"}, {"call": "step_wait"}, {"call": "close"}]},
    {"calls": [{"call": "reset_async"}, {"call": "reset_wait"}, {"call": "settle"}, {"call": "kill", "w": 0}, {"call": "step_async"}, {"call": "close"}]},
    {"calls": [{"call": "reset_async"}, {"call": "reset_wait"}, {"call": "settle"}, {"call": "kill", "w": 1}, {"call": "close"}]},
    # F-C13-2: re-issuing a wait after EOFError
    {"faults": {"1": {"2": ["kill", ""]}}, "calls": [{"call": "reset_async"}, {"call": "reset_wait"}, {"call": "step_async"}, {"call": "step_wait"}, {"call": "step_wait"}, {"call": "close"}]},
]


def _run_one(args):
    from ..drive import vecenv
    scn, workdir, watchdog = args
    evs, hung, leftover = vecenv.run_scenario(scn, workdir, watchdog=watchdog)
    t = vecenv.to_trace(scn, evs, hung)
    t["cfg"]["leftover"] = leftover
    t["cfg"]["scenario"] = scn
    return t


def sig(t, v):
    ev = v.event if isinstance(v.event, dict) else {}
    cl = v.clauses[0] if v.clauses else v.invariant
    prev = ""
    if v.step >= 2:
        p = t["ev"][v.step - 2]
        prev = f":after-{p.get('call', p.get('ev'))}-{p.get('typ', '')}"
    return f"vecenv:{ev.get('call', '?')}:{ev.get('kind', '?')}{ev.get('typ', '')}:{cl}{prev}"


def what(t, v):
    return (f"AsyncPettingZooVecEnv scenario rejected at event {v.step} {v.event}: {v.clauses or v.invariant}; "
            f"scenario={json.dumps(t['cfg'].get('scenario'))[:600]}")


def run(ctx):
    quick = ctx.quick
    ctx.mc("VecEnv_MC", "VecEnv_raise.cfg", deadlock=True,
           must_cover=["Begin", "FinishAsync", "FinishWait", "Exec", "Raise", "CloseJoin", "CloseTerminate"])
    ctx.mc("VecEnv_MC", "VecEnv_kill.cfg" if quick else "VecEnv_killt.cfg", deadlock=True, must_cover=["Kill", "CloseSend", "CloseRecv", "FinishSetAttrRecv"])
    ctx.mc("VecEnv_MC", "VecEnv_live.cfg" if quick else "VecEnv_livet.cfg", deadlock=True, coverage=False)
    if not quick:
        ctx.mc("VecEnv_MC", "VecEnv_raise3.cfg", deadlock=True, coverage=False)          # three workers
    # design-level exhibition of the recorded finding (client assumption dropped)
    r = tlc.run_tlc("VecEnv_MC", "VecEnv_retry.cfg", deadlock=True)
    ctx.extra["retry_cfg_result"] = "no deadlock" if r.ok else r.violated_name
    if not r.ok:
        wedged = ("EOFError" in r.violation) and ("_wait" in r.violation) and r.violated_name == "Deadlock"
        ctx.violation("tlc:VecEnv:Deadlock:wedged-retry" if wedged else f"tlc:VecEnv:{r.violated_name}:retry-cfg",
                      "TLC (client assumption dropped): " + r.violated_name,
                      {"kind": "tlc-counterexample", "cfg": "VecEnv_retry.cfg", "text": r.violation})

    # ---- M4: behaviours -> scenarios
    n_beh = 40 if quick else 400
    scenarios = []
    for (nw, L, cfgname) in ([(2, (1, 2), "VecEnv_Gen.cfg")] if quick else [(2, (1, 2), "VecEnv_Gen.cfg"), (3, (1, 2, 3), "VecEnv_Gen3.cfg")]):
        g = tlc.run_tlc("VecEnv_GenMC", cfgname, workers=1,
                        extra=["-simulate", f"num={n_beh}", "-depth", "40", "-seed", str(ctx.seed + 1)])
        if not g.ok:
            ctx.violation(f"tlc:VecEnv_Gen:{g.violated_name}", "simulation found a violation", {"text": g.violation})
        seen = set()
        for h in g.tagged.get("BEH", []):
            k = json.dumps(h, sort_keys=True)
            if k in seen:
                continue
            seen.add(k)
            scenarios.append(scenario_from_history(h, nw, L))
    ctx.extra["tlc_behaviours"] = len(scenarios)
    for hw in HANDWRITTEN:
        s = {"NW": 2, "L": [1, 2], "faults": hw.get("faults", {}), "calls": [dict(c, to=c.get("to", "none")) if c["call"] not in ("settle", "kill") else c for c in hw["calls"]]}
        scenarios.append(s)
    workdir = tempfile.mkdtemp(prefix="vecenv-")
    try:
        with ProcessPoolExecutor(max_workers=8) as ex:
            traces = list(ex.map(_run_one, [(s, workdir, 10.0) for s in scenarios]))
    finally:
        shutil.rmtree(workdir, ignore_errors=True)
    for t in traces:
        ctx.case(json.dumps(t["cfg"]["scenario"], sort_keys=True),
                 nontrivial=bool(t["cfg"]["faults"]) or any(e.get("kind") == "exc" for e in t["ev"]))
        if t["cfg"]["leftover"] and not any(e.get("kind") == "hang" for e in t["ev"]):
            # worker processes still running after the scenario's final close()
            ctx.violation("vecenv:leftover-workers", f"workers {t['cfg']['leftover']} still alive after close(): {json.dumps(t['cfg']['scenario'])[:400]}",
                          {"trace": t})
    ctx.sample({"scenario": traces[0]["cfg"]["scenario"], "events": traces[0]["ev"]})
    ctx.sample({"scenario": traces[-2]["cfg"]["scenario"], "events": traces[-2]["ev"]})
    groups = {}
    for t in traces:
        groups.setdefault((t["cfg"]["NW"], tuple(t["cfg"]["L"])), []).append(t)
    for (nw, L), ts in groups.items():
        trace_mod.WRAPPER = wrapper(L)
        try:
            ctx.validate("VecEnv_Trace", trace_cfg(nw), ts, sig=sig, what=what, chunk=100)
        finally:
            trace_mod.WRAPPER = None
    ctx.assume("'promptly' = every scenario (all calls incl. close) finishes within a 10 s watchdog; injected sleeps are 0.45-0.5 s, timeouts 0.15 s")
    ctx.assume("BrokenPipeError/ConnectionResetError are abstracted to one transport error class")
    ctx.assume("client assumption no_retry_when_wedged in the exhaustive configs (F-C13-2 is exhibited separately)")
    return "model_checking", ("case = scenario (public call sequence with timeouts, fault plan per worker and command number, kill events); "
                              "generated by tlc -simulate from VecEnv_Gen plus hand-written fault scripts; non-trivial = has a fault or an exception outcome"), False
