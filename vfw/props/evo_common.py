"""Shared machinery of the life-cycle checks (C01, C02, C06, C07): trace cfg / wrapper module for a given
algorithm shape, grouping and validation of Evo traces, operation-script generators."""
from __future__ import annotations

import json
import random
from concurrent.futures import ProcessPoolExecutor

from .. import trace as trace_mod


def tla_seq(xs):
    return "<<" + ", ".join(xs) + ">>"


def wrapper(shape, nslots, nfiles=3):
    K, M, H = len(shape["nets"]), len(shape["opts"]), len(shape["hpnames"])
    covers = tla_seq(["{" + ", ".join(str(n) for n in c) + "}" for c in shape["covers"]])
    text = f"""---- MODULE VT ----
EXTENDS Evo_Trace
TShape == [K |-> {K}, M |-> {M}, H |-> {H},
           shadow |-> {tla_seq([str(x) for x in shape['shadow']])},
           covers |-> {covers},
           lrhp |-> {tla_seq([str(x) for x in shape['lrhp']])},
           hpnames |-> {tla_seq(['"%s"' % n for n in shape['hpnames']])},
           policy |-> {shape['policy']}, resync |-> {"TRUE" if shape['resync'] else "FALSE"}]
====
"""
    return ("VT", text)


def trace_cfg(nslots, nfiles=3):
    return f"""SPECIFICATION TSpec
CONSTANTS
  Shape <- TShape
  NSlots = {nslots}
  MaxOps = 1000000
  NBatches = 1000
  NFiles = {nfiles}
  Diag = @DIAG@
INVARIANT NoSharing
INVARIANT Functional
INVARIANT ActFunctional
CHECK_DEADLOCK FALSE
"""


def _run(args):
    from ..drive import evo
    algo, family, ops, nslots, seed, shared_hp = args[:6]
    wrapped = args[6] if len(args) > 6 else False
    return evo.run_script(algo, family, ops, nslots=nslots, seed=seed, shared_hp=shared_hp, wrapped=wrapped)


def run_scripts(jobs, workers=12):
    """jobs: list of (algo, family, ops, nslots, seed, shared_hp) -> traces (parallel, order preserved)."""
    with ProcessPoolExecutor(max_workers=workers) as ex:
        return list(ex.map(_run, jobs, chunksize=1))


def validate(ctx, traces, sig, what):
    groups = {}
    for t in traces:
        key = json.dumps([t["cfg"]["shape"], t["cfg"]["NSlots"]], sort_keys=True)
        groups.setdefault(key, []).append(t)
    for key, ts in groups.items():
        shape, nslots = json.loads(key)
        trace_mod.WRAPPER = wrapper(shape, nslots)
        try:
            ctx.validate("Evo_Trace", trace_cfg(nslots), ts, sig=sig, what=what, chunk=100)
        finally:
            trace_mod.WRAPPER = None


def default_sig(prefix):
    def sig(t, v):
        ev = v.event if isinstance(v.event, dict) else {}
        cl = (v.clauses[0] if v.clauses else v.invariant or "?")
        k = f":{ev.get('k')}" if ev.get("op") in ("mutate", "mutpop") else ""
        return f"{prefix}:{t['cfg']['algo']}:{ev.get('op', '?')}{k}:{cl}"
    return sig


def default_what(t, v):
    ev = dict(v.event) if isinstance(v.event, dict) else {}
    ev.pop("cells", None)
    tb = ev.pop("tb", "")
    return (f"{t['cfg']['algo']}/{t['cfg']['family']} life-cycle trace rejected at event {v.step}: {v.clauses or v.invariant}; "
            f"ops so far={[ (e['op'], e.get('a'), e.get('c'), e.get('b'), e.get('k')) for e in t['ev'][:v.step]]}; event={json.dumps(ev)[:900]} {tb[-300:]}")
