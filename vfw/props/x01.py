"""X01 -- observation normalisation wrapper (RSNorm) and RunningMeanStd as a state machine.

What is demanded (each clause is what the docstrings of agilerl.wrappers.agent / evident intent promise):

  MomentsDef   "Tracks mean, variance, and count of values": after any history the (mean, var, count) of every
               normalised coordinate are the moments of ALL rows the wrapper acted on in training mode, pooled
               with the prior pseudo-sample (count eps, mean 0, var 1) the constructor installs -- a function of
               (n, sum, sum of squares) only, hence the same for every split of the rows into batches.
  Frozen       "The normalization statistics are only updated when the agent is in training mode": acting in
               evaluation mode and learn() never change a statistic.
  HandedPost   "Returns the action from the agent after normalizing the observation": the wrapped agent is handed
               (x - mean)/sqrt(var + eps) per coordinate.  get_action() updates first and normalises second, so
               the statistics are those AFTER this call's update; learn() normalises obs and next_obs with the
               current statistics.  Keys outside norm_obs_keys are handed on unchanged.
  OneRow       the agents accept a single unbatched observation (non-vectorised environments in
               train_off_policy); it is one row of the statistics.
  CallerIntact get_action() does not modify the caller's observation object.
  Routed       wrapper.get_action / agent.get_action (re-bound by the wrapper) reach the wrapper's own agent.
  CarryExact   clone(), save_checkpoint()+load_checkpoint() and Algo.load() carry (mean, var, count, eps) exactly.
  Local        afterwards the copies are independent: an operation on one wrapper never changes another's statistics.
  PerKey       Dict / Tuple spaces: every key (position) has its own statistics, fed by its own component only.

Not demanded: anything for multi-agent algorithms or on-policy agents (documented as unsupported), the training flag a
clone / restored wrapper starts with (the observed flag is taken over), whether learn() leaves the caller's batch
untouched (it does not for TensorDict batches; recorded as information), learn() for Tuple spaces (DQN.learn itself
rejects TensorDict batches with tuple observations).

M1  RSNorm_MC{a,l,k}.cfg: exact rational arithmetic.  a: one wrapper, grid -2..2 (thorough -3..3), every split of up
    to 5 (6) rows into batches of <= 3, three priors: the code's recursive batched update (Chan) == MomentsDef;
    l: two (thorough: three) wrappers, clone / save / load / loadnew: Frozen, Local, CarryExact, HandedPost;
    k: two keys, with and without norm_obs_keys.  Negative control RSNorm_Neg.cfg (a plausible wrong update:
    count-weighted average of batch variances) must violate MomentsDef.
M4  tlc -simulate on RSNorm_Gen.cfg produces operation histories (structure explored by TLC, batch contents a fixed
    pseudo-random function on the grid); seeded random histories on the grid -4..4 (<= 10 rows per wrapper) and a
    few hand-written ones (unbatched observations, norm_obs_keys) are added.
M3  every history is replayed into the real RSNorm around a real DQN (vector / Dict / Tuple spaces) whose
    get_action / learn record what they are handed; the recorded float32 statistics of ALL live wrappers after
    every operation are validated by TLC (RSNorm_Trace, tolerance 2e-4) against the definition; the handed
    observation is validated by TLC to 2e-2 where the cross-multiplication fits 32 bits and compared in Python with
    the exact expectation TLC prints (tag EXP) to 5e-4.
"""
from __future__ import annotations

import json
import math
import random

import torch

from .. import tlc, trace as trace_mod
from ..core import Vacuous

TRACE_CFG = """SPECIFICATION TSpec
CONSTANTS
  Params = {}
  Vals = {}
  MaxB = 0
  MaxRows = 1000
  Ops = {}
  Variant = "closed"
  Diag = @DIAG@
  Expect = FALSE
INVARIANT MomentsDef
INVARIANT CountDef
INVARIANT VarNonNeg
CHECK_DEADLOCK FALSE
"""

SHORT = [
    ("count = epsilon", "Count"),
    ("mean = mean", "Mean"),
    ("var = variance", "Var"),
    ("statistics of the other wrappers", "Local"),
    ("handed observation", "HandedPost"),
    ("learn: handed obs", "HandedObs"),
    ("learn: handed next_obs", "HandedNextObs"),
    ("the caller's observation", "CallerIntact"),
    ("the call reaches", "Routed"),
    ("the set of live wrappers", "Alive"),
    ("training mode changes only", "ModeFlag"),
]


def _short(cl):
    for pre, s in SHORT:
        if cl.startswith(pre):
            return s
    return cl


def _tags(t, e):
    op = e.get("op", "?")
    tags = [op]
    if e.get("unb"):
        tags.append("unbatched")
    if op in ("act", "learn"):
        tags.append("train" if e.get("train") else "eval")
    return f"rsnorm:{t['cfg']['family']}:{':'.join(tags)}"


def sig(t, v):
    e = v.event if isinstance(v.event, dict) else {}
    cl = v.clauses[0] if v.clauses else (v.invariant or "?")
    if e.get("exc"):
        cl = f"Raises[{e['exc'].split(':')[0]}]"
    return f"{_tags(t, e)}:{_short(cl)}"


def what(t, v):
    e = v.event if isinstance(v.event, dict) else {}
    return (f"RSNorm trace rejected at event {v.step} ({e.get('op')}): clause(s) {v.clauses or v.invariant}; cfg={t['cfg']}; "
            f"event={json.dumps(e)[:600]}")


# ----------------------------------------------------------------------------- histories
def random_history(rng, family, nstat, eps, nops, vmax=4, max_rows=10, nslots=3):
    """Seeded history on the grid -vmax..vmax; the generator keeps its own account of rows per wrapper."""
    alive = {1: True, 2: False, 3: False}
    train = {1: True}
    rows = {1: 0}
    saved = None
    ops = []
    row = lambda: [rng.randint(-vmax, vmax) for _ in range(nstat)]
    while len(ops) < nops:
        live = [a for a in alive if alive[a]]
        dead = [a for a in alive if not alive[a]]
        a = rng.choice(live)
        x = rng.random()
        if x < 0.45:
            B = rng.choice([1, 1, 2, 2, 3, 4])
            if train[a]:
                B = min(B, max_rows - rows[a])
                if B <= 0:
                    ops.append({"op": "mode", "slot": a, "training": False})
                    train[a] = False
                    continue
                rows[a] += B
            b = [row() for _ in range(B)]
            if rng.random() < 0.2:
                b = [b[0]] * B                                    # constant column: zero batch variance
            ops.append({"op": "act", "slot": a, "batch": b, "unb": False})
        elif x < 0.58 and family != "tuple":
            B = rng.choice([1, 2, 3])
            ops.append({"op": "learn", "slot": a, "batch": [row() for _ in range(B)], "batch2": [row() for _ in range(B)]})
        elif x < 0.72:
            f = rng.random() < 0.6
            ops.append({"op": "mode", "slot": a, "training": f})
            train[a] = f
        elif x < 0.82 and dead:
            b = rng.choice(dead)
            ops.append({"op": "clone", "slot": b, "src": a})
            f = rng.random() < 0.7
            ops.append({"op": "mode", "slot": b, "training": f})       # the generator needs to know the flag
            alive[b], train[b], rows[b] = True, f, rows[a]
        elif x < 0.90:
            ops.append({"op": "save", "slot": a})
            saved = rows[a]
        elif saved is not None:
            if dead and rng.random() < 0.5:
                b = rng.choice(dead)
                ops.append({"op": "loadnew", "slot": b})
            else:
                b = a
                ops.append({"op": "load", "slot": b})
            f = rng.random() < 0.7
            ops.append({"op": "mode", "slot": b, "training": f})
            alive[b], train[b], rows[b] = True, f, saved
    return {"par": {"nslots": nslots, "nstat": nstat, "eps": list(eps)}, "family": family, "ops": ops}


def handwritten():
    """Dedicated histories: unbatched observations (OneRow) and norm_obs_keys (PerKey / pass-through)."""
    hs = []
    for fam, ns in (("vector", 2), ("boxdict", 3), ("tuple", 3)):
        r1, r2, r3 = [1, -2, 3][:ns], [3, 0, -1][:ns], [-2, 2, 0][:ns]
        hs.append({"par": {"nslots": 3, "nstat": ns, "eps": [1, 2]}, "family": fam, "ops": [
            {"op": "act", "slot": 1, "batch": [r1], "unb": True},
            {"op": "act", "slot": 1, "batch": [r2], "unb": True},
            {"op": "act", "slot": 1, "batch": [r3, r1], "unb": False},
            {"op": "mode", "slot": 1, "training": False},
            {"op": "act", "slot": 1, "batch": [r2], "unb": True}]})
        # evaluation mode only: an unbatched observation is normalised, nothing is updated
        hs.append({"par": {"nslots": 3, "nstat": ns, "eps": [1, 2]}, "family": fam, "ops": [
            {"op": "act", "slot": 1, "batch": [r1, r2, r3], "unb": False},
            {"op": "mode", "slot": 1, "training": False},
            {"op": "act", "slot": 1, "batch": [r3], "unb": True},
            {"op": "act", "slot": 1, "batch": [r1], "unb": True, "via": "agent"}]})
    for eps in ([1, 2], [1, 4]):
        hs.append({"par": {"nslots": 3, "nstat": 3, "eps": eps}, "family": "boxdict+keys", "ops": [
            {"op": "act", "slot": 1, "batch": [[1, -2, 3], [3, 0, -1]], "unb": False},
            {"op": "learn", "slot": 1, "batch": [[0, 1, 2]], "batch2": [[2, 2, -4]]},
            {"op": "clone", "slot": 2, "src": 1},
            {"op": "act", "slot": 2, "batch": [[-1, -1, 4]], "unb": False},
            {"op": "save", "slot": 2},
            {"op": "loadnew", "slot": 3},
            {"op": "act", "slot": 3, "batch": [[2, 2, 2], [0, -3, 1]], "unb": False}]})
    return hs


def synthetic_trace():
    """create + one training-mode get_action on [[1], [3]] with epsilon 1/2, computed with exact fractions."""
    from fractions import Fraction as F
    eps, n, S, Q = F(1, 2), 2, 4, 10
    c = eps + n
    m = S / c
    v = (eps + Q) / c - m * m
    sc = lambda x, k: int(round(float(x) * k))
    st = lambda mm, vv, cc: [[[sc(mm, 10000), sc(vv, 10000), sc(cc, 10000)]], [], []]
    hand = [[sc((x - float(m)) / math.sqrt(float(v + eps)), 100)] for x in (1, 3)]
    com = {"exc": "", "alive": [True, False, False], "mode": [True, False, False]}
    return {"cfg": {"nslots": 3, "nstat": 1, "tracked": [1], "eps": [1, 2], "family": "vector", "origin": "synthetic"},
            "ev": [dict(com, op="create", slot=1, stats=st(0, 1, eps)),
                   dict(com, op="act", slot=1, batch=[[1], [3]], unb=False, train=True, same=True, routed=True, hand=hand,
                        stats=st(m, v, c))]}


def nontrivial(h):
    acts = [o for o in h["ops"] if o["op"] == "act"]
    return len(acts) >= 1 and len(h["ops"]) >= 2


# ----------------------------------------------------------------------------- tight comparison of handed observations
def tight_compare(ctx, traces, auxs, verdicts):
    """Exact expectation of every handed observation (printed by TLC from the specification) vs the float the
    wrapped agent received."""
    ok = [i for i, v in enumerate(verdicts) if v.accepted]
    if not ok:
        return 0
    cfg = TRACE_CFG.replace("Expect = FALSE", "Expect = TRUE")
    n = 0
    for c0 in range(0, len(ok), 300):
        part = ok[c0:c0 + 300]
        r = trace_mod._run("RSNorm_Trace", cfg, [traces[i] for i in part], False, 1800, False)
        if not r.ok:
            raise tlc.TLCError("expectation run of RSNorm_Trace failed on accepted traces:\n" + r.violation[:2000])
        for x in r.tagged.get("EXP", []):
            i = part[int(x["tid"]) - 1]
            l = int(x["l"])
            t, ax, e = traces[i], auxs[i][l - 1], traces[i]["ev"][l - 1]
            for fld in ("hand", "hand2"):
                if fld not in x:
                    continue
                got = ax.get(fld)
                for ri, rowx in enumerate(x[fld]):
                    for si, (sg, p, w) in enumerate(rowx):
                        exp = sg * math.sqrt(p / w)
                        g = got[ri][si] if got is not None else float("nan")
                        n += 1
                        if not (abs(g - exp) <= 5e-4 * max(1.0, abs(exp))):
                            name = {"hand": "HandedPost" if e["op"] == "act" else "HandedObs", "hand2": "HandedNextObs"}[fld]
                            ctx.violation(f"{_tags(t, e)}:{name}:tight",
                                          f"handed observation differs from (x - mean)/sqrt(var + eps): got {g!r}, specification {exp!r} "
                                          f"(row {ri}, statistic {si + 1}, event {l}); cfg={t['cfg']}",
                                          {"kind": "tight-compare", "trace": t, "event": l, "expected": x})
    return n


def run(ctx):
    from ..drive import rsnorm

    torch.set_num_threads(1)
    quick = ctx.quick
    rng = random.Random(ctx.seed)

    # ---- M1
    cover_all = ["ActAny", "ActUnb", "LearnAny", "ModeAny", "CloneAny", "SaveAny", "LoadAny", "LoadNewAny"]
    ctx.mc("RSNorm_MC", "RSNorm_MCa.cfg" if quick else "RSNorm_MCat.cfg", must_cover=["ActAny", "ActUnb", "ModeAny"])
    ctx.mc("RSNorm_MC", "RSNorm_MCl.cfg", must_cover=cover_all)
    if not quick:
        ctx.mc("RSNorm_MC", "RSNorm_MClt.cfg", must_cover=cover_all)
    ctx.mc("RSNorm_MC", "RSNorm_MCk.cfg", must_cover=["ActAny", "ActUnb", "LearnAny", "ModeAny", "SaveAny", "LoadAny"])
    neg = tlc.run_tlc("RSNorm_MC", "RSNorm_Neg.cfg")
    ctx.extra["negative_control"] = {"cfg": "RSNorm_Neg.cfg", "violated": neg.violated_name}
    if neg.ok or neg.violated_name != "MomentsDef":
        raise Vacuous("negative control RSNorm_Neg.cfg (wrong batched update) does not violate MomentsDef")

    # ---- M4: histories
    hists = []
    g = tlc.run_tlc("RSNorm_MC", "RSNorm_Gen.cfg", workers=1,
                    extra=["-simulate", f"num={25 if quick else 250}", "-depth", "9", "-seed", str(ctx.seed + 1)])
    if not g.ok:
        ctx.violation(f"tlc:RSNorm_Gen:{g.violated_name}", "simulation found a violation", {"text": g.violation})
    seen = set()
    fams = ["vector", "boxdict", "tuple"]
    for h in g.tagged.get("BEH", []):
        k = json.dumps(h, sort_keys=True)
        if k in seen:
            continue
        seen.add(k)
        fam = fams[len(hists) % 3]
        ops = [dict(o) for o in h["ops"] if not (fam == "tuple" and o["op"] == "learn")]
        hists.append({"par": h["par"], "family": fam, "ops": ops, "origin": "tlc-simulate"})
    ctx.extra["tlc_histories"] = len(hists)
    if len(hists) < 10:
        raise Vacuous("tlc -simulate produced fewer than 10 histories")
    for j in range(60 if quick else 500):
        fam = fams[j % 3]
        nstat = rng.choice([2, 3]) if fam != "vector" else rng.choice([1, 2, 3])
        eps = rng.choice([(1, 4), (1, 2), (1, 1)])
        h = random_history(rng, fam, nstat, eps, rng.randint(5, 14))
        h["origin"] = "seeded-random"
        hists.append(h)
    for h in handwritten():
        h["origin"] = "hand-written"
        hists.append(h)

    # ---- M3: replay into the real wrapper, validate
    traces, auxs = [], []
    for j, h in enumerate(hists):
        t, ax = rsnorm.run(h, seed=ctx.seed + j)
        t["cfg"]["origin"] = h["origin"]
        traces.append(t)
        auxs.append(ax)
        ctx.case(json.dumps({k: h[k] for k in ("par", "family", "ops")}, sort_keys=True), nontrivial(h))
    ctx.sample({"history": {k: hists[0][k] for k in ("par", "family", "ops")}, "events": traces[0]["ev"][:3]})
    ctx.sample({"history": {k: hists[-1][k] for k in ("par", "family", "ops")}, "events": traces[-1]["ev"][:2]})
    mod = sum(1 for t in traces for e in t["ev"] if e.get("caller_batch_modified"))
    ctx.extra["learn_calls_that_modified_the_callers_batch"] = mod
    ctx.extra["events_recorded"] = sum(len(t["ev"]) for t in traces)
    vs = ctx.validate("RSNorm_Trace", TRACE_CFG, traces, sig=sig, what=what, chunk=300)
    if not any(v.accepted for v in vs):
        raise Vacuous("no recorded history was accepted by RSNorm_Trace")
    ctx.extra["handed_values_compared_tight"] = tight_compare(ctx, traces, auxs, vs)

    # ---- control of the validator: a synthetic correct trace is accepted, perturbed copies are rejected
    good = synthetic_trace()
    bad = []
    for fld, d in ((0, 5), (1, 5), (2, 5)):
        b = json.loads(json.dumps(good))
        b["ev"][1]["stats"][0][0][fld] += d
        bad.append(b)
    b = json.loads(json.dumps(good))
    b["ev"][1]["hand"][0][0] += 5
    bad.append(b)
    cv = trace_mod.validate("RSNorm_Trace", TRACE_CFG, [good] + bad)
    if not cv[0].accepted or any(v.accepted for v in cv[1:]):
        raise Vacuous("RSNorm_Trace does not separate a correct synthetic trace from copies perturbed by 5e-4 (statistics) / 5e-2 (handed)")

    ctx.assume("observations on the integer grid -4..4, <= 10 training rows per wrapper, epsilon in {1/4, 1/2, 1} passed explicitly "
               "(the default 1e-4 makes the prior invisible at float32 precision and overflows TLC's integers)")
    ctx.assume("float32 statistics are compared with the exact rationals within 2e-4 (TLC), handed observations within 5e-4 relative (Python, "
               "against the expectation printed by TLC) and 2e-2 (TLC, when the products fit 32 bits)")
    ctx.assume("the wrapped agent is a DQN subclass that records its input and calls the real method; DQN stands for every single-agent "
               "off-policy algorithm (the wrapper does not look at the algorithm)")
    ctx.assume("recorded histories are validated against the definition (Variant = closed); that the code's recursion equals the "
               "definition is model-checked on the grid of RSNorm_MCa and observed on every recorded history")
    ctx.assume("Tuple spaces: learn() is not exercised (DQN.learn rejects TensorDict batches with tuple observations with or without the wrapper)")
    rule = ("case = (space family, number of coordinates, epsilon, history of operations with concrete batches); histories from tlc -simulate "
            "(RSNorm_Gen), seeded random generation and a few hand-written ones; non-trivial = at least one get_action and two operations")
    return "model_checking", rule, False
