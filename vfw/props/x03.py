"""X03 -- the dataset-to-bandit environment BanditEnv (agilerl.wrappers.learning) as a state machine, and Skill's pass-through.

What is demanded (what the class docstring "Turns a labelled dataset into a reinforcement learning, Gym-style environment", the
comments in the code ("Calculate reward from action in previous state", "Save reward for next call to step()") and the use made of
it by train_bandits / NeuralUCB / NeuralTS promise):

  LabelFactorised  labels of any one type and in any order (strings, non-contiguous / negative integers) are the arms 0..arms-1,
                   numbered by first appearance in the dataset; equal labels <=> equal arm.
  ShapeOK          arms = number of distinct labels; context_dim = (number of features * arms,); every returned state is an
                   arms x context_dim matrix.
  EncodingOK       reset() and step() return the disjoint-arm encoding of SOME dataset row: matrix row i holds the feature vector in
                   columns i*d .. (i+1)*d-1 and zeros elsewhere; all arms' blocks carry the same dataset row.  Which row is the
                   environment's free (random) choice: nothing is demanded about it.
  RewardOK         step(k) returns reward 1 iff k is the arm of the label of the row shown by the PREVIOUS reset()/step() of that
                   object (the context the agent chose k for), else 0; before the first reset the reward is 0 for every k.
  RewardBinary     the reward is 0 or 1.
  Independent      two BanditEnv objects over the same frames do not share the "previous row" (prev_reward) state.
  SkillPass        Skill(env).step(a) returns what env.step(a) returned when skill_reward is not overridden ("alters the reward":
                   only through skill_reward); what an overriding subclass's skill_reward returns is what step returns.

Not demanded: anything for k outside 0..arms-1, NaN labels, frames whose index does not start at 0, float features (the driver uses
small integers so that the returned float64 matrix is compared exactly), the distribution of the drawn rows.

M1  BanditEnv_MC.cfg (thorough BanditEnv_MCt.cfg): exhaustive over 4 (6) tiny datasets (<= 3 rows, <= 3 arms, <= 2 features; string
    labels in non-sorted order, non-contiguous integer labels, one feature row under two labels, single arm), two objects, bare /
    Skill / overriding Skill, <= 4 (5) operations, every draw: all clauses above (pd.factorize and the encoding loop are transcribed
    as the loops they are; the invariants state the definitions independently).  Negative controls: BanditEnv_NegNew.cfg (reward
    judged on the NEWLY shown row) must violate RewardOK; BanditEnv_NegShared.cfg (one prev_reward for all objects) must violate
    Independent.
M3  seeded random histories (new / reset / step on 1-2 objects, second object created mid-history, step before any reset) over random
    datasets (kinds below) are replayed into the REAL BanditEnv / Skill (vfw/drive/banditenv.py) and every recorded execution is
    validated by TLC (BanditEnv_Trace).  The drawn row is not recorded; TLC keeps every dataset row whose encoding is the returned
    state, so with repeated feature rows the trace is accepted iff some choice of rows explains all rewards.
Binding demonstration: recorded traces corrupted by hand (one reward flipped; a reward 1 before any reset; feature blocks moved to
    the wrong arm; env 2's reward judged on env 1's row) must be REJECTED by TLC, otherwise the check fails as vacuous.
"""
from __future__ import annotations

import copy
import random

from .. import tlc, trace as trace_mod
from ..core import Vacuous

TRACE_CFG = """SPECIFICATION TSpec
CONSTANTS
  Datasets = {}
  Envs = {1, 2}
  Wraps = {}
  MaxOps = 0
  Variant = "prev"
  Diag = @DIAG@
INVARIANT LabelFactorised
INVARIANT ShapeOK
INVARIANT EncodingOK
INVARIANT RewardBinary
INVARIANT RewardOK
INVARIANT SkillPass
PROPERTY Independent
CHECK_DEADLOCK FALSE
"""

KINDS = ["strings", "ints", "unsorted", "dups", "single", "onerow", "strings", "dups"]
STR = ["cat", "ant", "dog", "Bee", "10", "9"]
INTS = [7, 3, -2, 100, 0, 41]


def dataset(rng, kind, big):
    n = 1 if kind == "onerow" else rng.randint(2, 8 if big else 6)
    d = rng.randint(1, 3)
    pool = list(STR if kind in ("strings", "unsorted", "dups") and rng.random() < 0.7 else INTS)
    rng.shuffle(pool)
    a = 1 if kind in ("single", "onerow") else rng.randint(2, min(4, n))
    labs = pool[:a]
    if kind == "unsorted" and len(labs) >= 2:
        labs.sort(key=lambda v: (str(type(v)), v), reverse=True)          # first appearances in descending order
        ys = labs + [rng.choice(labs) for _ in range(n - a)]
    else:
        ys = labs + [rng.choice(labs) for _ in range(n - a)]
        if kind != "unsorted":
            rng.shuffle(ys)
    xs = [[rng.randint(-2, 3) for _ in range(d)] for _ in range(n)]
    if kind == "dups":
        for i in range(1, n):
            if rng.random() < 0.6:
                xs[i] = list(xs[rng.randrange(i)])                        # the same features again, under whatever label row i has
    return [{"x": x, "y": y} for x, y in zip(xs, ys)]


def history(rng, rows, nenv, big):
    arms = len({r["y"] for r in rows})
    L = rng.randint(4, 16 if big else 10)
    h = [("new", 1)]
    at2 = rng.randint(0, L - 1) if nenv == 2 else -1
    live = [1]
    for i in range(L):
        if i == at2:
            h.append(("new", 2))
            live.append(2)
            continue
        e = rng.choice(live)
        if rng.random() < (0.3 if i > 1 else 0.5):
            h.append(("reset", e))
        else:
            h.append(("step", e, rng.randrange(arms)))
    return h


def short(cl):
    return cl.split(":")[0].replace(" ", "_")[:40]


def sig(t, v):
    cl = short(v.clauses[0]) if v.clauses else (v.invariant or "?")
    op = v.event.get("op", "?") if isinstance(v.event, dict) else "?"
    w = t["cfg"]["wrap"][v.event["env"] - 1] if isinstance(v.event, dict) and v.event.get("env") in (1, 2) else "?"
    return f"banditenv:{op}:{cl}:{t['cfg']['kind']}:{w}"


def what(t, v):
    return (f"BanditEnv trace rejected at event {v.step}: clause(s) {v.clauses or v.invariant}; dataset={t['cfg']['rows']}; "
            f"wrap={t['cfg']['wrap']}; event={str(v.event)[:400]}; history so far={[(e['op'], e['env'], e['k'], e['reward']) for e in t['ev'][:v.step]]}")


def unambiguous(t):
    xs = [tuple(r["x"]) for r in t["cfg"]["rows"]]
    return len(set(xs)) == len(xs)


def corruptions(traces):
    """Hand-corrupted copies of recorded traces; each must be rejected."""
    out = []
    flip = {0: 1, 1: 0, 5: 15, 15: 5}
    want = {"flip", "early", "block", "cross"}
    for t in traces:
        if not unambiguous(t) or any(e["exc"] for e in t["ev"]):
            continue
        arms = len({r["y"] for r in t["cfg"]["rows"]})
        seen = set()
        for i, e in enumerate(t["ev"]):
            if e["op"] == "step" and e["env"] in seen and "flip" in want:
                c = copy.deepcopy(t)
                c["ev"][i]["reward"] = flip[e["reward"]]
                out.append(("one reward flipped", c))
                want.discard("flip")
            if e["op"] == "step" and e["env"] not in seen and "early" in want:
                c = copy.deepcopy(t)
                c["ev"][i]["reward"] = flip[e["reward"]]
                out.append(("reward 1 before any reset", c))
                want.discard("early")
            if e["op"] in ("reset", "step") and arms >= 2 and any(any(r) for r in e["state"]) and "block" in want:
                c = copy.deepcopy(t)
                c["ev"][i]["state"] = list(reversed(e["state"]))
                out.append(("feature blocks moved to the wrong arms", c))
                want.discard("block")
            if e["op"] in ("reset", "step"):
                seen.add(e["env"])
        # env 2's step judged on the row env 1 shows (a shared prev_reward): built from a two-object trace
        if "cross" in want and arms >= 2:
            last = {}
            codes = {}
            for r in t["cfg"]["rows"]:
                codes.setdefault(r["y"], len(codes))
            d = len(t["cfg"]["rows"][0]["x"])
            lab = {tuple(r["x"]): codes[r["y"]] for r in t["cfg"]["rows"]}
            for i, e in enumerate(t["ev"]):
                if e["op"] == "step" and len(last) == 2 and last[1] != last[2]:
                    other = 3 - e["env"]
                    wrong = 1 if e["k"] == last[other] else 0
                    right = 1 if e["k"] == last[e["env"]] else 0
                    if wrong != right:
                        c = copy.deepcopy(t)
                        w = t["cfg"]["wrap"][e["env"] - 1]
                        c["ev"][i]["reward"] = 10 * wrong + 5 if w == "override" else wrong
                        out.append(("reward judged on the other object's row", c))
                        want.discard("cross")
                        break
                if e["op"] in ("reset", "step"):
                    last[e["env"]] = lab[tuple(e["state"][0][:d])]
        if not want:
            break
    return out, want


def run(ctx):
    from ..drive import banditenv

    quick = ctx.quick
    rng = random.Random(ctx.seed + 303)
    # ---- M1
    ctx.mc("BanditEnv_MC", "BanditEnv_MC.cfg" if quick else "BanditEnv_MCt.cfg",
           must_cover=["ResetAny|Reset|ResetTo", "StepAny|Step|StepTo"], timeout=600)
    negs = {}
    for cfg, inv in (("BanditEnv_NegNew.cfg", "RewardOK"), ("BanditEnv_NegShared.cfg", "Independent")):
        neg = tlc.run_tlc("BanditEnv_MC", cfg, timeout=600)
        negs[cfg] = neg.violated_name
        if neg.ok or neg.violated_name != inv:
            raise Vacuous(f"negative control {cfg} does not violate {inv} (got {neg.violated_name or 'no violation'})")
    ctx.extra["negative_controls"] = negs
    # ---- M3
    traces = []
    ntr = 120 if quick else 1200
    for j in range(ntr):
        kind = KINDS[j % len(KINDS)]
        rows = dataset(rng, kind, not quick)
        nenv = 1 if j % 3 == 0 else 2
        wrap = [("none", "none"), ("none", "plain"), ("plain", "override"), ("override", "none"), ("none", "none")][j % 5]
        h = history(rng, rows, nenv, not quick)
        t = banditenv.run(rows, h, wrap=wrap, named=(j % 4 == 1), seed=ctx.seed * 100003 + j, kind=kind)
        traces.append(t)
        ctx.case((kind, str(rows), str(h), wrap), nontrivial=any(e["op"] == "step" and e["reward"] in (1, 15) for e in t["ev"]))
    ctx.sample({"dataset": traces[2]["cfg"]["rows"], "wrap": traces[2]["cfg"]["wrap"],
                "events": [{k: e[k] for k in ("op", "env", "k", "reward", "state")} for e in traces[2]["ev"][:5]]})
    ctx.sample({"dataset": traces[3]["cfg"]["rows"], "wrap": traces[3]["cfg"]["wrap"],
                "events": [{k: e[k] for k in ("op", "env", "k", "reward")} for e in traces[3]["ev"][:8]]})
    ctx.extra["trace_kinds"] = {k: sum(1 for t in traces if t["cfg"]["kind"] == k) for k in sorted(set(KINDS))}
    ctx.extra["traces_with_ambiguous_rows"] = sum(1 for t in traces if not unambiguous(t))
    ctx.extra["events"] = sum(len(t["ev"]) for t in traces)
    ctx.validate("BanditEnv_Trace", TRACE_CFG, traces, sig=sig, what=what, chunk=400)
    # ---- binding demonstration: corrupted recordings must be rejected
    cor, missing = corruptions(traces)
    if missing:
        raise Vacuous(f"no recorded trace lends itself to the corruption(s) {sorted(missing)}")
    vs = trace_mod.validate("BanditEnv_Trace", TRACE_CFG, [c for _, c in cor])
    demo = []
    for (name, c), v in zip(cor, vs):
        demo.append({"corruption": name, "rejected": not v.accepted, "at_event": v.step, "clauses": v.clauses or v.invariant})
        if v.accepted:
            raise Vacuous(f"corrupted trace ({name}) was accepted by BanditEnv_Trace: the trace validation does not bind")
    ctx.extra["corrupted_traces_rejected"] = demo
    ctx.assume("features are small integers (-2..3) so that the returned float64 state is compared exactly as an integer matrix")
    ctx.assume("the row drawn by random.randint is not observed; it is recovered (as a set of candidates) from the returned state")
    ctx.assume("Skill needs a gymnasium.Env: the real BanditEnv sits behind a 6-line adapter (5-tuple step, (obs, info) reset) written in "
               "the driver; the overriding subclass maps reward -> 10*reward+5, terminated -> True")
    ctx.assume("frames have the default RangeIndex (BanditEnv reads features.loc[r]); target frame has one column (named or 0)")
    rule = ("case = (dataset kind, dataset, history of new/reset/step on 1-2 objects, wrapping); seeded random; non-trivial = at least "
            "one step earned reward 1")
    return "model_checking", rule, False
