"""C19 -- neural bandits keep an exact inverse of their regularised Gram matrix.

M1  Bandit_MC(q).cfg   exact rational kernel: every sequence of <= 4 decisions (sizes 1, 2: contexts in
                       {-1,0,1,2}; size 3: {-1,0,1}), lambda in {1/2, 1, 2}, interleaved with learn / mutate:
                       GramDef, IsInverse (S G = I exactly), Symmetric, PosDef, BonusNonNeg, DimFollowsLayer
    Bandit_MCp.cfg     protocol: 2 agents + 1 checkpoint, all operations incl. clone / save / load with both
                       allowed outcomes (carry | reinit): same invariants + Ownership, InitScale
M3  exact mode         real NeuralUCB / NeuralTS with a linear actor (LinFeat, without / with bias): scripts of
                       decisions, learn steps, architecture / parameter / activation / hyper-parameter / no
                       mutations (real Mutations object), clones and checkpoint round trips; after every
                       operation every agent's sigma_inv is compared by TLC with the exact rational matrix
                       (1e-5) and its size with the output layer of the real network   -> Bandit_Trace
    inexact mode       the same scripts on agents with a real MLP actor / the default ValueNetwork; the driver
                       evaluates the residual |S (lambda I + sum g g^T) - I| over the decisions that TLC confirms
                       to be the ones since the last initialisation                    -> Banditx_Trace
"""
from __future__ import annotations

import random
import json
from concurrent.futures import ProcessPoolExecutor

from ..core import Vacuous

EXACT_CFG = """SPECIFICATION TSpec
CONSTANTS
  NSlots = 3
  NFiles = 2
  MaxDim = 3
  Lams = {}
  ValsLo <- TVals
  ValsHi <- TVals
  Kinds = {}
  MaxDec = 100
  MaxDecHi = 100
  MaxOps = 1000000
  Tol = 12
  Diag = @DIAG@
INVARIANT GramDef
INVARIANT IsInverse
INVARIANT Symmetric
INVARIANT PosDef
INVARIANT DimFollowsLayer
INVARIANT LowestTerms
CHECK_DEADLOCK FALSE
"""
FLOAT_CFG = """SPECIFICATION TSpec
CONSTANTS
  NSlots = 3
  NFiles = 2
  Diag = @DIAG@
INVARIANT DimFollowsLayer
CHECK_DEADLOCK FALSE
"""

LAMS = [0.5, 1.0, 2.0]
KINDS = ["arch", "arch", "arch", "param", "param", "act", "hp", "none"]

# every operation once, on both algorithms / actors / lambdas
SYS = [("create", 1, 2), ("decide", 1, 1, None), ("decide", 1, 2, None), ("learn", 1, 0), ("decide", 1, 3, [1, 0, 1]),
       ("clone", 1, 2), ("decide", 1, 4, None), ("decide", 2, 5, None), ("save", 1, 1), ("mutate", 1, "arch"),
       ("decide", 1, 6, None), ("loadinto", 1, 1), ("decide", 1, 7, None), ("loadnew", 1, 3), ("decide", 3, 8, None),
       ("mutate", 2, "param"), ("decide", 2, 9, None), ("mutate", 2, "act"), ("mutate", 2, "hp"), ("mutate", 2, "none"),
       ("decide", 2, 10, [0, 1, 1])]


def gen_script(rng, actor, length, max_dec, arms):
    """Random operation script. max_dec bounds the decisions of the whole script (exact mode: keeps every
    intermediate of TLC's rational arithmetic below 2^31 whatever the code carries or re-initialises)."""
    k0 = rng.randint(1, 3) if actor == "lin" else rng.randint(1, 2)
    ops = [("create", 1, k0)]
    live, files, ndec = {1}, set(), 0
    while len(ops) < length:
        x = rng.random()
        a = rng.choice(sorted(live))
        if x < 0.42:
            if ndec >= max_dec:
                continue
            mask = None
            if rng.random() < 0.25:
                mask = [rng.randint(0, 1) for _ in range(arms)]
                if not any(mask):
                    mask[rng.randrange(arms)] = 1
            ops.append(("decide", a, rng.randrange(10 ** 6), mask))
            ndec += 1
        elif x < 0.50:
            ops.append(("learn", a, rng.randrange(50)))
        elif x < 0.68:
            ops.append(("mutate", a, rng.choice(KINDS)))
        elif x < 0.78:
            c = rng.choice([s for s in (1, 2, 3) if s != a])
            ops.append(("clone", a, c))
            live.add(c)
        elif x < 0.86:
            f = rng.choice([1, 2])
            ops.append(("save", a, f))
            files.add(f)
        elif x < 0.93:
            if files:
                c = rng.choice([1, 2, 3])
                ops.append(("loadnew", rng.choice(sorted(files)), c))
                live.add(c)
        else:
            if files:
                ops.append(("loadinto", rng.choice(sorted(files)), a))
    # finish with a decision on every live agent (a stale size or layer reference shows when it is used)
    for s in sorted(live):
        ops.append(("decide", s, rng.randrange(10 ** 6), None))
    return ops


def sig(kind):
    """bandit:<strict|relative>:<algo>:<op>[:<mutation kind>]:<failed clause(s)>[:<exception type>]:<lam=1|lam!=1>
    (actor kind and exact/inexact mode are in the description, not in the signature)."""
    def f(t, v):
        ev = v.event if isinstance(v.event, dict) else {}
        cfg = t["cfg"]
        op = ev.get("op", "?") + (":" + str(ev.get("kind")) if ev.get("op") == "mutate" else "")
        cl = " | ".join(sorted(set(v.clauses))) if v.clauses else ("invariant " + v.invariant if v.invariant else "?")
        exc = ""
        if ev.get("exc"):
            exc = ":" + str(ev["exc"]).split(":")[0]
        lam = "lam=1" if float(cfg["lamb"]) == 1.0 else "lam!=1"
        return f"bandit:{cfg['mode']}:{cfg['algo']}:{op}:{cl}{exc}:{lam}"
    return f


def what(t, v):
    cfg = t["cfg"]
    return (f"[{cfg.get('kind', '')} mode] {cfg['algo']} (actor {cfg['actor']}, lamb={cfg['lamb']}, gamma={cfg['gamma']}, mode {cfg['mode']}, spec lambda {cfg['lam'][0]}/{cfg['lam'][1]}): "
            f"trace rejected at event {v.step}: {v.clauses or v.invariant}; script={cfg['ops'][:700]}; event={str(v.event)[:900]}")


def run(ctx):
    from ..drive import bandit

    quick = ctx.quick
    rng = random.Random(ctx.seed)

    # ---- scripts
    jobs = []
    for algo in ("NeuralUCB", "NeuralTS"):
        for actor in ("lin", "linb", "mlp", "default"):
            for lamb in LAMS:
                jobs.append((algo, actor, lamb, 1.0, SYS, ctx.seed + len(jobs), 3))
    n_exact, n_float = (60, 30) if quick else (600, 240)
    for j in range(n_exact):
        algo = ("NeuralUCB", "NeuralTS")[j % 2]
        actor = ("lin", "linb", "lin")[j % 3]
        arms = rng.choice([2, 3, 3])
        ops = gen_script(rng, actor, rng.randint(6, 16), 8, arms)
        jobs.append((algo, actor, LAMS[(j // 2) % 3], rng.choice([0.5, 1.0, 2.0]), ops, ctx.seed + 1000 + j, arms))
    for j in range(n_float):
        algo = ("NeuralUCB", "NeuralTS")[j % 2]
        actor = ("mlp", "default")[(j // 2) % 2]
        ops = gen_script(rng, actor, rng.randint(8, 22), 14, 3)
        jobs.append((algo, actor, LAMS[(j // 4) % 3], rng.choice([0.5, 1.0, 2.0]), ops, ctx.seed + 5000 + j, 3))
    with ProcessPoolExecutor(max_workers=12) as ex:
        futs = [ex.submit(bandit.run_job, j) for j in jobs]          # real executions run while TLC model-checks

        # ---- M1
        # one TLC worker: strict breadth-first order, so that every state is first reached with its smallest operation count
        # (the view hides the bounded counter `nops`; several workers would cut successors of states found first on longer paths)
        r = ctx.mc("Bandit_MC", "Bandit_MCq.cfg" if quick else "Bandit_MC.cfg", coverage=False, timeout=3000, workers=1)
        if r.ok and r.distinct < 10000:
            raise Vacuous(f"kernel model explored only {r.distinct} states")
        ctx.mc("Bandit_MC", "Bandit_MCpq.cfg" if quick else "Bandit_MCp.cfg", workers=1, timeout=3000,
               must_cover=["CreateAny|Create", "DecideAny|Decide", "LearnAny|Learn", "MutateAny|Mutate", "CloneAny|Clone", "SaveAny|Save",
                           "LoadNewAny|LoadNew", "LoadIntoAny|LoadInto"])
        results = [f.result() for f in futs]

    exact, flt = [], []
    protocol, resized, decisions, events = {}, 0, 0, 0
    for job, res in zip(jobs, results):
        (exact if res["kind"] == "exact" else flt).extend(res["traces"])
        ctx.case((job[0], job[1], job[2], job[3], str(job[4]), job[6]))
        resized += res["resized"]
        decisions += res["decisions"]
        events += res["nev"]
        for k, d in res["protocol"].items():
            for w, n in d.items():
                protocol.setdefault(k, {}).setdefault(w, 0)
                protocol[k][w] += n
    if resized == 0 or decisions == 0:
        raise Vacuous("no script changed the size of an output layer / took a decision")
    ctx.extra["observed_protocol"] = protocol
    ctx.extra["output_layer_resizes"] = resized
    ctx.extra["decisions"] = decisions
    ctx.extra["operations"] = events
    ex0 = next(t for t in exact if t["cfg"]["lam"] == [1, 1])
    ctx.sample({"exact_trace": {"cfg": ex0["cfg"], "ev": ex0["ev"][:3]}})
    fl0 = next(t for t in flt if t["cfg"]["lam"] == [1, 1])
    ctx.sample({"inexact_trace": {"cfg": fl0["cfg"], "ev": fl0["ev"][:3]}})
    ctx.validate("Bandit_Trace", EXACT_CFG, exact, sig=sig("exact"), what=what, chunk=120)
    ctx.validate("Banditx_Trace", FLOAT_CFG, flt, sig=sig("float"), what=what, chunk=200)

    ctx.assume("the gradient feature of an arm is the gradient of the actor's output for that arm w.r.t. the trainable parameters of "
               "actor.get_output_dense(), flattened in parameter order and divided by sqrt(out_features) (the algorithm's own definition); "
               "the driver recomputes it with torch.autograd.grad before get_action is called")
    ctx.assume("exact mode: linear actor (vfw.drive.bandit.LinFeat) with integer contexts, so features are integers and float32 sigma_inv is "
               "compared with the exact rational matrix at 1e-5 (+1.2e-5 rounding of the 1e-6 fixed-point encoding)")
    ctx.assume("inexact mode: residual max|S (lambda I + sum g g^T) - I| <= 1e-3 evaluated in float64 by the driver; equality of a carried "
               "matrix with its source at 1e-7; both tolerances are part of the trusted base")
    ctx.assume("mode 'relative': when the real agent starts from c I with c != 1/lambda the strict trace is rejected at its first event and "
               "the same execution is validated again against lambda' = 1/c, so that the rank-one update and the protocol are still checked")
    ctx.assume("the chosen arm is observed, not predicted (UCB scores involve sqrt, TS samples); legality of the arm under the mask is not part of C19")
    ctx.assume("an operation that rebuilds an agent (mutation, clone, load) may carry the matrix (if its size still matches the output layer) or "
               "re-initialise it; learn steps and saves must leave it unchanged")
    return "model_checking", ("case = (algorithm, actor kind, lambda, gamma, operation script with context seeds and masks, number of arms); "
                              "distinct = distinct tuples; all are non-trivial (every script creates an agent and ends with a decision on every live agent)"), False


def replay(path):
    """./check C19 --replay PATH: re-execute the recorded script on real agents and validate it again through TLC."""
    from .. import trace as trace_mod
    from ..drive import bandit

    rp = json.loads(open(path).read())
    r = rp["replay"]
    print(f"replaying {rp['signature']}")
    if r.get("kind") != "rejected-trace":
        print(str(r.get("text", ""))[:6000])
        return 1
    cfg = r["trace"]["cfg"]
    ops = [tuple(o) for o in json.loads(cfg["ops"])]
    res = bandit.run_job((cfg["algo"], cfg["actor"], cfg["lamb"], cfg["gamma"], ops, cfg["seed"], cfg.get("arms", 3)))
    t = next((x for x in res["traces"] if x["cfg"]["mode"] == cfg["mode"]), res["traces"][0])
    print(f"{cfg['algo']} actor={cfg['actor']} lamb={cfg['lamb']} gamma={cfg['gamma']} mode={t['cfg']['mode']} spec lambda={t['cfg']['lam']}")
    for i, e in enumerate(t["ev"], start=1):
        extra = {k: e[k] for k in ("kind", "feats", "arm", "mask") if k in e and e["op"] in ("decide", "mutate")}
        print(f"-- event {i}: {e['op']} a={e['a']} c={e['c']} f={e['f']} {extra} exc={e['exc']!r}")
        for s, p in enumerate(e["post"], start=1):
            if not p.get("nil"):
                print(f"     slot {s}: " + ", ".join(f"{k}={p[k]}" for k in ("layer", "dim", "S", "hist", "res", "resid", "isinit", "eqsrc") if k in p))
    exact = res["kind"] == "exact"
    v = trace_mod.validate("Bandit_Trace" if exact else "Banditx_Trace", EXACT_CFG if exact else FLOAT_CFG, [t])[0]
    print("TLC verdict on the re-execution:", "ACCEPTED" if v.accepted else f"REJECTED at event {v.step}: {v.clauses or v.invariant}")
    return 0 if v.accepted else 1
