"""C19 -- neural bandits keep an exact inverse of their regularised Gram matrix.

M1  Bandit_MC(q).cfg   exact rational kernel: every sequence of <= 4 decisions (sizes 1, 2: contexts in
                       {-1,0,1,2}; size 3: {-1,0,1}), lambda in {1/2, 1, 3/2} (thorough: + 2),
                       interleaved with learn / test / mutate:
                       GramDef, IsInverse (S G = I exactly), Symmetric, PosDef, BonusNonNeg, DimFollowsLayer
    Bandit_MCp(q).cfg  protocol: 2 agents + 1 checkpoint, all operations incl. clone / save / load with both
                       allowed outcomes (carry | reinit): same invariants + Ownership, InitScale, LamStable
    Bandit_MCh.cfg     (thorough) the same protocol with heterogeneous lambdas: every agent / checkpoint has its own,
                       hyper-parameter mutations move it; a carried matrix requires an unchanged lambda
M3  exact mode         real NeuralUCB / NeuralTS with a linear actor (LinFeat, without / with bias, 1-3 context
                       coordinates, 1-4 arms): scripts of decisions (masks: none / int / bool / float / column
                       ndarray, all ones, one legal arm, the best arm forbidden; training / evaluation mode),
                       learn steps, evaluation runs (agent.test), architecture (sampled and every method forced) /
                       parameter / activation / hyper-parameter / no mutations through Mutations.mutation (also
                       pre_training_mut) and the public methods called directly, clones (of clones, right after a
                       mutation) and checkpoint round trips (also between agents with different lambdas); and
                       runs of the real train_bandits loop (tournament selection + population mutation +
                       checkpoints) whose operations are recorded by driver-side wrappers.  After every
                       operation every agent's sigma_inv is compared by TLC with the exact rational matrix
                       (1e-5) and its size with the output layer of the real network   -> Bandit_Trace
    inexact mode       the same scripts on agents with real networks: EvolvableMLP / ValueNetwork passed as
                       actor_network, net_config None / custom head + encoder / deepest / SimBa, image (float,
                       uint8, normalize_images), dict, tuple, discrete contexts; the driver evaluates the residual
                       |S (lambda I + sum g g^T) - I| over the decisions that TLC confirms to be the ones since
                       the last initialisation                                          -> Banditx_Trace
"""
from __future__ import annotations

import random
import json
from concurrent.futures import ProcessPoolExecutor

from ..core import Vacuous

EXACT_CFG = """SPECIFICATION TSpec
CONSTANTS
  NSlots = 12
  NFiles = 4
  MaxDim = 3
  Lams = {}
  ValsLo <- TVals
  ValsHi <- TVals
  Kinds = {}
  MaxDec = 100
  MaxDecHi = 100
  MaxOps = 1000000
  Hetero = FALSE
  Tol = 12
  Diag = @DIAG@
INVARIANT GramDef
INVARIANT IsInverse
INVARIANT Symmetric
INVARIANT PosDef
INVARIANT DimFollowsLayer
INVARIANT LowestTerms
INVARIANT LamPositive
CHECK_DEADLOCK FALSE
"""
FLOAT_CFG = """SPECIFICATION TSpec
CONSTANTS
  NSlots = 12
  NFiles = 4
  Diag = @DIAG@
INVARIANT DimFollowsLayer
CHECK_DEADLOCK FALSE
"""

LAMS = [0.5, 1.0, 2.0]
# lambda: below / equal / above 1, powers of two and not, int-typed; 0.3 and 7.5 only where the matrices are floats anyway
# (exact mode: denominators <= 2, else the 3 x 3 minors of TLC's 32-bit rationals overflow after a handful of decisions)
LAMS_EXACT = [0.5, 1.0, 2.0, 3.0, 1.5, 2.5, 3, 2]
LAMS_FLOAT = LAMS_EXACT + [0.75, 0.25, 0.3, 7.5]
GAMMAS = [0.5, 1.0, 2.0, 1, 3, 0.3]
KINDS = ["arch", "arch", "arch", "param", "param", "act", "hp", "none"]
FLOAT_FAMILIES = ["mlp", "default", "vnet", "plain", "custom", "deep", "simba", "image", "dict", "tuple", "discrete"]
BOX = ("lin", "linb", "mlp", "vnet", "default", "plain", "custom", "deep", "simba", "image")

# every operation once, on both algorithms / actors / lambdas
SYS = [("create", 1, 2), ("decide", 1, 1, None), ("decide", 1, 2, None), ("learn", 1, 0), ("decide", 1, 3, [1, 0, 1]),
       ("clone", 1, 2), ("decide", 1, 4, None), ("decide", 2, 5, None), ("save", 1, 1), ("mutate", 1, "arch"),
       ("decide", 1, 6, None), ("loadinto", 1, 1), ("decide", 1, 7, None), ("loadnew", 1, 3), ("decide", 3, 8, None),
       ("mutate", 2, "param"), ("decide", 2, 9, None), ("mutate", 2, "act"), ("mutate", 2, "hp"), ("mutate", 2, "none"),
       ("decide", 2, 10, [0, 1, 1])]


def sys2(box: bool, lamb2):
    """The interleavings and argument variants SYS does not have: clone right after a mutation, clone of a clone, evaluation runs,
    evaluation mode, every mask variant, forced / direct / pre-training mutations, a checkpoint of an agent with another lambda."""
    t = (lambda s, n: [("test", s, n)]) if box else (lambda s, n: [])
    return ([("create", 1, 2), ("decide", 1, 1, "ones", "float"), ("mutate", 1, "arch"), ("clone", 1, 2), ("decide", 2, 2, None), ("decide", 1, 3, "notop", "bool"),
             ("clone", 2, 3, "none"), ("decide", 3, 4, "notop", "int"), ("decide", 2, 5, "single", "col")] + t(1, 2) +
            [("decide", 1, 6, None, None, False), ("mutate", 3, "arch#0", "direct"), ("decide", 3, 7, None), ("clone", 3, 1), ("decide", 1, 8, "notop", "float"),
             ("save", 3, 1), ("mutate", 3, "hp", "pre"), ("decide", 3, 9, None, None, True), ("mutate", 2, "act", "direct"), ("decide", 2, 10, None),
             ("decide", 2, 11, [1, 1, 0], "bool"), ("mutate", 2, "param", "direct"), ("decide", 2, 12, None), ("create", 4, 1, lamb2), ("decide", 4, 13, None),
             ("save", 4, 2), ("loadinto", 2, 3), ("decide", 3, 14, None), ("loadinto", 1, 4), ("decide", 4, 15, None), ("mutate", 4, "none", "pre"),
             ("decide", 4, 16, None), ("mutate", 3, "arch#3"), ("clone", 3, 2), ("decide", 2, 17, None), ("decide", 3, 18, None)] + t(3, 1) +
            [("decide", 3, 19, None), ("loadnew", 2, 5), ("mutate", 5, "archl"), ("decide", 5, 20, None)])


HEAD = ["head_net.add_node", "head_net.remove_node", "head_net.add_layer", "head_net.remove_layer", "add_latent_node", "remove_latent_node"]
MLP_ENC = ["encoder.add_node", "encoder.remove_node", "encoder.add_layer", "encoder.remove_layer"]
METHODS = {"default": HEAD + MLP_ENC, "deep": HEAD + MLP_ENC, "custom": HEAD + MLP_ENC, "vnet": HEAD + MLP_ENC, "plain": HEAD + MLP_ENC,
           "simba": HEAD + ["encoder.add_block", "encoder.remove_block", "encoder.add_node", "encoder.remove_node"],
           "image": HEAD + ["encoder.add_channel", "encoder.remove_channel", "encoder.change_kernel", "encoder.add_layer", "encoder.remove_layer"],
           "dict": HEAD + ["encoder.add_latent_node", "encoder.remove_latent_node"], "tuple": HEAD + ["encoder.add_latent_node", "encoder.remove_latent_node"],
           "discrete": HEAD + MLP_ENC, "mlp": ["add_node", "remove_node", "add_layer", "remove_layer"], "lin": ["add_node", "remove_node"],
           "linb": ["add_node", "remove_node"]}


def archall(actor: str, rot: int = 0):
    """Every architecture method of this kind of actor, forced in turn (a method the network does not offer at that moment is
    replaced by another one), each followed by a decision; every other one is followed by a clone that decides too."""
    ops = [("create", 1, 2), ("decide", 1, 1, None)]
    names = METHODS[actor]
    for i in range(len(names)):
        ops.append(("mutate", 1, "arch@" + names[(i + rot) % len(names)], "pop" if i % 3 else "direct"))
        ops.append(("decide", 1, 100 + i, None))
        if i % 2 == 0:
            ops += [("clone", 1, 2), ("decide", 2, 200 + i, None)]
    return ops


def gen_script(rng, actor, length, max_dec, arms, hetero=None, lam_hp=False):
    """Random operation script. max_dec bounds the decisions of the whole script (exact mode: keeps every
    intermediate of TLC's rational arithmetic below 2^31 whatever the code carries or re-initialises)."""
    k0 = rng.randint(1, 3) if actor == "lin" else rng.randint(1, 2)
    ops = [("create", 1, k0)]
    live, files, ndec = {1}, set(), 0
    if hetero is not None:
        ops.append(("create", 2, rng.randint(1, 2), hetero))
        live.add(2)
    box = actor in BOX
    while len(ops) < length:
        x = rng.random()
        a = rng.choice(sorted(live))
        if x < 0.40:
            if ndec >= max_dec:
                continue
            mask, var, train = None, None, None
            y = rng.random()
            if y < 0.2:
                mask = [rng.randint(0, 1) for _ in range(arms)]
                if not any(mask):
                    mask[rng.randrange(arms)] = 1
            elif y < 0.4:
                mask = rng.choice(["notop", "notop", "ones", "single"])
            if mask is not None:
                var = rng.choice(["int", "bool", "float", "col"])
            if rng.random() < 0.15:
                train = rng.random() < 0.5
            ops.append(("decide", a, rng.randrange(10 ** 6), mask, var, train))
            ndec += 1
        elif x < 0.47:
            ops.append(("learn", a, rng.randrange(50)))
        elif x < 0.51:
            if box:
                ops.append(("test", a, rng.randint(1, 3)))
        elif x < 0.69:
            kind = rng.choice(KINDS)
            if kind == "arch" and rng.random() < 0.5:
                kind = rng.choice(["archl", f"arch#{rng.randrange(12)}"])
            via = rng.choice(["pop", "pop", "pre", "direct"])
            if via == "direct" and kind == "hp" and lam_hp:
                via = "pop"             # a lambda moved by the bare rl_hyperparam_mutation (no mutation hook) is outside the protocol
            ops.append(("mutate", a, kind, via))
        elif x < 0.79:
            c = rng.choice([s for s in (1, 2, 3) if s != a])
            ops.append(("clone", a, c, rng.choice(["given", "none"])))
            live.add(c)
        elif x < 0.87:
            f = rng.choice([1, 2])
            ops.append(("save", a, f))
            files.add(f)
        elif x < 0.93:
            if files:
                c = rng.choice([1, 2, 3])
                ops.append(("loadnew", rng.choice(sorted(files)), c))
                live.add(c)
        else:
            if files:
                ops.append(("loadinto", rng.choice(sorted(files)), a))
    # finish with a decision on every live agent (a stale size or layer reference shows when it is used)
    for s in sorted(live):
        ops.append(("decide", s, rng.randrange(10 ** 6), None))
    return ops


PROBS = [[0.2, 0.2, 0.2, 0.2, 0.2], [0, 0.4, 0.2, 0.2, 0.2], [0.5, 0.5, 0, 0, 0], [0.25, 0, 0.25, 0.25, 0.25]]


def train_params(rng, j: int):
    """Parameters of one train_bandits run; the flags rotate with the job number so that every tier sees every value."""
    pop = [2, 2, 3][j % 3]
    return {"pop": pop, "k": rng.randint(1, 2), "gens": [1, 2][(j // 2) % 2] if pop == 2 else 1, "episode_steps": rng.choice([2, 3]),
            "eval_steps": rng.randint(1, 2), "eval_loop": [1, 2][(j // 3) % 2], "tsize": rng.choice([1, 2]), "elitism": j % 4 != 3,
            "mutate_elite": j % 2 == 0, "checkpoint": (j // 2) % 2 == 0, "probs": PROBS[j % 4],
            "create": ["single", "create_population"][(j // 2 + j // 4) % 2], "save_elite": j % 5 == 0}


def sig(kind):
    """bandit:<strict|relative>:<algo>:<op>[:<mutation kind>]:<failed clause(s)>[:<exception type>]:<lam=1|lam!=1>
    (actor kind and exact/inexact mode are in the description, not in the signature)."""
    def f(t, v):
        ev = v.event if isinstance(v.event, dict) else {}
        cfg = t["cfg"]
        op = ev.get("op", "?") + (":" + str(ev.get("kind")) if ev.get("op") == "mutate" else "")
        cl = " | ".join(sorted(set(v.clauses))) if v.clauses else ("invariant " + v.invariant if v.invariant else "?")
        exc = ""
        if ev.get("exc"):
            exc = ":" + str(ev["exc"]).split(":")[0]
        lam = "lam=1" if float(cfg["lamb"]) == 1.0 else "lam!=1"
        return f"bandit:{cfg['mode']}:{cfg['algo']}:{op}:{cl}{exc}:{lam}"
    return f


def what(t, v):
    cfg = t["cfg"]
    return (f"[{cfg.get('kind', '')} mode] {cfg['algo']} (actor {cfg['actor']}, lamb={cfg['lamb']}, gamma={cfg['gamma']}, arms={cfg.get('arms')}, opts={cfg.get('opts')}, "
            f"mode {cfg['mode']}, spec lambda {cfg['lam'][0]}/{cfg['lam'][1]}): "
            f"trace rejected at event {v.step}: {v.clauses or v.invariant}; script={cfg['ops'][:900]}; event={str(v.event)[:900]}")


def float_opts(rng, actor, arms):
    o = {}
    if actor in ("mlp", "vnet", "plain", "custom", "simba"):
        o["nobs"] = rng.choice([1, 4, 7])
    if actor == "image":          # (uint8, normalised) first: the systematic scripts come first
        float_opts.n = getattr(float_opts, "n", 0) + 1
        o["uint8"], o["normalize_images"] = [(True, True), (False, True), (True, False), (False, False)][(float_opts.n - 1) % 4]
    return o


def common_opts(rng):
    o = {}
    if rng.random() < 0.5:
        o.update({"reg": rng.choice([0.000625, 0.1]), "batch_size": rng.choice([1, 8, 13]), "learn_step": rng.choice([1, 2, 5]), "lr": rng.choice([1e-3, 3e-3])})
    return o


def build_jobs(seed: int, quick: bool):
    rng = random.Random(seed)
    float_opts.n = 0

    # ---- scripts
    jobs = []

    def add(algo, actor, lamb, gamma, ops, arms, opts=None):
        jobs.append((algo, actor, lamb, gamma, ops, seed + 37 * len(jobs) + 1, arms, dict(opts or {})))

    for algo in ("NeuralUCB", "NeuralTS"):
        for actor in ("lin", "linb", "mlp", "default"):
            for lamb in LAMS:
                jobs.append((algo, actor, lamb, 1.0, SYS, seed + len(jobs), 3, {}))
    # the second systematic script on every kind of actor / context space (lambda, gamma, arms, options rotate)
    fams = ["lin", "linb"] + FLOAT_FAMILIES
    for i, actor in enumerate(fams):
        for j, algo in enumerate(("NeuralUCB", "NeuralTS")):
            if quick and actor not in ("lin", "linb", "default") and (i + j + seed) % 2:
                continue                       # quick: each float family with one of the two algorithms (alternating with the seed)
            exact = actor in ("lin", "linb")
            lams = LAMS_EXACT if exact else LAMS_FLOAT
            lamb = lams[(2 * i + j + seed) % len(lams)]
            lamb2 = lams[(2 * i + j + seed + 3) % len(lams)]
            arms = [3, 2, 4, 1][(i + j + seed) % 4] if exact else [3, 6, 2, 1][(i + j + seed) % 4]
            opts = common_opts(rng)
            if exact:
                opts["nin"] = [3, 2][(i + j) % 2]
            else:
                opts.update(float_opts(rng, actor, arms))
            add(algo, actor, lamb, GAMMAS[(i + 3 * j + seed) % len(GAMMAS)], sys2(actor in BOX, lamb2), arms, opts)
    # every architecture method of every kind of network
    for i, actor in enumerate(["default", "image", "dict", "mlp", "lin", "simba", "custom", "deep", "vnet", "tuple", "plain", "discrete", "linb"]):
        for j, algo in enumerate(("NeuralUCB", "NeuralTS")):
            if quick and ((i + j + seed) % 2 or i >= 6):
                continue
            add(algo, actor, LAMS_EXACT[(i + j) % len(LAMS_EXACT)], 1.0, archall(actor, seed), 3, float_opts(rng, actor, 3) if actor not in ("lin", "linb") else {})
    n_exact, n_float, n_train = (60, 30, 12) if quick else (600, 300, 120)
    for j in range(n_exact):
        algo = ("NeuralUCB", "NeuralTS")[j % 2]
        actor = ("lin", "linb", "lin")[j % 3]
        arms = rng.choice([2, 3, 3, 1, 4])
        het = rng.choice([None, None, None, "hp", "hp", 0.5, 2.0, 3.0])
        ops = gen_script(rng, actor, rng.randint(6, 16), 8 if het is None else 6, arms, hetero=het if het != "hp" else None, lam_hp=(het == "hp"))
        opts = common_opts(rng)
        opts["nin"] = rng.choice([3, 3, 2] if actor == "linb" else [3, 3, 2, 1])
        if het == "hp":
            opts["lam_hp"] = True
        lams = LAMS if het == "hp" else LAMS_EXACT
        add(algo, actor, lams[(j // 2) % len(lams)], rng.choice(GAMMAS), ops, arms, opts)
    for j in range(n_float):
        algo = ("NeuralUCB", "NeuralTS")[j % 2]
        actor = FLOAT_FAMILIES[(j // 2) % len(FLOAT_FAMILIES)]
        arms = rng.choice([3, 3, 2, 1, 6])
        het = rng.choice([None, None, None, "hp", 0.5, 3.0, 0.3])
        ops = gen_script(rng, actor, rng.randint(8, 22), 14, arms, hetero=het if het != "hp" else None, lam_hp=(het == "hp"))
        opts = common_opts(rng)
        opts.update(float_opts(rng, actor, arms))
        if het == "hp":
            opts["lam_hp"] = True
        add(algo, actor, LAMS_FLOAT[(j // 4) % len(LAMS_FLOAT)], rng.choice(GAMMAS), ops, arms, opts)
    # the real training loop (tournament selection, population mutation, checkpoints)
    for j in range(n_train):
        algo = ("NeuralUCB", "NeuralTS")[j % 2]
        exact = (j // 2) % 2 == 0
        actor = ("lin", "linb")[(j // 4) % 2] if exact else ("mlp", "default", "vnet", "custom", "plain", "simba")[(j // 4) % 6]
        arms = 2 if actor == "default" else rng.choice([2, 3])
        opts = {"batch_size": rng.choice([1, 2, 3]), "learn_step": rng.choice([1, 2])}
        if not exact and actor != "default":
            opts["nobs"] = 2 * arms
        if rng.random() < 0.3:
            opts["lam_hp"] = True
        lams = LAMS if (exact or opts.get("lam_hp")) else LAMS_FLOAT
        tp = train_params(rng, j)
        if exact:
            tp["episode_steps"] = min(tp["episode_steps"], 3 if tp["gens"] == 1 else 2)      # <= 6 decisions in any lineage
        add(algo, actor, lams[j % len(lams)], rng.choice(GAMMAS), [("train", tp)], arms, opts)
    return jobs


def run(ctx):
    from ..drive import bandit

    quick = ctx.quick
    jobs = build_jobs(ctx.seed, quick)
    with ProcessPoolExecutor(max_workers=12) as ex:
        futs = [ex.submit(bandit.run_job, j) for j in jobs]          # real executions run while TLC model-checks

        # ---- M1
        # one TLC worker: strict breadth-first order, so that every state is first reached with its smallest operation count
        # (the view hides the bounded counter `nops`; several workers would cut successors of states found first on longer paths)
        r = ctx.mc("Bandit_MC", "Bandit_MCq.cfg" if quick else "Bandit_MC.cfg", coverage=False, timeout=6000, workers=1)
        if r.ok and r.distinct < 10000:
            raise Vacuous(f"kernel model explored only {r.distinct} states")
        ctx.mc("Bandit_MC", "Bandit_MCpq.cfg" if quick else "Bandit_MCp.cfg", workers=1, timeout=6000,
               must_cover=["CreateAny|Create", "DecideAny|Decide", "LearnAny|Learn", "TestAny|Test", "MutateAny|Mutate", "CloneAny|Clone", "SaveAny|Save",
                           "LoadNewAny|LoadNew", "LoadIntoAny|LoadInto"])
        if not quick:
            # heterogeneous population: every agent / checkpoint has its own lambda, hyper-parameter mutations move it
            ctx.mc("Bandit_MC", "Bandit_MCh.cfg", workers=1, timeout=6000,
                   must_cover=["CreateAny|Create", "DecideAny|Decide", "MutateAny|Mutate", "CloneAny|Clone", "LoadNewAny|LoadNew", "LoadIntoAny|LoadInto"])
        results = [f.result() for f in futs]

    exact, flt = [], []
    protocol, stats, resized, decisions, events, lamch, crashed = {}, {}, 0, 0, 0, 0, {}
    for job, res in zip(jobs, results):
        (exact if res["kind"] == "exact" else flt).extend(res["traces"])
        ctx.case((job[0], job[1], job[2], job[3], str(job[4]), job[6], json.dumps(job[7], sort_keys=True)))
        resized += res["resized"]
        decisions += res["decisions"]
        events += res["nev"]
        lamch += res["lam_changes"]
        train = job[4][0][0] == "train"
        for k, n in res["stats"].items():
            k = ("train:" + k) if train else k
            stats[k] = stats.get(k, 0) + n
        fam = ("train:" if train else "") + job[1]
        stats["family:" + fam] = stats.get("family:" + fam, 0) + 1
        if res["crashed"]:
            crashed[res["crashed"][:120]] = crashed.get(res["crashed"][:120], 0) + 1
        for k, d in res["protocol"].items():
            for w, n in d.items():
                protocol.setdefault(k, {}).setdefault(w, 0)
                protocol[k][w] += n
    if resized == 0 or decisions == 0:
        raise Vacuous("no script changed the size of an output layer / took a decision")
    need = ["test", "decide:masked", "mutate:arch:direct", "mutate:param:direct", "mutate:act:direct", "mutate:hp:pre", "clone", "loadinto", "loadnew",
            "train:decide", "train:learn", "train:test", "train:clone", "train:mutate:arch", "train:mutate:none", "train:save", "train:loadnew",
            "archmethod:head_net.add_node", "archmethod:head_net.remove_node", "archmethod:head_net.add_layer", "archmethod:head_net.remove_layer",
            "archmethod:add_latent_node", "archmethod:remove_latent_node", "archmethod:encoder.add_node", "archmethod:encoder.remove_node",
            "archmethod:encoder.add_channel", "archmethod:encoder.change_kernel"]
    missing = [k for k in need if not stats.get(k)]
    if (missing or lamch == 0) and not crashed:       # (an execution that stops at a raising operation is reported below, not a vacuity)
        raise Vacuous(f"operations never executed by any script: {missing}; lambda changes: {lamch}; crashes: {crashed}")
    ctx.extra["observed_protocol"] = protocol
    ctx.extra["operation_counts"] = dict(sorted(stats.items()))
    ctx.extra["output_layer_resizes"] = resized
    ctx.extra["lambda_changes"] = lamch
    ctx.extra["decisions"] = decisions
    ctx.extra["operations"] = events
    ex0 = next(t for t in exact if t["cfg"]["lam"] == [1, 1])
    ctx.sample({"exact_trace": {"cfg": ex0["cfg"], "ev": [{**e, "post": e["post"][:3]} for e in ex0["ev"][:3]]}})
    fl0 = next(t for t in flt if t["cfg"]["lam"] == [1, 1])
    ctx.sample({"inexact_trace": {"cfg": fl0["cfg"], "ev": [{**e, "post": e["post"][:3]} for e in fl0["ev"][:3]]}})
    ctx.validate("Bandit_Trace", EXACT_CFG, exact, sig=sig("exact"), what=what, chunk=150)
    ctx.validate("Banditx_Trace", FLOAT_CFG, flt, sig=sig("float"), what=what, chunk=250)

    ctx.assume("the gradient feature of an arm is the gradient of the actor's output for that arm w.r.t. the trainable parameters of "
               "actor.get_output_dense(), flattened in parameter order and divided by sqrt(out_features) (the algorithm's own definition); "
               "the driver recomputes it with torch.autograd.grad before get_action is called")
    ctx.assume("exact mode: linear actor (vfw.drive.bandit.LinFeat) with integer contexts, so features are integers and float32 sigma_inv is "
               "compared with the exact rational matrix at 1e-5 (+1.2e-5 rounding of the 1e-6 fixed-point encoding)")
    ctx.assume("inexact mode: residual max|S (lambda I + sum g g^T) - I| <= 1e-3 evaluated in float64 by the driver; equality of a carried "
               "matrix with its source at 1e-7; both tolerances are part of the trusted base")
    ctx.assume("mode 'relative': when the real agent starts from c I with c != 1/lambda the strict trace is rejected at its first event and "
               "the same execution is validated again against lambda' = 1/c, so that the rank-one update and the protocol are still checked")
    ctx.assume("the chosen arm is observed, not predicted (UCB scores involve sqrt, TS samples); legality of the arm under the mask is not part of C19")
    ctx.assume("an operation that rebuilds an agent (mutation, clone, load) may carry the matrix (if its size still matches the output layer and "
               "lambda is unchanged) or re-initialise it; learn steps, evaluation runs and saves must leave it unchanged")
    ctx.assume("lambda of an agent = its `lamb` attribute; a clone / reloaded agent has its source's, only a hyper-parameter mutation applied "
               "through Mutations.mutation (lamb listed in hp_config) changes it; the bare rl_hyperparam_mutation on such an agent is not exercised")
    ctx.assume("action masks are numpy arrays (int / bool / float, shape (arms,) or (arms,1)) as documented; a Python list raises TypeError before the "
               "matrix is touched and is not exercised")
    ctx.assume("train_bandits runs: the agents' get_action / learn / test / clone / save_checkpoint and Mutations.mutation are wrapped by the driver "
               "to record events; members mutated later in one Mutations.mutation call are shown with their state before the call")
    return "model_checking", ("case = (algorithm, actor kind, lambda, gamma, operation script with context seeds and masks | train_bandits parameters, "
                              "number of arms, constructor options); "
                              "distinct = distinct tuples; all are non-trivial (every script creates an agent and ends with a decision on every live agent)"), False


def replay(path):
    """./check C19 --replay PATH: re-execute the recorded script on real agents and validate it again through TLC."""
    from .. import trace as trace_mod
    from ..drive import bandit

    rp = json.loads(open(path).read())
    r = rp["replay"]
    print(f"replaying {rp['signature']}")
    if r.get("kind") != "rejected-trace":
        print(str(r.get("text", ""))[:6000])
        return 1
    cfg = r["trace"]["cfg"]
    ops = [tuple(o) for o in json.loads(cfg["ops"])]
    opts = json.loads(cfg.get("opts", "{}"))
    res = bandit.run_job((cfg["algo"], cfg["actor"], cfg["lamb"], cfg["gamma"], ops, cfg["seed"], cfg.get("arms", 3), opts))
    t = next((x for x in res["traces"] if x["cfg"]["mode"] == cfg["mode"]), res["traces"][0])
    print(f"{cfg['algo']} actor={cfg['actor']} lamb={cfg['lamb']} gamma={cfg['gamma']} arms={cfg.get('arms')} opts={opts} mode={t['cfg']['mode']} spec lambda={t['cfg']['lam']}")
    for i, e in enumerate(t["ev"], start=1):
        extra = {k: e[k] for k in ("kind", "via", "want", "mut", "feats", "arm", "mask") if k in e and e["op"] in ("decide", "mutate")}
        print(f"-- event {i}: {e['op']} a={e['a']} c={e['c']} f={e['f']} {extra} exc={e['exc']!r}")
        for s, p in enumerate(e["post"], start=1):
            if not p.get("nil"):
                print(f"     slot {s}: " + ", ".join(f"{k}={p[k]}" for k in ("layer", "dim", "lam", "S", "hist", "res", "resid", "isinit", "eqsrc") if k in p))
    exact = res["kind"] == "exact"
    v = trace_mod.validate("Bandit_Trace" if exact else "Banditx_Trace", EXACT_CFG if exact else FLOAT_CFG, [t])[0]
    print("TLC verdict on the re-execution:", "ACCEPTED" if v.accepted else f"REJECTED at event {v.step}: {v.clauses or v.invariant}")
    return 0 if v.accepted else 1
