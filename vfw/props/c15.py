"""C15 -- observation handling is value-correct and batch-, agent- and env-consistent.

M1  ObsPrep_MC: the shape-and-content algebra over the grid (Box of rank 0..4 with extents in {1,2,3},
    Discrete incl. n=1, MultiDiscrete, MultiBinary, one-level Dict/Tuple; unbatched / batch-of-one / batch /
    (step, env) inputs; normalisation on and off; homogeneous groups of every composition and interleaving;
    centralised-critic stacking).  Invariants: LeadingBatch, OneHotDef, MultiOneHotDef, ScaleDef,
    BatchConsistency, MemberWise, VectDef, HomoRowMap, RoundTrip, CriticMap, Total.
M2(a) every case is dumped by TLC with its expected result and replayed into the real code:
    preprocess_observation (function, RLAlgorithm method through real DQN agents, MultiAgentRLAlgorithm method
    through real MADDPG (thorough) / IPPO-bound (quick) agents, IPPO's grouped method), get_vect_dim,
    maybe_add_batch_dim, is_vectorized_experiences, assemble_/disassemble_homogeneous_outputs (real IPPO agents),
    stack_critic_observations (real MADDPG / MATD3 agents); inputs as numpy arrays of several dtypes, tensors,
    TensorDicts, Python numbers.  Shape and content compared exactly.  IPPO's learn path
    (concatenate_experiences_into_batches -> minibatch -> preprocess_observation) is exercised by running the real
    IPPO.learn on (step, env) blocks and observing the tensor the shared actor receives.
    Negative controls: three wrong variants of the algebra (squeezed batch-of-one, scaling by `high`, env-major
    disassembly) must be rejected by TLC.
Consequence clause: real DQN / PPO agents (tiny networks without normalisation layers, and AgileRL's default
    network configuration) report the same q-values / greedy action / value estimate for an observation alone, as a
    batch of one and inside batches with other companions (q-values are observed inside get_action, not recomputed);
    MADDPG / MATD3 actions and IPPO value estimates per (agent, env) do not depend on the number of environments,
    the other agents' observations or the order in which the observation dict lists the agents.
"""
from __future__ import annotations

import json
import time

from .. import tlc
from ..core import Vacuous


def run(ctx):
    import torch

    torch.set_num_threads(1)
    from ..drive import obsprep as op

    quick = ctx.quick
    sfx = "q" if quick else ""
    ctx.mc("ObsPrep_MC", f"ObsPrep_MC{sfx}.cfg",
           must_cover=["Encode", "Batch", "AssembleAct", "DisassembleAct", "StackAct"])
    # negative controls: the invariants reject a squeezed batch-of-one dimension, scaling by `high` only, and
    # homogeneous outputs taken apart in (env, agent) order
    neg = {}
    for variant, inv in (("squeeze1", "LeadingBatch"), ("normhigh", "ScaleDef"), ("envmajor", "RoundTrip")):
        n = tlc.model_check("ObsPrep_MC", f"ObsPrep_Neg_{variant}.cfg", coverage=False)
        if n.ok or n.violated_name != inv:
            raise Vacuous(f"negative control {variant}: expected {inv} to be violated, got {n.violated_name or 'no violation'}")
        neg[variant] = n.violated_name
    ctx.extra["negative_controls"] = neg
    r = tlc.dump("ObsPrep_MC", f"ObsPrep_Dump{sfx}.cfg")
    cases = [c for c in r.tagged.get("CASE", []) if isinstance(c, dict)]
    if len(cases) * 3 < r.distinct - len(cases) or len(cases) < 1000:
        raise tlc.TLCError(f"dump produced {len(cases)} cases for {r.distinct} states")
    prep = [c for c in cases if c["kind"] in ("leaf", "dict", "tuple")]
    homo = [c for c in cases if c["kind"] == "homo"]
    critic = [c for c in cases if c["kind"] == "critic"]
    if not prep or not homo or not critic:
        raise tlc.TLCError("dump misses a kind of case")
    # deterministic order (TLC's BFS order depends on fingerprints)
    prep.sort(key=lambda c: json.dumps([c["kind"], c["subs"], c["lead"], c["norm"], c["salt"]], sort_keys=True))
    homo.sort(key=lambda c: json.dumps([c["grp"], c["E"], c["d"]]))
    critic.sort(key=lambda c: json.dumps([c["img"], c["A"], c["B"], c["dims"]]))
    ctx.extra["dumped_cases"] = {"prep": len(prep), "homo": len(homo), "critic": len(critic)}

    counts = {"prep": 0, "ma_prep": 0, "learn_batches": 0, "vec_exp": 0, "consequence_dqn": 0, "consequence_ma": 0}
    t0 = time.time()

    def report(fails):
        for f in fails:
            ctx.violation(f["sig"], f["what"], f["replay"])

    MA_BOX = [[], [1], [3], [1, 1], [2, 3], [1, 1, 1], [1, 2, 2], [3, 2, 1], [1, 1, 1, 1], [2, 1, 2, 1]]

    def ma_select(c, i):
        """Sub-grid for the multi-agent entry points in the quick tier (agent construction dominates the cost)."""
        if not quick:
            return True
        if c["kind"] != "leaf":
            return i % 8 == 0
        s = c["subs"][0]
        return s["k"] != "box" or s["shape"] in MA_BOX

    # ---- observation preparation
    for i, c in enumerate(prep):
        key = (c["kind"], op.space_descr(c), tuple(c["lead"]), c["norm"])
        nontrivial = c["rows"] * sum(len(x) for x in c["x"]) > 1
        report(op.check_prep_case(c, i, thorough=not quick))
        ctx.case(("prep",) + key, nontrivial)
        counts["prep"] += 1
        if len(c["lead"]) == 2:
            report(op.check_vectorized_experiences(c))
            counts["vec_exp"] += 1
            if c["kind"] == "leaf" and c["lead"][0] >= 2 and (not quick or i % 2 == 0):
                report(op.check_learn_batches(c, i))
                ctx.case(("learn",) + key)
                counts["learn_batches"] += 1
        # multi-agent entry points on a sub-grid (all leaf kinds, every composite pair in thorough)
        if len(c["lead"]) <= 1 and ma_select(c, i):
            report(op.check_ma_prep(c, i, algos=("base", "ippo") if quick else ("maddpg", "ippo")))
            ctx.case(("ma_prep",) + key)
            counts["ma_prep"] += 1
    ctx.extra["prep_wall_s"] = round(time.time() - t0, 1)

    # ---- multi-agent routing
    for c in homo:
        report(op.check_homo_case(c))
        ctx.case(("homo", tuple(c["grp"]), c["E"], c["d"]), nontrivial=len(c["grp"]) > 1)
    for c in critic:
        report(op.check_critic_case(c))
        ctx.case(("critic", c["img"], c["A"], c["B"], tuple(c["dims"])), nontrivial=c["A"] > 1)

    # ---- consequence clause
    cons = [c for c in prep if len(c["lead"]) == 1 and c["rows"] == 3]
    if quick:       # every (kind, member tags) combination once, plus a sample
        firsts, sel = set(), []
        for j, c in enumerate(cons):
            k = (c["kind"], tuple(op.tag(s) for s in c["subs"]))
            if k not in firsts or (c["kind"] == "leaf" and j % 3 == 0):
                firsts.add(k)
                sel.append(c)
        cons = sel
    used = 0
    for i, c in enumerate(cons):
        for algo in ("dqn", "ppo") if (not quick or i % 4 == 0) else ("dqn",):
            fails, ran = op.check_consequence_dqn(c, i, default_config=False, algo=algo)
            report(fails)
            used += ran
            if ran:
                ctx.case(("consequence", algo, "tiny", op.space_descr(c), c["norm"]))
    # AgileRL's default network configuration (images need at least 5x5 for the default 3x3 kernels)
    big = []
    for kind, subs in (("leaf", [{"k": "box", "shape": [1, 6, 6], "nvec": [], "lo": 0, "hi": 4}]),
                       ("leaf", [{"k": "box", "shape": [4], "nvec": [], "lo": 0, "hi": 4}]),
                       ("leaf", [{"k": "disc", "shape": [], "nvec": [3], "lo": 0, "hi": 2}]),
                       ("dict", [{"k": "box", "shape": [2], "nvec": [], "lo": 0, "hi": 4},
                                 {"k": "box", "shape": [2, 6, 6], "nvec": [], "lo": 0, "hi": 4}])):
        xs = []
        for m, s in enumerate(subs):
            size = 1
            for d in s["shape"]:
                size *= d
            xs.append([s["lo"] + (((j % size) * 7 + (j // size) + 3 * m) % (s["hi"] - s["lo"] + 1)) for j in range(3 * size)])
        big.append({"kind": kind, "subs": subs, "lead": [3], "norm": True, "salt": 0, "x": xs, "rows": 3})
    for i, c in enumerate(big):
        for algo in ("dqn", "ppo"):
            fails, ran = op.check_consequence_dqn(c, i, default_config=True, algo=algo)
            report(fails)
            used += ran
            if ran:
                ctx.case(("consequence", algo, "default", op.space_descr(c)))
    counts["consequence_dqn"] = used
    if used < (40 if quick else 150):
        raise tlc.TLCError(f"only {used} consequence-clause cases could be run on real agents")
    for kind in ("vector", "discrete", "image", "image-bn"):
        fails, n = op.check_consequence_ma(ctx.seed, kind)
        report(fails)
        counts["consequence_ma"] += n
        ctx.case(("consequence-ma", kind))
    fails, n = op.check_consequence_big_group(ctx.seed)
    report(fails)
    counts["consequence_ma"] += n
    ctx.case(("consequence-ma", "big-group"))
    fails, n = op.check_key_order(ctx.seed)
    report(fails)
    counts["consequence_key_order"] = n
    ctx.case(("consequence", "key-order"))
    if op.INSENSITIVE and not ctx.violations:
        raise tlc.TLCError(f"vacuity guard: network outputs do not distinguish the observations in {op.INSENSITIVE}")
    ctx.extra["conformance_counts"] = counts
    ctx.extra["real_agents"] = dict(op.AGENT_STATS)
    if op.AGENT_STATS["built"] < 50:
        raise tlc.TLCError(f"only {op.AGENT_STATS['built']} real agents could be built")

    for c in (prep[7], prep[len(prep) // 2], homo[-1], critic[-1]):
        ctx.sample({k: (v if k != "x" else str(v)[:200]) for k, v in c.items() if k not in ("mid",)})
    ctx.assume("values on the grid are small integers and bounds have dyadic width (or 255): float32 results of the real code "
               "are exact, (x-low)/(high-low) is one correctly rounded IEEE division reproduced by numpy float32")
    ctx.assume("'float tensor' is read as any floating dtype; Dict results may be dict or TensorDict, Tuple results tuple or list")
    ctx.assume("(step, env) inputs are merged in row-major order (row = t*E + e); get_vect_dim is demanded for unbatched "
               "and singly batched inputs only and not for plain Python numbers (which have no shape)")
    ctx.assume("image normalisation with infinite bounds is not in the grid (the code documents a bypass)")
    ctx.assume("homogeneous-group round trip is demanded with all members of a group present")
    ctx.assume("IPPO learn path: the rows the shared actor receives are compared as a multiset (the minibatch is shuffled); their "
               "alignment with the advantages is C17's subject; only blocks with at least 2 steps are used")
    ctx.assume("a rank-0 Box observation may be prepared as (rows,) or (rows, 1) (the network has one input feature)")
    ctx.assume("numpy scalars of dtype uint16/32/64 are not passed (torch.tensor rejects them; arrays of these dtypes are)")
    ctx.assume("forward() of the real networks is wrapped for observation only (AgileRL modules bypass torch forward hooks)")
    ctx.assume(f"consequence clause: single-threaded float32 forward passes compared with absolute tolerance {op.TOL}; greedy "
               "actions compared only where the two best q-values differ by more than 10x the tolerance")
    rule = ("case = (space, leading shape, normalisation flag) of the TLC grid, each replayed in every representation "
            "(numpy dtypes, tensor, TensorDict, Python number) through function and agent methods; (group composition, envs, width); "
            "(critic kind, agents, batch, dims); consequence cases = (network config, space); non-trivial = more than one element / agent")
    return "model_checking", rule, False


# ------------------------------------------------------------------------------------------ replay
def replay(path):
    """Re-run the check that produced a replay file on its stored case; exit 1 if it still fails."""
    import torch

    torch.set_num_threads(1)
    from ..drive import obsprep as op

    rp = json.loads(open(path).read())
    r = rp["replay"]
    print(f"replaying {rp['signature']}")
    if r.get("kind") == "tlc-counterexample":
        print(r.get("text", "")[:6000])
        return 1
    chk, c = r.get("check"), r.get("case")
    if chk == "prep":
        fails = op.check_prep_case(c, r.get("idx", 0), r.get("thorough", False))
    elif chk == "ma_prep":
        fails = op.check_ma_prep(c, r.get("idx", 0), tuple(r.get("algos", ("maddpg", "ippo"))))
    elif chk == "learn_batches":
        fails = op.check_learn_batches(c, r.get("idx", 0))
    elif chk == "vec_exp":
        fails = op.check_vectorized_experiences(c)
    elif chk == "homo":
        fails = op.check_homo_case(c)
    elif chk == "critic":
        fails = op.check_critic_case(c)
    elif chk == "consequence":
        fails = op.check_consequence_dqn(c, r.get("idx", 0), r.get("default_config", False), r.get("algo", "dqn"))[0]
    elif chk == "consequence_ma":
        fails = op.check_consequence_ma(r.get("seed", 0), r.get("spaces_kind", "vector"))[0]
    else:
        print("unknown replay kind")
        return 2
    same = [f for f in fails if f["sig"] == rp["signature"]]
    for f in fails:
        print(("* " if f["sig"] == rp["signature"] else "  ") + f["sig"] + "\n    " + f["what"][:600])
    print("STILL FAILS" if same else ("OTHER FAILURES ONLY" if fails else "PASSES"))
    return 1 if same else 0
