"""C10 -- n-step returns never cross an episode boundary and stay aligned with the 1-step buffer.

M1  NStep_MC.cfg: all done placements for streams of length <= 6, n <= 3, E <= 2, every permitted cut;
    invariants NoCross, ReturnDef, StopsOnlyAtEnd, Aligned, ImplAllowed (the implementation's cut rule
    is one the property permits).  Negative control (thorough): the pre-fix rule BuggyK is rejected.
M2  the same grid (every placement of done flags) is executed on the real MultiStepReplayBuffer +
    companion buffer; M3 seeded long streams (n 1..5, 1..4 envs, capacity 4..16, PER companion,
    index-coupled sampling).  Every recorded execution is validated by TLC (NStep_Trace).

Dimensions varied along the cases (see vfw/drive/nstep.py): discount in {0, 1, 1/2, 1/4, 9/10, 99/100}, rewards that are negative /
zero / multiples of 1/4, capacity equal to the number of environments (every add is one full lap), n up to 8 (thorough),
six observation kinds + half-integer encodings, the dtype option, the name and dtype of the done field, unbatched single-environment
transitions as train_off_policy builds them, PER or uniform companion buffer.
"""
from __future__ import annotations

import itertools
import random

from ..drive.ring import ALL_KINDS, HALF

TRACE_CFG = """SPECIFICATION TSpec
CONSTANTS
  Params = {}
  MaxT = 0
  Diag = @DIAG@
INVARIANT NoCross
INVARIANT ReturnDef
INVARIANT StopsOnlyAtEnd
INVARIANT Aligned
CHECK_DEADLOCK FALSE
"""


def sig(t, v):
    cl = (v.clauses[0] if v.clauses else v.invariant).split(":")[0]
    c = t["cfg"]
    return f"nstep:{(v.event or {}).get('op', '?') if isinstance(v.event, dict) else '?'}:{cl}:E{'1' if c['E'] == 1 else 'n'}"


def what(t, v):
    return (f"MultiStepReplayBuffer trace rejected at event {v.step}: clause(s) {v.clauses or v.invariant}; cfg={t['cfg']}; "
            f"event={str(v.event)[:400]}")


def run(ctx):
    from ..drive import nstep

    quick = ctx.quick
    rng = random.Random(ctx.seed)
    ctx.mc("NStep_MC", "NStep_MC.cfg" if quick else "NStep_MCt.cfg", must_cover=["AddAny|Add"], timeout=3000)
    traces = []

    def rewards(t, E):
        return [((t + 2 * e) % 4) - 1 for e in range(1, E + 1)]          # as MCStep of NStep.tla: -1, 0, 1, 2

    def kind_of(i):
        return ALL_KINDS[i % 6] + (HALF if (i // 6) % 2 else "")

    # exhaustive grid of done placements; entries (n, envs, capacity, gexp | (gnum, gden), stream length)
    grid = [(1, 1, 2, 1, 4), (2, 1, 3, 1, 6), (3, 1, 2, 1, 6), (3, 1, 4, 2, 6), (2, 2, 3, 1, 4), (3, 2, 4, 0, 4),
            (3, 1, 4, (0, 1), 5), (2, 2, 2, 1, 3)]
    if not quick:
        grid += [(2, 2, 4, 1, 5), (3, 2, 5, 1, 5), (4, 1, 5, 1, 7), (2, 3, 4, 1, 3), (3, 1, 3, (9, 10), 6), (2, 3, 3, 1, 3)]
    k = 0
    for (n, E, N, g, L) in grid:
        gexp, grat = (g, None) if isinstance(g, int) else (0, g)
        for dones in itertools.product(itertools.product([0, 1], repeat=E), repeat=L):
            steps = [(rewards(t, E), list(d)) for t, d in enumerate(dones, start=1)]
            kind = kind_of(k // 7) if k % 7 == 0 else "vector"
            rden = 4 if (k % 4 == 1 and (grat is None or grat[1] == 1)) else 1
            traces.append(nstep.run(n, E, N, gexp, kind, steps, per=(k % 5 == 0), sample_every=(3 if k % 3 == 0 else 0),
                                    seed=ctx.seed + k, grat=grat, rden=rden))
            ctx.case(("grid", n, E, N, g, dones), nontrivial=any(any(d) for d in dones))
            k += 1
    ctx.extra["grid_streams"] = k
    # long random streams
    for j in range(40 if quick else 400):
        n = rng.randint(1, 5) if (quick or j % 10) else rng.choice([6, 8])
        E = rng.randint(1, 4)
        N = rng.randint(max(4, E), 16)
        if j % 5 == 4:
            N = rng.choice([E, E + 1, 2 * E])          # every add fills the whole buffer / wraps at once
        gexp = rng.choice([0, 1, 1, 2]) if n <= 5 else rng.choice([0, 1])
        L = rng.randint(n + 2, 40)
        p = rng.choice([0.1, 0.3, 0.6])
        steps = []
        for t in range(1, L + 1):
            steps.append(([rng.randint(-3, 3) for _ in range(E)], [int(rng.random() < p) for _ in range(E)]))
        # every third stream: a discount that is not a power of two (99/100, 9/10), returns identified up to 2% of 1/den^(n-1)
        grat = None
        if j % 3 == 2 and n <= 4:
            grat = (9, 10) if (n == 4 or j % 2) else (99, 100)
        elif j % 9 == 3:
            grat = (0, 1)                              # gamma = 0, the lower end of the range
        # rewards in quarters (exact in float32) where the discount is dyadic
        rden = 4 if (j % 2 == 0 and (grat is None or grat[1] == 1)) else 1
        traces.append(nstep.run(n, E, N, gexp, kind_of(j), steps, per=bool(j % 2), sample_every=rng.choice([0, 2, 5]),
                                seed=ctx.seed + j, grat=grat, rden=rden))
        ctx.case(("long", n, E, N, grat or gexp, rden, str(steps)))
    ctx.sample({"nstep_trace_cfg": traces[40]["cfg"], "events": traces[40]["ev"][:4]})
    ctx.validate("NStep_Trace", TRACE_CFG, traces, sig=sig, what=what, chunk=400)
    ctx.assume("gamma in {0, 1, 1/2, 1/4} and rewards that are small multiples of 1 or 1/4 (negative ones included) so that float32 returns "
               "are exact; for gamma in {9/10, 99/100} (n <= 4, integer rewards) a float32 return is identified with the nearest multiple "
               "of 1/den^(n-1) if it lies within 2% of that unit")
    ctx.assume("clear() of the n-step buffer is not in C10's quantifier (the window of raw steps survives it) and is not interleaved")
    ctx.assume("truncation without done is not an episode boundary for this property; the driver feeds done flags only")
    rule = ("case = (n, envs, capacity, gamma, stream of (rewards, done flags)); grid: every placement of done flags for the "
            "listed small parameters; long: seeded random streams; non-trivial = at least one done flag in the stream")
    return "model_checking", rule, False
