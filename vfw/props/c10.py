"""C10 -- n-step returns never cross an episode boundary and stay aligned with the 1-step buffer.

M1  NStep_MC.cfg: all done placements for streams of length <= 6, n <= 3, E <= 2, every permitted cut;
    invariants NoCross, ReturnDef, StopsOnlyAtEnd, Aligned, ImplAllowed (the implementation's cut rule
    is one the property permits).  Negative control (thorough): the pre-fix rule BuggyK is rejected.
M2  the same grid (every placement of done flags) is executed on the real MultiStepReplayBuffer +
    companion buffer; M3 seeded long streams (n 1..5, 1..4 envs, capacity 4..16, PER companion,
    index-coupled sampling).  Every recorded execution is validated by TLC (NStep_Trace).
"""
from __future__ import annotations

import itertools
import random

from ..codec import OBS_KINDS

TRACE_CFG = """SPECIFICATION TSpec
CONSTANTS
  Params = {}
  MaxT = 0
  Diag = @DIAG@
INVARIANT NoCross
INVARIANT ReturnDef
INVARIANT StopsOnlyAtEnd
INVARIANT Aligned
CHECK_DEADLOCK FALSE
"""


def sig(t, v):
    cl = (v.clauses[0] if v.clauses else v.invariant).split(":")[0]
    c = t["cfg"]
    return f"nstep:{(v.event or {}).get('op', '?') if isinstance(v.event, dict) else '?'}:{cl}:E{'1' if c['E'] == 1 else 'n'}"


def what(t, v):
    return (f"MultiStepReplayBuffer trace rejected at event {v.step}: clause(s) {v.clauses or v.invariant}; cfg={t['cfg']}; "
            f"event={str(v.event)[:400]}")


def run(ctx):
    from ..drive import nstep

    quick = ctx.quick
    rng = random.Random(ctx.seed)
    ctx.mc("NStep_MC", "NStep_MC.cfg" if quick else "NStep_MCt.cfg", must_cover=["AddAny|Add"], timeout=3000)
    traces = []

    def rewards(t, E):
        return [1 + ((t + 2 * e) % 3) for e in range(1, E + 1)]

    # exhaustive grid of done placements
    grid = [(1, 1, 2, 1, 4), (2, 1, 3, 1, 6), (3, 1, 2, 1, 6), (3, 1, 4, 2, 6), (2, 2, 3, 1, 4), (3, 2, 4, 0, 4)]
    if not quick:
        grid += [(2, 2, 4, 1, 5), (3, 2, 5, 1, 5), (4, 1, 5, 1, 7), (2, 3, 4, 1, 3)]
    k = 0
    for (n, E, N, gexp, L) in grid:
        for dones in itertools.product(itertools.product([0, 1], repeat=E), repeat=L):
            steps = [(rewards(t, E), list(d)) for t, d in enumerate(dones, start=1)]
            kind = OBS_KINDS[k % 4] if k % 7 == 0 else "vector"
            traces.append(nstep.run(n, E, N, gexp, kind, steps, per=(k % 5 == 0), sample_every=(3 if k % 3 == 0 else 0),
                                    seed=ctx.seed + k))
            ctx.case(("grid", n, E, N, gexp, dones), nontrivial=any(any(d) for d in dones))
            k += 1
    ctx.extra["grid_streams"] = k
    # long random streams
    for j in range(40 if quick else 400):
        n = rng.randint(1, 5)
        E = rng.randint(1, 4)
        N = rng.randint(max(4, E), 16)
        gexp = rng.choice([0, 1, 1, 2])
        L = rng.randint(n + 2, 40)
        p = rng.choice([0.1, 0.3, 0.6])
        steps = []
        for t in range(1, L + 1):
            steps.append(([rng.randint(0, 3) for _ in range(E)], [int(rng.random() < p) for _ in range(E)]))
        # every third stream: a discount that is not a power of two (99/100, 9/10), returns identified up to 2% of 1/den^(n-1)
        grat = None
        if j % 3 == 2 and n <= 4:
            grat = (9, 10) if (n == 4 or j % 2) else (99, 100)
        traces.append(nstep.run(n, E, N, gexp, OBS_KINDS[j % 4], steps, per=bool(j % 2), sample_every=rng.choice([0, 2, 5]),
                                seed=ctx.seed + j, grat=grat))
        ctx.case(("long", n, E, N, grat or gexp, str(steps)))
    ctx.sample({"nstep_trace_cfg": traces[40]["cfg"], "events": traces[40]["ev"][:4]})
    ctx.validate("NStep_Trace", TRACE_CFG, traces, sig=sig, what=what, chunk=400)
    ctx.assume("gamma in {1, 1/2, 1/4} and small integer rewards so that float32 returns are exact; for gamma in {9/10, 99/100} (n <= 4) a "
               "float32 return is identified with the nearest multiple of 1/den^(n-1) if it lies within 2% of that unit")
    ctx.assume("truncation without done is not an episode boundary for this property; the driver feeds done flags only")
    rule = ("case = (n, envs, capacity, gamma, stream of (rewards, done flags)); grid: every placement of done flags for the "
            "listed small parameters; long: seeded random streams; non-trivial = at least one done flag in the stream")
    return "model_checking", rule, False
