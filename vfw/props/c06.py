"""C06 -- hyperparameter mutation stays in its configured range and takes effect.

M1  EvoHP_MC.cfg: exact rationals, float lr (factors 1/2, 2) and int batch size (3/4, 3/2), values at both
    boundaries, two agents, all sequences of <= 5 mutations / copies: InRange, IntIsInt, LrEffective,
    OneChange, OwnBase
M3  the real Mutations(rl_hp=1) on real populations of every algorithm whose members were built from ONE
    shared HyperparameterConfig (as create_population does) and from clones: exact traces (dyadic factors:
    TLC recomputes clip/cast from the agent's own value) and inexact traces (default factors, measured facts).
"""
from __future__ import annotations

import random
from concurrent.futures import ProcessPoolExecutor

from .. import zoo

TRACE_CFG = """SPECIFICATION TSpec
CONSTANTS
  Cfg <- NoCfg
  NA = 1
  InitVals <- NoInit
  MaxMut = 0
  Diag = @DIAG@
CHECK_DEADLOCK FALSE
"""


def _run(args):
    from ..drive import hp
    return hp.run(*args)


def sig(t, v):
    ev = v.event if isinstance(v.event, dict) else {}
    mode = "eqval" if t["cfg"].get("eq_lr") == "value" else "eqlr" if t["cfg"].get("eq_lr") else ("shared" if t["cfg"]["shared"] else "own")
    return f"hp:{t['cfg']['algo']}:{mode}:{ev.get('op', '?')}:{(v.clauses[0] if v.clauses else v.invariant)}"


def what(t, v):
    ev = dict(v.event) if isinstance(v.event, dict) else {}
    return f"hp-mutation trace rejected at event {v.step}: {v.clauses or v.invariant}; cfg={ {k: t['cfg'][k] for k in ('algo', 'NA', 'exact', 'shared')} }; hps={[h['name'] for h in t['cfg']['hps']]}; event={str(ev)[:700]}"


def run(ctx):
    quick = ctx.quick
    rng = random.Random(ctx.seed)
    ctx.mc("EvoHP_MC", "EvoHP_MC.cfg", must_cover=["MutateHP", "Copy", "Assign"])
    algos = ["DQN", "DDPG", "TD3", "PPO", "IPPO", "MADDPG"] if quick else zoo.ALGOS
    jobs = []
    j = 0
    for algo in algos:
        for exact in (True, False):
            for rep in range(1 if quick else 4):
                NA = rng.randint(2, 3)
                ops = []
                for _ in range(6 if quick else 14):
                    x = rng.random()
                    if x < 0.2:
                        ops.append(("learn", rng.randint(1, NA), rng.randint(1, 5)))
                    elif x < 0.6:
                        ops.append(("mutate", rng.randint(1, NA)))
                    elif x < 0.8:
                        ops.append(("mutpop",))
                    else:
                        a = rng.randint(1, NA)
                        c = rng.choice([k for k in range(1, NA + 1) if k != a])
                        ops.append(("copy", a, c))
                jobs.append((algo, NA, ops, exact, ctx.seed + j, True))
                j += 1
        # values assigned from outside between mutations (the next mutation must start from them)
        jobs.append((algo, 2, [("mutate", 1), ("set", 1, 0), ("mutate", 1), ("mutate", 1), ("set", 1, 1), ("mutate", 1), ("mutate", 1), ("copy", 1, 2),
                               ("set", 2, 0), ("mutate", 2), ("mutate", 2), ("mutate", 2), ("set", 1, 0), ("mutate", 1), ("mutate", 1), ("mutate", 1)],
                     True, ctx.seed + j, True))
        j += 1
        jobs.append((algo, 2, [("learn", 1, 1), ("mutate", 1), ("mutate", 2), ("learn", 1, 2), ("mutate", 1), ("mutate", 1), ("mutate", 1), ("mutpop",),
                               ("mutate", 1), ("mutate", 1), ("mutate", 2)], True, ctx.seed + j, False))
        j += 1
        if algo in ("DDPG", "TD3", "MADDPG", "MATD3"):
            # equal initial values of lr_actor and lr_critic (a legitimate configuration)
            jobs.append((algo, 2, [("mutate", 1 + k % 2) for k in range(10)], True, ctx.seed + j, True, True))
            j += 1
            # the same with two distinct float objects of equal value
            jobs.append((algo, 2, [("mutate", 1 + k % 2) for k in range(10)], True, ctx.seed + j, True, "value"))
            j += 1
    with ProcessPoolExecutor(max_workers=12) as ex:
        traces = list(ex.map(_run, jobs))
    for t, jb in zip(traces, jobs):
        ctx.case(str(jb), nontrivial=True)
    ctx.sample({"cfg": traces[0]["cfg"], "events": traces[0]["ev"][:2]})
    ctx.extra["mutations_validated"] = sum(len(t["ev"]) for t in traces)
    # exact traces live on a dyadic grid (factors, bounds and values are k / 2^m): a recorded value off that grid cannot be the
    # product of the agent's own value with a configured factor; it is reported here (TLC's 32-bit rationals would overflow on it)
    def _off_grid(x):
        return isinstance(x, list) and len(x) == 2 and all(isinstance(v, int) for v in x) and (x[1] > 2 ** 20 or abs(x[0]) > 2 ** 26)
    ongrid = []
    for t in traces:
        bad = None
        if t["cfg"].get("exact"):
            for k, e in enumerate(t["ev"]):
                vals = [v for row in e.get("after", []) for v in row] + [v for ag in e.get("lrs", []) for grp in ag for v in grp]
                if any(_off_grid(v) for v in vals):
                    bad = (k, e)
                    break
        if bad is None:
            ongrid.append(t)
            continue
        k, e = bad
        mode = "eqval" if t["cfg"].get("eq_lr") == "value" else "eqlr" if t["cfg"].get("eq_lr") else ("shared" if t["cfg"]["shared"] else "own")
        ctx.violation(f"hp:{t['cfg']['algo']}:{mode}:{e.get('op', '?')}:new value = own current value x shrink or grow factor, clipped to [min, max], cast to the configured type:off-grid",
                      f"{t['cfg']['algo']}: event {k + 1} {e.get('op')} produced a value that is no product of dyadic values and factors (exact mode): after={e.get('after')}; configured hps={t['cfg']['hps']}",
                      {"kind": "off-grid", "trace": {"cfg": t["cfg"], "ev": t["ev"][:k + 1]}})
        if k > 0:
            ongrid.append({"cfg": t["cfg"], "ev": t["ev"][:k]})
    ctx.validate("EvoHP_Trace", TRACE_CFG, ongrid, sig=sig, what=what, chunk=200)
    ctx.assume("exact traces use dyadic shrink/grow factors, bounds and values so that float products are exact; Fraction(float) is exact")
    ctx.assume("the direction (shrink/grow) and the hyperparameter are drawn by the real code and observed; either direction is accepted")
    return "model_checking", "case = (algorithm, population size, sequence of per-agent / population mutations and copies, exact or default factors, shared or own configuration object)", False
