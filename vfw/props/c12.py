"""C12 -- the vectorised multi-agent environment equals N independent environments.

M1  VecData.tla (N independent scripted environments with per-environment auto-reset: OnlyDoneEnvResets,
    ObsIsCurrent, ResetRestoresAgents) and VecEnv.tla (schedule part: StepEquivalence, SlotIsolation under
    every interleaving of worker progress).
M2/M3  scripted environments (episode lengths differing per sub-environment, termination-only /
    truncation-only / mixed endings, agents leaving early, vector/image/dict/tuple observations, several
    dtypes, discrete and continuous actions, copy / no-copy) are run (a) on their own ("ref": validates the
    script against the specification's environment model), (b) inside the real AsyncPettingZooVecEnv,
    (c) inside PettingZooAutoResetParallelWrapper; every returned value is validated position by position by
    TLC against VecData_Trace.
"""
from __future__ import annotations

import itertools
import json
import random
from concurrent.futures import ProcessPoolExecutor

TRACE_CFG = """SPECIFICATION TSpec
CONSTANTS
  Params = {}
  MaxSteps = 0
  Acts = {0}
  Diag = @DIAG@
INVARIANT ObsIsCurrent
INVARIANT ResetRestoresAgents
PROPERTY OnlyDoneEnvResets
CHECK_DEADLOCK FALSE
"""


def _run(args):
    from ..drive import vecenv
    cfg, ops, seed = args
    return vecenv.run_data(cfg, ops, seed)


def sig(t, v):
    c = t["cfg"]
    cl = (v.clauses[0] if v.clauses else v.invariant).split(" (")[0][:60]
    return f"vecdata:{c['mode']}:{(v.event or {}).get('op', '?') if isinstance(v.event, dict) else '?'}:{cl}"


def what(t, v):
    return f"{t['cfg']['mode']} trace rejected at event {v.step}: {v.clauses or v.invariant}; cfg={json.dumps(t['cfg'])}; event={str(v.event)[:500]}"


def run(ctx):
    quick = ctx.quick
    rng = random.Random(ctx.seed)
    ctx.mc("VecData_MC", "VecData_MC.cfg" if quick else "VecData_MCt.cfg", must_cover=["Reset", "StepAny|Step"])
    ctx.mc("VecEnv_MC", "VecEnv_c12.cfg", deadlock=True, must_cover=["Exec", "FinishWait"])

    jobs = []
    kinds = ["vector", "image", "dict", "tuple"]
    dtypes = ["float32", "float64", "int32", "uint16"]

    def add(cfg, nsteps, modes):
        for mode in modes:
            c = dict(cfg, mode=mode)
            if mode != "vec":
                c = dict(c, NW=1, L=cfg["L"][:1], leave=cfg["leave"][:1], endk=cfg["endk"][:1])
            nw = c["NW"]
            ops = [("reset",)] if (mode != "vec" or rng.random() < 0.8) else []
            for s in range(nsteps):
                ops.append(("step", [[rng.randrange(4) for _ in range(c["A"])] for _ in range(nw)]))
                if rng.random() < 0.1:
                    ops.append(("reset",))
            jobs.append((c, ops, (0 if len(jobs) % 2 else ctx.seed + len(jobs))))      # seed 0 is a seed like any other

    # systematic small grid: all endings x leave patterns x episode lengths
    k = 0
    for endk in ("term", "trunc", "mixed"):
        for L in ((1, 2), (2, 3), (3, 1)):
            for leave in ([[0, 0], [0, 0]], [[1, 0], [0, 0]], [[0, 0], [0, 1]], [[1, 1], [0, 2]]):
                cfg = {"NW": 2, "A": 2, "L": list(L), "leave": leave, "endk": [endk, ("term", "trunc", "mixed")[k % 3]],
                       "kind": kinds[k % 4], "dtype": dtypes[(k // 4) % 4], "copy": bool(k % 2), "continuous": bool((k // 2) % 2)}
                add(cfg, 7, ("ref", "wrapper", "vec") if (not quick or k % 2 == 0) else ("vec",))
                k += 1
    for j in range(12 if quick else 150):
        NW = rng.randint(1, 4)
        A = rng.randint(1, 3)
        L = [rng.randint(1, 4) for _ in range(NW)]
        leave = [[rng.choice([0, 0, 1, 2]) for _ in range(A)] for _ in range(NW)]
        cfg = {"NW": NW, "A": A, "L": L, "leave": leave, "endk": [rng.choice(["term", "trunc", "mixed"]) for _ in range(NW)],
               "kind": rng.choice(kinds), "dtype": rng.choice(dtypes), "copy": rng.random() < 0.6, "continuous": rng.random() < 0.4}
        add(cfg, rng.randint(4, 12), ("ref", "wrapper", "vec"))
    with ProcessPoolExecutor(max_workers=8) as ex:
        traces = list(ex.map(_run, jobs))
    for t in traces:
        ctx.case(json.dumps([t["cfg"], [e.get("actions") for e in t["ev"]]], sort_keys=True),
                 nontrivial=len(t["ev"]) > 2)
    ctx.sample({"cfg": traces[2]["cfg"], "events": traces[2]["ev"][:3]})
    ctx.extra["traces_by_mode"] = {m: sum(1 for t in traces if t["cfg"]["mode"] == m) for m in ("ref", "wrapper", "vec")}
    ctx.validate("VecData_Trace", TRACE_CFG, traces, sig=sig, what=what, chunk=300)
    ctx.assume("scripted environments stand for arbitrary PettingZoo ParallelEnvs; their script is itself validated against the spec (mode ref)")
    ctx.assume("values returned for agents that are absent from an environment are not compared (placeholders), only that the call returns")
    return "model_checking", ("case = (environment scripts: episode lengths, leave times, ending kinds; observation kind, dtype, copy mode, "
                              "action kind; action sequence; mode ref/wrapper/vec); non-trivial = more than two calls"), False
