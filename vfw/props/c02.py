"""C02 -- after any mutation an agent is coherent: optimizers, targets and critics follow.

M1  Evo_MC(q).cfg / Evo_MCac(q).cfg: MutateOK for every kind in every reachable state implies AllCoherent, Frame, ...
M4/M3  mutation scripts on REAL agents of every algorithm: each kind (none, architecture, parameters,
    activation, RL hyperparameter) pre-training and in-training, single-agent calls and whole-population calls
    of the real Mutations.mutation(), several generations of (clone-as-selection, mutate, learn); after each
    step every agent is projected (optimizer parameter identity, every param-group lr, target vs. online
    architecture and weights, mut label, can-act) and TLC validates against Evo_Trace; the learn step after
    a mutation must move every trained network (a stale optimizer shows up as an unchanged fingerprint).
"""
from __future__ import annotations

import random

from .. import zoo
from . import evo_common as ec
from .c01 import combos

MUT = ["none", "arch", "param", "act", "hp"]


def scripts(rng, n_random, depth):
    out = []
    for k in MUT:
        # pre-training mutation, then learn; in-training mutation, then learn twice
        out.append([("create", 1, 3), ("mutate", 1, k), ("learn", 1, 1), ("learn", 1, 2), ("mutate", 1, k), ("learn", 1, 3), ("learn", 1, 4)])
        # population-level call: size and order kept, everybody coherent, then everybody learns
        out.append([("create", 1, 3), ("clone", 1, 2, 1), ("clone", 1, 3, 2), ("learn", 2, 1), ("mutpop", k), ("learn", 1, 2), ("learn", 2, 2), ("learn", 3, 2),
                    ("mutpop", MUT[(MUT.index(k) + 1) % 5]), ("learn", 3, 3)])
    # generations: select (clone best, discard rest), mutate, learn
    for j in range(n_random):
        ops = [("create", 1, 20 + j), ("clone", 1, 2, 1), ("clone", 1, 3, 2)]
        nextidx = 3
        for g in range(depth):
            for s in (1, 2, 3):
                ops.append(("learn", s, rng.randint(1, 5)))
            best = rng.choice([1, 2, 3])
            others = [s for s in (1, 2, 3) if s != best]
            for s in others:
                ops.append(("discard", s))
                ops.append(("clone", best, s, nextidx))
                nextidx += 1
            for s in (1, 2, 3):
                ops.append(("mutate", s, rng.choice(MUT)))
        ops += [("learn", 1, 6), ("learn", 2, 6), ("learn", 3, 6)]
        out.append(ops)
    return out


def run(ctx):
    rng = random.Random(ctx.seed)
    quick = ctx.quick
    ctx.mc("Evo_MC", "Evo_MCq.cfg" if quick else "Evo_MC.cfg", must_cover=["MCMutate", "MCLearn", "MCClone"])
    ctx.mc("Evo_MC", "Evo_MCacq.cfg" if quick else "Evo_MCac.cfg", must_cover=["MCMutate", "MCLearn", "MCClone"])
    scr = scripts(rng, 1 if quick else 6, 2 if quick else 3)
    jobs = []
    for (algo, fam) in combos(quick):
        use = scr if (not quick or fam == "vector") else scr[:4]
        for i, ops in enumerate(use):
            jobs.append((algo, fam, ops, 4, ctx.seed + 100 + i, False))
    # networks at the layer maximum (add_layer / remove_layer fall back to node mutations): chains of architecture mutations on
    # every algorithm that trains critics alongside the policy
    deep = [[("create", 1, 50 + j)] + [op for n in range(1, 9) for op in (("mutate", 1, "archl" if n % 3 else "arch"), ("learn", 1, n))] for j in range(1 if quick else 4)]
    for algo in ("DDPG", "TD3", "PPO", "MADDPG", "MATD3", "IPPO"):
        for j, ops in enumerate(deep):
            jobs.append((algo, "deep", ops, 4, ctx.seed + 300 + j, False))
    # pre-training mutation: learning rates mutated before the optimizer ever stepped, then selection clones the agent and the
    # clone learns without a mutation that would rebuild its optimizer
    pre = [("create", 1, 70), ("mutate", 1, "hp"), ("clone", 1, 2, 1), ("mutate", 2, "none"), ("learn", 2, 1), ("learn", 1, 2),
           ("mutate", 2, "hp"), ("clone", 2, 3, 2), ("learn", 3, 3), ("mutate", 3, "param"), ("learn", 3, 4)]
    for algo in zoo.ALGOS:
        jobs.append((algo, "vector", pre, 4, ctx.seed + 400, "lr"))
    # the initial population, built from ONE hyperparameter configuration object: a learning-rate mutation of one member followed
    # by mutations of the others that rebuild their optimizers (each must keep using its OWN learning rate)
    shared = [("create", 1, 90), ("create", 2, 91), ("create", 3, 92), ("mutate", 1, "hp"), ("mutate", 2, "param"), ("learn", 2, 1),
              ("mutate", 3, "arch"), ("learn", 3, 2), ("mutate", 2, "hp"), ("mutate", 1, "arch"), ("learn", 1, 3), ("mutate", 3, "param"), ("learn", 3, 4)]
    for algo in zoo.ALGOS:
        jobs.append((algo, "vector", shared, 4, ctx.seed + 600, "lr-shared"))
    # Mutations(mutate_elite=False): the first member of the population draws no mutation; after learn steps (targets lag behind) it
    # still leaves the mutation round with its targets re-synchronised, like every other member
    # (the clones get indices that are NOT in list order: position in the population and index are unrelated)
    noel = [("create", 1, 80), ("clone", 1, 2, 7), ("clone", 1, 3, 3), ("learn", 1, 1), ("learn", 2, 2), ("learn", 3, 3), ("learn", 1, 4),
            ("mutpop", "param", "noelite"), ("learn", 1, 5), ("learn", 2, 5), ("mutpop", "arch", "noelite"), ("learn", 1, 6), ("learn", 3, 6),
            ("mutpop", "hp", "noelite"), ("learn", 1, 7)]
    for algo in zoo.ALGOS:
        jobs.append((algo, "vector", noel, 4, ctx.seed + 500, False))
    traces = ec.run_scripts(jobs)
    for t, j in zip(traces, jobs):
        ctx.case((j[0], j[1], str(j[2])), nontrivial=any(o[0] in ("mutate", "mutpop") and o[-1] != "none" for o in j[2]))
    ctx.sample({"algo": traces[1]["cfg"]["algo"], "shape": traces[1]["cfg"]["shape"],
                "events": [{k: v for k, v in e.items() if k not in ("cells",)} for e in traces[1]["ev"][:3]]})
    kinds = {}
    for t in traces:
        for e in t["ev"]:
            if e["op"] == "mutate":
                kinds[e["k"]] = kinds.get(e["k"], 0) + 1
    ctx.extra["mutations_by_kind"] = kinds
    ctx.extra["combos"] = sorted({f"{j[0]}/{j[1]}" for j in jobs})
    ec.validate(ctx, traces, ec.default_sig("evo"), ec.default_what)
    ctx.assume("the mutation kind is forced through a one-hot probability vector of the real Mutations object; method / arguments / direction are drawn by the real code and observed")
    ctx.assume("delayed-policy learners (TD3, MATD3) run with policy_freq=1 here so that 'a learn step moves all trained networks' is a per-step statement (policy delay is C08)")
    return "model_checking", ("case = (algorithm, observation family, mutation script); non-trivial = applies a mutation kind other than none"), False
