"""C05 -- tournament selection keeps the fittest and builds a well-formed generation.

M1  EvoSelect_MC*.cfg: every population (size <= 2..3, histories of length <= 2, ties, negative scores,
    unequal lengths), every evaluation window, tournament size, elitism flag, every draw and every permitted
    winner: SizeOK, DistinctIdx, EliteKept, EliteIsBest
M3  the real TournamentSelection.select on populations of real agents (DQN, DDPG, PPO, NeuralUCB, MADDPG) over
    several generations, np.random.randint logged (not altered); parents identified by weight fingerprints;
    faithfulness of the copies, the old population and storage sharing projected as for C01; TLC validates
    each generation against EvoSelect_Trace.
Round 4 (coverage audit): M1 also over repeated selection with re-evaluation and reversal in between from populations with
    sparse, unordered indices (EvoSelect_MCg*.cfg, SpecU); M3 also with fractional (dyadic), large-offset and numpy-typed
    scores, heterogeneous members (learning rate, batch size, hidden sizes, steps, scores, mut), through the training loops'
    helper utils.tournament_selection_and_mutation (identity mutation stub, with and without save_elite), fixed boundary
    configurations (one agent, new size 1 with elitism = no tournament, tournament larger than the population, window longer
    than every history, window 1 on long histories, growing / shrinking generation) and a long run.
"""
from __future__ import annotations

import random
from concurrent.futures import ProcessPoolExecutor

TRACE_CFG = """SPECIFICATION TSpec
CONSTANTS
  MaxPop = 1
  MaxN = 1
  Scores = {0}
  MaxHist = 1
  MaxGen = 1000000
  Ks = {1}
  Ws = {1}
  Diag = @DIAG@
CHECK_DEADLOCK FALSE
"""


def _run(args):
    from ..drive import select
    return select.run(*args)


def sig(t, v):
    return f"select:{t['cfg']['algo']}:{(v.clauses[0] if v.clauses else v.invariant)}"


def what(t, v):
    return f"tournament selection trace rejected at generation {v.step}: {v.clauses or v.invariant}; cfg={t['cfg']}; event={str(v.event)[:900]}"


def run(ctx):
    quick = ctx.quick
    rng = random.Random(ctx.seed)
    jobs = []

    def opts_for(j):
        """rotating input variations (the plain one stays in the rotation)"""
        return [None,
                {"fscale": 4, "ftype": "mixed"},
                {"hetero": True, "via": "utils", "save_elite": j % 8 == 2},
                {"fscale": 4, "foffset": 16001, "ftype": ("np64", "np32", "int")[j % 3], "hetero": True},
                # returns of magnitude 2e7 that differ by 1: exact in float64 / int, below the float32 spacing (seed C05-g)
                {"fscale": 1, "foffset": 20000001, "ftype": ("float", "np64", "int")[j % 3]}][(j + j // 2) % 5]
    algos = ["DQN", "DDPG", "NeuralUCB"] if quick else ["DQN", "DDPG", "PPO", "NeuralUCB", "MADDPG", "RainbowDQN", "TD3", "IPPO"]
    # systematic: ties, negatives, unequal lengths
    hists = [[[1], [1], [1]], [[-1, 2], [2, -1], [0]], [[3], [1, 1, 4], [2, 2]], [[0, 0, 5], [5], [-3, 4, 1]]]
    j = 0
    for algo in algos:
        for h in hists:
            for (k, n, el, W) in ([(2, 3, True, 1), (1, 2, False, 2), (3, 4, True, 3)] if not quick else [(2, 3, bool(j % 2), 1 + j % 3)]):
                jobs.append((algo, 3, k, n, el, W, h, 3, ctx.seed + j, opts_for(j + ctx.seed)))
                j += 1
    # boundary configurations (fixed, all tiers): one agent; new size 1 with elitism (no tournament at all); tournament larger
    # than the population; window longer than every history; window 1 on long histories; growing / shrinking generation
    long_h = [[2, 2, 2, -9], [-9, -9, -9, 3], [1, 1, 1, 1]]
    for (n_pop, k, n, el, W, h) in [(1, 2, 2, True, 2, [[-1]]), (3, 2, 1, True, 2, [[0, 4], [3], [1, 1]]), (2, 5, 3, False, 1, [[1], [0, 2]]),
                                    (3, 2, 4, True, 6, [[1, 1, -4], [0], [2, -1]]), (3, 3, 2, False, 1, long_h), (3, 2, 5, True, 3, long_h)]:
        jobs.append((algos[j % len(algos)], n_pop, k, n, el, W, h, 2, ctx.seed + j, opts_for(j + ctx.seed)))
        j += 1
    if not quick:          # many generations: indices keep growing, histories outgrow the window
        for algo, o in (("DQN", None), ("DDPG", {"fscale": 4, "ftype": "mixed", "via": "utils"})):
            jobs.append((algo, 4, 2, 4, True, 3, [[0], [1], [1], [-1]], 12, ctx.seed + j, o))
            j += 1
    for _ in range(6 if quick else 60):
        n_pop = rng.randint(1, 5)
        h = [[rng.randint(-2, 3) for _ in range(rng.randint(1, 4))] for _ in range(n_pop)]
        jobs.append((rng.choice(algos), n_pop, rng.randint(1, 4), rng.randint(1, 6), rng.random() < 0.6, rng.randint(1, 4), h, rng.randint(2, 5), ctx.seed + j,
                     opts_for(rng.randint(0, 9))))
        j += 1
    with ProcessPoolExecutor(max_workers=12) as ex:
        pending = ex.map(_run, jobs)           # the real-code runs start now; TLC model-checks the specification meanwhile
        ctx.mc("EvoSelect_MC", "EvoSelect_MCqq.cfg" if quick else "EvoSelect_MCq.cfg", must_cover=["MCSelect|Select"])
        r = ctx.mc("EvoSelect_MC", "EvoSelect_MCgq.cfg" if quick else "EvoSelect_MCg.cfg", must_cover=["MCSelect|Select"])
        if r.ok and r.depth < 6:
            raise RuntimeError(f"EvoSelect_MCg: second generation never reached (depth {r.depth})")
        traces = list(pending)
    for t, jb in zip(traces, jobs):
        ctx.case(str(jb), nontrivial=len(t["ev"]) >= 2)
    ctx.sample({"cfg": traces[0]["cfg"], "events": traces[0]["ev"][:2]})
    ctx.extra["generations_validated"] = sum(len(t["ev"]) for t in traces)
    ctx.validate("EvoSelect_Trace", TRACE_CFG, traces, sig=sig, what=what, chunk=200)
    ctx.extra["input_variations"] = sorted({str(jb[9]) for jb in jobs})
    ctx.assume("fitness scores are dyadic rationals (multiples of 1 or 1/4 with |x| < 4100, or integers near 2e7) so that np.mean comparisons agree with "
               "exact rational comparison; empty fitness histories are outside the quantifier")
    ctx.assume("the population is a list (the documented PopulationType); accelerator-wrapped agents are outside this check")
    ctx.assume("parents are identified by weight fingerprints (every initial member is trained on a different batch)")
    return "model_checking", ("case = (algorithm, population size, tournament size, new size, elitism, window, fitness histories, generations, seed, input variation); "
                              "non-trivial = at least two generations validated"), False
