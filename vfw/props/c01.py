"""C01 -- a cloned agent is a faithful and fully independent copy of its parent.

M1  Evo_MC.cfg: the relational life-cycle specification with ideal constructors (NoSharing, Frame, AllCoherent,
    DistinctIdx, Functional) over all operation sequences up to the bound
M4/M3  operation scripts (clone at every point of a history made of learn steps, the five mutation kinds,
    earlier clones, checkpoint loads; parent and clone trained afterwards with the same batch; siblings;
    discard) are executed on REAL agents of every algorithm x observation family; after every operation
    all agents are projected (fingerprints of every weight / optimizer state, hp, bookkeeping, greedy
    actions, storage pointers) and TLC validates the execution against Evo_Trace.
"""
from __future__ import annotations

import random

from .. import zoo
from . import evo_common as ec

MUT = ["none", "arch", "param", "act", "hp"]


def scripts(rng, n_random, depth):
    out = []
    # clone right after creation, after learning, after each mutation kind; train both with the same batch
    out.append([("create", 1, 1), ("clone", 1, 2, 5), ("learn", 1, 1), ("learn", 2, 1), ("learn", 2, 2), ("clone", 2, 3, 6), ("learn", 3, 3), ("discard", 2), ("learn", 1, 4)])
    for k in MUT:
        out.append([("create", 1, 2), ("learn", 1, 1), ("mutate", 1, k), ("clone", 1, 2, 4), ("learn", 1, 2), ("learn", 2, 2),
                    ("mutate", 2, MUT[(MUT.index(k) + 2) % 5]), ("learn", 2, 3), ("clone", 1, 3, 9), ("learn", 3, 3), ("book", 3), ("discard", 1)])
    for j in range(n_random):
        ops = [("create", 1, 10 + j)]
        live = [1]
        nextidx = 10
        for _ in range(depth):
            x = rng.random()
            a = rng.choice(live)
            free = [s for s in (1, 2, 3, 4) if s not in live]
            if x < 0.3 and free:
                c = free[0]
                ops.append(("clone", a, c, nextidx))
                nextidx += 1
                live.append(c)
                b = rng.randint(1, 6)
                ops += [("learn", a, b), ("learn", c, b)]
            elif x < 0.55:
                ops.append(("learn", a, rng.randint(1, 6)))
            elif x < 0.8:
                ops.append(("mutate", a, rng.choice(MUT)))
            elif x < 0.9:
                ops.append(("book", a))
            elif len(live) > 1:
                ops.append(("discard", a))
                live.remove(a)
        out.append(ops)
    return out


def combos(quick):
    cs = []
    for algo in zoo.ALGOS:
        fams = ["vector"] if quick else ["vector", "image", "dict", "discrete"]
        if quick and algo in ("DQN", "PPO", "MADDPG"):
            fams = ["vector", "image", "dict", "discrete"]
        for f in fams:
            if algo in ("NeuralUCB", "NeuralTS") and f in ("dict", "discrete"):
                continue          # bandit learn() takes raw contexts: only flat / image contexts are supported
            if algo == "IPPO" and f == "dict":
                continue
            cs.append((algo, f))
    return cs


def run(ctx):
    rng = random.Random(ctx.seed)
    quick = ctx.quick
    ctx.mc("Evo_MC", "Evo_MCq.cfg" if quick else "Evo_MC.cfg", must_cover=["MCCreate", "MCClone", "MCLearn", "MCMutate", "MCSave", "MCLoadNew", "MCLoadInto", "MCDiscard"])
    scr = scripts(rng, 2 if quick else 12, 8 if quick else 14)
    jobs = []
    for (algo, fam) in combos(quick):
        use = scr if (not quick or fam == "vector") else scr[:3]
        for i, ops in enumerate(use):
            jobs.append((algo, fam, ops, 4, ctx.seed + i, False))
    # agent wrapper (RSNorm) around single- and multi-agent algorithms, vector and dict observations
    wops = [("create", 1, 3), ("act", 1), ("learn", 1, 1), ("clone", 1, 2, 5), ("act", 1), ("learn", 1, 2), ("learn", 2, 2), ("act", 2),
            ("clone", 2, 3, 6), ("act", 3), ("learn", 3, 3), ("discard", 2), ("act", 1)]
    # (RSNorm with norm_obs_keys and around multi-agent algorithms raises in this version; Dict-of-Box and plain spaces work)
    for (algo, fam) in ([("DQN", "boxdict"), ("DDPG", "vector")] if quick else [("DQN", "boxdict"), ("DQN", "vector"), ("DDPG", "boxdict"), ("RainbowDQN", "vector"), ("TD3", "image")]):
        jobs.append((algo, fam, wops, 4, ctx.seed + 50, False, True))
    traces = ec.run_scripts(jobs)
    for t, j in zip(traces, jobs):
        ctx.case((j[0], j[1], str(j[2])), nontrivial=any(o[0] == "clone" for o in j[2]))
    ctx.sample({"algo": traces[0]["cfg"]["algo"], "shape": traces[0]["cfg"]["shape"],
                "events": [{k: v for k, v in e.items() if k not in ("cells",)} for e in traces[0]["ev"][:3]]})
    ctx.extra["combos"] = sorted({f"{j[0]}/{j[1]}" for j in jobs})
    ec.validate(ctx, traces, ec.default_sig("evo"), ec.default_what)
    # ---- tournament rounds: every agent handed out by TournamentSelection.select (elite and members) is a clone; the same
    # projection, validated against EvoSelect_Trace; only the clone clauses are C01's (the ranking clauses are C05's)
    from . import c05
    C01_CLAUSES = ("members are faithful copies of their parents", "the elite is a faithful copy", "the old population is left untouched",
                   "no storage shared between old and new agents")
    sjobs = []
    hists = [[[1], [1], [1]], [[-1, 2], [2, -1], [0]], [[3], [1, 1, 4], [2, 2]]]
    for j, algo in enumerate(["DQN", "DDPG", "NeuralUCB"] if quick else ["DQN", "DDPG", "PPO", "NeuralUCB", "MADDPG", "RainbowDQN", "TD3", "IPPO"]):
        for i, h in enumerate(hists):
            sjobs.append((algo, 3, 2, 3, (i + j) % 3 != 2, 1 + i, h, 3, ctx.seed + 700 + 3 * j + i))
    from concurrent.futures import ProcessPoolExecutor
    with ProcessPoolExecutor(max_workers=8) as ex:
        straces = list(ex.map(c05._run, sjobs))
    for jb in sjobs:
        ctx.case(("select", str(jb)))
    from .. import trace as trace_mod
    verdicts = trace_mod.validate("EvoSelect_Trace", c05.TRACE_CFG, straces)
    ctx.traces_validated += len(straces)
    ctx.evaluations += len(straces)
    for t, v in zip(straces, verdicts):
        cl = (v.clauses[0] if v.clauses else v.invariant) if not v.accepted else ""
        if not v.accepted and cl in C01_CLAUSES:
            ctx.violation(f"evo:{t['cfg']['algo']}:select:{cl}",
                          f"tournament round (generation {v.step}) of real {t['cfg']['algo']} agents: {cl}; cfg={t['cfg']}; event={str(v.event)[:700]}",
                          {"kind": "rejected-trace", "module": "EvoSelect_Trace", "cfg_text": c05.TRACE_CFG, "trace": t, "step": v.step, "clauses": v.clauses})
    ctx.assume("equal SHA-256 of tensors <=> equal content; learn steps are made deterministic by seeding all RNGs from the batch id")
    ctx.assume("storage sharing is detected through data_ptr() of parameters / buffers / optimizer state and id() of score, fitness, steps lists and hp configuration objects")
    ctx.assume("PPO/DDPG/TD3 are constructed with share_encoders=False (share_encoders=True cannot be constructed under Python 3.12, DESIGN 6-P)")
    return "model_checking", ("case = (algorithm, observation family, operation script); non-trivial = contains a clone; scripts: fixed "
                              "clone-after-each-mutation-kind scripts + seeded random ones"), False
