"""C07 -- a saved checkpoint restores an equivalent agent.

M1  Evo_MC(q).cfg: Save / LoadNew / LoadInto with RestoreOK; Functional (same state + same batch => same update)
M4/M3  scripts `history (learn, mutations so that architectures differ from the constructor defaults), save,
    more history on the original, load into a new agent / into an existing one, learn both with the same
    batches, act` on REAL agents of every algorithm; TLC validates RestoreOK field by field (hp, mutated
    architectures, weights of every evaluation AND target network, optimizer state, bookkeeping, greedy
    actions) and that original-at-save-time and restored agent continue to the same weights (learn memo).
"""
from __future__ import annotations

import random

from . import evo_common as ec
from .c01 import combos

MUT = ["arch", "param", "act", "hp", "none"]


def scripts(rng, n_random):
    out = []
    # plain round trip into a new agent, continue both
    out.append([("create", 1, 4), ("learn", 1, 1), ("learn", 1, 2), ("book", 1), ("save", 1, 1), ("loadnew", 1, 2), ("learn", 1, 3), ("learn", 2, 3), ("learn", 1, 4), ("learn", 2, 4)])
    for k in MUT[:4]:
        # mutated architecture / hp before the save; original moves on after the save; load into existing and new
        out.append([("create", 1, 5), ("learn", 1, 1), ("mutate", 1, k), ("learn", 1, 2), ("learn", 1, 3), ("save", 1, 1), ("clone", 1, 2, 7),
                    ("learn", 1, 4), ("mutate", 1, MUT[(MUT.index(k) + 1) % 4]), ("learn", 1, 5),
                    ("loadinto", 1, 1), ("learn", 1, 6), ("learn", 2, 6), ("discard", 2), ("loadnew", 1, 3)])
    # the population helper of the training loops, with and without overwriting: a second save at the same step count (more
    # gradient steps, no new environment steps) must be what a later load restores
    for ow in (False, True):
        out.append([("create", 1, 6), ("learn", 1, 1), ("savepop", 1, 1, ow), ("learn", 1, 2), ("mutate", 1, "param"), ("learn", 1, 3),
                    ("savepop", 1, 1, ow), ("loadnew", 1, 2), ("learn", 1, 4), ("learn", 2, 4), ("book", 1), ("savepop", 1, 2, ow),
                    ("loadinto", 2, 2), ("learn", 1, 5), ("learn", 2, 5)])
    for j in range(n_random):
        ops = [("create", 1, 40 + j)]
        for _ in range(rng.randint(2, 5)):
            ops.append(rng.choice([("learn", 1, rng.randint(1, 4)), ("mutate", 1, rng.choice(MUT)), ("book", 1)]))
        ops += [("learn", 1, 5), ("save", 1, 1), ("learn", 1, 6), ("loadnew", 1, 2), ("learn", 2, 6), ("save", 2, 2), ("loadinto", 2, 1),
                ("learn", 1, 2), ("learn", 2, 2)]
        out.append(ops)
    return out


def run(ctx):
    rng = random.Random(ctx.seed)
    quick = ctx.quick
    ctx.mc("Evo_MC", "Evo_MCq.cfg" if quick else "Evo_MC.cfg", must_cover=["MCSave", "MCLoadNew", "MCLoadInto", "MCLearn"])
    scr = scripts(rng, 2 if quick else 10)
    jobs = []
    for (algo, fam) in combos(quick):
        use = scr if (not quick or fam == "vector") else scr[:3]
        for i, ops in enumerate(use):
            jobs.append((algo, fam, ops, 4, ctx.seed + 200 + i, False))
    # agent wrapper (RSNorm): running statistics must survive clone and both load paths
    wscr = [[("create", 1, 7), ("act", 1), ("learn", 1, 1), ("act", 1), ("save", 1, 1), ("clone", 1, 2, 5), ("act", 1), ("learn", 1, 2),
             ("loadnew", 1, 3), ("loadinto", 1, 1), ("learn", 1, 3), ("learn", 2, 3), ("learn", 3, 3)]]
    wscr.append([("create", 1, 8), ("act", 1), ("learn", 1, 1), ("save", 1, 1), ("act", 1), ("loadinto", 1, 1), ("act", 1), ("act", 1), ("learn", 1, 2),
                 ("save", 1, 2), ("loadnew", 2, 2), ("act", 1), ("loadinto", 2, 1), ("learn", 1, 3), ("learn", 2, 3)])
    # (RSNorm documents that it supports off-policy algorithms only)
    for algo in (["DQN", "DDPG"] if quick else ["DQN", "DDPG", "RainbowDQN", "TD3", "CQN"]):
        for i, ops in enumerate(wscr):
            jobs.append((algo, "vector", ops, 4, ctx.seed + 300 + i, False, True))
    traces = ec.run_scripts(jobs)
    for t, j in zip(traces, jobs):
        ctx.case((j[0], j[1], str(j[2])), nontrivial=True)
    ctx.sample({"algo": traces[0]["cfg"]["algo"], "ops": jobs[0][2],
                "events": [{k: v for k, v in e.items() if k not in ("cells",)} for e in traces[0]["ev"][4:7]]})
    ctx.extra["combos"] = sorted({f"{j[0]}/{j[1]}" for j in jobs})
    ec.validate(ctx, traces, ec.default_sig("ckpt"), ec.default_what)
    # ---- delayed-policy learners (DDPG / TD3 / MATD3 with policy_freq 2, 3): "training bookkeeping" includes the phase of the
    # policy delay; the restored agent must take its next actor / target update when the original would.  The Evo scripts above
    # run these learners with policy_freq 1 (there "a learn step moves every trained network" is a per-step statement), so this
    # is decided on the life-cycle specification Track.tla of C08 with save / load placed at every phase (seed C07-i).
    from . import c08
    from ..drive import bellman as bm
    by_pf = {2: [], 3: []}
    k = 0
    for variant, pf in [("DDPG", 2), ("TD3", 2), ("TD3", 3), ("MATD3", 2)] + ([] if quick else [("DDPG", 3), ("MATD3", 3)]):
        for phase in range(pf):
            pre = [("learn", 1, 10 + i) for i in range(1 + phase)]                 # counter = 1 + phase at the save
            ops = ([("create", 1)] + pre + [("save", 1, 1), ("learn", 1, 30), ("loadnew", 1, 2)] + [("learn", 2, 40 + i) for i in range(pf + 1)]
                   + [("learn", 1, 50), ("save", 2, 2), ("loadinto", 2, 1)] + [("learn", 1, 60 + i) for i in range(pf + 1)]
                   + [("learn", 2, 70)])
            by_pf[pf].append(bm.run_track(variant, "vector", ops, pf=pf, tau=[0.25, 0.5][(k + ctx.seed) % 2], seed=ctx.seed * 17 + 500 + k))
            ctx.case(("ckpt-delay-phase", variant, pf, phase))
            k += 1
        for r in range(1 if quick else 4):
            ops = bm.script(random.Random(ctx.seed * 1013 + k), pf, length=13 if quick else 22)
            by_pf[pf].append(bm.run_track(variant, "vector", ops, pf=pf, tau=0.25, seed=ctx.seed * 17 + 500 + k))
            ctx.case(("ckpt-delay-script", variant, pf, r))
            k += 1
    n_after_load = 0
    for pf, ts in by_pf.items():
        n_after_load += sum(1 for t in ts for e in t["ev"] if e["op"] == "learn" and str(e.get("after", "")).startswith("load"))
        ctx.validate("Track_Trace", c08.track_cfg(pf), ts, sig=lambda t, v: "ckpt:" + c08.track_sig(t, v), what=c08.track_what, chunk=100)
    ctx.extra["delay_phase_traces"] = sum(len(ts) for ts in by_pf.values())
    ctx.extra["learn_steps_directly_after_a_load"] = n_after_load
    if n_after_load == 0:
        from ..core import Vacuous
        raise Vacuous("delay-phase stage: no learn step directly after a load")
    ctx.assume("crash points: a save is one torch.save call; what a resume can observe is a file written by an earlier save while the agent moved on, which the scripts exercise")
    return "model_checking", ("case = (algorithm, observation family, script with save / load-new / load-into at varying points of a history of learn steps and mutations)"), False
