"""C18 -- Rainbow DQN's distributional target conserves probability mass and expected value; the per-sample
loss returned as priority is the cross-entropy against the online distribution of the action taken.

M1  C51_MC(.cfg|t.cfg): exact-arithmetic transcription of the projection in RainbowDQN._dqn_loss (floor/ceil,
    equal-index fix-up, flattened batch offsets, two index_add_ passes, one action per element), checked on the
    whole input grid: N in 2..5 atoms, integer vmin (<0, 0, >0), every reward k/4 from one unit below to one unit
    above the support, done in {0,1}, gamma^n in {0,1/4,1/2,1}, every weight vector on the grid (total mass also
    != 1), B <= 2 (3) rows.  Invariants MassConserved, MeanConserved, InRange, Neighbours, NonNeg, StepMass.
M2  C51_Dump(q).cfg: TLC prints every case with the projection the specification demands; each case is replayed
    into the REAL _dqn_loss of a real RainbowDQN (network forwards stubbed = inputs), proj_dist from the guarded
    hook compared exactly, the returned element-wise loss with -sum m ln q (harness, float64).  The support is
    also scaled (delta_z in {1/2, 1, 2}): the spec's unit is delta_z.
M3  real learn() -- 1-step, n-step, combined, with and without PER, B up to 32, N up to 51, gamma^n with n in 1..3
    -- recorded (hook + return values) and validated by TLC against C51_Trace (which batch, which discount
    exponent, source = target net at the online-greedy action, projection, priorities).
M3' unstubbed networks (clamped softmax, mass != 1): float run, conservation up to float32 rounding.
"""
from __future__ import annotations

import random

from .. import tlc

Q_T, PDEN_T = 8, 16          # grid of the learn() traces: rewards / discounts in 1/8, weights in 1/16

TRACE_CFG = f"""SPECIFICATION TSpec
CONSTANTS
  Shapes = {{}}
  Gs = {{}}
  Q = {Q_T}
  PDen = {PDEN_T}
  Diag = @DIAG@
INVARIANT MassConserved
INVARIANT MeanConserved
INVARIANT InRangeOnce
CHECK_DEADLOCK FALSE
"""


def _variant(c):
    return ("nstep" if c["nstep"] else "1step") + ("+combined" if c["combined"] else "") + ("+per" if c["per"] else "")


def sig(t, v):
    cl = (v.clauses[0] if v.clauses else v.invariant).split(":")[0]
    op = v.event.get("op", "?") if isinstance(v.event, dict) else "?"
    st = v.event.get("set", "") if isinstance(v.event, dict) else ""
    return f"c51:learn:{_variant(t['cfg'])}:{op}{('-' + st) if st else ''}:{cl}"


def what(t, v):
    ev = v.event if isinstance(v.event, dict) else {}
    brief = {k: ev.get(k) for k in ("op", "set", "gq", "exc", "ce_ok", "prio_ok", "prio_seen", "prio_want") if k in ev}
    return (f"RainbowDQN.learn trace rejected at event {v.step}: {v.clauses or v.invariant}; cfg={t['cfg']}; event={brief}")


def run(ctx):
    from ..drive import c51

    quick = ctx.quick
    rng = random.Random(ctx.seed)
    steps = ["Indices", "AddLower", "NextPass", "AddUpper", "Finish"]
    ctx.mc("C51_MC", "C51_MC.cfg" if quick else "C51_MCt.cfg", must_cover=steps, timeout=3000)

    # ---- M2: every dumped case into the real _dqn_loss
    r = tlc.dump("C51_MC", "C51_Dumpq.cfg" if quick else "C51_Dump.cfg", heap="8g")
    cases = r.tagged.get("CASE", [])
    if len(cases) < 1000 or not all(isinstance(c, dict) for c in cases[:50]):
        raise tlc.TLCError(f"dump produced {len(cases)} cases")
    ctx.extra["dump_cases"] = len(cases)
    ctx.extra["dump_states"] = r.distinct
    rp = c51.Replayer(4, 4, ctx.seed)
    off = ctx.seed % 8
    replayed = 0
    sampled = set()
    scales = [1.0, 1.0, 0.5, 2.0]
    for i, c in enumerate(cases):
        if quick and c["B"] > 1 and i % 8 != off:
            continue
        scale = scales[(i + ctx.seed) % 4]
        bad = rp.run(c, scale)
        replayed += 1
        key = (c["N"], c["vmin"], c["B"], c["gq"], str(c["rows"]), scale)
        ident = all(c["m"][k * c["N"] + j] == 4 * row["p"][j] for k, row in enumerate(c["rows"]) for j in range(c["N"]))
        ctx.case(key, nontrivial=not ident)
        if bad:
            ctx.violation(f"c51:dqn_loss:{bad['clause']}:{c51.rclass(c, 4)}",
                          f"RainbowDQN._dqn_loss disagrees with C51.tla ({bad['clause']}): {bad['detail']}; case={c}, delta_z={scale}",
                          {"kind": "spec-case", "module": "C51_MC", **bad})
        if not ident and scale not in sampled and replayed > 2000 * len(sampled):
            sampled.add(scale)
            ctx.sample({"case": c, "delta_z": scale, "agreed": bad is None})
    ctx.extra["cases_replayed"] = replayed

    # ---- M3: real learn() traces
    variants = [(False, False, False), (False, False, True), (True, False, False), (True, False, True),
                (True, True, False), (True, True, True)]
    gam = [(4, 2), (4, 3), (8, 3), (0, 2), (4, 1), (2, 1), (6, 1), (4, 2)]
    shapes = [(2, 0, 1), (3, -1, 2), (5, 1, 4), (11, -5, 8), (4, -3, 3), (21, -20, 16), (51, -10, 32), (7, 2, 5)]
    if not quick:
        shapes += [(51, 0, 64), (2, -1, 7), (101, -50, 16), (13, 3, 33)]
    traces = []
    j = 0
    for rep in range(1 if quick else 4):
        for si, (N, vmin, B) in enumerate(shapes):
            big = N * B > 600
            for vi, (nstep, combined, per) in enumerate(variants):
                if big and quick and (vi + si) % 3 != 0:
                    continue
                gq, n = gam[(j + rep) % len(gam)] if nstep else gam[(j + rep) % len(gam)][:1] + (rng.choice([1, 3]),)
                if nstep and (si + vi + rep) % 2 == 0:
                    gq, n = 4, 2 + (vi % 2)                    # gamma = 1/2, n > 1: the exponent is observable
                scale = [1.0, 0.5, 2.0, 4.0][(j // 3) % 4]
                t = c51.run_learn(N=N, vmin=vmin, B=B, gammaq=gq, n=n, nstep=nstep, combined=combined, per=per, q=Q_T,
                                  pden=PDEN_T, seed=ctx.seed * 100003 + j, scale=scale, learns=(1 if big else 2),
                                  wshape=("col" if j % 2 == 0 else "flat"))
                traces.append(t)
                ctx.case(("learn", N, vmin, B, gq, n, nstep, combined, per, scale, j))
                j += 1
    ctx.sample({"learn_trace_cfg": traces[3]["cfg"],
                "first_event": {k: v for k, v in traces[3]["ev"][0].items() if k in ("op", "set", "gq", "rows", "m", "ce")}})
    ctx.validate("C51_Trace", TRACE_CFG, traces, sig=sig, what=what, chunk=60)

    # ---- M3': the real networks, nothing stubbed
    for k in range(12 if quick else 120):
        N, vmin, B = rng.choice([(2, 0, 3), (5, -2, 8), (11, -5, 16), (51, -10, 32), (51, 0, 8)])
        gamma = rng.choice([0.5, 1.0, 0.99, 0.25, 0.0])
        bad = c51.run_real_networks(N=N, vmin=vmin, B=B, gamma=gamma, seed=ctx.seed * 7919 + k)
        ctx.case(("real-net", N, vmin, B, gamma, k))
        if bad:
            ctx.violation(f"c51:realnet:{bad.split(':')[0]}", f"unstubbed RainbowDQN._dqn_loss (N={N}, vmin={vmin}, B={B}, gamma={gamma}, "
                          f"seed={ctx.seed * 7919 + k}): {bad}", {"kind": "real-net", "N": N, "vmin": vmin, "B": B, "gamma": gamma,
                                                                 "seed": ctx.seed * 7919 + k, "detail": bad})
    ctx.assume("rewards, gamma^n and atoms on the 1/4 (traces: 1/8) grid, source weights on the 1/4 (1/16) grid, delta_z a power of two: "
               "every float32 operation of the projection is exact, so proj_dist is compared with equality")
    ctx.assume("the networks' forward passes are inputs of the property: they are stubbed with tables keyed by observation content "
               "(row, batch, role); the unstubbed run (M3') checks conservation only up to 1e-5 (float32 softmax outputs)")
    ctx.assume("cross-entropy values are transcendental: -sum m ln q is evaluated by the harness in float64 from the float32 log-pmf it "
               "handed out; tolerance 1e-6 + 4(N+2)*2^-24*sum|m ln q| (float32 product-and-sum bound)")
    ctx.assume("the spec's unit is delta_z (non-unit delta_z is replayed by scaling v_min, v_max and rewards); vmin is an integer "
               "multiple of delta_z; the scalar loss (PER-weighted mean) is not part of C18 and is not checked")
    ctx.assume("the rainbow.proj hook (AGILERL_VERIF=1) reports the tensors _dqn_loss actually uses")
    rule = ("case = (atoms N, vmin, batch rows (weights p, reward, done), gamma^n, delta_z) for _dqn_loss replays -- non-trivial = the "
            "projection is not the identity on p; plus (shape, variant 1-step/n-step/combined x PER, gamma, n, delta_z, seed) for learn() "
            "traces and (shape, gamma, seed) for unstubbed runs")
    return "model_checking", rule, False


def replay(path):
    """./check C18 --replay PATH: re-execute one recorded counterexample against the real code."""
    import json

    from .. import trace as trace_mod
    from ..drive import c51

    d = json.load(open(path))
    rp = d["replay"]
    print(f"signature: {d['signature']}")
    if rp.get("kind") == "spec-case":
        bad = c51.Replayer(4, 4, int(d.get("seed", 0))).run(rp["case"], float(rp.get("scale", 1.0)))
        print(f"case: {rp['case']}  delta_z={rp.get('scale', 1.0)}")
        print("specified projection (units 1/16):", rp["case"]["m"])
        if bad:
            print("observed:", bad.get("observed"))
            print(f"DISAGREES ({bad['clause']}): {bad['detail']}")
            return 1
        print("the real _dqn_loss agrees with the specification on this case")
        return 0
    if rp.get("kind") == "rejected-trace":
        c = rp["trace"]["cfg"]
        t = c51.run_learn(N=c["N"], vmin=c["vmin"], B=c["B"], gammaq=c["gammaq"], n=c["n"], nstep=bool(c["nstep"]),
                          combined=bool(c["combined"]), per=bool(c["per"]), q=Q_T, pden=PDEN_T, seed=c["seed"], scale=c["scale"],
                          learns=c.get("learns", 2), wshape=c.get("wshape", "col"))
        v = trace_mod.validate("C51_Trace", TRACE_CFG, [t])[0]
        for i, ev in enumerate(t["ev"], start=1):
            print(i, {k: ev.get(k) for k in ("op", "set", "gq", "exc", "ce_ok", "prio_ok", "m") if k in ev})
        print("verdict:", "accepted" if v.accepted else f"rejected at event {v.step}: {v.clauses or v.invariant}")
        return 0 if v.accepted else 1
    if rp.get("kind") == "real-net":
        bad = c51.run_real_networks(N=rp["N"], vmin=rp["vmin"], B=rp["B"], gamma=rp["gamma"], seed=rp["seed"])
        print(bad or "conserved")
        return 1 if bad else 0
    print(rp.get("text", rp))
    return 1
