"""C18 -- Rainbow DQN's distributional target conserves probability mass and expected value; the per-sample
loss returned as priority is the cross-entropy against the online distribution of the action taken.

M1  C51_MC(.cfg|t.cfg): exact-arithmetic transcription of the projection in RainbowDQN._dqn_loss (floor/ceil,
    equal-index fix-up, flattened batch offsets, two index_add_ passes, one action per element), checked on the
    whole input grid: N in 2..5 atoms, integer vmin (<0, 0, >0), every reward k/4 from one unit below to one unit
    above the support, done in {0,1}, gamma^n in {0,1/4,1/2,1}, every weight vector on the grid (total mass also
    != 1), B <= 2 (3) rows.  Invariants MassConserved, MeanConserved, InRange, Neighbours, NonNeg, StepMass.
    Thorough tier: gamma^n also 3/4, weights in 1/8, B = 3.
M2  C51_Dump(q).cfg: TLC prints every case with the projection the specification demands (and checks ShiftCovariant on
    every case: translating the support by sh/Q delta_z -- v_min not a multiple of delta_z -- and the reward by
    (sh/Q)(1 - (1-d) gamma^n) leaves b = (Tz - v_min)/delta_z unchanged: licence for replays on shifted supports;
    it does not depend on the weights, so the replay grid is the right place for it); each case is replayed
    into the REAL _dqn_loss of a real RainbowDQN (network forwards stubbed = inputs), proj_dist from the guarded
    hook compared exactly, the returned element-wise loss with -sum m ln q (harness, float64).  Every case runs on
    an affine image of the spec's support: delta_z in {1/2, 1, 2, 4, 8}, v_min offset by -3/4 .. 5/4 delta_z, 2..6
    actions, observation shapes (4,) / (2,3); delta_z = 0.3 (thorough: 0.7, 10/3) with float rounding to the grid.
M3  real learn() -- 1-step, n-step, combined, with and without PER (non-uniform weights, (B,1) and (B,)), B 1..32 (64),
    N 2..51 (101), gamma in {0, 1/4, 1/2, 3/4, 1}, n in 1..5, second (third) learn() on the same agent, 2/3/5 actions,
    observation shapes, prior_eps, agent obtained through clone(), batch_size changed after construction, integer
    reward / done / action dtypes and shapes, plain-dict experiences, supports written by their bounds ([-10,10]/51,
    [0,1]/11, [0,500]/16 ...) -- recorded (hook + return values) and validated by TLC against C51_Trace (which batch,
    which discount exponent, source = target net at the online-greedy action, projection, priorities).
M3' unstubbed networks (clamped softmax: mass != 1; noisy layers; vector / 2-d / discrete / multi-discrete / image / dict
    observations): learn() two or three times in a row (optimiser step, soft update with tau in {1e-3, 1/2, 1}, noise
    reset in between), any gamma (0.99, 0.97 ...) and n, compared with a float64 reference redistribution.
"""
from __future__ import annotations

import random
import time

from .. import tlc

Q_T, PDEN_T = 32, 16         # grid of the learn() traces: rewards / discounts in 1/32 (gamma = 1/2, n <= 5), weights in 1/16

TRACE_CFG = f"""SPECIFICATION TSpec
CONSTANTS
  Shapes = {{}}
  Gs = {{}}
  Q = {Q_T}
  PDen = {PDEN_T}
  Shifts = {{}}
  Diag = @DIAG@
INVARIANT MassConserved
INVARIANT MeanConserved
INVARIANT InRangeOnce
CHECK_DEADLOCK FALSE
"""

# (scale = delta_z, shift = v_min / delta_z - vmin, number of actions) of the affine images the dumped cases are replayed on;
# the shifts are the sh / Q of C51_MC!MCShifts (ShiftCovariant).  0.3 and 10/3: non-dyadic delta_z (float comparison).
TRANSFORMS_Q = [(1.0, 0.0, 3), (1.0, 0.5, 2), (0.5, 0.0, 3), (2.0, 0.25, 5), (1.0, 0.0, 3), (4.0, -0.25, 2), (0.3, 0.0, 3),
                (1.0, -0.75, 4)]
TRANSFORMS_T = TRANSFORMS_Q + [(10.0 / 3.0, 0.5, 3), (0.5, 1.25, 3), (0.7, 0.25, 2), (8.0, 0.75, 6)]

# supports as users write them (v_min, v_max, num_atoms, batch): non-dyadic delta_z, v_min not a multiple of delta_z.
# TOP_* are supports on which float32 (v_max - v_min) / delta_z exceeds num_atoms - 1 (drive/c51.top_index_overflows).
FLOAT_SUPPORTS_Q = [(-10, 10, 51, 6), (0, 1, 11, 4), (-1.0, 2.0, 7, 3)]
FLOAT_SUPPORTS_T = FLOAT_SUPPORTS_Q + [(0, 10, 101, 4), (-100, 100, 21, 5), (0.5, 3.5, 7, 2), (-3, 3, 13, 8), (0, 100, 51, 16)]
TOP_SUPPORTS_Q = [(0, 500, 16, 3)]
TOP_SUPPORTS_T = TOP_SUPPORTS_Q + [(-10, 200, 51, 4), (0, 200, 100, 2), (0.1, 3, 4, 2)]

VARIANTS = [(False, False, False), (False, False, True), (True, False, False), (True, False, True),
            (True, True, False), (True, True, True)]


def _variant(c):
    return ("nstep" if c["nstep"] else "1step") + ("+combined" if c["combined"] else "") + ("+per" if c["per"] else "")


def sig(t, v):
    cl = (v.clauses[0] if v.clauses else v.invariant).split(":")[0]
    ev = v.event if isinstance(v.event, dict) else {}
    op = ev.get("op", "?")
    st = ev.get("set", "")
    if cl == "Raises" and ev.get("exc"):
        cl += "-" + str(ev["exc"]).split(":")[0].strip()
    return f"c51:learn:{_variant(t['cfg'])}:{op}{('-' + st) if st else ''}:{cl}" + ("" if t["cfg"].get("exact", 1) else ":nondyadic-support")


def what(t, v):
    ev = v.event if isinstance(v.event, dict) else {}
    brief = {k: ev.get(k) for k in ("op", "set", "gq", "exc", "ce_ok", "prio_ok", "prio_seen", "prio_want") if k in ev}
    return (f"RainbowDQN.learn trace rejected at event {v.step}: {v.clauses or v.invariant}; cfg={t['cfg']}; event={brief}")


def learn_options(j: int, scale: float) -> dict:
    """Public options / input variations of learn() that the property's quantifier spans, spread deterministically."""
    o = {"A": [3, 2, 5][j % 3], "obs_shape": [(4,), (2, 3), (6,), (4,)][j % 4], "prior_eps": [1e-6, 0.01, 0.5][(j // 2) % 3],
         "clone": int(j % 5 == 1), "bs_ctor": (7 if j % 4 == 2 else 0), "ddtype": ["f32", "i64", "u8"][(j // 3) % 3],
         "ashape": ["f32col", "i64flat", "i64col"][(j // 2) % 3], "container": ("dict" if j % 6 == 4 else "td"),
         "idxshape": ("col" if j % 2 == 1 else "flat"), "wshape": ("col" if j % 2 == 0 else "flat"),
         "shift": [0.0, 0.5, 0.0, -0.25, 0.25][j % 5], "scale": scale}
    if j % 7 == 3:                                                   # integer-valued rewards handed over as int64
        o.update(rdtype="i64", shift=0.0, scale=max(1.0, scale))
    return o


def run(ctx):
    from ..drive import c51

    quick = ctx.quick
    rng = random.Random(ctx.seed)
    steps = ["Indices", "AddLower", "NextPass", "AddUpper", "Finish"]
    t0 = time.time()
    phase_s = ctx.extra.setdefault("phase_wall_s", {})

    def lap(name):
        nonlocal t0
        phase_s[name] = round(time.time() - t0, 1)
        t0 = time.time()

    ctx.mc("C51_MC", "C51_MC.cfg" if quick else "C51_MCt.cfg", must_cover=steps, timeout=3000)

    lap("M1 model check")
    # ---- M2: every dumped case into the real _dqn_loss, on affine images of the specification's support
    r = tlc.dump("C51_MC", "C51_Dumpq.cfg" if quick else "C51_Dump.cfg", heap="8g")
    cases = r.tagged.get("CASE", [])
    if len(cases) < 1000 or not all(isinstance(c, dict) for c in cases[:50]):
        raise tlc.TLCError(f"dump produced {len(cases)} cases")
    ctx.extra["dump_cases"] = len(cases)
    ctx.extra["dump_states"] = r.distinct
    rp = c51.Replayer(4, 4, ctx.seed)
    off = ctx.seed % 8
    replayed = 0
    sampled = set()
    transforms = TRANSFORMS_Q if quick else TRANSFORMS_T
    for i, c in enumerate(cases):
        if quick and c["B"] > 1 and i % 8 != off:
            continue
        scale, shift, nact = transforms[(i + i // len(transforms) + ctx.seed) % len(transforms)]
        bad = rp.run(c, scale, shift, nact)
        replayed += 1
        key = (c["N"], c["vmin"], c["B"], c["gq"], str(c["rows"]), scale, shift)
        ident = all(c["m"][k * c["N"] + j] == 4 * row["p"][j] for k, row in enumerate(c["rows"]) for j in range(c["N"]))
        ctx.case(key, nontrivial=not ident)
        if bad:
            ctx.violation(f"c51:dqn_loss:{bad['clause']}:{c51.rclass(c, 4)}{c51.support_class(scale, shift)}",
                          f"RainbowDQN._dqn_loss disagrees with C51.tla ({bad['clause']}): {bad['detail']}; case={c}, delta_z={scale}, "
                          f"v_min={(c['vmin'] + shift) * scale}, actions={nact}",
                          {"kind": "spec-case", "module": "C51_MC", **bad})
        if not ident and (scale, shift) not in sampled and len(sampled) < 3 and replayed > 2000 * len(sampled):
            sampled.add((scale, shift))
            ctx.sample({"case": c, "delta_z": scale, "v_min": (c["vmin"] + shift) * scale, "agreed": bad is None})
    ctx.extra["cases_replayed"] = replayed
    lap("M2 dump + replay")

    # ---- M3: real learn() traces
    # gamma * 32 and the n-step exponent: gamma^n stays on the 1/32 grid (gamma = 1/2 up to n = 5)
    gam = [(16, 2), (16, 3), (32, 3), (0, 2), (16, 1), (8, 1), (24, 1), (16, 5), (16, 4), (8, 2), (24, 2), (32, 5)]
    shapes = [(2, 0, 1), (3, -1, 2), (5, 1, 4), (11, -5, 8), (4, -3, 3), (21, -20, 16), (51, -10, 32), (7, 2, 5)]
    if not quick:
        shapes += [(51, 0, 64), (2, -1, 7), (101, -50, 16), (13, 3, 33)]
    traces = []
    seen_opt = {}
    j = 0
    for rep in range(1 if quick else 4):
        for si, (N, vmin, B) in enumerate(shapes):
            big = N * B > 600
            for vi, (nstep, combined, per) in enumerate(VARIANTS):
                if big and quick and (vi + si) % 3 != 0:
                    continue
                gq, n = gam[(j + rep) % len(gam)] if nstep else gam[(j + rep) % len(gam)][:1] + (rng.choice([1, 3]),)
                if nstep and (si + vi + rep) % 2 == 0:
                    gq, n = 16, [2, 3, 5, 4][(vi + si + rep) % 4]          # gamma = 1/2, n > 1: the exponent is observable
                scale = [1.0, 0.5, 2.0, 4.0][(j // 3) % 4]
                opt = learn_options(j + 3 * rep, scale)
                t = c51.run_learn(N=N, vmin=vmin, B=B, gammaq=gq, n=n, nstep=nstep, combined=combined, per=per, q=Q_T,
                                  pden=PDEN_T, seed=ctx.seed * 100003 + j, learns=(1 if big else (3 if (not quick and j % 5 == 0) else 2)),
                                  **opt)
                traces.append(t)
                for k_, v_ in opt.items():
                    seen_opt.setdefault(k_, set()).add(str(v_))
                if nstep:
                    seen_opt.setdefault("gamma*32^n", set()).add(f"{gq}^{n}")
                ctx.case(("learn", N, vmin, B, gq, n, nstep, combined, per, j, str(sorted(opt.items()))))
                j += 1
    # supports given by their bounds (non-dyadic delta_z): the same trace specification, hook values rounded to the grid
    fl = [(s, 0) for s in (FLOAT_SUPPORTS_Q if quick else FLOAT_SUPPORTS_T)] + [(s, 1) for s in (TOP_SUPPORTS_Q if quick else TOP_SUPPORTS_T)]
    for fi, ((v_min, v_max, N, B), top) in enumerate(fl):
        for vi in ([(2 * fi) % 6, (2 * fi + 3) % 6] if quick and not top else ([1] if quick else range(6))):
            nstep, combined, per = VARIANTS[vi]
            gq, n = [(16, 2), (24, 1), (16, 3), (32, 2), (8, 2)][(fi + vi) % 5]
            opt = learn_options(j, 1.0)
            opt.pop("scale"), opt.pop("shift")
            opt["rdtype"] = "f32"
            t = c51.run_learn(N=N, vmin=0, B=B, gammaq=gq, n=n, nstep=nstep, combined=combined, per=per, q=Q_T, pden=PDEN_T,
                              seed=ctx.seed * 100003 + j, vrange=(v_min, v_max), top=1, **opt)
            traces.append(t)
            ctx.case(("learn-float", v_min, v_max, N, B, gq, n, nstep, combined, per, j))
            j += 1
    # combined_reward = True without n-step experiences: only the 1-step term
    for k in range(2 if quick else 12):
        N, vmin, B = shapes[(3 * k + 1) % len(shapes)]
        opt = learn_options(j, [1.0, 2.0][k % 2])
        t = c51.run_learn(N=N, vmin=vmin, B=min(B, 8), gammaq=[16, 24, 8][k % 3], n=[3, 2][k % 2], nstep=False, combined=True,
                          per=bool(k % 2 == 0), q=Q_T, pden=PDEN_T, seed=ctx.seed * 100003 + j, **opt)
        traces.append(t)
        ctx.case(("learn-combined-1step", N, vmin, B, k, j))
        j += 1
    ctx.sample({"learn_trace_cfg": traces[3]["cfg"],
                "first_event": {k: v for k, v in traces[3]["ev"][0].items() if k in ("op", "set", "gq", "rows", "m", "ce")}})
    ctx.extra["learn_option_values"] = {k_: sorted(v_) for k_, v_ in seen_opt.items()}
    lap("M3 learn() traces recorded")
    ctx.validate("C51_Trace", TRACE_CFG, traces, sig=sig, what=what, chunk=60)
    lap("M3 traces validated by TLC")

    # ---- M3': the real networks, nothing stubbed, learn() several times in a row
    supports = [(2, 0, 1), (5, -2, 2), (11, -5, 5), (51, -10, 10), (51, 0, 200), (21, 0, 1), (3, -1, 1), (51, 0, 8), (7, 0.5, 3.5)]
    for k in range(60 if quick else 600):
        N, v_min, v_max = supports[(k + ctx.seed) % len(supports)]
        nstep, combined, per = VARIANTS[(k // 2 + ctx.seed) % 6]
        cfg = {"N": N, "v_min": v_min, "v_max": v_max, "B": [1, 3, 8, 16, 32, 5][k % 6],
               "gamma": [0.99, 0.5, 1.0, 0.9, 0.0, 0.97][(k // 3) % 6], "seed": ctx.seed * 7919 + k,
               "obs": c51.OBS_KINDS[k % len(c51.OBS_KINDS)], "A": [3, 2, 6][k % 3], "n": [3, 1, 2, 5][k % 4], "nstep": int(nstep),
               "combined": int(combined), "per": int(per), "tau": [1e-3, 0.5, 1.0][(k // 2) % 3], "noise_std": [0.5, 0.1][k % 2],
               "prior_eps": [1e-6, 0.1][(k // 3) % 2], "clone": int(k % 4 == 3), "learns": (3 if (not quick and k % 7 == 0) else 2),
               "perturb": [0.5, 0.0, 0.25][k % 3]}
        bad = c51.run_real_learn(**cfg)
        ctx.case(("real-net", str(sorted(cfg.items()))))
        if bad:
            ctx.violation(f"c51:realnet:{bad.split(':')[0]}", f"unstubbed RainbowDQN.learn ({cfg}): {bad}",
                          {"kind": "real-learn", "cfg": cfg, "detail": bad})
    lap("M3' unstubbed learn()")
    ctx.assume("exact mode: rewards, gamma^n and atoms on the 1/4 (traces: 1/32) grid, source weights on the 1/4 (1/16) grid, delta_z a "
               "power of two and v_min a multiple of delta_z / 4: every float32 operation of the projection is exact, so proj_dist is "
               "compared with equality")
    ctx.assume("non-dyadic supports (delta_z = 0.3, 0.4, 10/3, ...): the same cases / traces run on the affine image of the grid "
               "(C51!ShiftCovariant, checked by TLC); hook values are rounded to the grid when within the float32 error bound "
               "q*pden*1.25*(1e-6 + 5e-7*(max|v|/delta_z + N)) < 0.2 grid units of a grid point (the projection is continuous), "
               "so float32 rounding that moves an index across a row boundary by 1e-5 of a mass is visible only when it raises")
    ctx.assume("the networks' forward passes are inputs of the property: they are stubbed with tables keyed by observation content "
               "(row, batch, role); the unstubbed runs (M3') compare with a float64 reference redistribution up to 1e-5 + 1e-6 * "
               "(max|v|/delta_z + N) (float32 rounding)")
    ctx.assume("cross-entropy values are transcendental: -sum m ln q is evaluated by the harness in float64 from the float32 log-pmf it "
               "handed out; tolerance 1e-6 + 4(N+2)*2^-24*sum|m ln q| (float32 product-and-sum bound)")
    ctx.assume("the spec's unit is delta_z; the scalar loss (PER-weighted mean) is not part of C18 and is not checked; experiences "
               "have the layout the replay buffers hand out (reward / done / action of shape (B,1) or action (B,), float32 or integer "
               "dtypes; float64 rewards and bool done flags are rejected by torch and never produced by agilerl.components.data."
               "Transition); len(batch) == agent.batch_size")
    ctx.assume("the rainbow.proj hook (AGILERL_VERIF=1) reports the tensors _dqn_loss actually uses")
    rule = ("case = (atoms N, vmin, batch rows (weights p, reward, done), gamma^n, delta_z, v_min offset) for _dqn_loss replays -- "
            "non-trivial = the projection is not the identity on p; plus (shape, variant 1-step/n-step/combined x PER, gamma, n, support, "
            "actions, observation shape, dtypes / container, prior_eps, clone, batch-size mutation, seed) for learn() traces and the full "
            "configuration for unstubbed runs")
    return "model_checking", rule, False


def replay(path):
    """./check C18 --replay PATH: re-execute one recorded counterexample against the real code."""
    import json

    from .. import trace as trace_mod
    from ..drive import c51

    d = json.load(open(path))
    rp = d["replay"]
    print(f"signature: {d['signature']}")
    if rp.get("kind") == "spec-case":
        bad = c51.Replayer(4, 4, int(d.get("seed", 0))).run(rp["case"], float(rp.get("scale", 1.0)), float(rp.get("shift", 0.0)),
                                                            int(rp.get("A", 3)))
        print(f"case: {rp['case']}  delta_z={rp.get('scale', 1.0)} shift={rp.get('shift', 0.0)} actions={rp.get('A', 3)}")
        print("specified projection (units 1/16):", rp["case"]["m"])
        if bad:
            print("observed:", bad.get("observed"))
            print(f"DISAGREES ({bad['clause']}): {bad['detail']}")
            return 1
        print("the real _dqn_loss agrees with the specification on this case")
        return 0
    if rp.get("kind") == "rejected-trace":
        c = rp["trace"]["cfg"]
        t = c51.run_learn_cfg(c, Q_T, PDEN_T)
        v = trace_mod.validate("C51_Trace", TRACE_CFG, [t])[0]
        for i, ev in enumerate(t["ev"], start=1):
            print(i, {k: ev.get(k) for k in ("op", "set", "gq", "exc", "ce_ok", "prio_ok", "m") if k in ev})
        print("verdict:", "accepted" if v.accepted else f"rejected at event {v.step}: {v.clauses or v.invariant}")
        return 0 if v.accepted else 1
    if rp.get("kind") == "real-learn":
        bad = c51.run_real_learn(**rp["cfg"])
        print(bad or "conserved")
        return 1 if bad else 0
    if rp.get("kind") == "real-net":
        bad = c51.run_real_networks(N=rp["N"], vmin=rp["vmin"], B=rp["B"], gamma=rp["gamma"], seed=rp["seed"])
        print(bad or "conserved")
        return 1 if bad else 0
    print(rp.get("text", rp))
    return 1
