"""C09 -- replay buffers hold exactly the most recent transitions, each one intact.

M1  Ring_MC.cfg, MABuffer_MC.cfg (exhaustive, small capacities)
M1' Ring_Ind.tla (Apalache): LenOK / ContentsOK / NoDup for histories of any length (inductive invariant, capacities <= 4 / 8)
M2  Ring_Dump: every Add/Clear edge of the reachable graph is executed on the real ReplayBuffer
    (path cover), with sample(B) for every B <= len interleaved; all four observation kinds
M3  every recorded execution (small scope and hypothesis-style random long runs with capacities up
    to 64) is validated by TLC against Ring_Trace / MABuffer_Trace with all invariants on.

Dimensions varied along the cases (see vfw/drive/ring.py): six observation kinds (the four of the quantifier + rank-0
observations / dict members), action shapes (w,), (w,1), (w,2), width-1 additions built batched or as train_off_policy
builds them for one environment, key order of the added TensorDict, the dtype option, three ways of drawing a batch
(buffer.sample, Sampler(memory), Sampler(dataset, dataloader)), return_idx, a learner that overwrites its batch in place;
multi-agent: heterogeneous agents (kinds / action widths differ per agent), field names, agent names, device option,
Python-scalar rewards / bool dones, sampling through the Sampler, the extra positional argument of sample().
"""
from __future__ import annotations

import random

from .. import tlc
from ..core import Vacuous
from ..relation import Relation

RING_TRACE_CFG = """SPECIFICATION TSpec
CONSTANTS
  Caps = {1}
  MaxAdded = 0
  Diag = @DIAG@
INVARIANT TypeOK
INVARIANT LenOK
INVARIANT ContentsOK
INVARIANT NoDup
PROPERTY SampleSound
CHECK_DEADLOCK FALSE
"""
MA_TRACE_CFG = """SPECIFICATION TSpec
CONSTANTS
  Caps = {1}
  MaxAdded = 0
  MaxW = 1000
  Diag = @DIAG@
INVARIANT LenOK
INVARIANT ContentsOK
INVARIANT FifoOK
PROPERTY SampleSound
CHECK_DEADLOCK FALSE
"""


def _sig(prefix):
    def sig(t, v):
        op = (v.event or {}).get("op", "?") if isinstance(v.event, dict) else "?"
        cl = v.clauses[0] if v.clauses else v.invariant
        return f"{prefix}:{t['cfg'].get('kind')}:{op}:{cl}"
    return sig


def _what(prefix):
    def what(t, v):
        return (f"{prefix} trace rejected at event {v.step} {v.event!r}: failing clause(s) {v.clauses or v.invariant}; "
                f"cfg={t['cfg']}")
    return what


def run(ctx):
    from ..drive import ring

    quick = ctx.quick
    rng = random.Random(ctx.seed)
    # ---- M1
    ctx.mc("Ring", "Ring_MC.cfg" if quick else "Ring_MCt.cfg", must_cover=["AddAny|Add", "SampleAny|Sample", "Clear"])
    ctx.mc("MABuffer", "MABuffer_MC.cfg" if quick else "MABuffer_MCt.cfg", must_cover=["SaveSingle", "SaveVectAny|SaveVect", "SampleAny|Sample"])

    # ---- M1': unbounded histories -- Apalache shows IndInv of Ring_Ind.tla inductive (symbolic `added`, every capacity <= CapMax)
    from .. import apalache
    if apalache.available():
        res = apalache.inductive("Ring_Ind", "CI4" if quick else "CI8", weak="Weak")
        ctx.extra["apalache_inductive"] = res
        if not res["proved"]:
            raise tlc.TLCError(f"Ring_Ind: IndInv is not inductive / does not imply Safety: {res['steps']}")
        if not res["negative_control"]["refuted"]:
            raise Vacuous("Ring_Ind: the weakened invariant (without Layout) implies Safety as well: the inductive argument is vacuous")
    else:
        ctx.extra["apalache_inductive"] = "apalache-mc not on PATH: skipped"

    # ---- M2: path cover of the Add/Clear relation, replayed on the real buffer
    r = tlc.dump("Ring_Dump", "Ring_Dump.cfg")
    rel = Relation(r.tagged["TR"], r.tagged["INIT"])
    paths = rel.cover_paths(max_extra=10)
    ctx.extra["ring_relation_edges"] = len(rel.edges)
    ctx.extra["ring_cover_paths"] = len(paths)
    traces = []
    kinds = ring.ALL_KINDS

    def single_opts(i):
        # action shape, dtype option: cycle independently of kind (period 6) and sampler mode (period 3)
        return {"act_dim": (i // 3 + i // 7) % 3, "dtype": "float64" if i % 5 == 2 else "float32",
                "obs_dtype": (None, None, "int64", None, "float64")[(i // 2) % 5]}

    for pi, p in enumerate(paths):
        N = rel.edges[p[0]]["from"]["N"]
        ops = []
        size = 0
        for n in p:
            a = rel.edges[n]["act"]
            if a["op"] == "add":
                ops.append(("add", a["w"]))
            else:
                ops.append(("clear",))
            size = rel.edges[n]["to"]["size"]
            # interleave samples of every batch size up to the current length
            for B in range(1, size + 1):
                ops.append(("sample", B))
        ks = kinds if (not quick or pi % 6 == 0) else (kinds[pi % 6],)
        for ki, kind in enumerate(ks):
            kind += ring.HALF if (pi // 2 + ki) % 2 else ""          # half-integer encoded values every other pair of paths
            so = single_opts(pi + ki)
            t = ring.run_single(N, kind, ops, use_sampler=(pi + ki) % 3, seed=ctx.seed + pi, opts=so)
            traces.append(t)
            ctx.case(("ring-path", N, kind, (pi + ki) % 3, so["act_dim"], so["dtype"], so["obs_dtype"], tuple(ops)))
    ctx.sample({"ring_trace": traces[len(traces) // 2]})

    # ---- M3: random long runs, larger capacities, widths up to capacity, wrap exactly at / across end
    n_long = 40 if quick else 400
    for j in range(n_long):
        N = rng.choice([1, 2, 3, 5, 7, 8, 13, 16, 32, 64])
        kind = kinds[j % 6] + (ring.HALF if (j // 3) % 2 else "")
        ops = []
        size = 0
        cursor = 0
        for _ in range(rng.randint(5, 30)):
            x = rng.random()
            if x < 0.6 or size == 0:
                # bias towards widths that land exactly on, one before and one across the end
                cands = [rng.randint(1, N), N - cursor if N - cursor >= 1 else 1, min(N, N - cursor + 1), N]
                w = max(1, min(N, rng.choice(cands)))
                ops.append(("add", w))
                size = min(N, size + w)
                cursor = (cursor + w) % N
            elif x < 0.93:
                ops.append(("sample", rng.choice([1, size, rng.randint(1, size)])))
            else:
                ops.append(("clear",))
                size = 0
                cursor = 0
        so = single_opts(j + 1)
        traces.append(ring.run_single(N, kind, ops, use_sampler=(j // 2) % 3, seed=ctx.seed + j, opts=so))
        ctx.case(("ring-long", N, kind, (j // 2) % 3, so["act_dim"], so["dtype"], so["obs_dtype"], tuple(ops)))
    # many small batches from a well-filled buffer (batch <= len / 8): "without duplicates in one batch" must not depend on
    # the ratio of batch size to fill level (seed C09-f: a direct-draw path for small batches whose refill is unchecked)
    for j, (N, B, reps) in enumerate([(64, 8, 150), (64, 4, 100), (32, 4, 100)] if quick else
                                     [(64, 8, 400), (64, 4, 300), (32, 4, 300), (256, 32, 60), (128, 16, 150), (48, 6, 300)]):
        for mode in (0, 1, 2):
            ops = [("add", N // 4)] * 3 + [("sample", B)] * (reps // 3) + [("add", N // 4 + 1)] + [("sample", B)] * (reps - reps // 3)
            so = dict(single_opts(j), handed_max=2)
            traces.append(ring.run_single(N, "vector", ops, use_sampler=mode, seed=ctx.seed + 7 * j + mode, opts=so))
            ctx.case(("ring-dense-sampling", N, B, reps, mode))
    ctx.validate("Ring_Trace", RING_TRACE_CFG, traces, sig=_sig("ring"), what=_what("ReplayBuffer"), chunk=300)

    # ---- multi-agent buffer: exhaustive small op sequences + random long ones
    ma_traces = []
    import itertools
    small_ops = [("save1",), ("savev", 1), ("savev", 2), ("savev", 3)]
    # heterogeneous agents ("mixed": observation kind and action width differ per agent) every other case
    ma_kinds = ("mixed",) + ring.ALL_KINDS[:3] + ("mixed2",) + ring.ALL_KINDS[3:]

    def ma_opts(i):
        return {"names": (i // 2) % 3, "agents": (i // 3) % 3, "device": (None, "cpu")[(i // 4) % 2], "sampler": (i // 2) % 2 == 1,
                "py_scalars": i % 3 == 1, "bool_done": i % 5 == 3}

    depth = 3 if quick else 4
    seqs = list(itertools.product(small_ops, repeat=depth))
    for si, seq in enumerate(seqs):
        # (quick) the capacity / kind cycle through all values against every position of the sequence, not only the last
        for N in ((1, 2, 3, 4) if not quick else (1 + (si + si // 4 + si // 16) % 4,)):
            ops = []
            size = 0
            for op in seq:
                ops.append(op)
                size = min(N, size + (1 if op[0] == "save1" else op[1]))
                for B in range(1, size + 1):
                    ops.append(("sample", B))
            kind = ma_kinds[(si + si // 8) % len(ma_kinds)] + (ring.HALF if (si // 5) % 2 else "")
            nag = 1 + si % 3
            mo = ma_opts(si)
            ma_traces.append(ring.run_ma(N, kind, nag, ops, seed=ctx.seed + si, via_dispatch=bool(si % 2), opts=mo))
            ctx.case(("ma-small", N, kind, nag, tuple(sorted(mo.items(), key=str)), tuple(ops)))
    for j in range(30 if quick else 300):
        N = rng.choice([1, 2, 3, 5, 8, 16, 32])
        ops = []
        size = 0
        for _ in range(rng.randint(5, 25)):
            x = rng.random()
            if x < 0.3:
                ops.append(("save1",))
                size = min(N, size + 1)
            elif x < 0.65 or size == 0:
                w = rng.choice([1, rng.randint(1, N), N])
                ops.append(("savev", w))
                size = min(N, size + w)
            else:
                ops.append(("sample", rng.choice([1, size, rng.randint(1, size)])))
        mo = ma_opts(j + 1)
        mk = ma_kinds[(j + 3) % len(ma_kinds)] + (ring.HALF if (j // 3) % 2 else "")
        ma_traces.append(ring.run_ma(N, mk, 1 + j % 3, ops, seed=ctx.seed + j, via_dispatch=bool(j % 2), opts=mo))
        ctx.case(("ma-long", N, mk, 1 + j % 3, tuple(sorted(mo.items(), key=str)), tuple(ops)))
    ctx.sample({"ma_trace": ma_traces[0]})
    ctx.validate("MABuffer_Trace", MA_TRACE_CFG, ma_traces, sig=_sig("mabuf"), what=_what("MultiAgentReplayBuffer"), chunk=300)

    ctx.assume("ids are encoded in float32 values (id*64 + field code, half of the cases + 0.5; exact below 2^23); the projection "
               "decodes storage[:len] / memory")
    ctx.assume("widths larger than the capacity are outside the property's quantifier and are not generated")
    ctx.assume("the caller does not overwrite the arrays it has passed to add() / save_to_memory() (the multi-agent buffer keeps "
               "references to them); numpy-scalar observations (stored as NonTensorData) are not generated")
    rule = ("case = (buffer, capacity, observation kind, operation sequence); small scope: path cover of every Add/Clear "
            "edge of TLC's reachable graph for capacities 1..4 with sample(B) for every B<=len after each step; "
            "large scope: seeded random sequences biased to wrap exactly at/across the end; distinct = distinct tuples")
    return "model_checking", rule, False
