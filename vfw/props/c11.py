"""C11 -- prioritised replay: stored indices only, max priority for new items, proportional
stratified sampling, importance weights, tree totals/minima.

M1  PER_MC(q).cfg  implementation-shaped trees: TreeSum, TreeMin, LeavesOK, PtrOK, MaxPOK,
    NewGetsMax, SampleOK (every capacity 1..5, priorities {1,2,3,8}, all variates k/4)
M2  exact mode: operation sequences (exhaustive short ones + seeded long ones) executed on the real
    buffer with alpha=1, integer priorities, power-of-two batch sizes and stubbed variates k/8;
    leaves, roots, max priority, indices and weights are compared exactly by TLC (PER_Trace)
M3  inexact mode: float priorities incl. tiny/huge/repeated, alpha in {0,0.3,0.6,1}, beta in
    {0,0.4,0.7,1} (and omitted), any batch size (also above the current length), variates at stratum ends
    (0, 1-2^-24), update_priorities fed with the containers / dtypes callers use -> PERx_Trace
"""
from __future__ import annotations

import itertools
import random

EXACT_CFG = """SPECIFICATION TSpec
CONSTANTS
  Caps = {1}
  Pris = {1}
  Bs = {1}
  UDen = 8
  MaxOps = 0
  Diag = @DIAG@
INVARIANT TreeSum
INVARIANT TreeMin
INVARIANT LeavesOK
INVARIANT PtrOK
INVARIANT MaxPOK
CHECK_DEADLOCK FALSE
"""
INEXACT_CFG = """SPECIFICATION TSpec
CONSTANTS
  Diag = @DIAG@
INVARIANT SizeOK
CHECK_DEADLOCK FALSE
"""


KINDS = ("vector", "dict", "image", "tuple", "scalar", "dscalar+h")


def sig(mode):
    def f(t, v):
        op = v.event.get("op", "?") if isinstance(v.event, dict) else "?"
        return f"per-{mode}:{op}:{(v.clauses[0] if v.clauses else v.invariant)}"
    return f


def what(t, v):
    return f"PrioritizedReplayBuffer trace rejected at event {v.step}: {v.clauses or v.invariant}; cfg={t['cfg']}; event={str(v.event)[:500]}"


def _gen_exact(rng, N, length, uden=8):
    ops = []
    size = 0
    for _ in range(length):
        x = rng.random()
        if size > 0 and x < 0.05:
            ops.append(("clear",))            # clear() is part of the buffer API (C09); priorities must be forgotten too
            size = 0
        elif size == 0 or x < 0.35:
            w = rng.choice([1, N, rng.randint(1, N)])
            ops.append(("add", w))
            size = min(N, size + w)
        elif x < 0.65:
            k = rng.choice([1, 1, 2, 3])
            idxs = [rng.randrange(size) for _ in range(k)]
            if k >= 2 and rng.random() < 0.5:
                idxs[1] = idxs[0]                      # repeated index
            ops.append(("update", idxs, [rng.choice([1, 2, 3, 8, 100, 1000]) for _ in range(k)]))
        else:
            # (batch sizes are not bounded by the current length: strata may share an index)
            Bs = [b for b in (1, 2, 4, 8) if b <= size] + [b for b in (2, 4, 8) if size < b <= 2 * size][:1]
            B = rng.choice(Bs)
            ops.append(("sample", B, [rng.choice([0, 0, uden - 1, rng.randrange(uden)]) for _ in range(B)]))
    return ops


def run(ctx):
    from ..drive import per

    quick = ctx.quick
    rng = random.Random(ctx.seed)
    ctx.mc("PER", "PER_MCq.cfg" if quick else "PER_MC.cfg", must_cover=["AddAny|Add", "UpdateAny|Update", "SampleAny|Sample", "Clear"])

    # ---- exact mode
    traces = []
    # exhaustive short sequences on small capacities
    for N in (1, 2, 3, 4, 5):
        adds = [("add", w) for w in range(1, N + 1)]
        for a1 in adds:
            size = a1[1]
            upds = [("update", [i], [p]) for i in range(size) for p in (2, 8)] + [None]
            for up in upds:
                for a2 in (adds if not quick else adds[-2:]) + [None]:
                    ops = [a1]
                    if up:
                        ops.append(up)
                    sz = size
                    if a2:
                        ops.append(a2)
                        sz = min(N, size + a2[1])
                    for B in [b for b in (1, 2, 4) if b <= 2 * sz]:
                        for us in ([0] * B, [7] * B, [4] * B):
                            ops.append(("sample", B, us))
                    traces.append(per.run_exact(N, ops, beta=rng.choice([1.0, 0.4, 0.7]), kind=KINDS[len(traces) % len(KINDS)],
                                                seed=ctx.seed + len(traces)))
                    ctx.case(("exact-small", N, str(ops)))
    for j in range(60 if quick else 600):
        N = rng.choice([1, 2, 3, 4, 5, 6, 7, 8, 9, 13, 16])
        ops = _gen_exact(rng, N, rng.randint(4, 25))
        traces.append(per.run_exact(N, ops, beta=rng.choice([1.0, 0.4, 0.7]), kind=KINDS[j % len(KINDS)], seed=ctx.seed + j))
        ctx.case(("exact-long", N, str(ops)))
    ctx.sample({"exact_trace": {"cfg": traces[-1]["cfg"], "ev": traces[-1]["ev"][:3]}})
    ctx.validate("PER_Trace", EXACT_CFG, traces, sig=sig("exact"), what=what, chunk=300)

    # ---- inexact mode
    xtraces = []
    hi = 1.0 - 2.0 ** -24
    for j in range(80 if quick else 800):
        N = rng.choice([1, 2, 3, 5, 6, 8, 11, 16, 33])
        alpha = rng.choice([0.3, 0.6, 1.0, 0.0])       # 0.0: no prioritisation, every stored priority is 1
        beta = rng.choice([0.4, 0.7, 1.0, 0.0, 0.4])   # 0.0: the lower end of the range, every weight is 1
        ops = []
        size = 0
        for _ in range(rng.randint(4, 30)):
            x = rng.random()
            if size > 0 and x < 0.04:
                ops.append(("clear",))
                size = 0
            elif size == 0 or x < 0.3:
                w = rng.choice([1, N, rng.randint(1, N)])
                ops.append(("add", w))
                size = min(N, size + w)
            elif x < 0.6:
                k = rng.randint(1, 4)
                idxs = [rng.randrange(size) for _ in range(k)]
                if k >= 2 and rng.random() < 0.4:
                    idxs[-1] = idxs[0]
                pris = [rng.choice([0.0, 1e-9, 1e-5, 0.1, rng.random(), rng.random() * 10, 1e4, 1e8]) for _ in range(k)]
                ops.append(("update", idxs, pris))
            else:
                B = rng.randint(1, size) if rng.random() < 0.8 else rng.randint(size + 1, 2 * size + 1)
                ops.append(("sample", B, [rng.choice([0.0, hi, 0.5, rng.random()]) for _ in range(B)]))
        xtraces.append(per.run_inexact(N, alpha, beta, ops, kind=KINDS[j % len(KINDS)], seed=ctx.seed + j))
        ctx.case(("inexact", N, alpha, beta, str(ops)))
    ctx.sample({"inexact_trace": {"cfg": xtraces[0]["cfg"], "ev": xtraces[0]["ev"][:3]}})
    ctx.validate("PERx_Trace", INEXACT_CFG, xtraces, sig=sig("inexact"), what=what, chunk=400)
    ctx.assume("exact mode: alpha=1, integer priorities, power-of-two batch sizes, variates k/8 -> all float sums exact")
    ctx.assume("at an exact stratum boundary either neighbouring index is accepted (measure-zero event)")
    ctx.assume("inexact mode: tolerance 1e-9 (sums) / 1e-5 (weights) is part of the trusted base; clear() is outside C11's quantifier")
    return "model_checking", ("case = (capacity, alpha, beta, operation sequence with concrete indices/priorities/variates); "
                              "distinct = distinct tuples; all are non-trivial (every sequence starts with an add)"), False
