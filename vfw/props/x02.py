"""X02 -- EvolvableModule's mutation-method registry and MutationContext as an explicit state machine.

Behaviour specified (agilerl/modules/base.py: @mutation, MutationContext, ModuleMeta, EvolvableModule.__setattr__ / __getattr__ /
mutation_methods / layer_mutation_methods / node_mutation_methods / get_mutation_methods / filter_mutation_methods /
disable_mutations / sample_mutation_method / clone, EvolvableWrapper, ModuleDict; used by agilerl/networks/base.py and
agilerl/modules/multi_input.py).  Clauses, each taken from a docstring or the evident intent of the code:

 R1 assigning a module to an attribute adds that module's mutation methods to the parent under "attr." ("If the attribute is a
    module, add its mutation methods to the parent module"); the names of a module previously held by the attribute disappear;
    no other name is affected.
 R2 disable_mutations(kind) "recursively disables the mutation methods of nested evolvable modules as well": afterwards neither the
    module nor any nested module offers a method of that kind; the other kind is untouched; it returns.
 R3 filter_mutation_methods(s) removes exactly the names containing s from this module's registry.
 R4 every registered name resolves through getattr to the mutation method of the module CURRENTLY at that path, of the registered
    kind, and calling it goes through the module's own MutationContext; no duplicates; mutation_methods = layer + node.
 R5 sample_mutation_method(new_layer_prob, rng) draws a registered name: layer methods share new_layer_prob, node methods the
    rest, uniformly inside a kind (uniformly over all when a kind is empty); ValueError when nothing is registered.
 R6 MutationContext: after the outermost call of a registered name, last_mutation_attr of every module the call went through
    names the method really applied (also after a fall-back such as add_layer -> add_node), exactly the module owning the applied
    method is recreated, exactly once ("avoid redundant recreations"), the mutation hook of the modules gone through runs;
    applying a mutation does not change which mutations are on offer; a method that is not offered applies nothing.
 R7 clone() returns a tree with the same registry at every module, bound to its own sub-modules; original and clone are
    independent afterwards.
 R8 an EvolvableWrapper offers the wrapped module's methods at top level and the wrapped module offers nothing itself.

M1  MutReg_MC.cfg / MutReg_MCnet.cfg: exhaustive model check of MutReg for the custom class catalogue (root with 0-2 children, a
    grandchild, a wrapper) and the network-shaped catalogue (own latent methods, MLP encoder with layer methods disabled by the
    constructor, MLP head, recreate_network replacing both): invariants Shape, Resolves, KindsDisjoint, NoPhantom, RecreateOnce,
    SampleLaw and action properties AssignExact, DisableEffective, FilterExact, CallTracked, DisabledAppliesNothing, CloneEqual,
    Independent.
M2  MutReg_Dump*.cfg: TLC's transition relation is dumped; a path cover of it is executed on REAL objects: the custom relation on
    tiny concrete EvolvableModule / EvolvableWrapper subclasses (fall-backs scripted, bodies logging what they really applied; the
    observed state must equal TLC's successor state), the net relation on real QNetwork, ValueNetwork, DeterministicActor,
    StochasticActor, ContinuousQNetwork, RainbowQNetwork.
M3  seeded random walks (operations drawn among those applicable in the observed state) on the custom classes and on real
    networks / modules incl. CNN and multi-input encoders (ModuleDict) and standalone EvolvableMultiInput / MLP / CNN.
Every observed operation is judged by TLC (MutReg_Trace): the observed post-state must be a successor the specification allows
from the observed pre-state, plus the clauses on bindings (R4), recreate counts and hooks (R6), ground truth of the custom bodies.
"""
from __future__ import annotations

import json

PID = "X02"
RULE = ("case = (object family and root class, observed registry state before, operation with arguments, observed state after); "
        "small scope: path cover of every edge of TLC's reachable graph (custom catalogue and network-shaped catalogue, "
        "2 resp. 3 state-changing operations deep) executed on real objects; large scope: seeded random walks on custom trees and on "
        "real networks / modules; distinct = distinct (family, root, pre-registry, operation) tuples")

MUST = ["CallAny", "CallDisAny", "DisableAny", "FilterAny", "AssignAny", "Clone"]


def _collect(ctx, dumps):
    from ..drive import mutreg as M
    import time

    quick = ctx.quick
    timing = {}
    traces = []
    # ---- M2 custom
    t0 = time.time()
    rel, cat, sub, r = dumps[0].result()
    bad = M.check_catalog(cat)
    if bad:
        raise RuntimeError(f"custom classes of the driver do not match the TLA+ catalogue: {bad}")
    for s, a in sub:
        if s not in a:
            raise RuntimeError(f"substring oracle of the specification is wrong: {s!r} not in {a!r}")
    paths = rel.cover_paths(max_extra=6)
    tc, st = M.replay_custom(rel, cat, sub, paths, ctx.seed)
    ctx.extra["custom_relation"] = {"states": r.distinct, "edges": len(rel.edges), "paths": len(paths), "edges_executed": st["edges_run"],
                                    "paths_left_by_real_code": st["diverged"]}
    traces += tc
    timing["custom_replay"] = round(time.time() - t0, 1)
    # ---- M2 net
    t0 = time.time()
    reln, catn, subn, rn = dumps[1].result()
    # calls differing only in the number of fall-backs are one action on a real network (not scriptable there)
    pn = reln.cover_paths(max_extra=5)
    tn = M.replay_net(reln, pn, ctx.seed, every_maker=False)
    ctx.extra["net_relation"] = {"states": rn.distinct, "edges": len(reln.edges), "paths": len(pn), "real_runs": len(tn)}
    traces += tn
    timing["net_replay"] = round(time.time() - t0, 1)
    # ---- M3 walks
    t0 = time.time()
    nw = 12 if quick else 60
    depth = 8 if quick else 12
    strs = ["net", "add_node", "layer"]
    assign = [{"a": "aux", "c": "Leaf"}, {"a": "net", "c": "Leaf"}, {"a": "net", "c": "Mid"}, {"a": "net2", "c": "Leaf"}]
    for root in ("Root0", "Root1", "Root2", "RootM", "RootW"):
        for j in range(nw):
            traces.append(M.random_walk("custom", root, (lambda rc=root: M.custom_factory(rc)), cat, strs, assign, depth,
                                        ctx.seed * 1000 + j, lambda c, node: M.custom_factory(c)))
    nr = 6 if quick else 30
    for name in M.real_makers():
        mk, rcat, _, rassign = M.real_setup(name)
        for j in range(nr):
            traces.append(M.random_walk("real", name, mk, rcat, M.REAL_STRS, rassign, depth - 1, ctx.seed * 1000 + j, M.real_assign_factory))
    timing["walks"] = round(time.time() - t0, 1)
    ctx.extra.setdefault("timing_s", {}).update(timing)
    return traces


def _judge(ctx, traces):
    from ..drive import mutreg as M
    import time

    t0 = time.time()
    verdicts, st = M.judge(traces)
    ctx.extra.setdefault("timing_s", {})["trace_validation"] = round(time.time() - t0, 1)
    ctx.extra["trace_validation_states"] = st["distinct"]
    ctx.extra["trace_validation_runs"] = st["runs"]
    ops = {}
    judged_calls = {"custom": 0, "real": 0}
    fallbacks = 0
    skipped = 0
    for tr, vs in zip(traces, verdicts):
        ctx.traces_validated += 1
        for k, (ev, fails) in enumerate(zip(tr["ev"], vs)):
            if fails is None:
                raise RuntimeError(f"TLC did not get through event {k} of trace {tr['cfg']['desc']} ({ev['op']})")
            ops[ev["op"]] = ops.get(ev["op"], 0) + 1
            pre = tr["ev"][k - 1]["post"] if k else []
            ctx.case((tr["cfg"]["family"], tr["cfg"]["root"], json.dumps(M.canon_state(pre)), json.dumps({x: ev[x] for x in ("op", "t", "p", "m", "h", "a", "c", "s", "ks", "pl") if x in ev}, sort_keys=True)))
            if ev["op"] == "call":
                n = [n for n in pre[ev["t"] - 1]["nodes"] if n["p"] == ev["p"]][0]
                e = [e for e in n["res"] if e["n"] == ev["m"]]
                if e and e[0]["st"] == "cur" and e[0]["routed"]:
                    judged_calls[tr["cfg"]["family"]] += 1
                    if tr["cfg"]["family"] == "custom" and ev.get("h"):
                        fallbacks += 1
                else:
                    skipped += 1
            for sig, clause in M.signatures(tr, k, fails):
                if sig.endswith(":HARNESS"):
                    raise RuntimeError(f"harness recorded an inapplicable operation: {tr['cfg']['desc']} event {k} {ev['op']}")
                ctx.violation(sig, M.describe(tr, k, clause),
                              {"kind": "rejected-step", "module": "MutReg_Trace", "family": tr["cfg"]["family"], "root": tr["cfg"]["root"],
                               "seed": tr["cfg"]["seed"], "desc": tr["cfg"]["desc"], "actions": tr["actions"][:max(0, k - 1)], "event": {x: ev[x] for x in ev if x != "post"},
                               "clauses": fails, "post": M.canon_state(ev["post"]),
                               "how": "./check X02 --replay <this file> re-executes the history on a fresh real object and prints TLC's verdict per event"})
    ctx.extra["events_judged"] = ops
    ctx.extra["calls_judged"] = judged_calls
    ctx.extra["calls_not_judged_because_binding_already_stale"] = skipped
    ctx.extra["custom_calls_with_scripted_fallback"] = fallbacks
    from ..core import Vacuous
    for op in ("construct", "call", "calldis", "sample", "disable", "filter", "assign", "clone"):
        if not ops.get(op):
            raise Vacuous(f"no observed operation of kind {op}")
    if min(judged_calls.values()) == 0 or fallbacks == 0:
        raise Vacuous(f"calls judged {judged_calls}, with fall-back {fallbacks}")


def run(ctx):
    from concurrent.futures import ThreadPoolExecutor
    from ..drive import mutreg as M
    quick = ctx.quick

    def mc():
        ctx.mc("MutReg_MC", "MutReg_MC.cfg" if quick else "MutReg_MCt.cfg", must_cover=MUST, workers=8)
        ctx.mc("MutReg_MC", "MutReg_MCnet.cfg" if quick else "MutReg_MCnett.cfg", must_cover=MUST, workers=8)

    with ThreadPoolExecutor(max_workers=3) as ex:      # model checking (M1) runs while the relations are dumped and replayed (M2, M3)
        m1 = ex.submit(mc)
        dumps = [ex.submit(M.load_relation, "MutReg_Dump.cfg" if quick else "MutReg_Dumpt.cfg"),
                 ex.submit(M.load_relation, "MutReg_Dumpnet.cfg" if quick else "MutReg_Dumpnett.cfg")]
        traces = _collect(ctx, dumps)
        _judge(ctx, traces)
        m1.result()
    for t in (traces[0], traces[len(traces) // 2], traces[-1]):
        ctx.sample({"family": t["cfg"]["family"], "root": t["cfg"]["root"], "history": t["actions"][:6],
                    "registry_after": [(".".join(n["p"]) or "<root>", [".".join(m) for m in n["L"]], [".".join(m) for m in n["N"]],
                                        ".".join(n["last"]) or None) for n in t["ev"][-1]["post"][0]["nodes"]]})
    ctx.assume("an EvolvableWrapper and the module it wraps are one node of the abstract tree (own methods = the wrapped module's); "
               "recreate_network / hook calls of both objects are attributed to that node")
    ctx.assume("where a registered name leads is read from the closures of the callables getattr returns (module / method cells of "
               "_mutation_wrapper, __self__ of the bound method); recreate_network is counted by an instance attribute wrapping the bound "
               "method, hooks by register_mutation_hook")
    ctx.assume("the custom classes script their fall-backs (HOPS) and log the bodies that really applied something; on real networks which "
               "fall-back happens is not controlled: the specification accepts every documented fall-back chain (FALLBACKS table read from "
               "the module sources) and the C03 check owns 'the applied method is the one reported'")
    ctx.assume("recreate_network of an EvolvableNetwork replaces encoder and head_net, of an EvolvableMultiInput its feature_net; the new "
               "sub-modules must offer exactly what the replaced ones offered (constructor-disabled encoder layer methods stay disabled)")
    ctx.assume("calls through a name whose binding is already stale / unrouted in the pre-state are executed but not judged (the operation "
               "that broke the binding is the one reported); every other operation is judged from the really observed pre-state")
    ctx.assume("clone() is only exercised on trees whose structure is what the constructor builds (clone reconstructs from init_dict)")
    return "model_checking", RULE, False


def replay(path):
    from ..drive import mutreg as M
    d = json.loads(open(path).read())
    r = d["replay"]
    print(f"signature: {d['signature']}\n{d['what']}")
    if r.get("kind") != "rejected-step":
        print(str(r.get("text", ""))[:4000])
        return 1
    if r["family"] == "custom":
        from .. import tlc
        c = tlc.dump("MutReg_MC", "MutReg_Dump.cfg").tagged["CATALOG"][0]
        cat, sub = c["cat"], [list(x) for x in c["sub"]]
        root = r["root"]
        mk, fac = (lambda: M.custom_factory(root)), (lambda cn, node: M.custom_factory(cn))
    else:
        mk, cat, _, _ = M.real_setup(r["root"])
        sub, fac = M.substrings(cat, M.REAL_STRS + ["net", "add_node"]), M.real_assign_factory
    ev = {k: v for k, v in r["event"].items() if k in ("op", "t", "p", "m", "h", "a", "c", "s", "ks", "pl", "j")}
    tr = M.run(r["family"], mk, cat, sub, list(r["actions"]) + [ev], r["seed"], fac, rootname=r["root"])
    vs, _ = M.judge([tr])
    for k, (e, f) in enumerate(zip(tr["ev"], vs[0])):
        print(f"  event {k}: {e['op']} { {x: e[x] for x in ('t','p','m','h','a','c','s','ks','pl') if x in e} } exc={e['exc']!r} rc={e['rc']} lost={e['lost']} -> "
              f"{'ok' if not f else 'FAILED: ' + '; '.join(f)}")
    return 1
