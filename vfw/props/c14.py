"""C14 -- every selected action is a legal member of the action space; masks; greedy = best allowed.

M1  ActionSel_MC(q).cfg: exhaustive over the grid (Discrete(n) n<=4 with every value vector over 5
    levels incl. ties/extremes and all 2^n-1 masks, exploration off/on, single/batched; MultiDiscrete
    [2,3]; MultiBinary(3); Box with asymmetric per-dimension bounds, tanh/sigmoid/unbounded actors,
    noise far outside the bounds; two-row batches; two-agent calls with per-agent masks and
    environment-defined actions).  Invariants Legal, GreedyIsBestAllowed, InBounds, BatchShape, Override.
M2  ActionSel_Dump(q).cfg prints every grid case; the rows are replayed into the real agents with the
    policy network's forward stubbed (vfw/drive/actionsel.py): DQN, RainbowDQN, CQN, NeuralUCB, NeuralTS,
    PPO (train/eval), DDPG, TD3, MADDPG, MATD3, IPPO.
M3  every recorded call is validated by TLC (ActionSel_Trace): the returned action must be one the
    specification allows for that row; gymnasium's action_space.contains is an independent clause.
"""
from __future__ import annotations

import json
import random

TRACE_CFG = """SPECIFICATION TSpec
CONSTANTS
  SC = 8
  Diag = @DIAG@
INVARIANT Legal
INVARIANT GreedyIsBestAllowed
INVARIANT InBounds
INVARIANT BatchShape
INVARIANT Override
CHECK_DEADLOCK FALSE
"""


def _kind(t, v):
    k = max(0, min(len(t["cfg"]["call"]) - 1, (v.step or 1) - 1))
    g = t["cfg"]["call"][k]
    if g["kind"] == "cont":
        return f"Box{len(g['lo'])}-{g['mode']}-{g['req']}"
    if g["kind"] == "bits":
        return "MultiBinary"
    return "Discrete" if len(g["sizes"]) == 1 else "MultiDiscrete"


def sig(t, v):
    c = t["cfg"]
    cl = (v.clauses[0] if v.clauses else (v.invariant or "?")).split(":")[0]
    extra = ""
    if cl == "Returns" and isinstance(v.event, dict):
        extra = ":" + str(v.event.get("exc", "")).split(":")[0]
    shape = "single" if c["call"][0]["single"] else "batched"
    return f"actionsel:{c['alg']}:{c['mode']}:{c['variant']}:{c['obs']}:{_kind(t, v)}:{shape}:{cl}{extra}"


def what(t, v):
    c = dict(t["cfg"])
    call = c.pop("call")
    k = max(0, min(len(call) - 1, (v.step or 1) - 1))
    g = dict(call[k])
    rows = g.pop("rows")
    bad = []
    for cl in v.clauses:
        if ": rows {" in cl:
            bad = [int(x) for x in cl.split(": rows {")[1].rstrip("}").split(",") if x.strip()][:3]
    ex = [{"row": i, "in": rows[i - 1],
           "returned": (v.event or {}).get("outs", [None] * len(rows))[i - 1] if isinstance(v.event, dict) and len(v.event.get("outs", [])) >= i else None}
          for i in bad]
    ev = {kk: vv for kk, vv in (v.event or {}).items() if kk in ("exc", "shape", "width")} if isinstance(v.event, dict) else v.event
    return (f"get_action of {c['alg']} ({c}) rejected at agent/group {v.step}: {v.clauses or v.invariant}; group={g}; "
            f"rows in batch={len(rows)}; result={ev}; offending rows (1-based, values are levels / units of 1/8)={ex}")[:1800]


def run(ctx):
    import numpy as np
    import torch

    from .. import tlc
    from ..drive import actionsel as A

    torch.set_num_threads(1)
    quick = ctx.quick
    rng = random.Random(ctx.seed)
    torch.manual_seed(ctx.seed)
    np.random.seed(ctx.seed)
    random.seed(ctx.seed)

    # ---------------------------------------------------------------- M1
    ctx.mc("ActionSel_MC", "ActionSel_MCq.cfg" if quick else "ActionSel_MC.cfg",
           must_cover=["SelectDiscrete", "SelectBits", "SelectContinuous"])
    # ---------------------------------------------------------------- M2: the grid
    r = tlc.dump("ActionSel_MC", "ActionSel_Dumpq.cfg" if quick else "ActionSel_Dump.cfg", timeout=900)
    cases = r.tagged.get("CASE", [])
    if len(cases) < 1000 or not isinstance(cases[0], list):
        raise tlc.TLCError(f"case dump unusable: {len(cases)} cases")
    ctx.extra["grid_cases_from_tlc"] = len(cases)
    G = A.Grid(cases)
    zoo = A.Zoo(ctx.seed)
    traces = []

    def add(t, nontrivial=True):
        traces.append(t)
        c = t["cfg"]
        for g in c["call"]:
            for row in g["rows"]:
                ctx.case((c["alg"], c["mode"], c["variant"], c["obs"], g["kind"], g["single"], tuple(g["sizes"]), tuple(g["lo"]), g["mode"], g["req"],
                          tuple(row["q"]), tuple(row["mask"]), row["explore"], tuple(row["envdef"]), tuple(row["x"]), tuple(row["noise"]),
                          c.get("masked", True)),
                         nontrivial=(0 in row["mask"]) or len(set(row["q"])) < len(row["q"]) or g["kind"] == "cont" or bool(row["envdef"]))

    def sub(rows, k):
        """thin a list in the quick tier (every k-th, rotating with the seed)"""
        if not quick or k <= 1:
            return rows
        return rows[(ctx.seed % k)::k]

    CH = 64
    # ---------------------------------------------------------------- DQN / CQN / Rainbow
    for n in (1, 2, 3, 4):
        for e in (0, 1):
            rows = G.disc.get((n, e, False), [])
            for alg in ("DQN", "CQN"):
                for ch in A.chunks(rows, CH):
                    add(A.run_q(zoo, alg, n, ch, e))
                ones = [x for x in rows if all(m == 1 for m in x["mask"])]
                for ch in A.chunks(ones, CH):
                    add(A.run_q(zoo, alg, n, ch, e, pass_mask=False))
                if e == 1:
                    for ch in A.chunks(rows, CH):
                        add(A.run_q(zoo, alg, n, ch, e, eps=0.5))
                    if n >= 2:
                        for ch in A.chunks(rows, CH):
                            add(A.run_q(zoo, alg, n, ch, e, variant="zero-draw"))
                for row in sub(G.disc.get((n, e, True), []), 9):
                    add(A.run_q(zoo, alg, n, [row], e, single=True))
                    if all(m == 1 for m in row["mask"]):
                        add(A.run_q(zoo, alg, n, [row], e, single=True, pass_mask=False))
            if e == 0:
                for tr in (True, False):
                    for ch in A.chunks(rows, CH):
                        add(A.run_q(zoo, "RainbowDQN", n, ch, 0, training=tr))
                    for ch in A.chunks([x for x in rows if all(m == 1 for m in x["mask"])], CH):
                        add(A.run_q(zoo, "RainbowDQN", n, ch, 0, training=tr, pass_mask=False))
                for row in sub(G.disc.get((n, 0, True), []), 9):
                    add(A.run_q(zoo, "RainbowDQN", n, [row], 0, single=True))
    # other observation-space kinds (batch sizes chosen different from the number of dict members)
    for kind in ("discrete", "dict", "image"):
        for alg in ("DQN", "CQN", "RainbowDQN"):
            for e in ((0, 1) if alg != "RainbowDQN" else (0,)):
                rows = G.disc.get((3, e, False), [])
                for ch in list(A.chunks(rows, 5))[: (3 if quick else 40)]:
                    add(A.run_q(zoo, alg, 3, ch, e, obs_kind=kind))
                    if all(all(m == 1 for m in x["mask"]) for x in ch):
                        add(A.run_q(zoo, alg, 3, ch, e, obs_kind=kind, pass_mask=False))
                row = rows[rng.randrange(len(rows))]
                add(A.run_q(zoo, alg, 3, [row], e, obs_kind=kind, single=True))
    # ---------------------------------------------------------------- bandits
    for alg in ("NeuralUCB", "NeuralTS"):
        for n in (1, 2, 3, 4):
            for e, gamma in ((0, 1e-30), (1, 1.0)):
                rows = sub(G.disc.get((n, e, True), []), 4 if n >= 3 else 1)
                for j, row in enumerate(rows):
                    add(A.run_bandit(zoo, alg, n, row, gamma=gamma, mask_shape=("flat", "column")[j % 2]))
    # ---------------------------------------------------------------- PPO
    for training in (True, False):
        for n in (1, 2, 3, 4):
            rows = G.disc.get((n, 1, False), [])
            for ch in A.chunks(rows, CH):
                add(A.run_ppo_disc(zoo, A.dgroup([n], False, ch), training=training))
            for ch in A.chunks([x for x in rows if all(m == 1 for m in x["mask"])], CH):
                add(A.run_ppo_disc(zoo, A.dgroup([n], False, ch), training=training, pass_mask=False))
            for row in sub(G.disc.get((n, 1, True), []), 9):
                add(A.run_ppo_disc(zoo, A.dgroup([n], True, [row]), training=training))
            if n in (2, 3):
                for ch in A.chunks(rows, CH):
                    add(A.run_ppo_disc(zoo, A.dgroup([n], False, ch), training=training, variant="logits-1e9", lv=A.LV_LOGIT_X))
        for ch in A.chunks(sub(G.md.get(1, []), 3), CH):
            add(A.run_ppo_disc(zoo, A.dgroup([2, 3], False, ch), training=training))
        for ch in A.chunks(G.mb.get(1, []), CH):
            add(A.run_ppo_disc(zoo, A.dgroup([3], False, ch, kind="bits"), training=training))
        for row in sub(G.md.get(1, []), 101):
            add(A.run_ppo_disc(zoo, A.dgroup([2, 3], True, [row]), training=training))
        for row in sub(G.mb.get(1, []), 11):
            add(A.run_ppo_disc(zoo, A.dgroup([3], True, [row], kind="bits"), training=training))
        req = "free" if training else "inb"
        for squash in (False, True):
            rows = G.cont.get((tuple(A.LO_A), tuple(A.HI_A), "none", req, False), [])
            for ch in A.chunks(rows, 25):
                for rep in range(2 if quick else 6):
                    add(A.run_ppo_cont(zoo, A.cgroup(A.LO_A, A.HI_A, "none", req, False, ch), training=training, squash=squash))
            add(A.run_ppo_cont(zoo, A.cgroup(A.LO_A, A.HI_A, "none", req, True, [rows[0]]), training=training, squash=squash))
            for ch in list(A.chunks(rows, 25))[:(2 if quick else None)]:          # the policy after mutations (no clone since the last one)
                add(A.run_ppo_cont(zoo, A.cgroup(A.LO_A, A.HI_A, "none", req, False, ch), training=training, squash=squash, evolved=True))
            # one-dimensional Box: rows of the B grid (the exact-mode rows carry the raw outputs; only bounds are demanded)
            rows1 = G.cont.get((tuple(A.LO_B), tuple(A.HI_B), "none", "exact", False), [])
            add(A.run_ppo_cont(zoo, A.cgroup(A.LO_B, A.HI_B, "none", req, False, [A.crow(x["x"], [0]) for x in rows1]),
                               training=training, squash=squash))
    # ---------------------------------------------------------------- DDPG / TD3
    for alg in ("DDPG", "TD3"):
        for mode in ("tanh", "sigm", "none"):
            rows = G.cont.get((tuple(A.LO_A), tuple(A.HI_A), mode, "exact", False), [])
            for ch in A.chunks(rows, 25):
                add(A.run_ddpg(zoo, alg, A.cgroup(A.LO_A, A.HI_A, mode, "exact", False, ch), training=True))
            zero = [x for x in rows if not any(x["noise"])]
            for ch in A.chunks(zero, 25):
                add(A.run_ddpg(zoo, alg, A.cgroup(A.LO_A, A.HI_A, mode, "exact", False, ch), training=False))
            rows1 = G.cont.get((tuple(A.LO_B), tuple(A.HI_B), mode, "exact", False), [])
            for ch in A.chunks(rows1, 25):
                add(A.run_ddpg(zoo, alg, A.cgroup(A.LO_B, A.HI_B, mode, "exact", False, ch), training=True))
            for row in G.cont.get((tuple(A.LO_B), tuple(A.HI_B), mode, "exact", True), []):
                add(A.run_ddpg(zoo, alg, A.cgroup(A.LO_B, A.HI_B, mode, "exact", True, [row]), training=True))
                if not any(row["noise"]):
                    add(A.run_ddpg(zoo, alg, A.cgroup(A.LO_B, A.HI_B, mode, "exact", True, [row]), training=False))
            inb = G.cont.get((tuple(A.LO_A), tuple(A.HI_A), mode, "inb", False), [])
            for rep in range(3 if quick else 20):
                add(A.run_ddpg_ou(zoo, alg, A.cgroup(A.LO_A, A.HI_A, mode, "inb", False, inb), seed=ctx.seed + rep))
    # ---------------------------------------------------------------- MADDPG / MATD3
    K = 16
    for alg in ("MADDPG", "MATD3"):
        for e in (0, 1):
            sel = [c for c in G.ma_disc if c[0]["rows"][0]["explore"] == e]
            sel = sub(sel, 3)
            for ch in A.chunks(sel, K):
                if len(ch) < K:
                    ch = ch + sel[: K - len(ch)]
                groups = [A.dgroup(ch[0][k]["sizes"], False, [c[k]["rows"][0] for c in ch]) for k in (0, 1)]
                add(A.run_ma_disc(zoo, alg, groups, training=bool(e), variant="grid-ma"))
            for c in sub(sel, 40):
                groups = [A.dgroup(c[k]["sizes"], True, [c[k]["rows"][0]]) for k in (0, 1)]
                add(A.run_ma_disc(zoo, alg, groups, training=bool(e), single=True, variant="grid-ma"))
            # per-agent masks over the full single-agent grids: agent_0 on Discrete(3), other_0 on Discrete(4)
            r3, r4 = G.disc.get((3, e, False), []), sub(G.disc.get((4, e, False), []), 2)
            m = min(len(r3), len(r4)) // K * K
            for i in range(0, m, K):
                groups = [A.dgroup([3], False, r3[i:i + K]), A.dgroup([4], False, r4[i:i + K])]
                add(A.run_ma_disc(zoo, alg, groups, training=bool(e), variant="composed"))
            o3 = [x for x in r3 if all(mm == 1 for mm in x["mask"])]
            o4 = [x for x in r4 if all(mm == 1 for mm in x["mask"])]
            # one agent restricted by a mask, the other free and handing over NO mask (empty info): the mask still applies
            mm_ = min(len(r3), len(o4)) // K * K
            for i in range(0, min(mm_, 2 * K if quick else mm_), K):
                groups = [A.dgroup([3], False, r3[i:i + K]), A.dgroup([4], False, o4[i:i + K])]
                add(A.run_ma_disc(zoo, alg, groups, training=bool(e), variant="composed+sparse", with_mask="sparse"))
            m = min(len(o3), len(o4)) // K * K
            for i in range(0, m, K):
                groups = [A.dgroup([3], False, o3[i:i + K]), A.dgroup([4], False, o4[i:i + K])]
                add(A.run_ma_disc(zoo, alg, groups, training=bool(e), variant="composed", with_mask=False))
        K2 = 18
        for training in (True, False):
            sel = [c for c in G.ma_cont if training or not (any(c[0]["rows"][0]["noise"]) or any(c[1]["rows"][0]["noise"]))]
            for ch in A.chunks(sel, K2):
                if len(ch) < K2:
                    ch = ch + sel[: K2 - len(ch)]
                groups = [A.cgroup(ch[0][k]["lo"], ch[0][k]["hi"], "tanh", "exact", False, [c[k]["rows"][0] for c in ch]) for k in (0, 1)]
                add(A.run_ma_cont(zoo, alg, groups, training=training, variant="grid-ma"))
                if not training or not quick:                  # heads whose output activation is Softsign (range (-1, 1) like Tanh)
                    add(A.run_ma_cont(zoo, alg, groups, training=training, variant="grid-ma+softsign", act="Softsign"))
            for c in sub(sel, 25):
                groups = [A.cgroup(c[k]["lo"], c[k]["hi"], "tanh", "exact", True, [c[k]["rows"][0]]) for k in (0, 1)]
                add(A.run_ma_cont(zoo, alg, groups, training=training, single=True, variant="grid-ma"))
    # ---------------------------------------------------------------- IPPO
    sel = [c for c in G.ma_disc if c[0]["rows"][0]["explore"] == 1]
    sel = sub(sel, 3)
    for training in (True, False):
        for form in ("list", "ndarray"):
            use = sel if form == "list" else sel[:K]
            for i, ch in enumerate(A.chunks(use, K)):
                if len(ch) < K:
                    ch = ch + use[: K - len(ch)]
                # the second member of the homogeneous pair gets rows from the other end of TLC's grid: other masks than the first
                ch2 = [use[(len(use) - 1 - i * K - j * 5) % len(use)] for j in range(K)]
                groups = [A.dgroup([3], False, [c[1]["rows"][0] for c in ch]), A.dgroup([3], False, [c[1]["rows"][0] for c in ch2]),
                          A.dgroup([2], False, [c[0]["rows"][0] for c in ch])]
                add(A.run_ippo(zoo, groups, training=training, mask_form=form))
                if i % 4 == 0:
                    add(A.run_ippo(zoo, groups, training=training, mask_form=form, variant=f"mask-{form}+infos-reversed"))

    # IPPO over Box action spaces: a homogeneous pair with bounds A and a third agent with bounds B (another dimension); in
    # evaluation mode every agent's action lies inside ITS OWN bounds
    for training in (True, False):
        req = "free" if training else "inb"
        rowsA = G.cont.get((tuple(A.LO_A), tuple(A.HI_A), "none", req, False), [])
        rowsB = [A.crow(x["x"], [0]) for x in G.cont.get((tuple(A.LO_B), tuple(A.HI_B), "none", "exact", False), [])]
        if rowsA and rowsB:
            for i, ch in enumerate(list(A.chunks(rowsA, 8))[:(3 if quick else None)]):
                if len(ch) < 8:
                    ch = ch + rowsA[: 8 - len(ch)]
                ch2 = [rowsA[(len(rowsA) - 1 - i * 8 - j * 3) % len(rowsA)] for j in range(8)]
                chB = [rowsB[(i * 8 + j) % len(rowsB)] for j in range(8)]
                add(A.run_ippo_cont(zoo, [A.cgroup(A.LO_A, A.HI_A, "none", req, False, ch), A.cgroup(A.LO_A, A.HI_A, "none", req, False, ch2),
                                          A.cgroup([-4], [12], "none", req, False, chB)], training=training))      # IPPO wants a positive upper bound
    # bounds that float32 cannot represent (a Box of dtype float64): the action as returned is inside the space
    f64_fails, f64_rows = A.check_f64_bounds(ctx.seed)
    for f in f64_fails:
        ctx.violation(f["sig"], f["what"], f["replay"])
    ctx.case(("f64-bounds", "DDPG/TD3"))
    ctx.extra["f64_bound_rows"] = f64_rows
    ctx.extra["calls_recorded"] = len(traces)
    ctx.extra["share_encoders_used"] = dict(zoo.shared)
    ctx.extra["calls_by_algorithm"] = {}
    for t in traces:
        k = t["cfg"]["alg"]
        ctx.extra["calls_by_algorithm"][k] = ctx.extra["calls_by_algorithm"].get(k, 0) + 1
    for idx in (0, len(traces) // 2, len(traces) - 1):
        t = traces[idx]
        ctx.sample({"cfg": {k: v for k, v in t["cfg"].items() if k != "call"},
                    "group1": {k: (v if k != "rows" else v[:2]) for k, v in t["cfg"]["call"][0].items()},
                    "event1": {k: (v[:2] if isinstance(v, list) else v) for k, v in t["ev"][0].items()}})
    ctx.validate("ActionSel_Trace", TRACE_CFG, traces, sig=sig, what=what, chunk=1500)

    ctx.assume("the policy network's forward (DQN/Rainbow/CQN actor, bandit value, PPO/IPPO logits head, DDPG/TD3/MADDPG/MATD3 actor head "
               "incl. its output activation) is replaced by a stub returning the grid row; only the order of discrete values matters "
               "(levels -2..2 are mapped to -1e30,-1,0,1,1e30 for q-values, to -1e6..1e6 for logits, to 0..1 for softmax outputs)")
    ctx.assume("exploration off = epsilon 0 (DQN, CQN), always (RainbowDQN), gamma=1e-30 (NeuralUCB/NeuralTS: bonus below float resolution), "
               "training=False (MADDPG/MATD3); PPO/IPPO have no greedy mode and are only required to be legal")
    ctx.assume("continuous values are dyadic (units of 1/8) so float32 rescale/clip results are exact; Gaussian exploration noise of "
               "DDPG/TD3/MADDPG/MATD3 is scripted (numpy.random.normal / torch.normal patched in the driver); OU noise and PPO sampling use "
               "the library's seeded draws and only the bounds are demanded there")
    ctx.assume("a single (unbatched) observation may be answered with or without a batch dimension of one; trailing singleton "
               "dimensions (MATD3 (B,1), PPO Box(1,) -> (B,1,1)) are accepted: rows are reshaped to the space's shape before contains()")
    ctx.assume("MultiBinary masks: a masked component cannot be switched on (the all-zero action is always legal)")
    ctx.assume("zero-draw variant: torch.rand_like / numpy.random.uniform return exactly 0.0 (a value of their range [0,1)) for every action")
    ctx.assume("PPO/DDPG/TD3 are constructed with share_encoders=False when the default cannot be constructed under Python 3.12")
    rule = ("case = (algorithm, mode, variant, observation kind, action-space kind/sizes/bounds, single|batched, row) where row = "
            "(value levels, mask, exploration flag, env-defined action, raw output, noise) taken from TLC's grid; distinct = distinct "
            "tuples; non-trivial = some action masked, or a tie between values, or a continuous row, or an env-defined action")
    return "model_checking", rule, False


def replay(path):
    """./check C14 --replay PATH: re-execute the recorded call on the real agent, validate it again through TLC."""
    import torch

    from .. import trace as trace_mod
    from ..drive import actionsel as A

    torch.set_num_threads(1)
    rp = json.loads(open(path).read())
    r = rp["replay"]
    print(f"replaying {rp['signature']}")
    if r.get("kind") != "rejected-trace":
        print(str(r.get("text", ""))[:6000])
        return 1
    old = r["trace"]
    new = A.rerun(old["cfg"], seed=rp.get("seed", 0))
    for k, (g, e0, e1) in enumerate(zip(old["cfg"]["call"], old["ev"], new["ev"]), start=1):
        print(f"-- agent/group {k}: kind={g['kind']} single={g['single']} sizes={g['sizes']} lo={g['lo']} hi={g['hi']} mode={g['mode']} req={g['req']}")
        print(f"   recorded: exc={e0['exc']!r} shape={e0['shape']} width={e0['width']}   now: exc={e1['exc']!r} shape={e1['shape']} width={e1['width']}")
        for i, row in enumerate(g["rows"][:12]):
            o0 = e0["outs"][i] if i < len(e0["outs"]) else None
            o1 = e1["outs"][i] if i < len(e1["outs"]) else None
            print(f"   row {i + 1}: in={ {kk: vv for kk, vv in row.items() if vv != []} }  recorded={o0}  now={o1}")
    v = trace_mod.validate("ActionSel_Trace", TRACE_CFG, [new])[0]
    print("TLC verdict on the re-execution:", "ACCEPTED" if v.accepted else f"REJECTED at group {v.step}: {v.clauses or v.invariant}")
    return 0 if v.accepted else 1
