"""Driver for C03 / C04: architecture mutations on the REAL evolvable modules and networks.

Two kinds of walks, both recorded as traces for specs/Arch_Trace.tla:

  replay(...)   M2: edges of the transition relation dumped by TLC (small bounds) are executed on a real
                module built with the same constructor arguments; arguments are passed explicitly where
                the API accepts them, otherwise the values the code draws from numpy are scripted (an
                *input* of the code under test) so that the intended edge is taken.
  walk(...)     M3: long seeded random walks over the advertised methods (getattr(net, name)()) of
                modules and networks with the default bounds; numpy draws are the code's own.

Each step records the architecture projected from the constructor description (init_dict) before and
after, the advertised methods, last_mutation_attr, the real parameter shapes and the implementation-side
obligations (strict rebuild, forward on batches 1..3, same function, clone equality) together with the
provenance of every parameter cell (C04): before the mutation every parameter cell is overwritten with a
unique float32-exact code, after it the codes are decoded.
"""
from __future__ import annotations

import copy
import random
from typing import Any, Dict, List, Optional

import numpy as np
import torch

NODE_DELTAS = [16, 32, 64]       # np.random.choice([16, 32, 64]) in mlp / lstm / simba
CHAN_DELTAS = [8, 16, 32]        # cnn / resnet channels, latent nodes


# ----------------------------------------------------------------------------------------------
# configuration record (Arch.tla `c`) from a real object's declared bounds, and projection
# ----------------------------------------------------------------------------------------------
def _mods():
    from agilerl.modules import (EvolvableCNN, EvolvableLSTM, EvolvableMLP, EvolvableMultiInput,
                                 EvolvableResNet, EvolvableSimBa)
    from agilerl.networks.base import EvolvableNetwork
    return dict(mlp=EvolvableMLP, cnn=EvolvableCNN, lstm=EvolvableLSTM, simba=EvolvableSimBa,
                resnet=EvolvableResNet, multi=EvolvableMultiInput, net=EvolvableNetwork)


def kind_of(m) -> str:
    M = _mods()
    for k in ("net", "multi", "cnn", "lstm", "simba", "resnet", "mlp"):
        if isinstance(m, M[k]):
            return k
    raise TypeError(type(m))


def _evolvable_subs(m):
    """(key, module) of the evolvable members of a multi-input module, in ModuleDict order."""
    from agilerl.modules.base import EvolvableModule
    return [(k, v) for k, v in m.feature_net.items() if isinstance(v, EvolvableModule)]


def _set_nolayer(c: dict):
    """layer mutations of an encoder are disabled inside a network (EvolvableNetwork.__init__)"""
    if c.get("kind") == "cnn":
        c["nolayer"] = True
    for s in c.get("subs", []):
        _set_nolayer(s["cfg"])


def cfg_of(m, nested: bool = False, head: bool = False, in_net: bool = False) -> dict:
    """nested members (encoder, head, multi-input members) take their output width (and the head its input width) from the
    enclosing latent width: those fields are 0 in their configuration records"""
    c = _cfg_of(m)
    if nested and "no" in c:
        c["no"] = 0
    if in_net:
        _set_nolayer(c)
    if head:
        c["ni"] = 0
    return c


def _cfg_of(m) -> dict:
    k = kind_of(m)
    if k == "mlp":
        return dict(kind="mlp", name=m.name, ni=int(m.num_inputs), no=int(m.num_outputs), minl=int(m.min_hidden_layers),
                    maxl=int(m.max_hidden_layers), minn=int(m.min_mlp_nodes), maxn=int(m.max_mlp_nodes), deltas=NODE_DELTAS,
                    ln=bool(m.layer_norm), oln=bool(m.output_layernorm), noisy=bool(m.noisy))
    if k == "cnn":
        sh = list(m.input_shape)
        depth = int(m.sample_input.shape[2]) if m.block_type == "Conv3d" else 0
        d = dict(kind="cnn", name=m.name, inc=int(sh[0]), inh=int(sh[-2]), depth=depth, no=int(m.num_outputs),
                 minl=int(m.min_hidden_layers), maxl=int(m.max_hidden_layers), minc=int(m.min_channel_size),
                 maxc=int(m.max_channel_size), deltas=CHAN_DELTAS, ln=bool(m.layer_norm), nolayer=False)
        if int(sh[-1]) != int(sh[-2]):
            d["inw"] = int(sh[-1])              # rectangular image (the field is absent for square ones)
        return d
    if k == "lstm":
        return dict(kind="lstm", name=m.name, ni=int(m.input_size), no=int(m.num_outputs), minl=int(m.min_layers), maxl=int(m.max_layers),
                    minn=int(m.min_hidden_size), maxn=int(m.max_hidden_size), deltas=NODE_DELTAS)
    if k == "simba":
        return dict(kind="simba", name=m.name, ni=int(m.num_inputs), no=int(m.num_outputs), minb=int(m.min_blocks), maxb=int(m.max_blocks),
                    minn=int(m.min_mlp_nodes), maxn=int(m.max_mlp_nodes), deltas=NODE_DELTAS, sf=int(m.scale_factor))
    if k == "resnet":
        sh = list(m.input_shape)
        return dict(kind="resnet", name=m.name, inc=int(sh[0]), inh=int(sh[-1]), no=int(m.num_outputs), k=int(m.kernel_size), s=int(m.stride_size),
                    minb=int(m.min_blocks), maxb=int(m.max_blocks), minc=int(m.min_channel_size), maxc=int(m.max_channel_size),
                    deltas=CHAN_DELTAS, sf=int(m.scale_factor))
    if k == "multi":
        subs = [dict(key=key, cfg=cfg_of(sm, nested=True)) for key, sm in _evolvable_subs(m)]
        fixed = int(m.total_vector_dims) * (0 if m.vector_space_mlp else 1)
        return dict(kind="multi", no=int(m.num_outputs), minlat=int(m.min_latent_dim), maxlat=int(m.max_latent_dim), ldeltas=CHAN_DELTAS,
                    fixed=fixed, subs=subs)
    # network
    from agilerl.networks.custom_modules import DuelingDistributionalMLP
    from agilerl.networks.q_networks import ContinuousQNetwork
    head = m.head_net
    wrapped = hasattr(head, "wrapped")
    hm = head.wrapped if wrapped else head
    logstd = int(head.log_std.shape[1]) if (wrapped and getattr(head, "log_std", None) is not None) else 0
    adv = int(hm.num_actions * hm.num_atoms) if isinstance(hm, DuelingDistributionalMLP) else 0
    hextra = int(m.num_actions) if isinstance(m, ContinuousQNetwork) else 0
    return dict(kind="net", minlat=int(m.min_latent_dim), maxlat=int(m.max_latent_dim), ldeltas=CHAN_DELTAS, enc=cfg_of(m.encoder, nested=True, in_net=True),
                head=cfg_of(hm, nested=True, head=True), hextra=hextra, hno=int(hm.num_outputs), hpath=("head_net._wrapped." if wrapped else "head_net."),
                logstd=logstd, adv=adv)


def _ints(x):
    return [int(v) for v in x]


def _leaf_arch(kind: str, d: dict) -> dict:
    """architecture of a leaf block from (a part of) a constructor description"""
    if kind == "mlp":
        return dict(h=_ints(d["hidden_size"]))
    if kind == "cnn":
        return dict(ch=_ints(d["channel_size"]), ks=[int(k[-1]) if isinstance(k, (tuple, list)) else int(k) for k in d["kernel_size"]],
                    st=_ints(d["stride_size"]))
    if kind == "lstm":
        return dict(l=int(d["num_layers"]), h=int(d["hidden_size"]))
    if kind == "simba":
        return dict(b=int(d["num_blocks"]), h=int(d["hidden_size"]))
    if kind == "resnet":
        return dict(b=int(d["num_blocks"]), c=int(d["channel_size"]))
    raise ValueError(kind)


def _enc_arch(c: dict, d: dict) -> dict:
    if c["kind"] == "multi":
        return dict(lat=int(d["latent_dim"]), subs=[_leaf_arch(s["cfg"]["kind"], d["init_dicts"][s["key"]]) for s in c["subs"]])
    return _leaf_arch(c["kind"], d)


def project(m, c: dict) -> dict:
    """architecture described by the constructor description (init_dict) of the real object"""
    d = m.init_dict
    if c["kind"] == "net":
        return dict(lat=int(d["latent_dim"]), enc=_enc_arch(c["enc"], d["encoder_config"]), head=_leaf_arch("mlp", d["head_config"]))
    return _enc_arch(c, d)


def shapes_of(m) -> Dict[str, List[int]]:
    return {n: [int(x) for x in p.shape] for n, p in m.named_parameters()}


def norm_names(m) -> List[str]:
    return [n for n, _ in m.named_parameters() if "norm" in n]


# ----------------------------------------------------------------------------------------------
# building real objects from TLC's configuration + architecture (M2) and from descriptors (M3)
# ----------------------------------------------------------------------------------------------
def _leaf_kwargs(c: dict, a: dict) -> dict:
    k = c["kind"]
    if k == "mlp":
        return dict(hidden_size=list(a["h"]), min_hidden_layers=c["minl"], max_hidden_layers=c["maxl"], min_mlp_nodes=c["minn"],
                    max_mlp_nodes=c["maxn"], layer_norm=c["ln"], noisy=c["noisy"])
    if k == "cnn":
        kw = dict(channel_size=list(a["ch"]), kernel_size=list(a["ks"]), stride_size=list(a["st"]), min_hidden_layers=c["minl"],
                  max_hidden_layers=c["maxl"], min_channel_size=c["minc"], max_channel_size=c["maxc"], layer_norm=c["ln"])
        if c["depth"]:
            kw.update(block_type="Conv3d", sample_input=torch.zeros(1, c["inc"], c["depth"], c["inh"], c.get("inw", c["inh"])))
        return kw
    if k == "lstm":
        return dict(hidden_size=a["h"], num_layers=a["l"], min_hidden_size=c["minn"], max_hidden_size=c["maxn"], min_layers=c["minl"], max_layers=c["maxl"])
    if k == "simba":
        return dict(hidden_size=a["h"], num_blocks=a["b"], min_blocks=c["minb"], max_blocks=c["maxb"], min_mlp_nodes=c["minn"],
                    max_mlp_nodes=c["maxn"], scale_factor=c["sf"])
    if k == "resnet":
        return dict(channel_size=a["c"], num_blocks=a["b"], kernel_size=c["k"], stride_size=c["s"], min_blocks=c["minb"], max_blocks=c["maxb"],
                    min_channel_size=c["minc"], max_channel_size=c["maxc"], scale_factor=c["sf"])
    raise ValueError(k)


def _multi_space(c: dict):
    from gymnasium import spaces
    d = {}
    nvec = c["fixed"]
    for s in c["subs"]:
        sc = s["cfg"]
        if sc["kind"] == "cnn":
            d[s["key"]] = spaces.Box(0.0, 1.0, (sc["inc"], sc["inh"], sc.get("inw", sc["inh"])), dtype=np.float32)
        elif sc["kind"] == "mlp":
            nvec = sc["ni"]
        elif sc["kind"] == "lstm":
            d[s["key"]] = spaces.Box(-1.0, 1.0, (3, sc["ni"]), dtype=np.float32)
    d["vec"] = spaces.Box(-1.0, 1.0, (nvec,), dtype=np.float32)
    return spaces.Dict(d)


def _multi_kwargs(c: dict, a: dict) -> dict:
    init_dicts = {}
    for s, sa in zip(c["subs"], a["subs"]):
        init_dicts[s["key"]] = _leaf_kwargs(s["cfg"], sa)
    vsm = any(s["cfg"]["kind"] == "mlp" for s in c["subs"])
    rec = any(s["cfg"]["kind"] == "lstm" for s in c["subs"])
    return dict(latent_dim=a["lat"], vector_space_mlp=vsm, init_dicts=init_dicts, min_latent_dim=c["minlat"], max_latent_dim=c["maxlat"], recurrent=rec)


def build(c: dict, a: dict):
    """the real object with configuration c (bounds) in architecture a"""
    M = _mods()
    from gymnasium import spaces
    k = c["kind"]
    if k == "mlp":
        return M["mlp"](num_inputs=c["ni"], num_outputs=c["no"], output_layernorm=c["oln"], name=c["name"], **_leaf_kwargs(c, a))
    if k == "cnn":
        return M["cnn"](input_shape=[c["inc"], c["inh"], c.get("inw", c["inh"])], num_outputs=c["no"], name=c["name"], **_leaf_kwargs(c, a))
    if k == "lstm":
        return M["lstm"](input_size=c["ni"], num_outputs=c["no"], name=c["name"], **_leaf_kwargs(c, a))
    if k == "simba":
        return M["simba"](num_inputs=c["ni"], num_outputs=c["no"], name=c["name"], **_leaf_kwargs(c, a))
    if k == "resnet":
        return M["resnet"](input_shape=[c["inc"], c["inh"], c.get("inw", c["inh"])], num_outputs=c["no"], name=c["name"], **_leaf_kwargs(c, a))
    if k == "multi":
        return M["multi"](observation_space=_multi_space(c), num_outputs=c["no"], **_multi_kwargs(c, a))
    # network: the class is chosen from the head of the configuration
    from agilerl.networks.actors import StochasticActor
    from agilerl.networks.q_networks import QNetwork
    e = c["enc"]
    if e["kind"] == "multi":
        obs = _multi_space(e)
        enc_cfg = _multi_kwargs(e, a["enc"])
    elif e["kind"] == "cnn":
        obs = spaces.Box(0.0, 1.0, (e["inc"], e["inh"], e.get("inw", e["inh"])), dtype=np.float32)
        enc_cfg = _leaf_kwargs(e, a["enc"])
    else:
        obs = spaces.Box(-1.0, 1.0, (e["ni"],), dtype=np.float32)
        enc_cfg = _leaf_kwargs(e, a["enc"])
    head_cfg = _leaf_kwargs(c["head"], a["head"])
    head_cfg.pop("noisy", None)
    kw = dict(encoder_config=enc_cfg, head_config=head_cfg, min_latent_dim=c["minlat"], max_latent_dim=c["maxlat"], latent_dim=a["lat"],
              simba=(e["kind"] == "simba"))
    if c["logstd"]:
        return StochasticActor(obs, spaces.Box(-1.0, 1.0, (c["logstd"],), dtype=np.float32), **kw)
    return QNetwork(obs, spaces.Discrete(c["hno"]), **kw)


# descriptors of the default-bound objects for the long walks -----------------------------------
def _obs_space(fam: str):
    from gymnasium import spaces
    if fam == "vector":
        return spaces.Box(-1.0, 1.0, (6,), dtype=np.float32)
    if fam == "image":
        return spaces.Box(0.0, 1.0, (3, 16, 16), dtype=np.float32)
    if fam == "sequence":
        return spaces.Box(-1.0, 1.0, (4, 5), dtype=np.float32)
    if fam == "dict":
        return spaces.Dict({"img": spaces.Box(0.0, 1.0, (3, 16, 16), dtype=np.float32), "vec": spaces.Box(-1.0, 1.0, (4,), dtype=np.float32)})
    if fam == "dictseq":
        return spaces.Dict({"seq": spaces.Box(-1.0, 1.0, (4, 5), dtype=np.float32), "vec": spaces.Box(-1.0, 1.0, (4,), dtype=np.float32)})
    if fam == "tuple":
        return spaces.Tuple((spaces.Box(0.0, 1.0, (3, 16, 16), dtype=np.float32), spaces.Box(-1.0, 1.0, (4,), dtype=np.float32)))
    raise ValueError(fam)


def _act_space(kind: str):
    from gymnasium import spaces
    return {"discrete": spaces.Discrete(3), "box": spaces.Box(-1.0, 1.0, (2,), dtype=np.float32),
            "multidiscrete": spaces.MultiDiscrete([2, 3]), "multibinary": spaces.MultiBinary(3)}[kind]


def make(desc: dict):
    """desc: {"what": block kind | network class name, ...}; default bounds unless stated (channels are capped at 64 so
    that every tensor can carry exact float32 codes)."""
    M = _mods()
    w = desc["what"]
    if w == "mlp":
        return M["mlp"](num_inputs=6, num_outputs=4, hidden_size=[64, 64], **desc.get("kw", {}))
    if w == "cnn":
        return M["cnn"](input_shape=[3, 24, 24], num_outputs=4, channel_size=[32], kernel_size=[3], stride_size=[1], max_channel_size=64,
                        **desc.get("kw", {}))
    if w == "cnnrect":          # tall and narrow / wide images: kernel limits follow the SMALLER side of every feature map
        h, wd = desc.get("hw", (48, 8))
        return M["cnn"](input_shape=[3, h, wd], num_outputs=4, channel_size=[32, 32], kernel_size=[3, 1], stride_size=[1, 1], max_channel_size=64,
                        **desc.get("kw", {}))
    if w == "cnn3d":
        return M["cnn"](input_shape=[3, 24, 24], num_outputs=4, channel_size=[32], kernel_size=[3], stride_size=[1], max_channel_size=64,
                        block_type="Conv3d", sample_input=torch.zeros(1, 3, 2, 24, 24), **desc.get("kw", {}))
    if w == "lstm":
        return M["lstm"](input_size=5, hidden_size=64, num_outputs=4, **desc.get("kw", {}))
    if w == "simba":
        return M["simba"](num_inputs=6, num_outputs=4, hidden_size=64, num_blocks=2, **desc.get("kw", {}))
    if w == "resnet":
        return M["resnet"](input_shape=[3, 8, 8], num_outputs=4, channel_size=32, kernel_size=3, stride_size=1, num_blocks=1, max_channel_size=64,
                           **desc.get("kw", {}))
    if w == "multi":
        kw = dict(desc.get("kw", {}))
        cnn_config = dict(channel_size=[16], kernel_size=[3], stride_size=[1], min_channel_size=16, max_channel_size=48)
        if desc.get("names"):                # feature extractors with names of their own (not the keys of the sub-spaces)
            cnn_config["name"] = desc["names"][0]
            if kw.get("vector_space_mlp"):
                kw["mlp_config"] = dict(hidden_size=[32], name=desc["names"][1])
        return M["multi"](observation_space=_obs_space(desc.get("obs", "dict")), num_outputs=4, cnn_config=cnn_config, **kw)
    from agilerl.networks.actors import DeterministicActor, StochasticActor
    from agilerl.networks.q_networks import ContinuousQNetwork, QNetwork, RainbowQNetwork
    from agilerl.networks.value_networks import ValueNetwork
    obs = _obs_space(desc["obs"])
    kw = dict(desc.get("kw", {}))
    if desc["obs"] == "image":
        kw.setdefault("encoder_config", dict(channel_size=[16, 16], kernel_size=[3, 3], stride_size=[1, 1], min_channel_size=16, max_channel_size=48))
    if desc["obs"] in ("dict", "tuple"):
        kw.setdefault("encoder_config", dict(cnn_config=dict(channel_size=[16], kernel_size=[3], stride_size=[1], min_channel_size=16, max_channel_size=48),
                                             vector_space_mlp=bool(desc.get("vsm", False))))
    if desc["obs"] == "sequence":
        kw["recurrent"] = True
        kw.setdefault("encoder_config", dict(hidden_size=32, num_layers=1))
    if w == "QNetwork":
        return QNetwork(obs, _act_space(desc.get("act", "discrete")), **kw)
    if w == "RainbowQNetwork":
        kw.pop("recurrent", None)
        return RainbowQNetwork(obs, _act_space("discrete"), support=torch.linspace(-2.0, 2.0, 5), num_atoms=5, **kw)
    if w == "ContinuousQNetwork":
        kw.pop("recurrent", None)
        return ContinuousQNetwork(obs, _act_space("box"), **kw)
    if w == "ValueNetwork":
        return ValueNetwork(obs, **kw)
    if w == "DeterministicActor":
        return DeterministicActor(obs, _act_space(desc.get("act", "box")), **kw)
    if w == "StochasticActor":
        return StochasticActor(obs, _act_space(desc.get("act", "box")), **kw)
    raise ValueError(w)


# ----------------------------------------------------------------------------------------------
# inputs, forward, obligations
# ----------------------------------------------------------------------------------------------
def _space_batch(space, B: int, g: torch.Generator):
    from gymnasium import spaces
    if isinstance(space, spaces.Dict):
        return {k: _space_batch(s, B, g) for k, s in space.spaces.items()}
    if isinstance(space, spaces.Tuple):
        return tuple(_space_batch(s, B, g) for s in space.spaces)
    return torch.rand((B, *space.shape), generator=g) * 2.0 - 1.0


def batch_for(m, c: dict, B: int, seed: int):
    g = torch.Generator().manual_seed(1000 + seed * 17 + B)
    k = c["kind"]
    if k in ("mlp", "simba"):
        return (torch.rand((B, c["ni"]), generator=g) * 2 - 1,)
    if k in ("cnn", "resnet"):
        if c.get("depth"):
            return (torch.rand((B, c["inc"], c["depth"], c["inh"], c.get("inw", c["inh"])), generator=g),)
        return (torch.rand((B, c["inc"], c["inh"], c.get("inw", c["inh"])), generator=g),)
    if k == "lstm":
        return (torch.rand((B, 3, c["ni"]), generator=g) * 2 - 1,)
    if k == "multi":
        x = _space_batch(m.observation_space, B, g)
        return (x,)
    from agilerl.networks.q_networks import ContinuousQNetwork
    x = _space_batch(m.observation_space, B, g)
    if isinstance(m, ContinuousQNetwork):
        return (x, torch.rand((B, m.num_actions), generator=g) * 2 - 1)
    return (x,)


def _copy_in(x):
    if isinstance(x, dict):
        return {k: v.clone() for k, v in x.items()}
    if isinstance(x, tuple):
        return tuple(v.clone() for v in x)
    return x.clone()


def run_forward(m, args, seed: int = 0):
    """outputs (tuple of tensors) in evaluation mode; sampling heads are seeded"""
    was = m.training
    m.eval()
    try:
        torch.default_generator.manual_seed(4242 + seed)
        with torch.no_grad():
            y = m(*[_copy_in(a) for a in args])
    finally:
        m.train(was)
    ys = y if isinstance(y, tuple) else (y,)
    return tuple(t for t in ys if t is not None)


def declared_shapes(m, c: dict, B: int):
    from gymnasium import spaces
    if c["kind"] != "net":
        return [(B, c["no"])]
    from agilerl.networks.actors import DeterministicActor, StochasticActor
    from agilerl.networks.q_networks import ContinuousQNetwork, QNetwork, RainbowQNetwork
    from agilerl.networks.value_networks import ValueNetwork
    if isinstance(m, (QNetwork, RainbowQNetwork)):
        return [(B, int(spaces.flatdim(m.action_space)))]
    if isinstance(m, (ContinuousQNetwork, ValueNetwork)):
        return [(B, 1)]
    if isinstance(m, DeterministicActor):
        return [(B, int(spaces.flatdim(m.action_space)))]
    if isinstance(m, StochasticActor):
        sp = m.action_space
        if isinstance(sp, spaces.Discrete):
            act = (B,)
        elif isinstance(sp, spaces.MultiDiscrete):
            act = (B, len(sp.nvec))
        elif isinstance(sp, spaces.MultiBinary):
            act = (B, int(sp.n))
        else:
            act = (B, *sp.shape)
        return [act, (B,), (B,)]            # action, log-probability, entropy (entropy absent for squashed outputs)
    raise TypeError(type(m))


def forward_ok(m, c: dict, seed: int):
    """batches of 1..3 observations -> finite outputs of the declared shape; returns (ok, detail)"""
    for B in (1, 2, 3):
        try:
            ys = run_forward(m, batch_for(m, c, B, seed), seed)
        except Exception as e:                                    # noqa: BLE001
            return False, f"forward(batch {B}) raised {type(e).__name__}: {str(e)[:200]}"
        want = [tuple(w) for w in declared_shapes(m, c, B)]
        got = [tuple(t.shape) for t in ys]
        if got != want[:len(got)] or len(got) < (2 if len(want) == 3 else len(want)):
            return False, f"forward(batch {B}) gave shapes {got}, declared {want}"
        if not all(bool(torch.isfinite(t.float()).all()) for t in ys):
            return False, f"forward(batch {B}) gave non-finite values"
    return True, ""


def rebuild_ok(m):
    try:
        r = type(m)(**copy.deepcopy(m.init_dict))
        r.load_state_dict(m.state_dict(), strict=True)
        return True, ""
    except Exception as e:                                        # noqa: BLE001
        return False, f"{type(e).__name__}: {str(e)[:300]}"


def probes(m, c: dict, seed: int):
    return [batch_for(m, c, B, seed + 7 * i) for i, B in enumerate((1, 2, 3))]


def outputs(m, ps, seed: int):
    return [run_forward(m, p, seed + i) for i, p in enumerate(ps)]


def same_outputs(a, b) -> bool:
    return len(a) == len(b) and all(len(x) == len(y) and all(p.shape == q.shape and torch.equal(p, q) for p, q in zip(x, y)) for x, y in zip(a, b))


def clone_ok(m, c: dict, seed: int):
    try:
        cl = m.clone()
        ps = probes(m, c, seed)
        if not same_outputs(outputs(m, ps, seed), outputs(cl, ps, seed)):
            return False, "clone()(x) != module(x)", cl
        return True, "", cl
    except Exception as e:                                        # noqa: BLE001
        return False, f"clone raised {type(e).__name__}: {str(e)[:200]}", None


# ----------------------------------------------------------------------------------------------
# provenance codes (C04)
# ----------------------------------------------------------------------------------------------
def randomise(m, seed: int):
    """'after the weights have been randomised/trained': every parameter and every floating buffer (running statistics of
    batch normalisation) gets seeded random values"""
    g = torch.Generator().manual_seed(77 + seed)
    with torch.no_grad():
        for _, p in m.named_parameters():
            p.data = (torch.rand(p.shape, generator=g) - 0.5).to(p.dtype) * 0.5
        for n, b in m.named_buffers():
            if b.dtype.is_floating_point and b.numel() > 0 and ("running_mean" in n or "running_var" in n):
                b.data = (torch.rand(b.shape, generator=g) * 0.5 + 0.5).to(b.dtype)


class Codes:
    """every parameter cell <- (ordinal + 1) * 2^bits + flat index (exact in float32)"""

    def __init__(self, m):
        ps = list(m.named_parameters())
        self.names = [n for n, _ in ps]
        self.saved = {n: p.data.clone() for n, p in ps}
        big = max([p.numel() for _, p in ps] + [2])
        self.bits = max(10, int(big - 1).bit_length())
        self.maxord = max(1, (1 << 24) // (1 << self.bits) - 1)
        self.exact = len(ps) <= self.maxord        # codes unique across tensors (else only within a tensor)
        with torch.no_grad():
            for o, (n, p) in enumerate(ps):
                base = float(((o % self.maxord) + 1) << self.bits)
                p.data = (torch.arange(p.numel(), dtype=torch.float64) + base).to(torch.float32).reshape(p.shape)
        self.ordinal = {n: o for o, n in enumerate(self.names)}
        self.shape = {n: tuple(p.shape) for n, p in ps}

    def code_tensor(self, n, box):
        """codes of tensor n restricted to the index box (a tuple of extents)"""
        shp = self.shape[n]
        base = float(((self.ordinal[n] % self.maxord) + 1) << self.bits)
        full = (torch.arange(int(np.prod(shp)) if shp else 1, dtype=torch.float64) + base).to(torch.float32).reshape(shp)
        return full[tuple(slice(0, b) for b in box)]

    def decode(self, m):
        """kept[name] = cells of the common box still carrying their own old code; then restore learned values:
        every cell that carries an old code gets the value that cell had, fresh cells keep their initialisation"""
        kept = {}
        with torch.no_grad():
            for n, p in m.named_parameters():
                if n in self.shape and len(self.shape[n]) == p.dim():
                    box = tuple(min(a, b) for a, b in zip(self.shape[n], p.shape))
                    sl = tuple(slice(0, b) for b in box)
                    kept[n] = int((p.data[sl] == self.code_tensor(n, box)).sum())
                elif n in self.shape:
                    kept[n] = 0
            # restore
            flat_saved = {((o % self.maxord) + 1): self.saved[n].reshape(-1) for n, o in self.ordinal.items()} if self.exact else None
            for n, p in m.named_parameters():
                d = p.data
                iscode = (d >= float(1 << self.bits)) & (d == d.round())
                if not bool(iscode.any()):
                    continue
                if self.exact:
                    v = d.to(torch.float64)
                    o = torch.div(v, float(1 << self.bits), rounding_mode="floor").to(torch.int64)
                    idx = (v - o.to(torch.float64) * float(1 << self.bits)).to(torch.int64)
                    out = d.clone()
                    for oo in torch.unique(o[iscode]).tolist():
                        src = flat_saved.get(int(oo))
                        sel = iscode & (o == oo)
                        if src is None:
                            continue
                        ii = idx[sel].clamp_(0, src.numel() - 1)
                        out[sel] = src[ii].to(d.dtype)
                    p.data = out
                elif n in self.saved and self.saved[n].dim() == d.dim():
                    # same-name source assumed (codes are only unique within a tensor)
                    src = self.saved[n].reshape(-1)
                    idx = (d.to(torch.float64) % float(1 << self.bits)).to(torch.int64)
                    out = d.clone()
                    out[iscode] = src[idx[iscode].clamp_(0, src.numel() - 1)].to(d.dtype)
                    p.data = out
        return kept


# ----------------------------------------------------------------------------------------------
# scripted numpy draws (inputs of the code under test)
# ----------------------------------------------------------------------------------------------
class Draws:
    """Replaces np.random.randint / np.random.choice while a mutation method runs.  Scripted values are handed out in
    order if they lie in the domain of the call, otherwise (or when the script is exhausted) a seeded value of the domain."""

    def __init__(self, ints=(), choices=(), seed=0):
        self.ints, self.choices = list(ints), list(choices)
        self.rng = random.Random(seed)
        self.log = []
        self.offscript = False

    def _randint(self, low, high=None, size=None, *a, **k):
        if high is None:
            low, high = 0, low
        low, high = int(low), int(high)
        if self.ints and low <= self.ints[0] < high:
            v = self.ints.pop(0)
        else:
            self.offscript = self.offscript or bool(self.ints)
            self.ints = []
            v = self.rng.randrange(low, high)
        self.log.append(("randint", low, high, v))
        return np.array([v] * (size if isinstance(size, int) else 1)) if size is not None else int(v)

    def _choice(self, seq, size=None, *a, **k):
        seq = list(seq)
        if self.choices and self.choices[0] in seq:
            v = self.choices.pop(0)
        else:
            self.offscript = self.offscript or bool(self.choices)
            self.choices = []
            v = self.rng.choice(seq)
        self.log.append(("choice", seq, v))
        return np.array([v] * (size if isinstance(size, int) else 1)) if size is not None else v

    def __enter__(self):
        self._ri, self._ch = np.random.randint, np.random.choice
        np.random.randint, np.random.choice = self._randint, self._choice
        return self

    def __exit__(self, *exc):
        np.random.randint, np.random.choice = self._ri, self._ch
        return False


def has3d(c: dict) -> bool:
    if c.get("kind") == "cnn":
        return bool(c.get("depth"))
    return any(has3d(x) for x in ([c.get("enc")] if c.get("enc") else []) + [s["cfg"] for s in c.get("subs", [])])


def _leaf_name(applied: str) -> str:
    return applied.split(".")[-1]


def plan_call(act: dict, rnd: random.Random, allow_explicit: bool = True, explicit_kernel: bool = True):
    """how to make the real code take the edge act = [m, applied, args]: (kwargs, scripted ints, scripted choices)"""
    m, applied, a = act["m"], act["applied"], act["args"]
    leaf = _leaf_name(applied)
    direct = applied == m
    explicit = direct and allow_explicit and rnd.random() < 0.5
    l, k, s = a["l"], a["k"], a["s"]
    if leaf in ("add_node", "remove_node", "add_channel", "remove_channel"):
        has_layer = l > 0
        argname = "numb_new_nodes" if "node" in leaf else "numb_new_channels"
        if explicit:
            kw = {argname: k}
            if has_layer:
                kw["hidden_layer"] = l - 1
            return kw, [], []
        return {}, ([l - 1] if has_layer else []), [k]
    if leaf in ("add_latent_node", "remove_latent_node"):
        return ({"numb_new_nodes": k}, [], []) if explicit else ({}, [], [k])
    if leaf == "change_kernel":
        if direct and not (2 <= l <= 4):             # the first layer / layers beyond the fourth are never drawn: name them
            explicit = True
        if explicit:
            if explicit_kernel and rnd.random() < 0.5:
                return {"hidden_layer": l - 1, "kernel_size": k}, [], []
            return {"hidden_layer": l - 1}, [k], []
        return {}, [l - 1, k], []
    if leaf == "add_layer" and k > 0:                # cnn: kernel then stride are drawn
        return {}, [k, s], []
    return {}, [], []


# ----------------------------------------------------------------------------------------------
# one observed step
# ----------------------------------------------------------------------------------------------
def _adv(m):
    return sorted(str(x) for x in m.mutation_methods)


def do_step(m, c: dict, method, *, kwargs=None, draws: Optional[Draws] = None, seed: int = 0, clone_first: bool = False):
    """apply one mutation to the real object (optionally to a fresh clone, as Mutations.architecture_mutate does) and
    record the event.  `method` is a name or a function choosing one from the methods the object to be mutated
    advertises.  Returns (event, object to continue with)."""
    ev: Dict[str, Any] = {"m": method if isinstance(method, str) else "?", "cloned": bool(clone_first), "clone_failed": False}
    orig = m
    if clone_first:
        try:
            m = m.clone()
        except Exception as e:                                    # noqa: BLE001
            # the clone that precedes the mutation (Mutations.architecture_mutate) cannot even be built
            a = project(m, c)
            sh = shapes_of(m)
            ev.update(m=(method if isinstance(method, str) else "clone"), pre=a, post=a, adv=_adv(m), spre=sh, spost=sh, kept={}, norm=norm_names(m), applied="None", ret={},
                      raised=f"clone() before the mutation raised {type(e).__name__}: {str(e)[:200]}", codes_exact=True, clone_failed=True,
                      ob=dict(rebuild=False, forward=False, samefn=False, clone=False), detail={})
            return ev, m
    try:
        project(m, c)
    except Exception as e:                                        # noqa: BLE001
        # the clone is not an instance of the configuration any more (a sub-module went missing / was renamed)
        a = project(orig, c)
        sh = shapes_of(orig)
        ev.update(m=(method if isinstance(method, str) else "clone"), pre=a, post=a, adv=_adv(orig), spre=sh, spost=sh, kept={}, norm=norm_names(orig),
                  applied="None", ret={}, codes_exact=True, clone_failed=True,
                  raised=f"clone() before the mutation returned a different kind of module: constructor description lacks {type(e).__name__}: {str(e)[:160]}",
                  ob=dict(rebuild=False, forward=False, samefn=False, clone=False), detail={})
        return ev, orig
    randomise(m, seed)
    ev["pre"] = project(m, c)
    ev["bn"] = any(k.endswith("running_mean") for k, _ in m.named_buffers())        # BatchNorm layers present
    ev["adv"] = _adv(m)
    if not isinstance(method, str):
        method = method(ev["adv"])
        ev["m"] = method
    ev["spre"] = shapes_of(m)
    ps = probes(m, c, seed)
    try:
        y_pre = outputs(m, ps, seed)
    except Exception:                                             # noqa: BLE001  (a broken pre-state shows up at the previous step)
        y_pre = None
    codes = Codes(m)
    raised = ""
    ret = None
    if callable(kwargs):
        kwargs = kwargs(m, method)
        ev["explicit"] = {k: int(v) for k, v in kwargs.items()}
    try:
        fn = getattr(m, method)
        if draws is not None:
            with draws:
                ret = fn(**(kwargs or {}))
        else:
            ret = fn(**(kwargs or {}))
    except Exception as e:                                        # noqa: BLE001
        raised = f"{type(e).__name__}: {str(e)[:240]}"
    ev["raised"] = raised
    ev["ret"] = {k: (int(v) if isinstance(v, (int, np.integer)) else str(v)) for k, v in (ret or {}).items()} if isinstance(ret, dict) else {}
    ev["applied"] = str(m.last_mutation_attr) if m.last_mutation_attr is not None else "None"
    try:
        ev["kept"] = codes.decode(m)
    except Exception as e:                                        # noqa: BLE001
        ev["kept"] = {}
        ev["decode_error"] = f"{type(e).__name__}: {str(e)[:200]}"
    ev["codes_exact"] = codes.exact
    try:
        ev["post"] = project(m, c)
    except Exception as e:                                        # noqa: BLE001
        ev["post"] = ev["pre"]
        ev["raised"] = ev["raised"] or f"constructor description unreadable: {type(e).__name__}: {str(e)[:200]}"
    ev["spost"] = shapes_of(m)
    ev["norm"] = norm_names(m)
    ob = {}
    det = {}
    ob["rebuild"], det["rebuild"] = rebuild_ok(m)
    ob["forward"], det["forward"] = forward_ok(m, c, seed)
    try:
        y_post = outputs(m, ps, seed)
        ob["samefn"] = bool(y_pre is not None and same_outputs(y_pre, y_post))
    except Exception as e:                                        # noqa: BLE001
        ob["samefn"] = False
        det["samefn"] = f"{type(e).__name__}: {str(e)[:200]}"
    ob["clone"], det["clone"], _ = clone_ok(m, c, seed)
    ev["ob"] = ob
    ev["detail"] = {k: v for k, v in det.items() if v}
    if draws is not None:
        ev["draws"] = [list(map(str, d)) for d in draws.log]
    return ev, m


def _trace(c, events, **meta):
    return {"cfg": dict(c=c, **meta), "ev": events}


# ----------------------------------------------------------------------------------------------
# M2: replay paths of the dumped relation
# ----------------------------------------------------------------------------------------------
def replay(c: dict, path: List[dict], seed: int, inst: str, mode: str) -> dict:
    """path: list of edges {from, act, to}. mode: "cm" = clone before every mutation (the HPO protocol),
    "ip" = mutate the same object in place.  Returns a trace; stops at the first step the code does not follow."""
    torch.set_num_threads(1)
    rnd = random.Random(seed)
    torch.default_generator.manual_seed(seed)
    m = build(c, path[0]["from"])
    real_c = cfg_of(m)
    events = []
    covered = []
    stale = False          # a latent mutation re-created the sub-modules of this very object (no clone since)
    for i, e in enumerate(path):
        kw, ints, chs = plan_call(e["act"], rnd, explicit_kernel=not has3d(c))
        d = Draws(ints, chs, seed=seed * 1000 + i)
        ev, m = do_step(m, c, e["act"]["m"], kwargs=kw, draws=d, seed=seed * 1000 + i, clone_first=(mode == "cm"))
        ev["want"] = {"applied": e["act"]["applied"], "args": e["act"]["args"], "to": e["to"], "explicit": bool(kw)}
        ev["after_latent"] = bool(stale and not ev["cloned"])
        stale = (stale and not ev["cloned"]) or _leaf_name(ev["m"]) in ("add_latent_node", "remove_latent_node")
        events.append(ev)
        ok = ev["raised"] == "" and ev["post"] == e["to"] and ev["applied"] == e["act"]["applied"] and ev["pre"] == e["from"]
        covered.append(bool(ok))
        if not ok:
            break
    return {"cfg": dict(c=c, inst=inst, mode=mode, seed=seed, real_c_equal=(real_c == c), real_c=(None if real_c == c else real_c)),
            "ev": events, "covered": covered}


def replay_many(jobs):
    return [replay(*j) for j in jobs]


# ----------------------------------------------------------------------------------------------
# M3: long random walks
# ----------------------------------------------------------------------------------------------
def explicit_args(rnd: random.Random, p: float = 0.35):
    """argument choices for a walk step: with probability p the caller names the layer and / or the amount itself
    (the values the code would draw from), otherwise everything is left to the method's own draws"""
    import inspect

    def choose(m, method):
        if rnd.random() >= p:
            return {}
        owner = m
        for part in method.split(".")[:-1]:
            owner = getattr(owner, part, None)
            if owner is None:
                return {}
        owner = getattr(owner, "wrapped", owner) if not hasattr(owner, method.split(".")[-1]) else owner
        try:
            params = inspect.signature(getattr(m, method)).parameters
        except (TypeError, ValueError, AttributeError):
            return {}
        leaf = _leaf_name(method)
        kw = {}
        widths = getattr(owner, "hidden_size", None) if "node" in leaf else getattr(owner, "channel_size", None)
        if "hidden_layer" in params and isinstance(widths, (list, tuple)) and len(widths) > 0 and rnd.random() < 0.8:
            if leaf != "change_kernel" or len(widths) > 1:
                kw["hidden_layer"] = rnd.randrange(len(widths))
        if "numb_new_nodes" in params and rnd.random() < 0.7:
            kw["numb_new_nodes"] = rnd.choice([8, 16, 32] if "latent" in leaf else [16, 32, 64])
        if "numb_new_channels" in params and rnd.random() < 0.7:
            kw["numb_new_channels"] = rnd.choice([8, 16, 32])
        return kw
    return choose


def walk(desc: dict, depth: int, seed: int, mode: str) -> dict:
    """mode "cm": every step clones first (clone-and-mutate chain); "ip": in place; "mix": a seeded coin per step."""
    torch.set_num_threads(1)
    rnd = random.Random(seed)
    np.random.seed(seed % (2 ** 32))
    torch.default_generator.manual_seed(seed)
    m = make(desc)
    c = cfg_of(m)
    events = []
    stale = False
    choose = explicit_args(rnd)
    for i in range(depth):
        cf = mode == "cm" or (mode == "mix" and rnd.random() < 0.5)
        prefer = desc.get("prefer")

        def pick(adv):
            fav = [x for x in adv if prefer and _leaf_name(x) in prefer]
            return rnd.choice(fav) if (fav and rnd.random() < 0.7) else rnd.choice(adv)
        ev, m = do_step(m, c, pick, kwargs=choose, seed=seed * 1000 + i, clone_first=cf)
        ev["after_latent"] = bool(stale and not ev["cloned"])
        stale = (stale and not ev["cloned"]) or _leaf_name(ev["m"]) in ("add_latent_node", "remove_latent_node")
        events.append(ev)
        if ev["raised"] or not ev["ob"]["rebuild"] or not ev["ob"]["forward"] or (ev["after_latent"] and ev["applied"] == "None"):
            break                          # the object is broken: what follows says nothing
    return {"cfg": dict(c=c, inst=desc_name(desc), mode=mode, seed=seed, desc=desc), "ev": events}


def desc_name(desc: dict) -> str:
    s = desc["what"]
    for k in ("obs", "act"):
        if k in desc:
            s += "/" + str(desc[k])
    if desc.get("tag"):
        s += "/" + desc["tag"]
    return s


def walk_many(jobs):
    return [walk(*j) for j in jobs]


# ==============================================================================================
# orchestration shared by vfw/props/c03.py and vfw/props/c04.py (each check runs all of it on its own)
# ==============================================================================================
TRACE_CFG = """SPECIFICATION TSpec
CONSTANTS
  Cfg <- NoCfg
  Inits <- NoInits
  Diag = @DIAG@
CHECK_DEADLOCK FALSE
"""
KEEP = ("pre", "post", "m", "applied", "adv", "raised", "spre", "spost", "kept", "norm", "ob", "clone_failed")

# instance -> (MC cfg, dump cfg); the MC configurations decide the spec-level clauses, the dumps feed the replay
MC_QUICK = ["mlp", "cnnd", "cnn3", "cnns", "lstm", "simba", "resnet", "multiv", "net", "netc"]
MC_MORE = ["mlpn", "cnn", "multi"]
# instance -> number of replayed steps in the quick tier (None = every edge)
REPLAY_QUICK = {"mlp": 450, "cnnd": 400, "cnn3": 250, "lstm": None, "simba": None, "resnet": None, "multiv": 300, "net": 500, "netc": 300}
REPLAY_MORE = ["mlpn", "cnns", "multi"]

CLAUSE_TAGS = [
    ("the walk is a chain", "chain"),
    ("the architecture before the step is well formed", "pre-malformed"),
    ("every mutation method of the configuration is advertised", "advertised-set-missing"),
    ("only mutation methods of the configuration are advertised", "advertised-set-extra"),
    ("the called method was advertised", "called-unadvertised"),
    ("the mutation returns without raising", "raised"),
    ("the constructor description changed only", "advertised-change"),
    ("last_mutation_attr names", "applied-attr"),
    ("layers, nodes, channels", "bounds"),
    ("every kernel fits", "feature-map"),
    ("the real parameter tensors are those of the described architecture", "shapes"),
    ("the constructor description rebuilds", "rebuild"),
    ("batches of 1..3", "forward"),
    ("no surviving tensor changes rank", "rank"),
    ("every surviving weight keeps", "weights-lost"),
    ("an unchanged architecture computes", "noop-samefn"),
    ("the clone reproduces", "clone"),
    ("normalisation weights whose shape did not change", "norm-lost"),
    ("every surviving normalisation weight", "norm-reinit"),
]


def walk_descs(quick: bool) -> List[dict]:
    ds = [dict(what=w) for w in ("mlp", "cnn", "cnn3d", "lstm", "simba", "resnet")]
    ds += [dict(what="multi", obs="dict", kw=dict(vector_space_mlp=True), tag="vsm"), dict(what="multi", obs="tuple"),
           dict(what="multi", obs="dictseq", kw=dict(recurrent=True), tag="lstm"),
           dict(what="multi", obs="dict", kw=dict(vector_space_mlp=True), names=["vision", "vmlp"], tag="named"),
           # non-default constructor switches that every rebuild has to carry along
           dict(what="cnnrect", hw=(48, 8), tag="tall", prefer=["change_kernel", "add_layer"]),
           dict(what="cnnrect", hw=(8, 40), tag="wide", prefer=["change_kernel", "add_layer"]),
           dict(what="mlp", kw=dict(activation="GELU", new_gelu=True), tag="newgelu"),
           dict(what="mlp", kw=dict(activation="Tanh", output_activation="Sigmoid", layer_norm=False, output_vanish=False, init_layers=False), tag="switches")]
    for cls in ("QNetwork", "RainbowQNetwork", "ContinuousQNetwork", "ValueNetwork", "DeterministicActor", "StochasticActor"):
        for obs in ("vector", "image", "dict", "tuple", "sequence"):
            if obs == "sequence" and cls in ("RainbowQNetwork", "ContinuousQNetwork"):
                continue
            if quick and obs == "tuple" and cls not in ("QNetwork", "StochasticActor"):
                continue
            ds.append(dict(what=cls, obs=obs))
    ds += [dict(what="QNetwork", obs="vector", kw=dict(simba=True), tag="simba"),
           dict(what="QNetwork", obs="image", tag="resnet",
                kw=dict(encoder_cls="ResNet", encoder_config=dict(input_shape=[3, 16, 16], channel_size=32, kernel_size=3, stride_size=1,
                                                                  num_blocks=1, max_channel_size=64))),
           dict(what="StochasticActor", obs="vector", act="discrete"),
           dict(what="StochasticActor", obs="vector", act="multidiscrete"),
           dict(what="StochasticActor", obs="vector", act="multibinary"),
           dict(what="DeterministicActor", obs="vector", act="discrete"),
           dict(what="QNetwork", obs="dict", vsm=True, tag="vsm")]
    return ds


def _mc_register(ctx, res, must_cover=("Direct", "Fallback", "Stopped")):
    """bookkeeping of Ctx.mc for model-checking runs that were executed in threads"""
    from ..core import Vacuous
    out = {}
    for n, r in res:
        out[n] = r
        ctx.states += r.distinct
        ctx.transitions += r.generated
        ctx.mc_runs.append({"module": "Arch_MC", "cfg": f"Arch_MC_{n}.cfg", "distinct_states": r.distinct, "states_generated": r.generated,
                            "depth": r.depth, "wall_s": round(r.wall_s, 2), "ok": r.ok,
                            "action_coverage": {k: v for k, v in r.coverage.items() if k in ("Init",) + tuple(must_cover)}})
        if not r.ok:
            ctx.violation(f"tlc:Arch_MC/{n}:{r.violated_name}", f"TLC: {r.violated_name} violated in Arch_MC ({n})",
                          {"kind": "tlc-counterexample", "module": "Arch_MC", "cfg": f"Arch_MC_{n}.cfg", "text": r.violation})
            continue
        for a in must_cover:
            if r.coverage.get(a, 0) == 0:
                raise Vacuous(f"step class {a} of Arch_MC never taken under Arch_MC_{n}.cfg (coverage {r.coverage})")
    return out


def _select_paths(rel, paths, limit: Optional[int], rnd: random.Random):
    """all paths, or a seeded sample that still contains every (method, applied) class of the relation"""
    if limit is None:
        return paths
    cls = lambda n: (rel.edges[n]["act"]["m"], rel.edges[n]["act"]["applied"], rel.edges[n]["from"] == rel.edges[n]["to"])
    order = list(range(len(paths)))
    rnd.shuffle(order)
    need = {cls(n) for p in paths for n in p}
    chosen, steps = [], 0
    for i in order:                                   # first: class cover
        new = {cls(n) for n in paths[i]} & need
        if new:
            chosen.append(i)
            need -= new
            steps += len(paths[i])
        if not need:
            break
    for i in order:
        if steps >= limit:
            break
        if i not in chosen:
            chosen.append(i)
            steps += len(paths[i])
    return [paths[i] for i in sorted(chosen)]


def _fm_bad(c, a) -> bool:
    """selection helper only (never a verdict): some kernel of a cnn architecture does not fit"""
    x = c["inh"]
    for k, s in zip(a["ks"], a["st"]):
        if k > x:
            return True
        x = (x - k) // s + 1
    return False


def collect(ctx, prop: str) -> List[dict]:
    """M1 (parallel), M2 dumps + replay, M3 walks.  Returns the list of single-step traces for Arch_Trace."""
    import json as _json
    from concurrent.futures import ProcessPoolExecutor, ThreadPoolExecutor
    from .. import tlc
    from ..relation import Relation

    import time as _time
    quick = ctx.quick
    rnd = random.Random(ctx.seed)
    tm = ctx.extra.setdefault("timing_s", {})
    t0 = _time.time()
    # ---- M1 (TLC runs in background threads while the relations are dumped and replayed)
    mc_names = MC_QUICK + ([] if quick else MC_MORE)
    mc_pool = ThreadPoolExecutor(max_workers=3)
    mc_futs = [(n, mc_pool.submit(tlc.model_check, "Arch_MC", f"Arch_MC_{n}.cfg", workers=3, timeout=1500)) for n in mc_names]
    # ---- M2: dump the relations
    insts = dict(REPLAY_QUICK)
    if not quick:
        insts = {k: None for k in list(REPLAY_QUICK) + REPLAY_MORE}

    def dump(n):
        return n, tlc.dump("Arch_Dump", f"Arch_Dump_{n}.cfg", timeout=900)
    with ThreadPoolExecutor(max_workers=6) as ex:
        dumps = dict(ex.map(dump, list(insts)))
    jobs = []
    rel_info = {}
    for n, r in dumps.items():
        c = r.tagged["CFG"][0]
        edges = r.tagged["TR"]
        states = list({_json.dumps(e["from"], sort_keys=True): e["from"] for e in edges}.values())
        rel = Relation(edges, states)              # every reachable architecture is also a constructible start
        paths = rel.cover_paths(max_extra=8)
        sel = _select_paths(rel, paths, insts[n], rnd)
        rel_info[n] = {"edges": len(edges), "states": len(states), "cover_paths": len(paths), "paths_replayed": len(sel),
                       "tlc_distinct": r.distinct, "complete": insts[n] is None}
        for i, p in enumerate(sel):
            jobs.append(("replay", (c, [rel.edges[k] for k in p], ctx.seed * 100003 + len(jobs), n, "cm" if (i % 3) else "ip")))
    if prop == "C03":
        # arbitrary constructible cnn architectures on 8x8 images: TLC's counterexamples to FeatureMapPositive are
        # replayed on the real CNN (the specification alone is not a verdict)
        ra = tlc.run_tlc("Arch_MC", "Arch_MC_cnnany.cfg", coverage=False, workers=4, timeout=600)
        ctx.extra["cnnany_spec_counterexample"] = (not ra.ok) and ra.violated_name
        ctx.mc_runs.append({"module": "Arch_MC", "cfg": "Arch_MC_cnnany.cfg", "distinct_states": ra.distinct, "states_generated": ra.generated,
                            "depth": ra.depth, "wall_s": round(ra.wall_s, 2), "ok": ra.ok, "note": "suspect generator, verdict by replay"})
        if not ra.ok:
            da = tlc.dump("Arch_Dump", "Arch_Dump_cnnany.cfg", timeout=600)
            ca = da.tagged["CFG"][0]
            bad = [e for e in da.tagged["TR"] if not _fm_bad(ca, e["from"]) and _fm_bad(ca, e["to"])]
            rnd.shuffle(bad)
            rel_info["cnnany"] = {"edges": len(da.tagged["TR"]), "suspect_edges": len(bad)}
            for i, e in enumerate(bad[: (6 if quick else 60)]):
                jobs.append(("replay", (ca, [e], ctx.seed * 100003 + len(jobs), "cnnany", "cm" if i % 2 else "ip")))
    ctx.extra["relations"] = rel_info
    tm["dumps"] = round(_time.time() - t0, 1)
    t0 = _time.time()
    # ---- M3: long seeded walks with the default bounds
    descs = walk_descs(quick)
    depth = 10 if quick else 40
    for i, d in enumerate(descs):
        jobs.append(("walk", (d, depth, ctx.seed * 7919 + i, "cm")))
        if not quick or i % 4 == 0:
            jobs.append(("walk", (d, depth, ctx.seed * 7919 + 1000 + i, "ip")))
        if not quick:
            jobs.append(("walk", (d, depth, ctx.seed * 7919 + 2000 + i, "mix")))
    # longest jobs first, round-robin over 12 processes
    cost = lambda j: (len(j[1][1]) if j[0] == "replay" else 8 * j[1][1])
    order = sorted(range(len(jobs)), key=lambda k: -cost(jobs[k]))
    nproc = 12
    chunks = [[jobs[k] for k in order[i::nproc]] for i in range(nproc)]
    with ProcessPoolExecutor(max_workers=nproc) as ex:
        parts = list(ex.map(_run_jobs, chunks))
    results = [None] * len(jobs)
    for i in range(nproc):
        for k, res in zip(order[i::nproc], parts[i]):
            results[k] = res
    tm["real_code"] = round(_time.time() - t0, 1)
    t0 = _time.time()
    _mc_register(ctx, [(n, f.result()) for n, f in mc_futs])
    mc_pool.shutdown()
    tm["model_checking_wait"] = round(_time.time() - t0, 1)
    return _to_traces(ctx, prop, jobs, results)


def _run_jobs(jobs):
    import traceback
    out = []
    for kind, args in jobs:
        try:
            out.append(replay(*args) if kind == "replay" else walk(*args))
        except Exception:                                         # noqa: BLE001  (a harness failure, reported as such)
            out.append({"error": traceback.format_exc()[-2500:]})
    return out


def _to_traces(ctx, prop, jobs, results) -> List[dict]:
    from ..tlc import TLCError
    traces = []
    followed = {}
    for (kind, args), res in zip(jobs, results):
        if "error" in res:
            raise TLCError(f"harness failure in {kind} {str(args)[:300]}:\n{res['error']}")
        inst = res["cfg"]["inst"]
        if kind == "replay":
            if not res["cfg"]["real_c_equal"]:
                raise TLCError(f"the object built for instance {inst} does not declare TLC's configuration: {res['cfg']['real_c']} vs {res['cfg']['c']}")
            f = followed.setdefault(inst, [0, 0])
            f[0] += len(res["covered"])
            f[1] += sum(res["covered"])
        for i, ev in enumerate(res["ev"]):
            meta = dict(c=res["cfg"]["c"], prop=prop, inst=inst, kind=kind, mode=res["cfg"]["mode"], seed=res["cfg"]["seed"], step=i)
            hist = [{"m": e["m"], "cloned": e["cloned"], "ret": e.get("ret", {}), "applied": e["applied"], "pre": e["pre"],
                     **({"edge": {"from": e["pre"], "act": {"m": e["m"], "applied": e["want"]["applied"], "args": e["want"]["args"]},
                                  "to": e["want"]["to"]}} if "want" in e else {})} for e in res["ev"][: i + 1]]
            traces.append({"cfg": meta, "ev": [{k: ev[k] for k in KEEP}],
                           "full": {k: v for k, v in ev.items() if k not in ("spre", "spost", "kept", "norm", "adv")},
                           "history": hist, "desc": res["cfg"].get("desc"), "start": res["ev"][0]["pre"]})
    ctx.extra["replay_steps"] = {k: {"executed": v[0], "followed_the_edge": v[1]} for k, v in followed.items()}
    return traces


def tag_of(clause: str) -> str:
    for pre, t in CLAUSE_TAGS:
        if clause.startswith(pre):
            return t
    return "other"


def obj_of(t) -> str:
    return t["cfg"]["inst"].split("/")[0]


def signature(t, v) -> str:
    ev = t["full"]
    clause = v.clauses[0] if v.clauses else (v.invariant or "?")
    tag = tag_of(clause)
    base = f"arch:{t['cfg']['prop']}:{obj_of(t)}:{tag}"
    if tag == "norm-reinit":
        return base
    m = ev["m"]
    target = m.split(".")[0] if "." in m else ("latent" if "latent" in m else "self")
    if tag == "noop-samefn":
        # BatchNorm running statistics are reset when a network is rebuilt (known finding F-C04-2): marked so that other causes
        # of "an unchanged architecture computes another function" are not mistaken for it
        return f"{base}:{target}" + (":batchnorm" if ev.get("bn") else "")
    # in place on an object whose sub-modules were re-created by an earlier latent mutation (no clone since)
    qual = ":inplace-after-latent" if ev.get("after_latent") else ""
    exc = ""
    src = ev["raised"] if (tag == "raised" or (tag == "clone" and ev.get("clone_failed"))) else ev.get("detail", {}).get(tag, "")
    if src:
        exc = ":" + src.replace("clone() before the mutation raised ", "clone-").replace("clone() before the mutation returned a different kind of module", "clone-differs").replace("clone raised ", "").split(":")[0].strip().replace(" ", "-")[:40]
    return f"{base}:{target}{qual}{exc}"


def what(t, v) -> str:
    ev = t["full"]
    return (f"{t['cfg']['kind']} {t['cfg']['inst']} (mode {t['cfg']['mode']}, seed {t['cfg']['seed']}, step {t['cfg']['step']}): "
            f"{ev['m']}() on {'a fresh clone' if ev.get('cloned') else 'the object in place'} -> last_mutation_attr={ev['applied']}, "
            f"architecture {ev['pre']} -> {ev['post']}; failing clause: {v.clauses or v.invariant}; raised={ev['raised']!r}; "
            f"obligations={ev['ob']}; detail={ev.get('detail')}; returned={ev.get('ret')}")


def validate(ctx, traces: List[dict]):
    """Arch_Trace over all single-step traces, in parallel TLC runs; bookkeeping as Ctx.validate."""
    from concurrent.futures import ThreadPoolExecutor
    from .. import trace as trace_mod

    import time as _time
    t0 = _time.time()
    n = len(traces)
    k = max(1, min(6, n // 300))
    parts = [list(range(i, n, k)) for i in range(k)]

    def one(idx):
        vs = trace_mod.validate("Arch_Trace", TRACE_CFG, [{"cfg": traces[i]["cfg"], "ev": traces[i]["ev"]} for i in idx], chunk=4000, timeout=1500)
        return vs, dict(getattr(trace_mod.validate, "last_stats", {}))
    with ThreadPoolExecutor(max_workers=k) as ex:
        res = list(ex.map(one, parts))
    verdicts = [None] * n
    for idx, (vs, st) in zip(parts, res):
        for i, v in zip(idx, vs):
            verdicts[i] = v
    ctx.extra["trace_validation_runs"] = k
    ctx.extra.setdefault("timing_s", {})["trace_validation"] = round(_time.time() - t0, 1)
    for t, v in zip(traces, verdicts):
        ctx.traces_validated += 1
        if not v.accepted:
            ctx.violation(signature(t, v), what(t, v),
                          {"kind": "rejected-step", "module": "Arch_Trace", "cfg": t["cfg"], "desc": t["desc"], "start": t["start"],
                           "history": t["history"], "event": t["full"], "clauses": v.clauses, "invariant": v.invariant,
                           "how": "vfw.drive.arch.walk(desc, depth, seed, mode) / replay(c, path, seed, inst, mode) re-executes the chain"})
    return verdicts


def bookkeeping(ctx, traces: List[dict]):
    from ..core import Vacuous
    classes = set()
    methods: Dict[str, set] = {}
    for t in traces:
        ev = t["full"]
        e0 = t["ev"][0]
        ctx.case((t["cfg"]["inst"], str(e0["pre"]), ev["m"], ev["applied"], str(e0["post"]), bool(ev.get("cloned"))))
        classes.add("direct" if (ev["applied"] == ev["m"] and e0["pre"] != e0["post"]) else ("stopped" if ev["applied"] == ev["m"] else "fallback"))
        methods.setdefault(obj_of(t), set()).add(ev["m"])
    for need in ("direct", "stopped", "fallback"):
        if need not in classes:
            raise Vacuous(f"no observed step of class {need} in the validated traces")
    ctx.extra["objects_walked"] = {k: len(v) for k, v in sorted(methods.items())}
    ctx.extra["steps_observed"] = len(traces)
    for t in traces[:: max(1, len(traces) // 3)][:3]:
        ev = t["full"]
        ctx.sample({"object": t["cfg"]["inst"], "mode": t["cfg"]["mode"], "called": ev["m"], "applied": ev["applied"],
                    "before": t["ev"][0]["pre"], "after": t["ev"][0]["post"], "obligations": ev["ob"],
                    "kept_cells": dict(list(t["ev"][0]["kept"].items())[:4])})
