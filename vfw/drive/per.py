"""Driver for C11: real PrioritizedReplayBuffer, exact mode (alpha=1, integer priorities, stubbed
variates) and inexact mode (random float priorities / alpha / beta; discrete facts only).

Varied besides the operation sequence: observation kind, the dtype option, the containers handed to update_priorities
(indices (k,) / (k,1) int64 tensors as batch["idxs"] is, or numpy; priorities float64 / float32 tensors or the float32 numpy
array Rainbow's learn() returns), batch sizes above the current length, sample() called without beta (its default 0.4),
batches drawn through Sampler(memory=buffer)."""
from __future__ import annotations

import math
from fractions import Fraction
from unittest import mock

import numpy as np
import torch

from . import ring

INF = 1000000000


def _toint(x):
    if x == float("inf"):
        return INF
    return int(x) if float(x) == int(x) else -1


class RandStub:
    """Replacement for torch.rand inside one sample() call: returns the scripted variates in order."""

    def __init__(self, us):
        self.us = list(us)
        self.calls = 0

    def __call__(self, *shape, **kw):
        u = self.us[self.calls]
        self.calls += 1
        return torch.tensor([u], dtype=torch.float32)        # as the real torch.rand: float32


def snapshot(buf):
    cap = buf.sum_tree.capacity
    return {"leaves": [_toint(buf.sum_tree[i]) for i in range(cap)],
            "minleaves": [_toint(buf.min_tree[i]) for i in range(cap)],
            "sumroot": _toint(buf.sum_tree.sum()), "minroot": _toint(buf.min_tree.min()),
            "maxp": _toint(buf.max_priority), "size": len(buf), "ptr": int(buf.tree_ptr), "cursor": int(buf._cursor)}


def update_args(idxs, pris, variant):
    """(indices, priorities) in one of the container / dtype combinations a caller may use; the second result is the list of
    priorities as the buffer sees them (after rounding to the container's dtype)."""
    v = variant % 4
    if v == 0:
        return torch.tensor(idxs), torch.tensor([float(p) for p in pris], dtype=torch.float64), [float(p) for p in pris]
    p32 = np.array([float(p) for p in pris], dtype=np.float32)
    seen = [float(x) for x in p32]
    if v == 1:          # what train_off_policy passes: batch["idxs"] (B,1) and a float32 numpy array
        return torch.tensor(idxs).unsqueeze(1), p32, seen
    if v == 2:
        return np.array(idxs, dtype=np.int64), torch.from_numpy(p32.copy()), seen
    return torch.tensor(idxs, dtype=torch.int32), torch.from_numpy(p32.copy()).unsqueeze(1), seen


def run_exact(N, ops, beta=1.0, uden=8, kind="vector", seed=0):
    """ops: ("add", w) | ("update", idxs, pris) | ("sample", B, u_numerators)."""
    from agilerl.components.replay_buffer import PrioritizedReplayBuffer

    buf = PrioritizedReplayBuffer(max_size=N, alpha=1.0, dtype=(torch.float32, torch.float64)[seed % 2])
    nxt = 1
    ev = []
    n_upd = 0
    for op in ops:
        e = {"op": op[0], "exc": ""}
        try:
            if op[0] == "add":
                w = op[1]
                e["w"] = w
                buf.add(ring.make_batch(kind, list(range(nxt, nxt + w))))
                nxt += w
            elif op[0] == "clear":
                buf.clear()
            elif op[0] == "update":
                e["idxs"], e["pris"] = list(op[1]), list(op[2])
                n_upd += 1
                ia, pa, _ = update_args(op[1], op[2], n_upd + seed)         # small integers: exact in every dtype used
                buf.update_priorities(ia, pa)
            elif op[0] == "sample":
                B, us = op[1], op[2]
                e.update({"B": B, "u": list(us), "idxs": [], "wnum": [], "wden": []})
                stub = RandStub([u / uden for u in us])
                with mock.patch.object(torch, "rand", stub):
                    b = buf.sample(B, beta)
                assert stub.calls == B, "sample() did not draw one variate per stratum"
                e["idxs"] = [int(x) for x in b["idxs"].reshape(-1).tolist()]
                for wv in b["weights"].reshape(-1).tolist():
                    base = wv ** (1.0 / beta) if wv > 0 else 0.0
                    fr = Fraction(base).limit_denominator(4096) if math.isfinite(base) else Fraction(-1)
                    e["wnum"].append(fr.numerator)
                    e["wden"].append(fr.denominator)
                # rows handed out must be the rows stored at those indices
                ids = ring.decode_batch(kind, b)
                stored = [ring.decode_row(kind, buf.storage[i]) if 0 <= i < len(buf) else -1 for i in e["idxs"]]
                e["rows_match"] = ids == stored
        except Exception as ex:
            e["exc"] = f"{type(ex).__name__}: {ex}"[:200]
            e.update({"leaves": [], "minleaves": [], "sumroot": -1, "minroot": -1, "maxp": -1, "size": -1, "ptr": -1, "cursor": -1})
            ev.append(e)
            break
        e.update(snapshot(buf))
        ev.append(e)
    return {"cfg": {"N": N, "beta": beta, "uden": uden, "mode": "exact"}, "ev": ev}


def run_inexact(N, alpha, beta, ops, kind="vector", seed=0):
    """ops: ("add", w) | ("update", idxs, float pris) | ("sample", B, variates in [0,1))."""
    from agilerl.components.replay_buffer import PrioritizedReplayBuffer

    from agilerl.components.sampler import Sampler

    buf = PrioritizedReplayBuffer(max_size=N, alpha=alpha, dtype=(torch.float32, torch.float64)[seed % 2])
    sampler = Sampler(memory=buf)
    nsample = 0
    n_upd = 0
    cap = buf.sum_tree.capacity
    nxt = 1
    seen_max = 1.0
    ev = []
    TOL = 1e-9

    def facts():
        n = len(buf)
        leaves = [buf.sum_tree[i] for i in range(cap)]
        mleaves = [buf.min_tree[i] for i in range(cap)]
        tot = math.fsum(leaves)
        return {"size": n, "ptr": int(buf.tree_ptr), "cursor": int(buf._cursor),
                "root_ok": abs(buf.sum_tree.sum() - tot) <= TOL * max(1.0, tot),
                "min_ok": buf.min_tree.min() == min(mleaves),
                "leaves_ok": all((leaves[i] > 0 and mleaves[i] == leaves[i]) if i < n else (leaves[i] == 0 and mleaves[i] == float("inf"))
                                 for i in range(cap)),
                "maxp_ok": buf.max_priority == seen_max}

    for op in ops:
        e = {"op": op[0], "exc": ""}
        try:
            if op[0] == "add":
                w = op[1]
                e["w"] = w
                p0 = buf.tree_ptr
                mp = buf.max_priority
                buf.add(ring.make_batch(kind, list(range(nxt, nxt + w))))
                nxt += w
                e["newmax_ok"] = all(buf.sum_tree[(p0 + j) % N] == mp ** alpha for j in range(w))
            elif op[0] == "clear":
                buf.clear()
            elif op[0] == "update":
                idxs, pris = op[1], op[2]
                e["k"] = len(idxs)
                n_upd += 1
                ia, pa, pris = update_args(idxs, pris, n_upd + seed)        # pris: the values as the buffer sees them
                buf.update_priorities(ia, pa)
                seen_max = max([seen_max] + [max(float(p), 1e-5) for p in pris])
                last = {}
                for i, p in zip(idxs, pris):
                    last[i] = max(float(p), 1e-5) ** alpha
                e["upd_ok"] = all(buf.sum_tree[i] == v and buf.min_tree[i] == v for i, v in last.items())
            elif op[0] == "sample":
                B, us = op[1], op[2]
                e.update({"B": B, "idxs": []})
                stub = RandStub(us)
                nsample += 1
                with mock.patch.object(torch, "rand", stub):
                    # every other batch is drawn the way the training loops draw it: through the Sampler
                    if nsample % 2 == 0:
                        b = sampler.sample(B, beta)
                    elif beta == 0.4 and nsample % 4 == 1:
                        b = buf.sample(B)                    # beta omitted: the documented default 0.4
                    else:
                        b = buf.sample(B, beta)
                idxs = [int(x) for x in b["idxs"].reshape(-1).tolist()]
                e["idxs"] = idxs
                n = len(buf)
                leaves = [buf.sum_tree[i] for i in range(cap)]
                tot = math.fsum(leaves)
                seg = buf.sum_tree.sum() / B
                ok_s = True
                for i, x in enumerate(idxs):
                    ub = us[i] * (seg * (i + 1) - seg * i) + seg * i
                    lo = math.fsum(leaves[:x]) if 0 <= x < cap else float("inf")
                    hi = math.fsum(leaves[:x + 1]) if 0 <= x < cap else float("-inf")
                    tol = 1e-9 * max(1.0, tot)
                    ok_s = ok_s and (lo - tol <= ub <= hi + tol)
                e["stratum_ok"] = bool(ok_s)
                e["leafpos_ok"] = all(0 <= x < cap and leaves[x] > 0 for x in idxs)
                ws = b["weights"].reshape(-1).tolist()
                e["w_range_ok"] = all(0.0 < w <= 1.0 + 1e-6 for w in ws)
                stored = [leaves[i] for i in range(n)]
                mn = min(stored) if stored else 1.0
                e["w_formula_ok"] = all(0 <= x < n and abs(w - (leaves[x] / mn) ** (-beta)) <= 1e-5 * max(1.0, (leaves[x] / mn) ** (-beta))
                                        for w, x in zip(ws, idxs))
                ids = ring.decode_batch(kind, b)
                e["rows_match"] = ids == [ring.decode_row(kind, buf.storage[i]) if 0 <= i < n else -1 for i in idxs]
        except Exception as ex:
            e["exc"] = f"{type(ex).__name__}: {ex}"[:200]
            e.update({"size": -1, "ptr": -1, "cursor": -1, "root_ok": False, "min_ok": False, "leaves_ok": False, "maxp_ok": False})
            for k in ("newmax_ok", "upd_ok", "stratum_ok", "leafpos_ok", "w_range_ok", "w_formula_ok", "rows_match"):
                e.setdefault(k, False)
            e.setdefault("idxs", [])
            ev.append(e)
            break
        e.update(facts())
        ev.append(e)
    return {"cfg": {"N": N, "alpha": alpha, "beta": beta, "mode": "inexact"}, "ev": ev}
