"""Driver for the life-cycle specification (Evo.tla): executes operation scripts on real agents of any
algorithm and records, after every operation, the projected views of all slots."""
from __future__ import annotations

import os
import shutil
import tempfile

import numpy as np
import torch

from .. import zoo
from ..project import agent as proj

KIND_ARGS = {"none": dict(no_mutation=1, architecture=0, new_layer_prob=0.5, parameters=0, activation=0, rl_hp=0),
             "arch": dict(no_mutation=0, architecture=1, new_layer_prob=0.5, parameters=0, activation=0, rl_hp=0),
             # layer mutations only (add_layer / remove_layer and their fall-backs at the bounds); recorded as kind "arch"
             "archl": dict(no_mutation=0, architecture=1, new_layer_prob=1.0, parameters=0, activation=0, rl_hp=0),
             "param": dict(no_mutation=0, architecture=0, new_layer_prob=0.5, parameters=1, activation=0, rl_hp=0),
             "act": dict(no_mutation=0, architecture=0, new_layer_prob=0.5, parameters=0, activation=1, rl_hp=0),
             "hp": dict(no_mutation=0, architecture=0, new_layer_prob=0.5, parameters=0, activation=0, rl_hp=1)}


def shape_of(agent):
    """Algorithm shape for Evo.tla from the agent's registry."""
    evals, shared = proj.net_names(agent)
    nets = []
    shadow = []
    for e in evals:
        nets.append(e)
        shadow.append(0)
    for e in evals:
        for s in shared[e]:
            nets.append(s)
            shadow.append(nets.index(e) + 1)
    opts = [c.name for c in agent.registry.optimizers]
    hpn = list(agent.registry.hp_config.names())
    for c in agent.registry.optimizers:
        if c.lr not in hpn:
            hpn.append(c.lr)
    covers = [[nets.index(n) + 1 for n in c.networks] for c in agent.registry.optimizers]
    lrhp = [hpn.index(c.lr) + 1 for c in agent.registry.optimizers]
    return {"algo": agent.algo, "nets": nets, "shadow": shadow, "opts": opts, "covers": covers, "lrhp": lrhp,
            "hpnames": hpn, "policy": nets.index(agent.registry.policy) + 1,
            "resync": agent.algo in ("DQN",)}


def greedy_hash(agent, algo):
    """Fingerprint of the policy's outputs on fixed probe observations (deterministic: seeded, eval mode)."""
    st = torch.get_rng_state()
    nst = np.random.get_state()
    try:
        zoo.seed_all(4242)
        obs = zoo.probe_obs(agent, algo)
        pol = getattr(agent, agent.registry.policy)
        outs = []
        with torch.no_grad():
            if algo in zoo.MULTI:
                pobs = agent.preprocess_observation(obs)
                for i, m in enumerate(pol):
                    aid = list(pobs.keys())[i] if i < len(pobs) else list(pobs.keys())[0]
                    was = m.training
                    m.eval()
                    o = m(pobs[aid])
                    m.train(was)
                    outs.append(o[0] if isinstance(o, tuple) else o)
            else:
                pobs = agent.preprocess_observation(obs)
                was = pol.training
                pol.eval()
                o = pol(pobs)
                pol.train(was)
                outs.append(o[0] if isinstance(o, tuple) else o)
        return proj._h(*outs)
    finally:
        torch.set_rng_state(st)
        np.random.set_state(nst)


def can_act(agent, algo):
    try:
        st = torch.get_rng_state()
        obs = zoo.probe_obs(agent, algo)
        if algo in ("NeuralUCB", "NeuralTS"):
            pol = getattr(agent, agent.registry.policy)
            with torch.no_grad():
                pol(agent.preprocess_observation(obs))
        elif algo in zoo.MULTI:
            agent.get_action(obs)
        else:
            agent.get_action(obs)
        torch.set_rng_state(st)
        return True
    except Exception:
        return False


class Runner:
    def __init__(self, algo, family, nslots=4, seed=0, shared_hp=False, wrapped=False):
        self.algo, self.family, self.nslots, self.seed = algo, family, nslots, seed
        self.slots = [None] * (nslots + 1)
        self.ids = proj.Ids()
        self.ev = []
        self.shape = None
        self.dir = tempfile.mkdtemp(prefix="evo-")
        self.shared_hp = (zoo.hp_config(algo) if shared_hp is True else
                          zoo.hp_config(algo, only_lr=True) if shared_hp == "lr-shared" else None)       # one object for the whole population
        self.hp_mode = shared_hp
        self.mutations = {}
        self.filemap = {}
        self.wrapped = wrapped

    def close(self):
        shutil.rmtree(self.dir, ignore_errors=True)

    # ------------------------------------------------------------------ projection
    def view(self, agent):
        sn = proj.snapshot(agent)
        sh = self.shape
        I = self.ids
        nets = sh["nets"]
        v = {"idx": sn["index"], "mut": "None" if sn["mut"] is None else str(sn["mut"]),
             "hp": [I("hp", [n, sn["hp"].get(n)]) for n in sh["hpnames"]],
             "arch": [I("arch", sn["nets"][n]["arch"]) for n in nets],
             "acfg": [I("acfg", sn["nets"][n]["cfg"]) for n in nets],
             "w": [I("w", sn["nets"][n]["w"]) for n in nets],
             "opt": [I("opt", sn["opts"][o]["state"]) for o in sh["opts"]],
             "coherent": [bool(sn["opts"][o]["coherent"]) for o in sh["opts"]],
             "lrok": [all(lr == sn["opts"][o]["lr_attr"] for lr in sn["opts"][o]["lrs"]) for o in sh["opts"]],
             "steps": I("steps", sn["steps"]), "scores": I("scores", sn["scores"]), "fitness": I("fitness", sn["fitness"]),
             "aux": I("aux", sn["aux"]),
             "greedy": I("g", greedy_hash(agent, self.algo))}
        return v, sn

    def record(self, e):
        post, cells, ptrsets = [], [], {}
        raw = {}
        for s in range(1, self.nslots + 1):
            ag = self.slots[s]
            if ag is None:
                post.append({"nil": True})
                cells.append([])
            else:
                v, sn = self.view(ag)
                post.append(v)
                if self.shared_hp is not None:
                    # the members of an initial population are built from one configuration object: that object is shared by design
                    sn["ptrs"] = {p_ for p_ in sn["ptrs"] if not (p_[0] == "hp_config" or str(p_[0]).startswith("rlparam:"))}
                ptrsets[s] = sn["ptrs"]
                cells.append(sorted(self.ids("cell", list(p)) for p in sn["ptrs"]))
                raw[s] = sn
        shared = []
        ss = sorted(ptrsets)
        for i, s in enumerate(ss):
            for t in ss[i + 1:]:
                inter = ptrsets[s] & ptrsets[t]
                if inter:
                    shared.append({"s": s, "t": t, "what": sorted({k[0] for k in inter})})
        e.setdefault("exc", "")
        e.update({"post": post, "cells": cells, "shared": shared})
        self.ev.append(e)
        self.last_raw = raw
        return e

    # ------------------------------------------------------------------ operations
    def mutations_for(self, kind):
        from agilerl.hpo.mutation import Mutations
        if kind not in self.mutations:
            self.mutations[kind] = Mutations(mutation_sd=0.1, mutate_elite=True, rand_seed=self.seed + 11, **KIND_ARGS[kind])
        return self.mutations[kind]

    def run(self, ops):
        for op in ops:
            e = {"op": op[0]}
            try:
                self.apply(op, e)
            except Exception as ex:
                import traceback
                e["exc"] = f"{type(ex).__name__}: {ex}"[:300]
                e["tb"] = traceback.format_exc()[-600:]
                e.setdefault("a", op[1] if len(op) > 1 and isinstance(op[1], int) else 0)
                for k in ("c", "b", "f", "idx", "h"):
                    e.setdefault(k, 0)
                e.setdefault("k", "none")
                e.setdefault("can_act", False)
                self.record(e)
                break
            self.record(e)
        return self.trace()

    def apply(self, op, e):
        algo = self.algo
        if op[0] == "create":
            _, s, seed = op
            e["a"] = s
            hp = zoo.hp_config(algo, only_lr=True) if self.hp_mode == "lr" else self.shared_hp
            ag = zoo.make_agent(algo, self.family, seed=seed, index=s - 1, hp=hp)
            if self.shape is None:
                self.shape = shape_of(ag)
            if self.wrapped:
                from agilerl.wrappers.agent import RSNorm
                ag = RSNorm(ag)
            self.slots[s] = ag
        elif op[0] == "clone":
            _, a, c, idx = op
            e.update({"a": a, "c": c, "idx": idx})
            self.slots[c] = self.slots[a].clone(index=idx)
        elif op[0] == "learn":
            _, a, b = op
            e.update({"a": a, "b": b})
            zoo.learn(self.slots[a], algo, b)
        elif op[0] == "mutate":
            _, a, kind = op
            e.update({"a": a, "k": ("arch" if kind == "archl" else kind), "h": 0, "can_act": False})
            ag = self.slots[a]
            zoo.seed_all(self.seed * 31 + len(self.ev))
            out = self.mutations_for(kind).mutation([ag])
            assert len(out) == 1
            self.slots[a] = out[0]
            hpn = self.shape["hpnames"]
            m = out[0].mut
            e["h"] = hpn.index(m) + 1 if m in hpn else 0
            e["can_act"] = can_act(out[0], algo)
        elif op[0] == "mutpop":
            kind = op[1]
            noelite = len(op) > 2 and op[2] == "noelite"          # Mutations(mutate_elite=False): the first member draws no mutation
            e.update({"k": kind, "a": 0})
            live = [s for s in range(1, self.nslots + 1) if self.slots[s] is not None]
            pop = [self.slots[s] for s in live]
            idxs = [p.index for p in pop]
            zoo.seed_all(self.seed * 31 + len(self.ev))
            if noelite:
                from agilerl.hpo.mutation import Mutations
                key = (kind, "noelite")
                if key not in self.mutations:
                    self.mutations[key] = Mutations(mutation_sd=0.1, mutate_elite=False, rand_seed=self.seed + 13, **KIND_ARGS[kind])
                out = self.mutations[key].mutation(pop)
                e["ks"] = ["none" if s == live[0] else ("arch" if kind == "archl" else kind) for s in range(1, self.nslots + 1)]
            else:
                out = self.mutations_for(kind).mutation(pop)
            e["order_ok"] = len(out) == len(pop) and [p.index for p in out] == idxs
            hpn = self.shape["hpnames"]
            hs = [0] * self.nslots
            for s, ag in zip(live, out):
                self.slots[s] = ag
                hs[s - 1] = hpn.index(ag.mut) + 1 if ag.mut in hpn else 0
            e["hs"] = hs
            e["can_act"] = all(can_act(ag, algo) for ag in out)
        elif op[0] == "act":
            _, a = op
            e["a"] = a
            ag = self.slots[a]
            zoo.seed_all(self.seed * 17 + len(self.ev))
            g = torch.Generator().manual_seed(len(self.ev))
            obs = zoo.sample_obs(ag.observation_space, 4, g) if algo not in zoo.MULTI else zoo.probe_obs(ag, algo)
            ag.set_training_mode(True) if hasattr(ag, "set_training_mode") else None
            ag.get_action(obs)
        elif op[0] == "book":
            _, a = op
            e["a"] = a
            ag = self.slots[a]
            ag.fitness.append(float(len(self.ev) % 5))
            ag.scores.append(float(len(self.ev) % 3))
            ag.steps.append(ag.steps[-1] + 10)
        elif op[0] == "save":
            _, a, f = op
            e.update({"a": a, "f": f})
            self.slots[a].save_checkpoint(os.path.join(self.dir, f"f{f}.pt"))
            self.filemap.pop(f, None)
        elif op[0] == "savepop":
            # the population helper of the training loops (agilerl.utils.utils.save_population_checkpoint): the file of member i is
            # <path>_<i>.pt (overwrite_checkpoints) or <path>_<i>_<steps>.pt; recorded as a plain save of agent a to file f
            _, a, f, overwrite = op
            e.update({"op": "save", "a": a, "f": f})
            from agilerl.utils.utils import save_population_checkpoint
            ag = self.slots[a]
            base = os.path.join(self.dir, f"pop{f}")
            save_population_checkpoint([ag], base, bool(overwrite))
            self.filemap[f] = f"{base}_0.pt" if overwrite else f"{base}_0_{ag.steps[-1]}.pt"
        elif op[0] == "loadnew":
            _, f, c = op
            e.update({"f": f, "c": c, "a": c})
            first = self.slots[[s for s in range(1, self.nslots + 1) if self.slots[s] is not None][0]]
            cls = type(getattr(first, "agent", first)) if self.wrapped else type(first)
            self.slots[c] = cls.load(self.filemap.get(f, os.path.join(self.dir, f"f{f}.pt")))
        elif op[0] == "loadinto":
            _, f, a = op
            e.update({"f": f, "a": a})
            self.slots[a].load_checkpoint(self.filemap.get(f, os.path.join(self.dir, f"f{f}.pt")))
        elif op[0] == "discard":
            _, a = op
            e["a"] = a
            self.slots[a] = None
            import gc
            gc.collect()
        else:
            raise ValueError(op)

    def trace(self):
        return {"cfg": {"algo": self.algo + ("+RSNorm" if self.wrapped else ""), "family": self.family, "shape": self.shape, "NSlots": self.nslots}, "ev": self.ev}


def run_script(algo, family, ops, nslots=4, seed=0, shared_hp=False, wrapped=False):
    torch.set_num_threads(1)
    r = Runner(algo, family, nslots, seed, shared_hp, wrapped)
    try:
        return r.run(ops)
    finally:
        r.close()
