"""Driver for C15: replay the cases dumped by TLC from ObsPrep_MC (expected output shape and content of
observation preparation, homogeneous-group routing, centralised-critic stacking) into the REAL AgileRL
functions and compare exactly; plus the consequence clause (greedy action / value estimate of one
observation does not depend on its batch companions) on real agents.

Nothing of the code under test is stubbed.  Every mismatch is returned as a dict
{"sig": signature, "what": text, "replay": {...}}.
"""
from __future__ import annotations

import warnings
import zlib
from typing import Any, Dict, List, Optional, Tuple

import numpy as np
import torch

BOX_DTYPES = ["float32", "float64", "float16", "uint8", "int8", "int16", "int32", "int64", "uint16",
              "uint32", "uint64"]
INSENSITIVE: List[str] = []      # consequence runs that could not observe anything (reported by c15.py)
TOL = 1e-6          # consequence clause: absolute tolerance on float32 network outputs (see c15.py)
# tiny networks without normalisation layers; Tanh so that no unit is dead and outputs are sensitive to every input
NET_MLP = {"hidden_size": [8], "layer_norm": False, "activation": "Tanh"}
NET_CNN = {"channel_size": [2], "kernel_size": [1], "stride_size": [1], "layer_norm": False, "activation": "Tanh"}
HEAD = {"hidden_size": [8], "layer_norm": False, "activation": "Tanh"}


# ----------------------------------------------------------------------------- naming
def tag(sub: dict) -> str:
    k = sub["k"]
    if k == "box":
        r = len(sub["shape"])
        return f"box-r{r}" + ("-img" if r == 3 else "")
    if k == "disc":
        return "disc-n1" if sub["nvec"][0] == 1 else "disc"
    if k == "md":
        return "md-k1" if len(sub["nvec"]) == 1 else "md"
    return "mb-n1" if sub["shape"][0] == 1 else "mb"


def leadclass(lead) -> str:
    if len(lead) == 0:
        return "single"
    if len(lead) == 2:
        return "stepenv"
    return "batch1" if lead[0] == 1 else "batch"


def describe(sub: dict) -> str:
    k = sub["k"]
    if k == "box":
        return f"Box({sub['lo']},{sub['hi']},shape={tuple(sub['shape'])})"
    if k == "disc":
        return f"Discrete({sub['nvec'][0]})"
    if k == "md":
        return f"MultiDiscrete({sub['nvec']})"
    return f"MultiBinary({sub['shape'][0]})"


def space_descr(case: dict) -> str:
    d = [describe(s) for s in case["subs"]]
    if case["kind"] == "leaf":
        return d[0]
    return ("Dict" if case["kind"] == "dict" else "Tuple") + "(" + ", ".join(d) + ")"


# ----------------------------------------------------------------------------- materialising
def feasible_dtypes(sub: dict) -> List[str]:
    k = sub["k"]
    if k == "box":
        out = []
        for d in BOX_DTYPES:
            dt = np.dtype(d)
            if dt.kind in "iu":
                ii = np.iinfo(dt)
                if not (ii.min <= sub["lo"] and sub["hi"] <= ii.max):
                    continue
            out.append(d)
        if (sub["lo"], sub["hi"]) == (0, 1):
            out.append("bool")
        return out
    if k == "disc":
        return ["int64", "int32", "uint8"]
    if k == "md":
        return ["int64", "int32"]
    return ["int8", "uint8", "bool", "int64"]


def make_leaf_space(sub: dict, dtype: Optional[str] = None):
    from gymnasium import spaces

    k = sub["k"]
    if k == "box":
        return spaces.Box(low=sub["lo"], high=sub["hi"], shape=tuple(sub["shape"]), dtype=np.dtype(dtype or "float32"))
    if k == "disc":
        return spaces.Discrete(sub["nvec"][0])
    if k == "md":
        return spaces.MultiDiscrete(list(sub["nvec"]))
    return spaces.MultiBinary(sub["shape"][0])


KEYS = "abcdefgh"


def make_space(case: dict, dtypes: List[Optional[str]]):
    from gymnasium import spaces

    leaves = [make_leaf_space(s, d) for s, d in zip(case["subs"], dtypes)]
    if case["kind"] == "leaf":
        return leaves[0]
    if case["kind"] == "dict":
        return spaces.Dict({KEYS[i]: sp for i, sp in enumerate(leaves)})
    return spaces.Tuple(tuple(leaves))


def leaf_array(sub: dict, lead, xs, dtype: str) -> np.ndarray:
    a = np.array(xs, dtype=np.int64).reshape(tuple(lead) + tuple(sub["shape"]))
    return a.astype(np.dtype(dtype))


def to_rep(a: np.ndarray, rep: str):
    if rep == "numpy":
        return a
    if rep == "torch":
        return torch.as_tensor(a)
    if rep == "number":            # Python number (only for 0-d inputs)
        assert a.ndim == 0
        return bool(a) if a.dtype == np.bool_ else (float(a) if a.dtype.kind == "f" else int(a))
    if rep == "npscalar":
        assert a.ndim == 0
        return a[()]
    raise ValueError(rep)


def materialise(case: dict, dtypes: List[str], rep: str):
    arrs = [leaf_array(s, case["lead"], xs, d) for s, xs, d in zip(case["subs"], case["x"], dtypes)]
    kind = case["kind"]
    if kind == "leaf":
        return to_rep(arrs[0], rep)
    if rep == "tensordict":
        from tensordict import TensorDict

        return TensorDict({KEYS[i]: torch.as_tensor(a) for i, a in enumerate(arrs)}, batch_size=list(case["lead"]))
    if rep == "mixed":             # 0-d members as Python numbers, the others numpy
        mem = [to_rep(a, "number") if a.ndim == 0 else a for a in arrs]
    else:
        mem = [to_rep(a, rep) for a in arrs]
    if kind == "dict":
        return {KEYS[i]: m for i, m in enumerate(mem)}
    return tuple(mem)


def reps_for(case: dict) -> List[str]:
    scalar = [len(case["lead"]) == 0 and len(s["shape"]) == 0 for s in case["subs"]]
    if case["kind"] == "leaf":
        return ["numpy", "torch"] + (["number", "npscalar"] if scalar[0] else [])
    r = ["numpy", "torch"]
    if case["kind"] == "dict":
        r.append("tensordict")
    if any(scalar):
        r.append("mixed")
    return r


def expected(case: dict) -> List[Tuple[tuple, np.ndarray]]:
    out = []
    for o in case["out"]:
        shape = tuple(o["shape"])
        v = np.array(o["vals"], dtype=np.float32) / np.float32(o["den"])     # one correctly rounded division
        out.append((shape, v.reshape(shape)))
    return out


# ----------------------------------------------------------------------------- comparing
def cmp_tensor(got, shape, exp, scalar_box: bool = False) -> Optional[str]:
    """scalar_box: a rank-0 Box feeds a network with one input feature; (rows,) and (rows, 1) are both accepted."""
    if not isinstance(got, torch.Tensor):
        return "type-" + type(got).__name__
    if scalar_box and tuple(got.shape) == tuple(shape) + (1,):
        got = got.squeeze(-1)
    if tuple(got.shape) != tuple(shape):
        return "shape"
    if not got.is_floating_point():
        return "dtype"
    if not np.array_equal(got.detach().cpu().numpy().astype(np.float64), exp.astype(np.float64)):
        return "values"
    return None


def _scalar_box(sub: dict) -> bool:
    return sub["k"] == "box" and len(sub["shape"]) == 0


def members_of(case: dict, got) -> Optional[list]:
    n = len(case["subs"])
    if case["kind"] == "leaf":
        return [got]
    if case["kind"] == "dict":
        try:
            keys = list(got.keys())
        except Exception:
            return None
        if sorted(keys) != sorted(KEYS[:n]):
            return None
        return [got[KEYS[i]] for i in range(n)]
    if not isinstance(got, (tuple, list)) or len(got) != n:
        return None
    return list(got)


def _short(o) -> str:
    if isinstance(o, torch.Tensor):
        return f"tensor{tuple(o.shape)}{o.flatten().tolist()[:16]}"
    if isinstance(o, np.ndarray):
        return f"array{o.shape}{o.flatten().tolist()[:16]}"
    if isinstance(o, dict) or hasattr(o, "keys"):
        return "{" + ", ".join(f"{k}: {_short(o[k])}" for k in o.keys()) + "}"
    if isinstance(o, (tuple, list)):
        return "(" + ", ".join(_short(v) for v in o) + ")"
    return repr(o)[:120]


def compare_prepared(case: dict, got) -> Optional[Tuple[str, int]]:
    """None if `got` is the expected preparation, else (failure, member index)."""
    mem = members_of(case, got)
    if mem is None:
        return ("container", 0)
    for i, ((shape, exp), g) in enumerate(zip(expected(case), mem)):
        f = cmp_tensor(g, shape, exp, _scalar_box(case["subs"][i]))
        if f:
            return (f, i)
    return None


def exc_member(case: dict, dtypes, rep, norm, fn) -> int:
    """Which member makes the call raise (first member whose leaf alone raises); 0 if undecided."""
    if case["kind"] == "leaf":
        return 0
    for i, s in enumerate(case["subs"]):
        leaf = {"kind": "leaf", "subs": [s], "lead": case["lead"], "x": [case["x"][i]], "norm": norm}
        try:
            r = "numpy" if rep in ("tensordict", "mixed") else rep
            fn(materialise(leaf, [dtypes[i]], r), make_space(leaf, [dtypes[i] if s["k"] == "box" else None]))
        except Exception:
            return i
    return 0


def pick_dtypes(case: dict, salt: int, all_of_them: bool) -> List[List[str]]:
    """Lists of per-member dtypes to try: the natural one plus a rotating one (or all feasible ones)."""
    nat = {"box": "float32", "disc": "int64", "md": "int64", "mb": "int8"}
    base = [nat[s["k"]] for s in case["subs"]]
    combos = [base]
    feas = [feasible_dtypes(s) for s in case["subs"]]
    if all_of_them and case["kind"] == "leaf":
        combos += [[d] for d in feas[0] if d != base[0]]
    else:
        combos.append([f[(salt + 3 * i) % len(f)] for i, f in enumerate(feas)])
        if combos[1] == combos[0]:
            combos.pop()
    return combos


# ----------------------------------------------------------------------------- observing real networks
class observe_forward:
    """Record the inputs and outputs of module.forward while the real code runs (AgileRL's evolvable modules call
    forward() directly, so torch forward hooks never fire).  Pure observation: the original forward is called
    unchanged and restored afterwards."""

    def __init__(self, module):
        self.module, self.inputs, self.outputs = module, [], []

    def __enter__(self):
        orig = self.module.forward

        def fwd(*a, **k):
            self.inputs.append(a[0] if a else None)
            out = orig(*a, **k)
            self.outputs.append(out)
            return out

        object.__setattr__(self.module, "forward", fwd)
        return self

    def __exit__(self, *exc):
        object.__delattr__(self.module, "forward")
        return False


# ----------------------------------------------------------------------------- real agents
_AGENTS: Dict[Any, Any] = {}
AGENT_STATS = {"built": 0, "unbuildable": 0}


def net_config_for(space):
    from gymnasium import spaces

    if isinstance(space, (spaces.Dict, spaces.Tuple)):
        return {"encoder_config": {"latent_dim": 8, "min_latent_dim": 2, "cnn_config": dict(NET_CNN),
                                   "mlp_config": dict(NET_MLP), "vector_space_mlp": False},
                "head_config": dict(HEAD)}
    if isinstance(space, spaces.Box) and len(space.shape) == 3:
        return {"encoder_config": dict(NET_CNN), "head_config": dict(HEAD)}
    return {"encoder_config": dict(NET_MLP), "head_config": dict(HEAD)}


def dqn_for(case: dict, dtypes, norm: bool, default_config: bool = False, algo: str = "dqn"):
    """A real DQN (or PPO) agent for the case's observation space (cached); None if AgileRL cannot build one."""
    key = (algo, space_descr(case), tuple(dtypes), norm, default_config)
    if key in _AGENTS:
        return _AGENTS[key]
    from gymnasium import spaces

    space = make_space(case, [d if s["k"] == "box" else None for s, d in zip(case["subs"], dtypes)])
    agent = None
    try:
        torch.manual_seed(zlib.crc32(repr(key).encode()) % (2 ** 31))
        with warnings.catch_warnings():
            warnings.simplefilter("ignore")
            nc = None if default_config else net_config_for(space)
            if algo == "dqn":
                from agilerl.algorithms.dqn import DQN

                agent = DQN(space, spaces.Discrete(3), net_config=nc, normalize_images=norm)
            else:
                from agilerl.algorithms.ppo import PPO

                # share_encoders=False: encoder sharing cannot be constructed under Python 3.12 in this tree
                agent = PPO(space, spaces.Discrete(3), net_config=nc, normalize_images=norm, share_encoders=False)
        AGENT_STATS["built"] += 1
    except Exception:
        AGENT_STATS["unbuildable"] += 1
    _AGENTS[key] = agent
    return agent


# ----------------------------------------------------------------------------- M2(a): observation preparation
def check_prep_case(case: dict, idx: int, thorough: bool, with_agent: bool = True) -> List[dict]:
    from agilerl.utils import algo_utils as au

    fails: List[dict] = []
    lc = leadclass(case["lead"])
    norm = bool(case["norm"])
    kind = case["kind"]

    def fail(func, member, failure, what, **rep):
        t = tag(case["subs"][member])
        fails.append({"sig": f"{func}:{kind}:{t}:{lc}:{failure}",
                      "what": f"{func} on {space_descr(case)} input lead shape {tuple(case['lead'])} "
                              f"(normalize_images={norm}): {what}",
                      "replay": {"check": "prep", "idx": idx, "thorough": thorough, "case": case, **rep}})

    def real_prep(obs, space):
        with warnings.catch_warnings():
            warnings.simplefilter("ignore")
            return au.preprocess_observation(obs, space, "cpu", norm)

    for ndt, dtypes in enumerate(pick_dtypes(case, idx, thorough)):
        space = make_space(case, [d if s["k"] == "box" else None for s, d in zip(case["subs"], dtypes)])
        for rep in reps_for(case):
            if rep == "npscalar" and dtypes[0] in ("uint16", "uint32", "uint64"):
                continue            # torch.tensor() rejects these numpy scalars (arrays of them are fine); not a Python number
            obs = materialise(case, dtypes, rep)
            # --- preprocess_observation (function)
            try:
                got = real_prep(obs, space)
            except Exception as ex:
                m = exc_member(case, dtypes, rep, norm, real_prep)
                fail("preprocess_observation", m, "raises",
                     f"raised {type(ex).__name__}: {str(ex)[:160]}; expected shapes {[o['shape'] for o in case['out']]}",
                     rep=rep, dtypes=dtypes)
                got = None
            if got is not None:
                c = compare_prepared(case, got)
                if c:
                    fail("preprocess_observation", c[1], c[0],
                         f"got {_short(got)}; expected shapes {[o['shape'] for o in case['out']]} "
                         f"values {[o['vals'][:16] for o in case['out']]}/{[o['den'] for o in case['out']]}",
                         rep=rep, dtypes=dtypes)
            # --- agent method (real DQN built for this space)
            if with_agent and ndt == 0 and rep in ("numpy", "tensordict", "number"):
                agent = dqn_for(case, dtypes, norm)
                if agent is not None:
                    try:
                        with warnings.catch_warnings():
                            warnings.simplefilter("ignore")
                            got2 = agent.preprocess_observation(obs)
                        c = compare_prepared(case, got2)
                        if c:
                            fail("agent.preprocess_observation", c[1], c[0], f"got {_short(got2)}", rep=rep, dtypes=dtypes)
                    except Exception as ex:
                        m = exc_member(case, dtypes, rep, norm, real_prep)
                        fail("agent.preprocess_observation", m, "raises",
                             f"raised {type(ex).__name__}: {str(ex)[:160]}", rep=rep, dtypes=dtypes)
            # --- get_vect_dim: a vectorised observation is recognised as such (unbatched -> 1, batch -> its length)
            if len(case["lead"]) <= 1 and rep in ("numpy", "torch", "tensordict", "npscalar"):
                try:
                    vd = au.get_vect_dim(obs, space)
                    if int(vd) != case["vect"]:
                        fail("get_vect_dim", 0, "value", f"returned {vd}, expected {case['vect']}", rep=rep, dtypes=dtypes)
                except Exception as ex:
                    fail("get_vect_dim", 0, "raises",
                         f"raised {type(ex).__name__}: {str(ex)[:160]}; expected {case['vect']}", rep=rep, dtypes=dtypes)
            # --- maybe_add_batch_dim on the raw array (leaf, array representations)
            if kind == "leaf" and rep in ("numpy", "torch"):
                sub = case["subs"][0]
                nat = tuple(sub["shape"])
                want = (case["rows"],) + nat
                try:
                    got3 = au.maybe_add_batch_dim(obs, nat)
                    flat = np.asarray(got3).reshape(-1).astype(np.float64)
                    if tuple(got3.shape) != want:
                        fail("maybe_add_batch_dim", 0, "shape", f"got shape {tuple(got3.shape)}, expected {want}", rep=rep, dtypes=dtypes)
                    elif not np.array_equal(flat, np.array(case["x"][0], dtype=np.float64)):
                        fail("maybe_add_batch_dim", 0, "values", f"content reordered: {flat.tolist()[:16]}", rep=rep, dtypes=dtypes)
                except Exception as ex:
                    fail("maybe_add_batch_dim", 0, "raises",
                         f"raised {type(ex).__name__}: {str(ex)[:160]}; expected shape {want}", rep=rep, dtypes=dtypes)
    return fails


# ----------------------------------------------------------------------------- M2(a): multi-agent routing
def agent_ids_for(grp) -> List[str]:
    names, cnt = [], {}
    for g in grp:
        base = "ab"[g - 1]
        names.append(f"{base}_{cnt.get(base, 0)}")
        cnt[base] = cnt.get(base, 0) + 1
    return names


_MA: Dict[Any, Any] = {}


def ma_agent(algo: str, ids: List[str], obs_spaces, act_spaces=None, net_config=None, **kw):
    key = (algo, tuple(ids), tuple(repr(s) for s in obs_spaces), repr(act_spaces), repr(net_config), tuple(sorted(kw.items())))
    if key in _MA:
        if isinstance(_MA[key], Exception):
            raise _MA[key]
        return _MA[key]
    from gymnasium import spaces

    act_spaces = act_spaces or [spaces.Discrete(3) for _ in ids]
    torch.manual_seed(zlib.crc32(repr(key).encode()) % (2 ** 31))
    if algo == "ippo":
        from agilerl.algorithms.ippo import IPPO as cls
    elif algo == "maddpg":
        from agilerl.algorithms.maddpg import MADDPG as cls
    else:
        from agilerl.algorithms.matd3 import MATD3 as cls
    try:
        with warnings.catch_warnings():
            warnings.simplefilter("ignore")
            a = cls(list(obs_spaces), list(act_spaces), list(ids), net_config=(net_config or net_config_for(obs_spaces[0])), **kw)
    except Exception as ex:
        _MA[key] = ex
        AGENT_STATS["unbuildable"] += 1
        raise
    AGENT_STATS["built"] += 1
    _MA[key] = a
    return a


def check_homo_case(case: dict) -> List[dict]:
    from gymnasium import spaces

    fails = []
    ids = agent_ids_for(case["grp"])
    E, d = case["E"], case["d"]
    agent = ma_agent("ippo", ids, [spaces.Box(0, 4, (2,)) for _ in ids])
    comp = "".join("ab"[g - 1] for g in case["grp"])

    def fail(func, failure, what):
        fails.append({"sig": f"{func}:{'single-group' if len(set(case['grp'])) == 1 else 'two-groups'}:"
                             f"{'E1' if E == 1 else 'En'}:d{d}:{failure}",
                      "what": f"{func} with agents {ids} (composition {comp}), {E} envs, width {d}: {what}",
                      "replay": {"check": "homo", "case": case}})

    gid = ["a", "b"]
    for variant in (["2d"] + (["1d"] if d == 1 else [])):
        shape = (E, d) if variant == "2d" else (E,)
        xin = {a: np.array(case["x"][i], dtype=np.float32).reshape(shape) for i, a in enumerate(ids)}
        # shared ids as the real agent derived them must be the spec's groups
        want_groups = {gid[g]: [ids[m - 1] for m in mem] for g, mem in enumerate(case["groups"])}
        if {k: list(v) for k, v in agent.homogeneous_agents.items()} != want_groups:
            fail("homogeneous_agents", "grouping", f"agent grouped {agent.homogeneous_agents}, expected {want_groups}")
            continue
        try:
            h = agent.assemble_homogeneous_outputs({a: v.copy() for a, v in xin.items()}, E)
            for g, mid in enumerate(case["mid"]):
                got = np.asarray(h[gid[g]])
                rows = len(case["groups"][g]) * E
                if got.shape != (rows, d):
                    fail("assemble_homogeneous_outputs", "shape", f"group {gid[g]}: shape {got.shape}, expected {(rows, d)}")
                elif got.reshape(-1).tolist() != [float(v) for v in mid]:
                    fail("assemble_homogeneous_outputs", "rowmap", f"group {gid[g]}: rows {got.reshape(-1).tolist()}, expected {mid}")
        except Exception as ex:
            fail("assemble_homogeneous_outputs", "raises", f"{type(ex).__name__}: {str(ex)[:160]}")
            continue
        for src, hh in (("roundtrip", h),
                        ("from-spec", {gid[g]: np.array(mid, dtype=np.float32).reshape(-1, d) if variant == "2d"
                                       else np.array(mid, dtype=np.float32) for g, mid in enumerate(case["mid"])})):
            try:
                out = agent.disassemble_homogeneous_outputs({k: np.array(v) for k, v in hh.items()}, E)
                if sorted(out.keys()) != sorted(ids):
                    fail("disassemble_homogeneous_outputs", "agents", f"{src}: returned agents {sorted(out.keys())}")
                    continue
                for i, a in enumerate(ids):
                    got = np.asarray(out[a])
                    if got.shape[0] != E or got.reshape(-1).tolist() != [float(v) for v in case["out"][i]]:
                        fail("disassemble_homogeneous_outputs", "roundtrip" if src == "roundtrip" else "rowmap",
                             f"{src}: agent {a} got {got.tolist()}, expected rows {case['out'][i]}")
            except Exception as ex:
                fail("disassemble_homogeneous_outputs", "raises", f"{src}: {type(ex).__name__}: {str(ex)[:160]}")
    return fails


def check_critic_case(case: dict) -> List[dict]:
    from gymnasium import spaces

    fails = []
    A, B, img, dims = case["A"], case["B"], case["img"], case["dims"]
    ids = [f"p{i}_0" for i in range(A)]          # distinct prefixes: no homogeneous grouping, spaces may differ
    if img:
        obs_spaces = [spaces.Box(0, 4, tuple(dims)) for _ in ids]
        shapes = [(B,) + tuple(dims)] * A
    else:
        obs_spaces = [spaces.Box(0, 4, (dims[i],)) for i in range(A)]
        shapes = [(B, dims[i]) for i in range(A)]

    def fail(algo, failure, what):
        fails.append({"sig": f"stack_critic_observations:{'image' if img else 'vector'}:A{A}:{'B1' if B == 1 else 'Bn'}:{failure}",
                      "what": f"{algo}.stack_critic_observations, {A} agents, batch {B}, per-agent shape {shapes}: {what}",
                      "replay": {"check": "critic", "case": case}})

    for algo in ("maddpg", "matd3"):
        try:
            agent = ma_agent(algo, ids, obs_spaces)
        except Exception as ex:
            raise RuntimeError(f"harness: cannot build {algo} for critic case {case}: {ex}") from ex
        obs = {a: torch.tensor(case["x"][i], dtype=torch.float32).reshape(shapes[i]) for i, a in enumerate(ids)}
        try:
            got = agent.stack_critic_observations(obs)
            if tuple(got.shape) != tuple(case["out"]["shape"]):
                fail(algo, "shape", f"shape {tuple(got.shape)}, expected {case['out']['shape']}")
            elif got.reshape(-1).tolist() != [float(v) for v in case["out"]["vals"]]:
                fail(algo, "indexmap", f"content {got.reshape(-1).tolist()[:24]}, expected {case['out']['vals'][:24]}")
        except Exception as ex:
            fail(algo, "raises", f"{type(ex).__name__}: {str(ex)[:160]}")
    return fails


# ----------------------------------------------------------------------------- multi-agent preparation entry points
def check_ma_prep(case: dict, idx: int, algos=("maddpg", "ippo")) -> List[dict]:
    """MultiAgentRLAlgorithm.preprocess_observation (per agent) and IPPO.preprocess_observation (grouped,
    rows of a group = (member position, env)) on the leaf/composite case, every agent receiving the case's
    input with its own values rolled so that agents are distinguishable."""
    fails = []
    if len(case["lead"]) > 1:
        return fails
    dtypes = pick_dtypes(case, idx, False)[0]
    space = make_space(case, [d if s["k"] == "box" else None for s, d in zip(case["subs"], dtypes)])
    ids = ["a_0", "b_0", "a_1"]
    norm = bool(case["norm"])
    lc = leadclass(case["lead"])
    exp = expected(case)
    # a further agent c_0, FIRST in the agent list, whose space has the same type and shapes but other value attributes
    # (number of categories, bounds): every agent's observation must be prepared with that agent's OWN space
    def variant_sub(s):
        v = dict(s)
        if s["k"] == "box":
            v["lo"], v["hi"] = s["lo"] - 1, 2 * s["hi"] + 3
        elif s["k"] in ("disc", "md"):
            v["nvec"] = [n + 2 for n in s["nvec"]]
        return v
    vcase = dict(case, subs=[variant_sub(s) for s in case["subs"]])
    vspace = make_space(vcase, [d if s["k"] == "box" else None for s, d in zip(vcase["subs"], dtypes)])
    def vobs():
        arrs = [np.full(tuple(case["lead"]) + tuple(s["shape"]), (s["lo"] if s["k"] == "box" else 0), dtype=np.dtype(d))
                for s, d in zip(vcase["subs"], dtypes)]
        return arrs[0] if case["kind"] == "leaf" else ({KEYS[j]: a for j, a in enumerate(arrs)} if case["kind"] == "dict" else tuple(arrs))
    # agent i receives the case's rows rotated by i (row r of agent i = row (r+i) mod rows of the case)
    def obs_for(i):
        arrs = [leaf_array(s, case["lead"], xs, d) for s, xs, d in zip(case["subs"], case["x"], dtypes)]
        if len(case["lead"]) == 1:
            arrs = [np.roll(a, -i, axis=0) for a in arrs]
        if case["kind"] == "leaf":
            return arrs[0]
        if case["kind"] == "dict":
            return {KEYS[j]: a for j, a in enumerate(arrs)}
        return tuple(arrs)

    def exp_for(i):
        return [(sh, np.roll(v, -i, axis=0)) for sh, v in exp]

    def fail(func, member, failure, what):
        fails.append({"sig": f"{func}:{case['kind']}:{tag(case['subs'][member])}:{lc}:{failure}",
                      "what": f"{func} with agents {ids} on {space_descr(case)} lead {tuple(case['lead'])}: {what}",
                      "replay": {"check": "ma_prep", "idx": idx, "algos": list(algos), "case": case}})

    obs = {a: obs_for(i) for i, a in enumerate(ids)}
    hetero = repr(vspace) != repr(space)
    all_ids = (["c_0"] + ids) if hetero else ids
    all_spaces = ([vspace] + [space] * 3) if hetero else [space] * 3
    if hetero:
        obs = dict([("c_0", vobs())] + list(obs.items()))
    for algo in algos:
        # "base": MultiAgentRLAlgorithm.preprocess_observation itself, bound to a real IPPO agent (cheaper to build
        # than MADDPG, which is used in the thorough tier)
        try:
            agent = ma_agent("ippo" if algo == "base" else algo, all_ids, all_spaces, normalize_images=norm)
        except Exception:
            continue
        func = "multiagent.preprocess_observation" if algo != "ippo" else "ippo.preprocess_observation"
        try:
            with warnings.catch_warnings():
                warnings.simplefilter("ignore")
                if algo == "base":
                    from agilerl.algorithms.core.base import MultiAgentRLAlgorithm

                    got = MultiAgentRLAlgorithm.preprocess_observation(agent, obs)
                else:
                    got = agent.preprocess_observation(obs)
        except Exception as ex:
            fail(func, 0, "raises", f"{type(ex).__name__}: {str(ex)[:160]}")
            continue
        if algo != "ippo":
            for i, a in enumerate(ids):
                mem = members_of(case, got.get(a)) if a in got else None
                if mem is None:
                    fail(func, 0, "container", f"agent {a} missing or wrong container: {_short(got)}")
                    break
                bad = [(j, cmp_tensor(g, sh, v, _scalar_box(case["subs"][j]))) for j, (g, (sh, v)) in enumerate(zip(mem, exp_for(i)))]
                bad = [b for b in bad if b[1]]
                if bad:
                    fail(func, bad[0][0], bad[0][1], f"agent {a}: got {_short(got[a])}")
                    break
        else:
            groups = {"a": [0, 2], "b": [1]}
            for g, members in groups.items():
                mem = members_of(case, got.get(g)) if g in got else None
                if mem is None:
                    fail(func, 0, "container", f"group {g} missing or wrong container: {_short(got)}")
                    break
                for j, gm in enumerate(mem):
                    want = np.concatenate([exp_for(i)[j][1] for i in members], axis=0)
                    f = cmp_tensor(gm, want.shape, want, _scalar_box(case["subs"][j]))
                    if f:
                        fail(func, j, "group-" + f, f"group {g}: got {_short(gm)}, expected rows (member, env) {want.reshape(-1).tolist()[:24]}")
                        break
    return fails


# ----------------------------------------------------------------------------- learn-path batches (IPPO)
def check_learn_batches(case: dict, idx: int) -> List[dict]:
    """IPPO's learn path on a homogeneous group of two agents: the real IPPO.learn is run on T steps of E
    environments whose observations are the case's (T, E) block (agent a_1 sees it time-reversed), and the tensor
    the shared actor receives in the (single) minibatch is observed with a forward pre-hook.  It must be a float
    tensor (2*T*E, *network input shape) whose rows are exactly the prepared single observations (as a multiset:
    the minibatch is shuffled; the row order relative to the advantages is C17's subject)."""
    import traceback

    from gymnasium import spaces

    fails = []
    if len(case["lead"]) != 2 or case["kind"] != "leaf" or case["lead"][0] < 2:
        return fails
    sub = case["subs"][0]
    T, E = case["lead"]
    dtype = pick_dtypes(case, idx, False)[0][0]
    space = make_leaf_space(sub, dtype if sub["k"] == "box" else None)
    norm = bool(case["norm"])
    block = leaf_array(sub, case["lead"], case["x"][0], dtype)              # (T, E, *nat)
    shape, exp = expected(case)[0]                                           # rows (t, e)
    ids = ["a_0", "a_1"]
    try:
        agent = ma_agent("ippo", ids, [space] * 2, normalize_images=norm, batch_size=1 << 20, update_epochs=1)
    except Exception:
        return fails                                                         # AgileRL cannot build IPPO for this space
    blocks = {"a_0": block, "a_1": block[::-1].copy()}
    want = np.concatenate([exp, exp], axis=0).astype(np.float64)             # multiset of rows
    want_shape = (2 * T * E,) + shape[1:]

    def fail(failure, what):
        nat = sub["shape"]
        cls = "last-extent-1" if nat and nat[-1] == 1 else "general"
        fails.append({"sig": f"learn_batches:{tag(sub)}:{cls}:{failure}",
                      "what": f"IPPO.learn on {describe(sub)} observations, 2 homogeneous agents x {T} steps x {E} envs: {what}",
                      "replay": {"check": "learn_batches", "idx": idx, "case": case}})

    def per_agent(fn):
        return {a: [fn(a, t) for t in range(T)] for a in ids}

    experiences = (
        per_agent(lambda a, t: blocks[a][t]),                                  # states
        per_agent(lambda a, t: np.zeros((E, 1), dtype=np.int64)),              # actions (Discrete(3))
        per_agent(lambda a, t: np.full((E, 1), -1.0, dtype=np.float32)),       # log-probs
        per_agent(lambda a, t: np.ones((E,), dtype=np.float32)),               # rewards
        per_agent(lambda a, t: np.zeros((E,), dtype=np.float32)),              # dones
        per_agent(lambda a, t: np.zeros((E, 1), dtype=np.float32)),            # values
        {a: blocks[a][T - 1] for a in ids},                                    # next states
        {a: np.zeros((E,), dtype=np.float32) for a in ids},                    # next dones
    )
    try:
        with warnings.catch_warnings(), observe_forward(agent.actors[0]) as ob:
            warnings.simplefilter("ignore")
            np.random.seed(idx)
            torch.manual_seed(idx)
            agent.learn(experiences)
    except Exception as ex:
        where = " <- ".join(f"{f.name}:{f.lineno}" for f in traceback.extract_tb(ex.__traceback__)[-3:][::-1])
        fail("raises", f"{type(ex).__name__}: {str(ex)[:160]} (at {where}); the network should have received shape {want_shape}")
        return fails
    seen = ob.inputs
    if not seen or not isinstance(seen[0], torch.Tensor):
        fail("shape", f"the shared actor received {type(seen[0]).__name__ if seen else 'nothing'}")
        return fails
    got = seen[0].detach().cpu()
    if tuple(got.shape) != want_shape or not got.is_floating_point():
        fail("shape", f"the shared actor received a tensor of shape {tuple(got.shape)}, expected {want_shape}")
        return fails
    g = got.numpy().astype(np.float64).reshape(want_shape[0], -1)
    w = want.reshape(want_shape[0], -1)
    if not np.array_equal(g[np.lexsort(g.T[::-1])], w[np.lexsort(w.T[::-1])]):
        fail("rows", f"rows are not the prepared observations (each once): {g.tolist()[:6]}")
    return fails


def check_vectorized_experiences(case: dict) -> List[dict]:
    """is_vectorized_experiences on what PPO.learn gives it: stacked observations (T, E, *nat) / (T, *nat)
    next to per-step scalars (T, E) / (T,).  Demanded where the stacked scalars decide ((T,E) -> True, (T,) -> False)."""
    from agilerl.utils import algo_utils as au

    fails = []
    if len(case["lead"]) != 2:
        return fails
    T, E = case["lead"]
    arrs = [torch.as_tensor(leaf_array(s, case["lead"], xs, "float32")) for s, xs in zip(case["subs"], case["x"])]
    if case["kind"] == "leaf":
        vec_obs, flat_obs = arrs[0], arrs[0][:, 0]
    elif case["kind"] == "dict":
        vec_obs = {KEYS[i]: a for i, a in enumerate(arrs)}
        flat_obs = {KEYS[i]: a[:, 0] for i, a in enumerate(arrs)}
    else:
        vec_obs, flat_obs = tuple(arrs), tuple(a[:, 0] for a in arrs)
    for name, obs, scal, want in (("vectorised", vec_obs, torch.zeros(T, E), True), ("unvectorised", flat_obs, torch.zeros(T), False)):
        try:
            got = bool(au.is_vectorized_experiences(obs, scal, scal))
            if got != want:
                fails.append({"sig": f"is_vectorized_experiences:{case['kind']}:{name}:value",
                              "what": f"is_vectorized_experiences({name} {space_descr(case)} block T={T},E={E}) = {got}",
                              "replay": {"check": "vec_exp", "case": case}})
        except Exception as ex:
            fails.append({"sig": f"is_vectorized_experiences:{case['kind']}:{name}:raises-{type(ex).__name__}",
                          "what": f"{type(ex).__name__}: {ex}", "replay": {"check": "vec_exp", "case": case}})
    return fails


# ----------------------------------------------------------------------------- consequence clause
def _rows_obs(case: dict, dtypes, rows: List[int], batched: bool):
    """Observation made of the given rows of the case (batched: leading dim len(rows); else a single one)."""
    arrs = []
    for s, xs, d in zip(case["subs"], case["x"], dtypes):
        a = np.array(xs, dtype=np.int64).reshape((case["rows"],) + tuple(s["shape"])).astype(np.dtype(d))
        arrs.append(a[rows] if batched else a[rows[0]])
    if case["kind"] == "leaf":
        return arrs[0]
    if case["kind"] == "dict":
        return {KEYS[i]: a for i, a in enumerate(arrs)}
    return tuple(arrs)


def check_consequence_dqn(case: dict, idx: int, default_config: bool = False, algo: str = "dqn") -> Tuple[List[dict], bool]:
    """The q-values / greedy action DQN reports (the value estimate PPO reports) for row r of the case do not depend
    on whether the observation is passed alone, as a batch of one, or inside batches with other companions / at
    other positions."""
    fails = []
    R = case["rows"]
    if R < 2 or len(case["lead"]) != 1:
        return fails, False
    dtypes = pick_dtypes(case, idx, False)[0]
    agent = dqn_for(case, dtypes, bool(case["norm"]), default_config, algo)
    if agent is None:
        return fails, False
    cfg = "default-config" if default_config else "tiny-net"
    tg = "+".join(sorted({tag(s) for s in case["subs"]}))

    def q_and_greedy(obs):
        with warnings.catch_warnings():
            warnings.simplefilter("ignore")
            if algo == "ppo":               # value estimates as get_action reports them; no greedy action
                v = np.asarray(agent.get_action(obs)[3], dtype=np.float64).reshape(-1, 1)
                return v, np.zeros(len(v), dtype=np.int64)
            # the q-values the agent computes while reporting its greedy action (observed, not recomputed)
            with observe_forward(agent.actor) as ob:
                act = np.asarray(agent.get_action(obs, epsilon=0.0)).reshape(-1)
            q = ob.outputs[-1].detach().numpy().astype(np.float64)
            q = q.reshape(len(act), -1)
        return q, act

    def fail(failure, what):
        fails.append({"sig": f"consequence:{algo}:{cfg}:{case['kind']}:{tg}:{failure}",
                      "what": f"{algo.upper()} ({cfg}) on {space_descr(case)}: {what}",
                      "replay": {"check": "consequence", "algo": algo, "default_config": default_config, "idx": idx, "case": case}})

    ref = {}
    try:
        for r in range(R):
            ref[r] = q_and_greedy(_rows_obs(case, dtypes, [r], batched=False))      # alone, unbatched
    except Exception:
        AGENT_STATS["unrunnable"] = AGENT_STATS.get("unrunnable", 0) + 1
        return fails, False             # the network cannot even evaluate a single observation: not this property
    try:
        if all(np.max(np.abs(ref[r][0] - ref[0][0])) <= 100 * TOL for r in range(1, R)):
            return fails, False            # network output insensitive to these observations: says nothing
        compositions = [[r] for r in range(R)]                                       # batch of one
        compositions += [list(range(R)), list(range(R))[::-1]]                       # whole batch, reversed
        compositions += [[r, (r + 1) % R] for r in range(R)] + [[(r + 1) % R, r, r] for r in range(R)]
        for comp in compositions:
            q, act = q_and_greedy(_rows_obs(case, dtypes, comp, batched=True))
            if q.shape[0] != len(comp) or act.shape[0] != len(comp):
                fail("shape", f"batch {comp} gave q shape {q.shape}, actions {act.shape}")
                return fails, True
            for pos, r in enumerate(comp):
                q0, a0 = ref[r]
                dq = float(np.max(np.abs(q[pos] - q0[0])))
                if dq > TOL:
                    fail("q-values-depend-on-batch" if algo == "dqn" else "value-depends-on-batch",
                         f"observation row {r} alone q={q0[0].tolist()} but inside batch {comp} "
                                                    f"(position {pos}) q={q[pos].tolist()} (max diff {dq:.3g})")
                    return fails, True
                srt = np.sort(q0[0])
                if len(srt) > 1 and srt[-1] - srt[-2] > 10 * TOL and int(act[pos]) != int(a0[0]):
                    fail("greedy-depends-on-batch", f"observation row {r} alone -> action {int(a0[0])}, inside batch {comp} -> {int(act[pos])}")
                    return fails, True
        # a Dict observation lists its members in any key order (a dictionary is keyed by name)
        if case["kind"] == "dict" and len(case["subs"]) > 1:
            whole = _rows_obs(case, dtypes, list(range(R)), batched=True)
            if isinstance(whole, dict):
                q_a, _ = q_and_greedy(whole)
                q_b, _ = q_and_greedy({k: whole[k] for k in reversed(list(whole))})
                dq = float(np.max(np.abs(q_a - q_b)))
                if dq > TOL:
                    fail("depends-on-key-order", f"the same Dict observation with its keys listed in reverse order gives other values (max diff {dq:.3g})")
                    return fails, True
    except Exception as ex:
        fail("batch-raises", f"single observations are evaluated, but a batch raises {type(ex).__name__}: {str(ex)[:200]}")
    return fails, True


def check_consequence_ma(seed: int, spaces_kind: str = "vector") -> Tuple[List[dict], int]:
    """Multi-agent entry points: the action (MADDPG/MATD3, training=False) and the value estimate (IPPO) reported
    for agent a in environment e depend only on a's observation in e -- not on the number of environments in the
    call, on the other agents' observations, or on the order in which the observation dict lists the agents."""
    from gymnasium import spaces

    fails = []
    n = 0
    rng = np.random.RandomState(seed)
    ids = ["a_0", "b_0", "a_1"]
    if spaces_kind == "vector":
        sp = spaces.Box(0, 4, (3,))
    elif spaces_kind == "discrete":
        sp = spaces.Discrete(3)
    else:
        sp = spaces.Box(0, 4, (1, 3, 3))
    E = 3

    def sample(shape_lead):
        if isinstance(sp, spaces.Discrete):
            return rng.randint(0, sp.n, size=shape_lead).astype(np.int64)
        return rng.randint(0, 5, size=tuple(shape_lead) + sp.shape).astype(np.float32)

    obs = {a: sample((E,)) for a in ids}

    def fail(algo, failure, what):
        fails.append({"sig": f"consequence:{algo}:{spaces_kind}:{failure}", "what": f"{algo} get_action with agents {ids}, obs {sp}: {what}",
                      "replay": {"check": "consequence_ma", "seed": seed, "spaces_kind": spaces_kind, "ids": ids, "space": repr(sp),
                                 "obs": {a: v.tolist() for a, v in obs.items()}}})

    # "image-bn": CNN encoders built with layer_norm=True contain BatchNorm layers; the greedy action (training=False) of MADDPG / MATD3
    # must still depend on the agent's own frame only (IPPO acts in training mode: known finding F-C15-5, not run here)
    bn_cfg = {"encoder_config": dict(NET_CNN, layer_norm=True), "head_config": dict(HEAD)} if spaces_kind == "image-bn" else None
    for algo in (("maddpg", "matd3") if bn_cfg else ("maddpg", "matd3", "ippo")):
        try:
            # continuous actions for the deterministic-policy algorithms (their discrete heads sample Gumbel noise)
            acts = None if algo == "ippo" else [spaces.Box(-1, 1, (2,)) for _ in ids]
            agent = ma_agent(algo, ids, [sp] * 3, acts, net_config=bn_cfg)
        except Exception as ex:
            raise RuntimeError(f"harness: cannot build {algo} for {spaces_kind} observations: {ex}") from ex

        def report(o):
            with warnings.catch_warnings():
                warnings.simplefilter("ignore")
                if algo == "ippo":
                    torch.manual_seed(0)
                    r = agent.get_action(o)
                    return {a: np.asarray(r[3][a], dtype=np.float64).reshape(-1) for a in ids}     # value estimates
                r = agent.get_action(o, training=False)
                return {a: np.asarray(r[0][a], dtype=np.float64).reshape(len(np.asarray(r[0][a])), -1) for a in ids}

        try:
            ref = report(obs)
            n += 1
            allv = np.concatenate([ref[a].reshape(-1) for a in ("a_0", "a_1")])
            if np.ptp(allv) <= 100 * TOL:           # the shared network maps every observation to the same report
                INSENSITIVE.append(f"{algo}:{spaces_kind}")
                continue
            # (1) the order of the agents in the observation dict
            for perm in (["a_1", "b_0", "a_0"], ["b_0", "a_0", "a_1"]):
                got = report({a: obs[a] for a in perm})
                n += 1
                bad = [a for a in ids if got[a].shape != ref[a].shape or np.max(np.abs(got[a] - ref[a])) > TOL]
                if bad:
                    fail(algo, "depends-on-dict-order",
                         f"observation dict listed as {perm} instead of {ids}: report for {bad} changed "
                         f"(e.g. {bad[0]}: {ref[bad[0]].reshape(-1)[:3].tolist()} -> {got[bad[0]].reshape(-1)[:3].tolist()})")
                    break
            # (2) one environment at a time (vectorised batch-of-one and unbatched)
            for e in range(E):
                for name, o in (("batch1", {a: obs[a][e:e + 1] for a in ids}), ("single", {a: obs[a][e] for a in ids})):
                    got = report(o)
                    n += 1
                    bad = [a for a in ids if np.max(np.abs(got[a].reshape(-1) - ref[a][e].reshape(-1))) > TOL]
                    if bad:
                        fail(algo, f"depends-on-envs:{name}", f"env {e} alone ({name}) vs inside {E} envs differs for {bad}")
                        break
            # (3) the other agents' observations
            o2 = dict(obs)
            o2["b_0"] = sample((E,))
            o2["a_1"] = sample((E,))
            got = report(o2)
            n += 1
            if np.max(np.abs(got["a_0"] - ref["a_0"])) > TOL:
                fail(algo, "depends-on-other-agents", "a_0's report changed when only b_0's and a_1's observations changed")
            # (4) permuting the environments permutes the reports
            perm = [2, 0, 1]
            got = report({a: obs[a][perm] for a in ids})
            n += 1
            bad = [a for a in ids if np.max(np.abs(got[a] - ref[a][perm])) > TOL]
            if bad:
                fail(algo, "depends-on-env-order", f"permuting environments {perm} does not permute the reports of {bad}")
        except Exception as ex:
            fail(algo, "raises", f"{type(ex).__name__}: {str(ex)[:200]}")
    return fails, n


def check_key_order(seed: int) -> Tuple[List[dict], int]:
    """A Dict observation is keyed by name: the values DQN / the critic of PPO report must not depend on the order in which the
    dictionary lists its members (two image members, two vector members; with and without the vector MLP)."""
    from gymnasium import spaces

    fails, n = [], 0
    sp = spaces.Dict({"a": spaces.Box(0, 1, (3, 8, 8), np.float32), "b": spaces.Box(0, 1, (3, 8, 8), np.float32),
                      "v": spaces.Box(-1, 1, (2,), np.float32), "w": spaces.Discrete(3)})
    rng = np.random.RandomState(seed)
    obs = {"a": rng.rand(3, 3, 8, 8).astype(np.float32), "b": rng.rand(3, 3, 8, 8).astype(np.float32),
           "v": rng.uniform(-1, 1, (3, 2)).astype(np.float32), "w": rng.randint(0, 3, (3,))}
    orders = [["a", "b", "v", "w"], ["w", "b", "v", "a"], ["b", "a", "w", "v"], ["v", "w", "b", "a"]]
    for algo in ("dqn", "ppo"):
        for vsm in (False, True):
            torch.manual_seed(seed + 17)
            nc = {"encoder_config": {"latent_dim": 8, "vector_space_mlp": vsm, "cnn_config": {"channel_size": [4], "kernel_size": [3], "stride_size": [1]}},
                  "head_config": {"hidden_size": [8]}}
            try:
                with warnings.catch_warnings():
                    warnings.simplefilter("ignore")
                    if algo == "dqn":
                        from agilerl.algorithms.dqn import DQN
                        ag = DQN(sp, spaces.Discrete(3), net_config=nc)
                    else:
                        from agilerl.algorithms.ppo import PPO
                        ag = PPO(sp, spaces.Discrete(3), net_config=nc, share_encoders=False)
                ag.set_training_mode(False)
            except Exception:                                    # noqa: BLE001
                AGENT_STATS["unbuildable"] += 1
                continue

            def val(o):
                with torch.no_grad(), warnings.catch_warnings():
                    warnings.simplefilter("ignore")
                    net = ag.actor if algo == "dqn" else ag.critic
                    return net(ag.preprocess_observation(o)).detach().numpy().astype(np.float64)
            ref = val({k: obs[k] for k in orders[0]})
            for od in orders[1:]:
                n += 1
                got = val({k: obs[k] for k in od})
                dq = float(np.max(np.abs(got - ref)))
                if dq > TOL:
                    fails.append({"sig": f"consequence:{algo}:key-order:dict:{'vector-mlp' if vsm else 'plain'}:depends-on-key-order",
                                  "what": f"{algo.upper()} on Dict(a: image, b: image, v: Box(2), w: Discrete(3)): the same observation with its keys listed as {od} "
                                          f"instead of {orders[0]} gives other values (max diff {dq:.3g})",
                                  "replay": {"check": "key_order", "seed": seed}})
                    break
    return fails, n


def check_consequence_big_group(seed: int, n_agents: int = 12) -> Tuple[List[dict], int]:
    """IPPO with a large homogeneous group (agent ids a_0 .. a_11, whose lexicographic order differs from their
    numeric order): the value estimate reported for agent a must be the one of a's own observation, i.e. equal
    to what the same call reports when every agent carries a's observation."""
    from gymnasium import spaces

    fails, n = [], 0
    rng = np.random.RandomState(seed + 77)
    ids = [f"a_{k}" for k in range(n_agents)]
    sp = spaces.Box(0, 4, (3,))
    E = 2
    obs = {a: rng.randint(0, 5, size=(E, 3)).astype(np.float32) for a in ids}
    try:
        agent = ma_agent("ippo", ids, [sp] * n_agents, None)
    except Exception as ex:
        raise RuntimeError(f"harness: cannot build ippo with {n_agents} agents: {ex}") from ex

    def report(o):
        with warnings.catch_warnings():
            warnings.simplefilter("ignore")
            torch.manual_seed(0)
            r = agent.get_action(o)
            return {a: np.asarray(r[3][a], dtype=np.float64).reshape(-1) for a in ids}
    try:
        full = report(obs)
        n += 1
        allv = np.concatenate([full[a] for a in ids])
        if np.ptp(allv) <= 100 * TOL:
            INSENSITIVE.append("ippo:big-group")
            return fails, n
        bad = []
        for a in ids:
            ref = report({b: obs[a] for b in ids})
            n += 1
            if np.max(np.abs(full[a] - ref[a])) > TOL:
                bad.append(a)
        if bad:
            fails.append({"sig": "consequence:ippo:vector:big-group:depends-on-other-agents",
                          "what": f"IPPO with {n_agents} homogeneous agents: value estimates of {bad[:4]}... are not those of their own observations",
                          "replay": {"check": "consequence_big_group", "seed": seed, "n_agents": n_agents}})
    except Exception as ex:
        fails.append({"sig": "consequence:ippo:vector:big-group:raises", "what": f"{type(ex).__name__}: {str(ex)[:200]}",
                      "replay": {"check": "consequence_big_group", "seed": seed, "n_agents": n_agents}})
    return fails, n
